import Abasic.Ref.Stmt2
import Abasic.Ref.Expr2
/-
  Spec side of C03, third layer: ONE reference semantics for the whole statement
  language (INPUT apart), over the FULL expression language of Ref/Expr2.lean.

  * `RStmt3`      — LET, PRINT, GOTO, END, IF … THEN … [ELSE …], FOR / NEXT,
                    GOSUB / RETURN, READ / DATA / RESTORE, DIM, assignment to an
                    array cell and DEF FN.  Every expression is an `Expr2`
                    (array cells, RND, calls of user functions).  The branches of
                    an IF are statements of the same type (any statement may
                    follow THEN / ELSE) or a bare line number (`lineS`).
  * `renderS3`    — the tokens of a statement.
  * `RState3`     — the reference state: `RState2` plus the function table
                    (`fns`, with the line of each definition in `fnLines`) and the
                    state of the random number generator (`rng`).
  * `RStmt3.exec` — one reference step of a statement standing at `(line, index)`.
                    Every expression is evaluated with `fold2` in the environment
                    `RState3.env`; the arrays and the generator state it leaves
                    behind are threaded from one expression to the next.

  What a reader has to check, beyond Ref/Stmt.lean and Ref/Stmt2.lean:

  environment  the frames of `RState3.env` are one empty frame per open GOSUB:
               calls of user functions and GOSUBs share ONE stack of 32 entries
               (OUT OF MEMORY beyond), as in the interpreter.
  evaluation   left to right; what an expression does to the arrays (a read of
               an undeclared array creates it) and to the generator (RND) is
               visible to the expressions after it and stays.  When a statement
               fails, the run ends: the reference state of a failed step is not
               observable.
  DEF          `DEF f(p₁, …) = body` records parameters and body under the name
               `f` (replacing an older definition) and the number of the line it
               stands on; the body is not evaluated.
  IF           the condition first, then the chosen branch in the state the
               condition left; `THEN 100` / `ELSE 100` are GOTOs.  A false
               condition without ELSE abandons the rest of the line; a THEN
               branch in front of an ELSE that ran to its end abandons the rest
               of the line (`closeLine3`).
  DIM a(e…)    the subscripts first (this may create `a` itself: REDIM'D ARRAY).
  LET a(e…)=e  subscripts, then `e`, then the store (`storeCell`).
  READ t₁, …   a non-empty list of targets (`RTarget`), each a scalar name or an
               array cell `name(e₁, …, eₖ)`.  The targets in order
               (`readTargetsSpec`); for a cell: the subscripts are evaluated
               FIRST (left to right — this may call functions, draw random
               numbers, create arrays that are read), THEN the next DATA item
               is consumed (OUT OF DATA when there is none — the subscripts have
               been evaluated by then), coerced to the kind of the target's
               NAME (DATA TYPE MISMATCH is reported on the line of the DATA
               statement; the item stays consumed) and stored as `LET a(e…) = v`
               stores it (`storeCell`: auto-dimension, BAD SUBSCRIPT).  The
               first failure ends the statement.  `READ x, y$` of the earlier
               layers is `readS [.scalar x, .scalar y$]`.
-/
namespace Abasic.Ref
open Abasic

/-- one element of a PRINT list -/
inductive PItem3 (F : Type) where
  | expr (e : Expr2 F)
  | semi
  | comma

/-- a target of READ: a scalar variable or an array cell -/
inductive RTarget (F : Type) where
  | scalar (name : Str)
  | cell (name : Str) (idx : List (Expr2 F))

inductive RStmt3 (F : Type) where
  | letS (name : Str) (e : Expr2 F)
  | printS (items : List (PItem3 F))
  | gotoS (n : Nat)
  | endS
  | ifS (c : Expr2 F) (thenS : RStmt3 F) (elseS : Option (RStmt3 F))
  /-- a bare line number: `THEN 100`, `ELSE 100` (only as the branch of an IF) -/
  | lineS (n : Nat)
  | forS (v : Str) (lo hi : Expr2 F) (step : Option (Expr2 F))
  | nextS (v : Str)
  | gosubS (n : Nat)
  | returnS
  /-- `READ t₁, …, tₖ`: scalars and array cells in any mixture -/
  | readS (targets : List (RTarget F))
  | dataS (items : List (DataElement F))
  | restoreS
  | dimS (name : Str) (dims : List (Expr2 F))
  | letCellS (name : Str) (idx : List (Expr2 F)) (e : Expr2 F)
  /-- `DEF fname(params) = body` -/
  | defS (fname : Str) (params : List Str) (body : Expr2 F)

/-- the reference state -/
structure RState3 (F : Type) where
  vars : List (Str × Value F) := []
  /-- name ↦ dimensions and cells -/
  arrays : List (Str × ArrayV F) := []
  /-- open loops, most recent first -/
  loops : List (RLoop F) := []
  /-- return addresses (line, index of the statement after the GOSUB), most recent first -/
  rets : List (Nat × Nat) := []
  /-- index of the next DATA item in the list of all DATA items of the program -/
  data : Nat := 0
  /-- the PRINT records so far, oldest first -/
  out : List Str := []
  /-- (line number, statement index); `none`: the program has ended -/
  pc : Option (Nat × Nat) := none
  /-- the user functions defined so far -/
  fns : List (Str × FnDefSpec F) := []
  /-- the line each of them was defined on -/
  fnLines : List (Str × Nat) := []
  /-- generator state -/
  rng : Nat := 0

variable {F : Type} [NumOps F]

/-! ### rendering -/

def PItem3.render : PItem3 F → List (Token F)
  | .expr e => render2 e
  | .semi => [.kw .Semicolon]
  | .comma => [.kw .Comma]

def renderItems3 : List (PItem3 F) → List (Token F)
  | [] => []
  | i :: rest => i.render ++ renderItems3 rest

/-- the tokens of a cell target: `name ( e₁ , … )` -/
def cellToks (name : Str) (idx : List (Expr2 F)) : List (Token F) :=
  .symbol name :: .kw .LeftParen :: (renderArgs idx ++ [.kw .RightParen])

def RTarget.toks : RTarget F → List (Token F)
  | .scalar x => [.symbol x]
  | .cell name idx => cellToks name idx

/-- the targets of a READ, separated by commas -/
def renderRTargets : List (RTarget F) → List (Token F)
  | [] => []
  | [t] => t.toks
  | t :: t' :: rest => t.toks ++ .kw .Comma :: renderRTargets (t' :: rest)

/-- the scalar-only READ of the earlier layers -/
def scalarTargets (xs : List Str) : List (RTarget F) := xs.map .scalar

def renderS3 : RStmt3 F → List (Token F)
  | .letS x e => .kw .Let :: .symbol x :: .kw .Equals :: render2 e
  | .printS items => .kw .Print :: renderItems3 items
  | .gotoS n => [.kw .Goto, .num (NumOps.ofNat n)]
  | .endS => [.kw .End]
  | .ifS c t none => .kw .If :: (render2 c ++ .kw .Then :: renderS3 t)
  | .ifS c t (some e) => .kw .If :: (render2 c ++ .kw .Then :: (renderS3 t ++ .kw .Else :: renderS3 e))
  | .lineS n => [.num (NumOps.ofNat n)]
  | .forS v a b none => .kw .For :: .symbol v :: .kw .Equals :: (render2 a ++ .kw .To :: render2 b)
  | .forS v a b (some c) =>
    .kw .For :: .symbol v :: .kw .Equals :: (render2 a ++ .kw .To :: (render2 b ++ .kw .Step :: render2 c))
  | .nextS v => [.kw .Next, .symbol v]
  | .gosubS n => [.kw .Gosub, .num (NumOps.ofNat n)]
  | .returnS => [.kw .Return]
  | .readS ts => .kw .Read :: renderRTargets ts
  | .dataS items => [.data items]
  | .restoreS => [.kw .Restore]
  | .dimS name dims => .kw .Dim :: .symbol name :: .kw .LeftParen :: (renderArgs dims ++ [.kw .RightParen])
  | .letCellS name idx e =>
    .kw .Let :: .symbol name :: .kw .LeftParen :: (renderArgs idx ++ .kw .RightParen :: .kw .Equals :: render2 e)
  | .defS f ps body =>
    .kw .Def :: .symbol f :: .kw .LeftParen :: (renderTargets ps ++ .kw .RightParen :: .kw .Equals :: render2 body)

/-! ### evaluating expressions in a reference state -/

/-- the fuel of `fold2`: one more than the stack cap always suffices (`fold2_fuel_ok`) -/
def callFuel : Nat := Extracted.stackLimit + 1

/-- what an expression can read: globals, one (empty) frame per open GOSUB,
    arrays, generator state, function table -/
def RState3.env (r : RState3 F) : RefEnv F :=
  { vars := r.vars, frames := r.rets.map fun _ => [], arrays := r.arrays, rng := r.rng, fns := r.fns }

/-- what an evaluation leaves behind: arrays and generator state -/
def RState3.put (r : RState3 F) (env : RefEnv F) : RState3 F :=
  { r with arrays := env.arrays, rng := env.rng }

/-- the value of an expression and the state after it -/
def evalE (r : RState3 F) (e : Expr2 F) : Except Err (Value F × RState3 F) :=
  match fold2 callFuel r.env e with
  | .error err => .error err
  | .ok (v, env) => .ok (v, r.put env)

/-- the value of an expression that has to be a number -/
def numE3 (r : RState3 F) (e : Expr2 F) : Except Err (F × RState3 F) :=
  match evalE r e with
  | .error err => .error err
  | .ok (.str _, _) => .error .typeMismatch
  | .ok (.num x, r1) => .ok (x, r1)

/-- the step of a FOR: 1 unless given -/
def stepE3 (r : RState3 F) : Option (Expr2 F) → Except Err (F × RState3 F)
  | none => .ok (NumOps.one, r)
  | some c => numE3 r c

/-- subscripts (`foldIdx`: numbers, truncated, not negative; left to right; at least one) -/
def evalIdx (r : RState3 F) (idx : List (Expr2 F)) : Except Err (List Nat × RState3 F) :=
  match foldIdx callFuel r.env idx with
  | .error err => .error err
  | .ok (is, env) => .ok (is, r.put env)

/-- the text of a PRINT list: `suppress` = the last item was a `;` -/
def printText3 (r : RState3 F) : List (PItem3 F) → Bool → Str → Except Err (Str × RState3 F)
  | [], suppress, acc => .ok (if suppress then acc else acc ++ ['\n'], r)
  | .semi :: rest, _, acc => printText3 r rest true acc
  | .comma :: rest, _, acc => printText3 r rest false (acc ++ ['\t'])
  | .expr e :: rest, _, acc =>
    match evalE r e with
    | .ok (v, r1) => printText3 r1 rest false (acc ++ valueText v)
    | .error err => .error err

/-! ### meaning -/

/-- a THEN branch in front of an ELSE: having run to completion, it abandons the rest of the line -/
def closeLine3 (x : RState3 F × Ctl2) : RState3 F × Ctl2 :=
  match x.2 with
  | .next => (x.1, .skipLine)
  | _ => x

/-- the last part of the reference step of FOR (see Ref/Stmt2.lean) -/
def forPush3 (n j : Nat) (r : RState3 F) (v : Str) (x y z : F) : RState3 F × Ctl2 :=
  if (keptLoops v r.loops).length == Extracted.stackLimit then (r, .error .oomStack)
  else if endsWithDollar v then (r, .error .typeMismatch)
  else
    ({ r with vars := alSet v (.num x) r.vars,
              loops := { var := v, line := n, idx := j + 1, limit := y, step := z } :: keptLoops v r.loops },
     .next)

/-- storing `v` into `name(index)`: the kind of the value must match the name; an
    array that does not exist is created with 11 cells per dimension -/
def storeCell (name : Str) (index : List Nat) (v : Value F) (arrays : List (Str × ArrayV F)) :
    Except Err (List (Str × ArrayV F)) :=
  if !v.matchesName name then .error .typeMismatch
  else
    match ensureArr name index.length arrays with
    | .error e => .error e
    | .ok a =>
      match cellSet a index v with
      | .error e => .error e
      | .ok a' => .ok (alSet name a' arrays)

/-! ### READ -/

/-- a scalar target (as `readAll` of Ref/Stmt2.lean does it): the next item,
    coerced to the kind of the name -/
def readScalarSpec (items : List (Nat × DataElement F)) (r : RState3 F) (name : Str) : RState3 F × Ctl2 :=
  match items[r.data]? with
  | none => (r, .error .outOfData)
  | some (ln, d) =>
    match Value.coerceFromData name d with
    | .error e => ({ r with data := r.data + 1 }, .errorAt e ln)
    | .ok v => ({ r with data := r.data + 1, vars := alSet name v r.vars }, .next)

/-- `READ name(idx…)`: one cell target — subscripts, then the item, the coercion
    by the name, the store of LET -/
def readCellSpec (items : List (Nat × DataElement F)) (r : RState3 F) (name : Str) (idx : List (Expr2 F)) :
    RState3 F × Ctl2 :=
  match evalIdx r idx with
  | .error err => (r, .error err)
  | .ok (index, r1) =>
    match items[r1.data]? with
    | none => (r1, .error .outOfData)
    | some (ln, d) =>
      match Value.coerceFromData name d with
      | .error e => ({ r1 with data := r1.data + 1 }, .errorAt e ln)
      | .ok v =>
        match storeCell name index v r1.arrays with
        | .error err => ({ r1 with data := r1.data + 1 }, .error err)
        | .ok arrs => ({ r1 with data := r1.data + 1, arrays := arrs }, .next)

def readTargetSpec (items : List (Nat × DataElement F)) (r : RState3 F) : RTarget F → RState3 F × Ctl2
  | .scalar x => readScalarSpec items r x
  | .cell name idx => readCellSpec items r name idx

/-- the targets in order; the first failure ends the statement -/
def readTargetsSpec (items : List (Nat × DataElement F)) : RState3 F → List (RTarget F) → RState3 F × Ctl2
  | r, [] => (r, .next)
  | r, t :: rest =>
    match readTargetSpec items r t with
    | (r', .next) => readTargetsSpec items r' rest
    | x => x

/-- One reference step of the statement at `(n, j)` (for the branch of an IF: of
    the IF at `(n, j)`).  `items`: all DATA items of the program in program order,
    each with the number of its line. -/
def RStmt3.exec (items : List (Nat × DataElement F)) (n j : Nat) : RState3 F → RStmt3 F → RState3 F × Ctl2
  | r, .letS x e =>
    match evalE r e with
    | .error err => (r, .error err)
    | .ok (v, r1) =>
      if v.matchesName x then ({ r1 with vars := alSet x v r1.vars }, .next)
      else (r1, .error .typeMismatch)
  | r, .printS items' =>
    match printText3 r items' false [] with
    | .error err => (r, .error err)
    | .ok (text, r1) => ({ r1 with out := r1.out ++ [text] }, .next)
  | r, .gotoS m => (r, .jump m)
  | r, .lineS m => (r, .jump m)
  | r, .endS => (r, .stop)
  | r, .ifS c t none =>
    match evalE r c with
    | .error err => (r, .error err)
    | .ok (v, r1) => if v.toBool then RStmt3.exec items n j r1 t else (r1, .skipLine)
  | r, .ifS c t (some e) =>
    match evalE r c with
    | .error err => (r, .error err)
    | .ok (v, r1) => if v.toBool then closeLine3 (RStmt3.exec items n j r1 t) else RStmt3.exec items n j r1 e
  | r, .forS v a b c =>
    match numE3 r a with
    | .error err => (r, .error err)
    | .ok (x, r1) =>
      match numE3 r1 b with
      | .error err => (r, .error err)
      | .ok (y, r2) =>
        match stepE3 r2 c with
        | .error err => (r, .error err)
        | .ok (z, r3) => forPush3 n j r3 v x y z
  | r, .nextS v =>
    match envOf r.vars v with
    | .str _ => (r, .error .typeMismatch)
    | .num cur =>
      match findLoop v r.loops with
      | none => (r, .error .nextWithoutFor)
      | some (l, rest) =>
        let nv := NumOps.add cur l.step
        let again := if NumOps.ge l.step NumOps.zero then NumOps.le nv l.limit else NumOps.ge nv l.limit
        if again then ({ r with vars := alSet v (.num nv) r.vars, loops := l :: rest }, .resume l.line l.idx)
        else ({ r with vars := alSet v (.num nv) r.vars, loops := rest }, .next)
  | r, .gosubS m =>
    if r.rets.length == Extracted.stackLimit then (r, .error .oomStack)
    else ({ r with rets := (n, j + 1) :: r.rets }, .jump m)
  | r, .returnS =>
    match r.rets with
    | [] => (r, .error .returnWithoutGosub)
    | (ln, k) :: rest => ({ r with rets := rest }, .resume ln k)
  | r, .readS ts => readTargetsSpec items r ts
  | r, .dataS _ => (r, .next)
  | r, .restoreS => ({ r with data := 0 }, .next)
  | r, .dimS name dims =>
    match evalIdx r dims with
    | .error err => (r, .error err)
    | .ok (index, r1) =>
      if alHas name r1.arrays then (r1, .error .redimensionedArray)
      else
        match ArrayV.create (F := F) name index with
        | .error err => (r1, .error err)
        | .ok a => ({ r1 with arrays := alSet name a r1.arrays }, .next)
  | r, .letCellS name idx e =>
    match evalIdx r idx with
    | .error err => (r, .error err)
    | .ok (index, r1) =>
      match evalE r1 e with
      | .error err => (r, .error err)
      | .ok (v, r2) =>
        match storeCell name index v r2.arrays with
        | .error err => (r2, .error err)
        | .ok arrs => ({ r2 with arrays := arrs }, .next)
  | r, .defS f ps body =>
    ({ r with fns := alSet f { params := ps, body := body } r.fns, fnLines := alSet f n r.fnLines }, .next)

/-! ### the statements covered by the refinement theorems -/

/-- not an IF -/
def RStmt3.simple : RStmt3 F → Bool
  | .ifS _ _ _ => false
  | _ => true

/-- no ELSE anywhere in the rendering -/
def RStmt3.elseFree : RStmt3 F → Bool
  | .ifS _ t none => RStmt3.elseFree t
  | .ifS _ _ (some _) => false
  | _ => true

/-- may stand in front of an ELSE: not an IF (the dangling ELSE), and not a
    statement that is resumed behind itself or that skips to the next colon
    (GOSUB, FOR: the RETURN / NEXT would land on the ELSE, a syntax error; DEF:
    the definition swallows the ELSE branch) -/
def RStmt3.closes : RStmt3 F → Bool
  | .ifS _ _ _ => false
  | .gosubS _ => false
  | .forS _ _ _ _ => false
  | .defS _ _ _ => false
  | _ => true

def RStmt3.isLine : RStmt3 F → Bool
  | .lineS _ => true
  | _ => false

/-- no two expressions of a PRINT list stand next to each other -/
def separated3 : List (PItem3 F) → Bool
  | .expr _ :: .expr _ :: _ => false
  | _ :: rest => separated3 rest
  | [] => true

/-- a statement in branch position (after THEN / ELSE): PRINT lists are
    separated; the targets of GOTO / GOSUB / THEN n survive the trip through the
    number carrier; READ and DEF have at least one target / parameter; under IF
    without ELSE the THEN branch contains no ELSE; a THEN branch in front of an
    ELSE `closes`. -/
def RStmt3.CoveredB : RStmt3 F → Prop
  | .printS items => separated3 items = true
  | .gotoS n => NumOps.toU64 (NumOps.ofNat n : F) = n
  | .lineS n => NumOps.toU64 (NumOps.ofNat n : F) = n
  | .gosubS n => NumOps.toU64 (NumOps.ofNat n : F) = n
  | .readS ts => ts ≠ []
  | .defS _ ps _ => ps ≠ []
  | .ifS _ t none => RStmt3.elseFree t = true ∧ RStmt3.CoveredB t
  | .ifS _ t (some e) => RStmt3.closes t = true ∧ RStmt3.CoveredB t ∧ RStmt3.CoveredB e
  | _ => True

/-- a statement of a line: as in branch position, and not a bare line number -/
def RStmt3.Covered (s : RStmt3 F) : Prop := s.isLine = false ∧ s.CoveredB

/-! ### side conditions on names and nesting (relative to a function table) -/

/-- nesting levels / fuel an expression needs -/
def edepth (fns : List (Str × FnDefSpec F)) (e : Expr2 F) : Nat := depth2 fns callFuel e + 1

def itemsDepth3 (fns : List (Str × FnDefSpec F)) : List (PItem3 F) → Nat
  | [] => 0
  | .expr e :: rest => max (edepth fns e) (itemsDepth3 fns rest)
  | _ :: rest => itemsDepth3 fns rest

/-- nesting levels / fuel the subscripts of a READ target need -/
def RTarget.depth (fns : List (Str × FnDefSpec F)) : RTarget F → Nat
  | .scalar _ => 0
  | .cell _ idx => depthArgs fns callFuel idx

def targetsDepth (fns : List (Str × FnDefSpec F)) : List (RTarget F) → Nat
  | [] => 0
  | t :: rest => max (t.depth fns) (targetsDepth fns rest)

/-- nesting levels / recursion fuel a statement needs -/
def sdepth3 (fns : List (Str × FnDefSpec F)) : RStmt3 F → Nat
  | .letS _ e => edepth fns e
  | .printS items => itemsDepth3 fns items
  | .ifS c t none => max (edepth fns c) (sdepth3 fns t + 1)
  | .ifS c t (some e) => max (edepth fns c) (max (sdepth3 fns t + 1) (sdepth3 fns e + 1))
  | .forS _ a b none => max (edepth fns a) (edepth fns b)
  | .forS _ a b (some c) => max (edepth fns a) (max (edepth fns b) (edepth fns c))
  | .dimS _ dims => depthArgs fns callFuel dims
  | .letCellS _ idx e => max (depthArgs fns callFuel idx) (edepth fns e)
  | .readS ts => targetsDepth fns ts
  | _ => 0

def ResolvedItems (fns : List (Str × FnDefSpec F)) : List (PItem3 F) → Prop
  | [] => True
  | .expr e :: rest => Resolved fns e ∧ ResolvedItems fns rest
  | _ :: rest => ResolvedItems fns rest

/-- the subscripts of a READ target are `Resolved` -/
def RTarget.Resolved (fns : List (Str × FnDefSpec F)) : RTarget F → Prop
  | .scalar _ => True
  | .cell _ idx => ResolvedL fns idx

def ResolvedTargets (fns : List (Str × FnDefSpec F)) : List (RTarget F) → Prop
  | [] => True
  | t :: rest => t.Resolved fns ∧ ResolvedTargets fns rest

/-- every expression the statement evaluates is `Resolved` (Ref/Expr2.lean) -/
def ResolvedS (fns : List (Str × FnDefSpec F)) : RStmt3 F → Prop
  | .letS _ e => Resolved fns e
  | .printS items => ResolvedItems fns items
  | .ifS c t none => Resolved fns c ∧ ResolvedS fns t
  | .ifS c t (some e) => Resolved fns c ∧ ResolvedS fns t ∧ ResolvedS fns e
  | .forS _ a b none => Resolved fns a ∧ Resolved fns b
  | .forS _ a b (some c) => Resolved fns a ∧ Resolved fns b ∧ Resolved fns c
  | .dimS _ dims => ResolvedL fns dims
  | .letCellS _ idx e => ResolvedL fns idx ∧ Resolved fns e
  | .readS ts => ResolvedTargets fns ts
  | _ => True

end Abasic.Ref
