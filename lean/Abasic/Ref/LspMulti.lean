import Abasic.Ref.Lsp
/-
  Specification: the language server's main loop (abasic-lsp/src/main.rs, `main_loop`)
  over ALL documents: `files: HashMap<String, SourceFileAnalyzer>`.

  The stored analyzer is a function of the stored text (`SourceFileAnalyzer::analyze_lines
  (split_document_lines(text))`), so the map is modelled as URI ↦ text.

  Transliteration notes (read off main.rs):
  * the key is `params.text_document.uri.to_string()`: a `String`, compared byte for byte
    by the `HashMap`.  Nothing in main.rs folds case, decodes percent-escapes or resolves
    anything: `file:///a.bas`, `file:///A.BAS` and `file:///%61.bas` are three DIFFERENT
    documents (observed on the built server: a tokens request for `file:///%61.bas` after
    opening `file:///a.bas` is refused).  The string is the serialisation of the `url::Url`
    that serde parsed from the JSON, and THAT parse (transport, outside main.rs) already
    normalises a little: observed, `FILE:///x.bas` and `file:///d/../y.bas` arrive as
    `file:///x.bas` and `file:///y.bas` (scheme lower-cased, dot segments removed; path
    case and percent-escapes kept, `file:///z%2Ebas` ≠ `file:///z.bas`).  The model's key
    is the string that comes out of `to_string()`; it is also the URI that is published.
  * `textDocument/didOpen`: analyse, compute the diagnostics, `files.insert(key, analyzer)`
    — `HashMap::insert` REPLACES an earlier entry for the same key, so opening a document
    a second time discards the old analysis — publish the diagnostics for that URI.
  * `textDocument/didChange`: `params.content_changes.into_iter().last()`; with `Some`,
    exactly like `didOpen` for the LAST content change (insert, also when the key was never
    opened); with an EMPTY list nothing at all happens (`if let` without `else`, `continue`).
  * `textDocument/didClose`: never matched — the third cast in the loop is again
    `cast_notification::<DidChangeTextDocument>` (unreachable: the second one consumed every
    `didChange`), so the notification ends in "Unhandled notification".  No entry is removed.
  * `textDocument/semanticTokens/full`: `files.get(&key)`; `None` → the error RESPONSE
    `RequestFailed` ("File contents have not been sent by client") and the loop continues
    (the server does not die); `Some(analyzer)` → `get_semantic_tokens(analyzer)`.
  * `initialize`: `connection.initialize(server_capabilities)` answers with a constant;
    `main_loop` deserialises the client's parameters into `_params` and never reads them.
    Modelled as the event `hello params`, which changes nothing and sends nothing that
    depends on `params`.  (The deserialisation itself, like all JSON handling, is transport.)
  * `Option.none` = the server process dies: a Rust panic in the analyzer, an index panic
    in `analyze_source_file` or in `get_semantic_tokens`.
-/
namespace Abasic

deriving instance DecidableEq for LspDiag
deriving instance DecidableEq for LspState, LspEvent, LspOut

/-- URI string ↦ text whose analyzer is stored.  Association list; the first pair for a
    key is the entry (`mInsert` keeps at most one pair per key anyway). -/
abbrev MState := List (Str × Str)

/-- `files.get(&key)`: raw string equality on the key -/
def mLookup (u : Str) : MState → Option Str
  | [] => none
  | (k, t) :: m => if k = u then some t else mLookup u m

/-- `files.insert(key, analyzer)`: an earlier entry for the key is replaced -/
def mInsert (u t : Str) (m : MState) : MState := (u, t) :: m.filter (fun p => p.1 ≠ u)

inductive MEvent where
  /-- `textDocument/didOpen` -/
  | open (uri text : Str)
  /-- `textDocument/didChange` with the texts of its `contentChanges`, in order -/
  | change (uri : Str) (texts : List Str)
  /-- `textDocument/didClose` -/
  | close (uri : Str)
  /-- `textDocument/semanticTokens/full` -/
  | tokens (uri : Str)
  /-- the `initialize` handshake with the client's parameters -/
  | hello (params : Str)
  deriving DecidableEq

inductive MOut where
  /-- `textDocument/publishDiagnostics` for `uri` -/
  | publish (uri : Str) (ds : List LspDiag)
  /-- the reply to a tokens request -/
  | tokens (ts : List SemTok)
  /-- the error reply `RequestFailed` to a tokens request for a key without entry -/
  | error
  /-- nothing is sent (that depends on the event) -/
  | none
  deriving DecidableEq

/-- analyse the text, compute its diagnostics, insert under the key, publish for the key -/
def mUpdate (F : Type) [NumOps F] (fuel : Nat) (m : MState) (uri text : Str) : Option (MState × MOut) :=
  let a := lspAnalyze (F := F) fuel text
  if a.panicked.isSome then Option.none
  else
    match lspDiagnostics a with
    | Option.none => Option.none
    | some ds => some (mInsert uri text m, MOut.publish uri ds)

/-- one iteration of `for msg in &connection.receiver` -/
def mStep (F : Type) [NumOps F] (fuel : Nat) (m : MState) : MEvent → Option (MState × MOut)
  | MEvent.open uri text => mUpdate F fuel m uri text
  | MEvent.change uri texts =>
    match texts.getLast? with
    | some text => mUpdate F fuel m uri text
    | Option.none => some (m, MOut.none)
  | MEvent.close _ => some (m, MOut.none)
  | MEvent.tokens uri =>
    match mLookup uri m with
    | Option.none => some (m, MOut.error)
    | some text =>
      match semanticTokens (lspAnalyze (F := F) fuel text) with
      | Option.none => Option.none
      | some ts => some (m, MOut.tokens ts)
  | MEvent.hello _ => some (m, MOut.none)

/-- the loop over a sequence of events: final state and everything sent, in order -/
def mRun (F : Type) [NumOps F] (fuel : Nat) : MState → List MEvent → Option (MState × List MOut)
  | m, [] => some (m, [])
  | m, e :: es =>
    match mStep F fuel m e with
    | Option.none => Option.none
    | some (m', o) =>
      match mRun F fuel m' es with
      | Option.none => Option.none
      | some (m'', os) => some (m'', o :: os)

/-! ### projection to one key (for the refinement to `lspStep`) -/

/-- the document key an event is about (`hello` is about none) -/
def MEvent.key : MEvent → Option Str
  | .open uri _ => some uri
  | .change uri _ => some uri
  | .close uri => some uri
  | .tokens uri => some uri
  | .hello _ => Option.none

/-- the event as the one-document machine for key `u` sees it -/
def MEvent.proj (u : Str) : MEvent → Option LspEvent
  | .open uri text => if uri = u then some (.open text) else Option.none
  | .change uri texts => if uri = u then some (.change texts) else Option.none
  | .close uri => if uri = u then some .close else Option.none
  | .tokens uri => if uri = u then some .tokensRequest else Option.none
  | .hello _ => Option.none

/-- an output without its URI -/
def MOut.forget : MOut → LspOut
  | .publish _ ds => .publish ds
  | .tokens ts => .tokens ts
  | .error => .requestFailed
  | .none => .none

/-- the outputs answering the events for key `u` -/
def projOuts (u : Str) : List MEvent → List MOut → List LspOut
  | e :: es, o :: os => if (e.proj u).isSome then o.forget :: projOuts u es os else projOuts u es os
  | _, _ => []

end Abasic
