import Abasic.Ref.Stmt
/-
  Spec side of C03, control stack and DATA: the statements of Ref/Stmt.lean
  extended by FOR / NEXT, GOSUB / RETURN, READ / DATA / RESTORE, DIM and
  assignment to an array cell, and one reference step for each of them.

  * `RStmt2`       — `base s` embeds the statements of Ref/Stmt.lean (LET, PRINT,
                     GOTO, END, IF … THEN … [ELSE …]; the abbreviations
                     `RStmt2.letS` … give them their old names).  The new
                     statements stand on their own: they do not occur as the
                     branch of an IF (the branches of `ifS` are `RStmt`s).
  * `renderS2`     — the tokens of a statement.
  * `RState2`      — the reference state: variables, arrays, loop stack, return
                     stack, DATA cursor, output, program counter.
  * `RStmt2.exec`  — one reference step of a statement standing at `(line, index)`
                     given the list of all DATA items of the program: the new
                     state (program counter untouched) and what happens next (`Ctl2`).

  What a reader has to check are the rules written into `exec`:

  FOR    evaluates start, limit and step (default 1) once, in this order, each
         must be a number; forgets an open loop of the same variable together
         with every loop opened after it; OUT OF MEMORY when 32 loops remain
         open; TYPE MISMATCH for a string variable (checked last, as the
         interpreter does); assigns the start value and pushes
         (variable, line, index of the statement after the FOR, limit, step).
         The limit is not tested: the body runs at least once.
  NEXT   TYPE MISMATCH if the variable holds a string; NEXT WITHOUT FOR if no
         loop of that variable is open; loops opened after it are forgotten; adds
         the stored step, compares with the stored limit (`≤` for a step `≥ 0`,
         `≥` otherwise); continues behind the FOR, or pops and goes on.
  GOSUB  OUT OF MEMORY with 32 frames (before the target is looked at), pushes
         the position behind the GOSUB, jumps (UNDEF'D STATEMENT as for GOTO).
  RETURN pops and continues there; RETURN WITHOUT GOSUB.
  READ   for each target the next DATA item in program order
         (`Value.coerceFromData`: a number read into a string variable is
         stored as its text, a string read into a numeric variable is DATA TYPE
         MISMATCH, reported for the line of the DATA statement); OUT OF DATA.
  DATA   nothing.  RESTORE: the cursor goes back to the first item.
  DIM    subscripts are numbers (TYPE MISMATCH) not below 0 after `toI64`
         (ILLEGAL QUANTITY); REDIM'D ARRAY if the array exists (also when it was
         created implicitly); `ArrayV.create` (sizes `max + 1`, at most 10000
         cells, else OUT OF MEMORY).
  LET a(i, …) = e  subscripts first, then `e`; the kind of the value must match
         the name; an array that does not exist is created with 11 cells per
         dimension (OUT OF MEMORY from four subscripts on: 11⁴ > 10000);
         BAD SUBSCRIPT (`linearIndex`).

  Arrays are the `ArrayV` of State.lean (dimensions and a flat list of cells);
  `ArrayV.create` and `linearIndex` are the pure functions of Arrays.lean, whose
  content is stated in C03.lean / C16.lean (`create_spec`, `implicit_array_shape`,
  `fresh_cells_default`).  The order of the checks follows the interpreter where it
  can be observed (which error is reported when two apply).  The refinement
  theorems assume the invariant `RInv` (Proofs/Prog2Rel.lean) of the reference
  state — a variable holds a value of the kind its name demands — under which
  NEXT of a string variable is TYPE MISMATCH and the assignment of the new value
  cannot fail.
-/
namespace Abasic.Ref
open Abasic

inductive RStmt2 (F : Type) where
  | base (s : RStmt F)
  | forS (v : Str) (lo hi : Expr F) (step : Option (Expr F))
  | nextS (v : Str)
  | gosubS (n : Nat)
  | returnS
  | readS (targets : List Str)
  | dataS (items : List (DataElement F))
  | restoreS
  | dimS (name : Str) (dims : List (Expr F))
  | letCellS (name : Str) (idx : List (Expr F)) (e : Expr F)

namespace RStmt2
variable {F : Type}
abbrev letS (name : Str) (e : Expr F) : RStmt2 F := .base (.letS name e)
abbrev printS (items : List (PItem F)) : RStmt2 F := .base (.printS items)
abbrev gotoS (n : Nat) : RStmt2 F := .base (.gotoS n)
abbrev endS : RStmt2 F := .base .endS
abbrev ifS (c : Expr F) (t : RStmt F) (e : Option (RStmt F)) : RStmt2 F := .base (.ifS c t e)
end RStmt2

/-- an open FOR loop -/
structure RLoop (F : Type) where
  var : Str
  /-- where the loop body starts: the statement after the FOR … -/
  line : Nat
  /-- … as an index into its line (one more than the index of the FOR) -/
  idx : Nat
  limit : F
  step : F

structure RState2 (F : Type) where
  vars : List (Str × Value F) := []
  /-- name ↦ dimensions and cells -/
  arrays : List (Str × ArrayV F) := []
  /-- open loops, most recent first -/
  loops : List (RLoop F) := []
  /-- return addresses (line, index of the statement after the GOSUB), most recent first -/
  rets : List (Nat × Nat) := []
  /-- index of the next DATA item in the list of all DATA items of the program -/
  data : Nat := 0
  /-- the PRINT records so far, oldest first -/
  out : List Str := []
  /-- (line number, statement index); `none`: the program has ended -/
  pc : Option (Nat × Nat) := none

/-- what happens after a statement -/
inductive Ctl2 where
  | next
  | skipLine
  | jump (n : Nat)
  | stop
  /-- continue with statement `j` of line `n` (or, if the line has no such statement, behind the line) -/
  | resume (n j : Nat)
  /-- an error, reported for the line of the statement -/
  | error (e : Err)
  /-- an error reported for line `ln` -/
  | errorAt (e : Err) (ln : Nat)
  deriving DecidableEq, Repr

def Ctl2.ofCtl : Ctl → Ctl2
  | .next => .next
  | .skipLine => .skipLine
  | .jump n => .jump n
  | .stop => .stop
  | .error e => .error e

variable {F : Type} [NumOps F]

/-! ### rendering -/

/-- `e₁ , e₂ , …` -/
def renderSubs2 : List (Expr F) → List (Token F)
  | [] => []
  | [e] => render e
  | e :: rest => render e ++ .kw .Comma :: renderSubs2 rest

/-- `x₁ , x₂ , …` -/
def renderTargets : List Str → List (Token F)
  | [] => []
  | [x] => [.symbol x]
  | x :: rest => .symbol x :: .kw .Comma :: renderTargets rest

def renderS2 : RStmt2 F → List (Token F)
  | .base s => renderS s
  | .forS v a b none => .kw .For :: .symbol v :: .kw .Equals :: (render a ++ .kw .To :: render b)
  | .forS v a b (some c) =>
    .kw .For :: .symbol v :: .kw .Equals :: (render a ++ .kw .To :: (render b ++ .kw .Step :: render c))
  | .nextS v => [.kw .Next, .symbol v]
  | .gosubS n => [.kw .Gosub, .num (NumOps.ofNat n)]
  | .returnS => [.kw .Return]
  | .readS ts => .kw .Read :: renderTargets ts
  | .dataS items => [.data items]
  | .restoreS => [.kw .Restore]
  | .dimS name dims => .kw .Dim :: .symbol name :: .kw .LeftParen :: (renderSubs2 dims ++ [.kw .RightParen])
  | .letCellS name idx e =>
    .kw .Let :: .symbol name :: .kw .LeftParen :: (renderSubs2 idx ++ .kw .RightParen :: .kw .Equals :: render e)

/-! ### meaning -/

/-- the value of an expression that has to be a number -/
def numE (env : Str → Value F) (e : Expr F) : Except Err F :=
  match foldE env e with
  | .ok (.num x) => .ok x
  | .ok (.str _) => .error .typeMismatch
  | .error err => .error err

/-- the step of a FOR: 1 unless given -/
def stepE (env : Str → Value F) : Option (Expr F) → Except Err F
  | none => .ok NumOps.one
  | some c => numE env c

/-- subscripts: numbers, truncated with `toI64`, not negative; left to right -/
def foldSubs (env : Str → Value F) : List (Expr F) → Except Err (List Nat)
  | [] => .ok []
  | e :: rest =>
    match numE env e with
    | .error err => .error err
    | .ok x =>
      if NumOps.toI64 x < 0 then .error .illegalQuantity
      else
        match foldSubs env rest with
        | .error err => .error err
        | .ok is => .ok ((NumOps.toI64 x).toNat :: is)

/-- the most recent open loop of `v`, and the loops that were open before it -/
def findLoop (v : Str) : List (RLoop F) → Option (RLoop F × List (RLoop F))
  | [] => none
  | l :: rest => if l.var == v then some (l, rest) else findLoop v rest

/-- the loops that stay open when a FOR for `v` begins -/
def keptLoops (v : Str) (loops : List (RLoop F)) : List (RLoop F) :=
  match findLoop v loops with
  | some (_, rest) => rest
  | none => loops

/-- the array `name`; one that does not exist is created with 11 cells per dimension -/
def ensureArr (name : Str) (arity : Nat) (arrays : List (Str × ArrayV F)) : Except Err (ArrayV F) :=
  match alGet name arrays with
  | some a => .ok a
  | none => ArrayV.create (F := F) name (List.replicate arity Extracted.defaultArraySize)

/-- storing into a cell -/
def cellSet (a : ArrayV F) (index : List Nat) (v : Value F) : Except Err (ArrayV F) :=
  match a, v with
  | .strs dims cells, .str x =>
    (match linearIndex index dims with
     | .error e => .error e
     | .ok i => .ok (.strs dims (cells.set i x)))
  | .nums dims cells, .num x =>
    (match linearIndex index dims with
     | .error e => .error e
     | .ok i => .ok (.nums dims (cells.set i x)))
  | _, _ => .error .typeMismatch

/-- READ: the targets one after the other -/
def readAll (items : List (Nat × DataElement F)) :
    List Str → List (Str × Value F) → Nat → List (Str × Value F) × Nat × Ctl2
  | [], vars, c => (vars, c, .next)
  | t :: rest, vars, c =>
    match items[c]? with
    | none => (vars, c, .error .outOfData)
    | some (ln, item) =>
      match Value.coerceFromData t item with
      | .error e => (vars, c + 1, .errorAt e ln)
      | .ok v => readAll items rest (alSet t v vars) (c + 1)

/-- One reference step of the statement at `(n, j)`.  `items`: all DATA items of
    the program in program order, each with the number of its line. -/
def RStmt2.exec (items : List (Nat × DataElement F)) (n j : Nat) (r : RState2 F) : RStmt2 F → RState2 F × Ctl2
  | .base s =>
    let res := RStmt.exec r.vars s
    ({ r with vars := res.vars, out := r.out ++ res.out }, Ctl2.ofCtl res.ctl)
  | .forS v a b c =>
    match numE (envOf r.vars) a with
    | .error err => (r, .error err)
    | .ok x =>
      match numE (envOf r.vars) b with
      | .error err => (r, .error err)
      | .ok y =>
        match stepE (envOf r.vars) c with
        | .error err => (r, .error err)
        | .ok z =>
          if (keptLoops v r.loops).length == Extracted.stackLimit then (r, .error .oomStack)
          else if endsWithDollar v then (r, .error .typeMismatch)
          else
            ({ r with vars := alSet v (.num x) r.vars,
                      loops := { var := v, line := n, idx := j + 1, limit := y, step := z } :: keptLoops v r.loops },
             .next)
  | .nextS v =>
    match envOf r.vars v with
    | .str _ => (r, .error .typeMismatch)
    | .num cur =>
      match findLoop v r.loops with
      | none => (r, .error .nextWithoutFor)
      | some (l, rest) =>
        let nv := NumOps.add cur l.step
        let again := if NumOps.ge l.step NumOps.zero then NumOps.le nv l.limit else NumOps.ge nv l.limit
        if again then ({ r with vars := alSet v (.num nv) r.vars, loops := l :: rest }, .resume l.line l.idx)
        else ({ r with vars := alSet v (.num nv) r.vars, loops := rest }, .next)
  | .gosubS m =>
    if r.rets.length == Extracted.stackLimit then (r, .error .oomStack)
    else ({ r with rets := (n, j + 1) :: r.rets }, .jump m)
  | .returnS =>
    match r.rets with
    | [] => (r, .error .returnWithoutGosub)
    | (ln, k) :: rest => ({ r with rets := rest }, .resume ln k)
  | .readS ts =>
    let (vars, c, ctl) := readAll items ts r.vars r.data
    ({ r with vars := vars, data := c }, ctl)
  | .dataS _ => (r, .next)
  | .restoreS => ({ r with data := 0 }, .next)
  | .dimS name dims =>
    match foldSubs (envOf r.vars) dims with
    | .error err => (r, .error err)
    | .ok index =>
      if alHas name r.arrays then (r, .error .redimensionedArray)
      else
        match ArrayV.create (F := F) name index with
        | .error err => (r, .error err)
        | .ok a => ({ r with arrays := alSet name a r.arrays }, .next)
  | .letCellS name idx e =>
    match foldSubs (envOf r.vars) idx with
    | .error err => (r, .error err)
    | .ok index =>
      match foldE (envOf r.vars) e with
      | .error err => (r, .error err)
      | .ok v =>
        if !v.matchesName name then (r, .error .typeMismatch)
        else
          match ensureArr name index.length r.arrays with
          | .error err => (r, .error err)
          | .ok a =>
            match cellSet a index v with
            | .error err => (r, .error err)
            | .ok a' => ({ r with arrays := alSet name a' r.arrays }, .next)

/-! ### the statements covered by the refinement theorems -/

/-- `base`: as in Ref/Stmt.lean.  GOSUB: the target survives the trip through
    the number carrier (as for GOTO).  READ, DIM and cell assignment: at least
    one target / subscript. -/
def RStmt2.Covered : RStmt2 F → Prop
  | .base s => s.Covered
  | .gosubS n => NumOps.toU64 (NumOps.ofNat n : F) = n
  | .readS ts => ts ≠ []
  | .dimS _ dims => dims ≠ []
  | .letCellS _ idx _ => idx ≠ []
  | _ => True

end Abasic.Ref
