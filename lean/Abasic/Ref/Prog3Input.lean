import Abasic.Ref.Prog3
/-
  Spec side of C03 / C08: the reference machine of Ref/Prog3.lean WITH INPUT.

  * `RStmtI`     — a statement of Ref/Stmt3.lean (`base`), or `INPUT target`
                   (`input`) with a scalar target;
  * `RProgramI`  — numbered lines of such statements; `compilePI`: the store the
                   interpreter holds for it;
  * `RStateI`    — the reference state `RState3` (which carries the program
                   counter), the output log, and whether the INPUT at the program
                   counter has shown its prompt;
  * `RStepI`     — one reference step; a run consumes a list of reply texts.

  INPUT, as the reference machine sees it.  Reaching `INPUT x` (first visit) the
  machine shows the prompt (`prompted := true`: the interpreter itself emits no
  record for the `?`; it reports the state "awaiting input", and the host prints
  the prompt) and does nothing else.  A prompted INPUT takes the next reply:
  the text is read with the DATA item parser (`parseData`), its FIRST item is
  coerced by the name of the target (`Value.coerceFromData`: any item suits a
  string variable, only a number suits a numeric variable);

    suitable    the value is stored like LET does, `?EXTRA IGNORED` is emitted
                when the reply held more than one item or bytes the parser did
                not consume, and the machine goes on with the NEXT statement
                (`resume n (j + 1)`) — nothing else is executed, in particular
                nothing in front of the INPUT on its line;
    unsuitable  `?REENTER` is emitted, the reply is consumed, the machine stays
                at the INPUT, still prompted;
    no reply    the machine waits (steps to itself).

  Output.  `RState3.out` holds PRINT records only.  Whenever a reply is taken the
  records so far are moved to `log` (followed by the record of the INPUT), so
  the whole output in order is `RStateI.output`.
-/
namespace Abasic.Ref
open Abasic

/-- the target of an INPUT -/
inductive ITarget (F : Type) where
  | scalar (name : Str)

inductive RStmtI (F : Type) where
  | base (s : RStmt3 F)
  | input (t : ITarget F)

/-- numbered lines; each line is a list of statements separated by colons -/
abbrev RProgramI (F : Type) := List (Nat × List (RStmtI F))

variable {F : Type} [NumOps F]

/-! ### the tokens of a program -/

def ITarget.name : ITarget F → Str
  | .scalar x => x

def ITarget.render : ITarget F → List (Token F)
  | .scalar x => [.symbol x]

def renderSI : RStmtI F → List (Token F)
  | .base s => renderS3 s
  | .input t => .kw .Input :: t.render

/-- `: s₁ : s₂ …` -/
def renderTailI : List (RStmtI F) → List (Token F)
  | [] => []
  | s :: rest => .kw .Colon :: (renderSI s ++ renderTailI rest)

/-- `s₀ : s₁ : s₂ …` -/
def renderLineI : List (RStmtI F) → List (Token F)
  | [] => []
  | s :: rest => renderSI s ++ renderTailI rest

/-- the store after the lines of `q` have been entered -/
def compilePI (q : RProgramI F) : Lines F :=
  { map := q.map fun l => (l.1, renderLineI l.2), sorted := q.map (·.1) }

/-! ### looking things up in a program (as in Ref/Prog3.lean) -/

def RProgramI.line : RProgramI F → Nat → Option (List (RStmtI F))
  | [], _ => none
  | (k, ss) :: rest, n => if k == n then some ss else RProgramI.line rest n

def RProgramI.hasLine (q : RProgramI F) (n : Nat) : Bool := (q.line n).isSome

def RProgramI.after (q : RProgramI F) (n : Nat) : Option Nat := (q.map (·.1)).find? (fun k => decide (n < k))

def RProgramI.first (q : RProgramI F) : Option Nat := (q.head?).map (·.1)

/-- statement `j` of line `n`, or what follows the line -/
def RProgramI.resume (q : RProgramI F) (n j : Nat) : Option (Nat × Nat) :=
  match q.line n with
  | some ss => if j < ss.length then some (n, j) else (q.after n).map fun m => (m, 0)
  | none => (q.after n).map fun m => (m, 0)

/-- ascending line numbers, no empty line -/
structure RProgramI.WF (q : RProgramI F) : Prop where
  ascending : (q.map (·.1)).Pairwise (· < ·)
  nonempty : ∀ l ∈ q, l.2 ≠ []

def RStmtI.dataOf : RStmtI F → List (DataElement F)
  | .base s => s.dataOf
  | .input _ => []

/-- all DATA items in program order, each with the number of its line -/
def allDataI (q : RProgramI F) : List (Nat × DataElement F) :=
  q.flatMap fun l => (l.2.flatMap RStmtI.dataOf).map fun d => (l.1, d)

/-! ### the reference machine -/

structure RStateI (F : Type) where
  st : RState3 F
  /-- what was emitted before the last reply was taken (that INPUT's own record
      included), oldest first; `st.out` holds the PRINT records since -/
  log : List Out := []
  /-- the INPUT at the program counter has shown its prompt and waits for a reply -/
  prompted : Bool := false

/-- everything emitted so far, oldest first -/
def RStateI.output (x : RStateI F) : List Out := x.log ++ x.st.out.map Out.print

/-- the machine waits for a reply: it stands at an INPUT that has shown its prompt -/
def RStateI.awaits (x : RStateI F) : Bool := x.prompted && x.st.pc.isSome

/-- where a program starts (`g`: the state of the random number generator) -/
def RProgramI.start (q : RProgramI F) (g : Nat) : RStateI F :=
  { st := { pc := q.first.map fun n => (n, 0), rng := g } }

/-- one step of a statement of Ref/Stmt3.lean standing at `(n, j)`: `RStmt3.exec`,
    then sequencing according to its `Ctl2`, exactly as `RStep3` does -/
def RStepB (q : RProgramI F) (r : RState3 F) (n j : Nat) (s : RStmt3 F) : RState3 F ⊕ (Err × Nat) :=
  let res := RStmt3.exec (allDataI q) n j r s
  match res.2 with
  | .next => .inl { res.1 with pc := q.resume n (j + 1) }
  | .skipLine => .inl { res.1 with pc := (q.after n).map fun m => (m, 0) }
  | .jump m =>
    if q.hasLine m then .inl { res.1 with pc := some (m, 0) }
    else .inr (.undefinedStatement, n)
  | .stop => .inl { res.1 with pc := none }
  | .resume m k => .inl { res.1 with pc := q.resume m k }
  | .error e => .inr (e, n)
  | .errorAt e ln => .inr (e, ln)

/-- what a reply means for a target called `name` -/
inductive Reply (F : Type) where
  /-- the coerced first item; `extra`: the reply held more than INPUT takes -/
  | accept (v : Value F) (extra : Bool)
  | reenter

/-- the first DATA item of the text, coerced by the name of the target.  (The
    DATA parser returns at least one item for every text, `parseData_spec`.) -/
def readReply (name text : Str) : Reply F :=
  match parseData (F := F) text with
  | ([], _) => .reenter
  | (first :: more, n) =>
    match Value.coerceFromData name first with
    | .ok v => .accept v (!more.isEmpty || decide (n < len8 text))
    | .error _ => .reenter

/-- INPUT has taken a suitable reply: the value is stored, the records so far go to
    the log, followed by `?EXTRA IGNORED` when the reply held more than INPUT takes -/
def RStateI.accepted (x : RStateI F) (name : Str) (v : Value F) (extra : Bool) (pc : Option (Nat × Nat)) : RStateI F :=
  { st := { x.st with vars := alSet name v x.st.vars, out := [], pc := pc },
    log := x.output ++ (if extra then [Out.extraIgnored] else []),
    prompted := false }

/-- INPUT has taken an unsuitable reply: `?REENTER`, and it waits again -/
def RStateI.rejected (x : RStateI F) : RStateI F :=
  { st := { x.st with out := [] }, log := x.output ++ [Out.reenter], prompted := true }

/-- One reference step with the replies still to come.  `Sum.inr (e, n)`: the
    program stops with error `e` on line `n` (see `RStep3`).  A state whose
    program has ended, and a prompted INPUT without a reply, step to themselves. -/
def RStepI (q : RProgramI F) (x : RStateI F) (replies : List Str) : (RStateI F × List Str) ⊕ (Err × Nat) :=
  match x.st.pc with
  | none => .inl (x, replies)
  | some (n, j) =>
    match q.line n with
    | none => .inl ({ x with st := { x.st with pc := none } }, replies)
    | some ss =>
      match ss[j]? with
      | none => .inl ({ x with st := { x.st with pc := none } }, replies)
      | some (.base s) =>
        match RStepB q x.st n j s with
        | .inl r' => .inl ({ x with st := r' }, replies)
        | .inr e => .inr e
      | some (.input t) =>
        if x.prompted = false then .inl ({ x with prompted := true }, replies)
        else
          match replies with
          | [] => .inl (x, [])
          | text :: rest =>
            match readReply (F := F) t.name text with
            | .accept v extra => .inl (x.accepted t.name v extra (q.resume n (j + 1)), rest)
            | .reenter => .inl (x.rejected, rest)

/-- `k` reference steps; an error ends the run: error, line, and the state the
    failing step started from (its `output` is what was emitted before the error) -/
def RStepsI (q : RProgramI F) : Nat → RStateI F → List Str → (RStateI F × List Str) ⊕ (Err × Nat × RStateI F)
  | 0, x, replies => .inl (x, replies)
  | k + 1, x, replies =>
    match RStepI q x replies with
    | .inl (x', replies') => RStepsI q k x' replies'
    | .inr (e, n) => .inr (e, n, x)

end Abasic.Ref
