import Abasic.Ref.Expr
/-
  Spec side of C03, first layer: a reference semantics for single statements
  (LET, PRINT, GOTO, END, IF … THEN … [ELSE …]) over syntax trees, written from
  the language rules and independent of the token cursor of Stmt.lean.

  * `RStmt`      — statement trees (expressions are the trees of Ref/Expr.lean);
  * `renderS`    — the tokens of a statement;
  * `RStmt.exec` — one reference step: from the variables, the new variables,
                   the PRINT records produced and what happens next (`Ctl`).

  What a reader has to check: `printText` (`;` suppresses the final newline,
  `,` is a TAB, values are printed with `valueText`), the kind check of LET
  (`Value.matchesName`), and the two line-level rules of IF in this dialect:
  a false condition without ELSE abandons the rest of the line, and so does a
  THEN branch that ran to completion in front of an ELSE.
-/
namespace Abasic.Ref
open Abasic

/-- one element of a PRINT list -/
inductive PItem (F : Type) where
  | expr (e : Expr F)
  | semi
  | comma

inductive RStmt (F : Type) where
  | letS (name : Str) (e : Expr F)
  | printS (items : List (PItem F))
  | gotoS (n : Nat)
  | endS
  | ifS (c : Expr F) (thenS : RStmt F) (elseS : Option (RStmt F))

/-- what happens after a statement -/
inductive Ctl where
  /-- go on with what follows the statement on its line -/
  | next
  /-- abandon the rest of the line, go on with the next line -/
  | skipLine
  /-- continue at the start of line `n` -/
  | jump (n : Nat)
  /-- END: the program stops -/
  | stop
  | error (e : Err)
  deriving DecidableEq, Repr

structure RResult (F : Type) where
  vars : List (Str × Value F)
  /-- the PRINT records produced, oldest first -/
  out : List Str
  ctl : Ctl

variable {F : Type} [NumOps F]

/-! ### rendering -/

def PItem.render : PItem F → List (Token F)
  | .expr e => Ref.render e
  | .semi => [.kw .Semicolon]
  | .comma => [.kw .Comma]

def renderItems : List (PItem F) → List (Token F)
  | [] => []
  | i :: rest => i.render ++ renderItems rest

def renderS : RStmt F → List (Token F)
  | .letS x e => .kw .Let :: .symbol x :: .kw .Equals :: render e
  | .printS items => .kw .Print :: renderItems items
  | .gotoS n => [.kw .Goto, .num (NumOps.ofNat n)]
  | .endS => [.kw .End]
  | .ifS c t none => .kw .If :: (render c ++ .kw .Then :: renderS t)
  | .ifS c t (some e) => .kw .If :: (render c ++ .kw .Then :: (renderS t ++ .kw .Else :: renderS e))

/-! ### meaning -/

/-- variables as an environment: an unset variable reads as 0 / the empty string -/
def envOf (vars : List (Str × Value F)) : Str → Value F := fun name =>
  match alGet name vars with
  | some v => v
  | none => Value.defaultFor name

/-- the text of a PRINT list: `suppress` = the last item was a `;` -/
def printText (env : Str → Value F) : List (PItem F) → Bool → Str → Except Err Str
  | [], suppress, acc => .ok (if suppress then acc else acc ++ ['\n'])
  | .semi :: rest, _, acc => printText env rest true acc
  | .comma :: rest, _, acc => printText env rest false (acc ++ ['\t'])
  | .expr e :: rest, _, acc =>
    match foldE env e with
    | .ok v => printText env rest false (acc ++ valueText v)
    | .error err => .error err

/-- a THEN branch in front of an ELSE: having run to completion, it abandons the rest of the line -/
def RResult.closeLine (r : RResult F) : RResult F :=
  match r.ctl with
  | .next => { r with ctl := .skipLine }
  | _ => r

/-- one reference step -/
def RStmt.exec (vars : List (Str × Value F)) : RStmt F → RResult F
  | .letS x e =>
    match foldE (envOf vars) e with
    | .ok v =>
      if v.matchesName x then { vars := alSet x v vars, out := [], ctl := .next }
      else { vars := vars, out := [], ctl := .error .typeMismatch }
    | .error err => { vars := vars, out := [], ctl := .error err }
  | .printS items =>
    match printText (envOf vars) items false [] with
    | .ok text => { vars := vars, out := [text], ctl := .next }
    | .error err => { vars := vars, out := [], ctl := .error err }
  | .gotoS n => { vars := vars, out := [], ctl := .jump n }
  | .endS => { vars := vars, out := [], ctl := .stop }
  | .ifS c t none =>
    match foldE (envOf vars) c with
    | .ok v => if v.toBool then RStmt.exec vars t else { vars := vars, out := [], ctl := .skipLine }
    | .error err => { vars := vars, out := [], ctl := .error err }
  | .ifS c t (some e) =>
    match foldE (envOf vars) c with
    | .ok v => if v.toBool then (RStmt.exec vars t).closeLine else RStmt.exec vars e
    | .error err => { vars := vars, out := [], ctl := .error err }

/-! ### the statements the rendering determines

  `renderS` writes no brackets, so a token list with IF inside IF can come from
  more than one tree (the dangling ELSE).  The interpreter resolves it at run
  time: a false condition skips to the *first* ELSE on the line.  The trees
  below are those whose rendering has only one reading under that rule. -/

/-- not an IF -/
def RStmt.simple : RStmt F → Bool
  | .ifS _ _ _ => false
  | _ => true

/-- no ELSE anywhere in the rendering -/
def RStmt.elseFree : RStmt F → Bool
  | .ifS _ t none => RStmt.elseFree t
  | .ifS _ _ (some _) => false
  | _ => true

/-- no two expressions of a PRINT list stand next to each other -/
def separated : List (PItem F) → Bool
  | .expr _ :: .expr _ :: _ => false
  | _ :: rest => separated rest
  | [] => true

/-- The statements covered by the refinement theorems:
    PRINT lists are separated; a GOTO target survives the trip through the
    number carrier; under IF without ELSE the THEN branch contains no ELSE;
    under IF with ELSE the THEN branch is not itself an IF. -/
def RStmt.Covered : RStmt F → Prop
  | .letS _ _ => True
  | .printS items => separated items = true
  | .gotoS n => NumOps.toU64 (NumOps.ofNat n : F) = n
  | .endS => True
  | .ifS _ t none => RStmt.elseFree t = true ∧ RStmt.Covered t
  | .ifS _ t (some e) => RStmt.simple t = true ∧ RStmt.Covered t ∧ RStmt.Covered e

end Abasic.Ref
