import Abasic.Ref.Stmt2
/-
  Spec side of C03, control stack and DATA: whole programs of the statements of
  Ref/Stmt2.lean and the reference machine that sequences them
  (the extension of Ref/Prog.lean).

  * `RProgram2`  — numbered lines, each a list of statements;
  * `compileP2`  — the program store the interpreter holds for such a program;
  * `allData`    — all DATA items in program order, each with its line number;
  * `RStep2`     — one reference step: run the statement at the program counter
                   with `RStmt2.exec`, then sequence according to its `Ctl2`.

  What a reader has to check: `RStep2` (as `RStep`; `resume n j` — after NEXT
  and RETURN — goes to statement `j` of line `n` if the line has one, otherwise
  to the first line behind `n`, or ends the program; `errorAt` reports its own
  line) and `RProgram2.resume`.
-/
namespace Abasic.Ref
open Abasic

/-- numbered lines; each line is a list of statements separated by colons -/
abbrev RProgram2 (F : Type) := List (Nat × List (RStmt2 F))

variable {F : Type} [NumOps F]

/-! ### the tokens of a program -/

/-- `: s₁ : s₂ …` -/
def renderTail2 : List (RStmt2 F) → List (Token F)
  | [] => []
  | s :: rest => .kw .Colon :: (renderS2 s ++ renderTail2 rest)

/-- `s₀ : s₁ : s₂ …` -/
def renderLine2 : List (RStmt2 F) → List (Token F)
  | [] => []
  | s :: rest => renderS2 s ++ renderTail2 rest

/-- the store after the lines of `p` have been entered -/
def compileP2 (p : RProgram2 F) : Lines F :=
  { map := p.map fun l => (l.1, renderLine2 l.2), sorted := p.map (·.1) }

/-! ### looking things up in a program -/

/-- the statements of line `n` -/
def RProgram2.line : RProgram2 F → Nat → Option (List (RStmt2 F))
  | [], _ => none
  | (k, ss) :: rest, n => if k == n then some ss else RProgram2.line rest n

def RProgram2.hasLine (p : RProgram2 F) (n : Nat) : Bool := (p.line n).isSome

/-- the first line number greater than `n` -/
def RProgram2.after (p : RProgram2 F) (n : Nat) : Option Nat := (p.map (·.1)).find? (fun k => decide (n < k))

/-- the first line -/
def RProgram2.first (p : RProgram2 F) : Option Nat := (p.head?).map (·.1)

/-- statement `j` of line `n`, or what follows the line -/
def RProgram2.resume (p : RProgram2 F) (n j : Nat) : Option (Nat × Nat) :=
  match p.line n with
  | some ss => if j < ss.length then some (n, j) else (p.after n).map fun m => (m, 0)
  | none => (p.after n).map fun m => (m, 0)

/-- where a program starts -/
def RProgram2.start (p : RProgram2 F) : RState2 F :=
  { pc := p.first.map fun n => (n, 0) }

/-- ascending line numbers, no empty line -/
structure RProgram2.WF (p : RProgram2 F) : Prop where
  ascending : (p.map (·.1)).Pairwise (· < ·)
  nonempty : ∀ l ∈ p, l.2 ≠ []

/-- the items of a DATA statement -/
def RStmt2.dataOf : RStmt2 F → List (DataElement F)
  | .dataS items => items
  | _ => []

/-- all DATA items in program order, each with the number of its line -/
def allData (p : RProgram2 F) : List (Nat × DataElement F) :=
  p.flatMap fun l => (l.2.flatMap RStmt2.dataOf).map fun d => (l.1, d)

/-! ### the reference machine -/

/-- One reference step.  `Sum.inr (e, n)`: the program stops with error `e`
    reported for line `n`.  A state whose program has ended steps to itself. -/
def RStep2 (p : RProgram2 F) (r : RState2 F) : RState2 F ⊕ (Err × Nat) :=
  match r.pc with
  | none => .inl r
  | some (n, j) =>
    match p.line n with
    | none => .inl { r with pc := none }
    | some ss =>
      match ss[j]? with
      | none => .inl { r with pc := none }
      | some s =>
        let res := RStmt2.exec (allData p) n j r s
        match res.2 with
        | .next => .inl { res.1 with pc := p.resume n (j + 1) }
        | .skipLine => .inl { res.1 with pc := (p.after n).map fun m => (m, 0) }
        | .jump m =>
          if p.hasLine m then .inl { res.1 with pc := some (m, 0) }
          else .inr (.undefinedStatement, n)
        | .stop => .inl { res.1 with pc := none }
        | .resume m k => .inl { res.1 with pc := p.resume m k }
        | .error e => .inr (e, n)
        | .errorAt e ln => .inr (e, ln)

/-- `k` reference steps; an error ends the run -/
def RSteps2 (p : RProgram2 F) : Nat → RState2 F → RState2 F ⊕ (Err × Nat × List Str)
  | 0, r => .inl r
  | k + 1, r =>
    match RStep2 p r with
    | .inl r' => RSteps2 p k r'
    | .inr (e, n) => .inr (e, n, r.out)

end Abasic.Ref
