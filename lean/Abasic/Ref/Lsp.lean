import Abasic.Front
/-
  Specification: the language server's main loop (abasic-lsp/src/main.rs, `main_loop`)
  as a state machine over ONE document (the server keeps a `HashMap` from URI to
  `SourceFileAnalyzer`; entries for different URIs never interact, so one entry is
  modelled; the stored analyzer is a function of the stored text, so the text is kept).

  Transliteration notes (read off main.rs):
  * `textDocument/didOpen`: analyse `split_document_lines(text)`, compute the diagnostics
    (`analyze_source_file`), insert the analyzer, publish the diagnostics.
  * `textDocument/didChange`: `params.content_changes.into_iter().last()` — with several
    content changes the LAST one wins, it is treated exactly like `didOpen`; with an EMPTY
    list nothing happens at all (the document is kept, nothing is published).
  * `textDocument/semanticTokens/full`: `get_semantic_tokens` of the stored analyzer;
    when nothing is stored the reply is the error `RequestFailed`
    ("File contents have not been sent by client").
  * `textDocument/didClose`: main.rs intends `files.remove(uri)`, but the third
    `cast_notification` in the loop is again `cast_notification::<DidChangeTextDocument>`
    (every `didChange` was already consumed by the second one, which `continue`s), so a
    `didClose` notification falls through to "Unhandled notification": the document is
    KEPT and a later tokens request is still answered from it.  Mirrored here.
  * `none` = the server dies: a Rust panic in the analyzer (`panicked`), an index panic
    in `analyze_source_file` (`lspDiagnostics = none`) or in `get_semantic_tokens`
    (`semanticTokens = none`).  JSON (de)serialisation, `shutdown`, unknown requests and
    notifications (logged, ignored) are transport and not modelled.
-/
namespace Abasic

/-- what the server remembers: the text whose analyzer is stored, if any -/
structure LspState where
  doc : Option Str := none

inductive LspEvent where
  /-- `textDocument/didOpen` with the document text -/
  | open (text : Str)
  /-- `textDocument/didChange` with the texts of its `contentChanges`, in order -/
  | change (texts : List Str)
  /-- `textDocument/semanticTokens/full` -/
  | tokensRequest
  /-- `textDocument/didClose` -/
  | close

inductive LspOut where
  /-- `textDocument/publishDiagnostics` -/
  | publish (ds : List LspDiag)
  /-- the reply to a tokens request -/
  | tokens (ts : List SemTok)
  /-- the error reply `RequestFailed` to a tokens request for an unknown document -/
  | requestFailed
  /-- nothing is sent -/
  | none

/-- analyse the text, compute its diagnostics, store the analyzer, publish -/
def lspUpdate (F : Type) [NumOps F] (fuel : Nat) (text : Str) : Option (LspState × LspOut) :=
  let a := lspAnalyze (F := F) fuel text
  if a.panicked.isSome then Option.none
  else
    match lspDiagnostics a with
    | Option.none => Option.none
    | some ds => some ({ doc := some text }, LspOut.publish ds)

/-- one iteration of `for msg in &connection.receiver` -/
def lspStep (F : Type) [NumOps F] (fuel : Nat) (s : LspState) : LspEvent → Option (LspState × LspOut)
  | LspEvent.open text => lspUpdate F fuel text
  | LspEvent.change texts =>
    match texts.getLast? with
    | some text => lspUpdate F fuel text
    | Option.none => some (s, LspOut.none)
  | LspEvent.tokensRequest =>
    match s.doc with
    | Option.none => some (s, LspOut.requestFailed)
    | some text =>
      match semanticTokens (lspAnalyze (F := F) fuel text) with
      | Option.none => Option.none
      | some ts => some (s, LspOut.tokens ts)
  | LspEvent.close => some (s, LspOut.none)

/-- the loop over a sequence of events: final state and everything sent, in order -/
def lspRun (F : Type) [NumOps F] (fuel : Nat) : LspState → List LspEvent → Option (LspState × List LspOut)
  | s, [] => some (s, [])
  | s, e :: es =>
    match lspStep F fuel s e with
    | Option.none => Option.none
    | some (s', o) =>
      match lspRun F fuel s' es with
      | Option.none => Option.none
      | some (s'', os) => some (s'', o :: os)

end Abasic
