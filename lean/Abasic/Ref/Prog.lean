import Abasic.Ref.Stmt
/-
  Spec side of C03, second layer: whole programs of the statements of
  Ref/Stmt.lean and a reference machine that sequences them.

  * `RProgram`  — numbered lines, each a list of statements (written `s₁ : s₂ : …`);
  * `compileP`  — the program store the interpreter holds for such a program;
  * `RState`    — variables, the PRINT records so far, and the program counter
                  (line number, statement index), `none` once the program has ended;
  * `RStep`     — one reference step: run the statement at the program counter
                  with `RStmt.exec`, then sequence according to its `Ctl`.

  What a reader has to check: `RStep` (NEXT within the line, then the next
  greater line number; a jump needs its target; an error reports the line it
  happened on) and `RProgram.after` (the first greater number, which is the least
  one for a program in ascending order — `RProgram.WF`).
-/
namespace Abasic.Ref
open Abasic

/-- numbered lines; each line is a list of statements separated by colons -/
abbrev RProgram (F : Type) := List (Nat × List (RStmt F))

structure RState (F : Type) where
  vars : List (Str × Value F)
  /-- the PRINT records so far, oldest first -/
  out : List Str
  /-- (line number, statement index); `none`: the program has ended -/
  pc : Option (Nat × Nat)

variable {F : Type} [NumOps F]

/-! ### the tokens of a program -/

/-- `: s₁ : s₂ …` -/
def renderTail : List (RStmt F) → List (Token F)
  | [] => []
  | s :: rest => .kw .Colon :: (renderS s ++ renderTail rest)

/-- `s₀ : s₁ : s₂ …` -/
def renderLine : List (RStmt F) → List (Token F)
  | [] => []
  | s :: rest => renderS s ++ renderTail rest

/-- the store after the lines of `p` have been entered -/
def compileP (p : RProgram F) : Lines F :=
  { map := p.map fun l => (l.1, renderLine l.2), sorted := p.map (·.1) }

/-! ### looking things up in a program -/

/-- the statements of line `n` -/
def RProgram.line : RProgram F → Nat → Option (List (RStmt F))
  | [], _ => none
  | (k, ss) :: rest, n => if k == n then some ss else RProgram.line rest n

def RProgram.hasLine (p : RProgram F) (n : Nat) : Bool := (p.line n).isSome

/-- the first line number greater than `n` -/
def RProgram.after (p : RProgram F) (n : Nat) : Option Nat := (p.map (·.1)).find? (fun k => decide (n < k))

/-- the first line -/
def RProgram.first (p : RProgram F) : Option Nat := (p.head?).map (·.1)

/-- where a program starts -/
def RProgram.start (p : RProgram F) : RState F :=
  { vars := [], out := [], pc := p.first.map fun n => (n, 0) }

/-- ascending line numbers, no empty line -/
structure RProgram.WF (p : RProgram F) : Prop where
  ascending : (p.map (·.1)).Pairwise (· < ·)
  nonempty : ∀ l ∈ p, l.2 ≠ []

/-! ### the reference machine -/

/-- One reference step.  `Sum.inr (e, n)`: the program stops with error `e`
    reported for line `n`.  A state whose program has ended steps to itself. -/
def RStep (p : RProgram F) (r : RState F) : RState F ⊕ (Err × Nat) :=
  match r.pc with
  | none => .inl r
  | some (n, j) =>
    match p.line n with
    | none => .inl { r with pc := none }
    | some ss =>
      match ss[j]? with
      | none => .inl { r with pc := none }
      | some s =>
        let res := RStmt.exec r.vars s
        match res.ctl with
        | .next =>
          .inl { vars := res.vars, out := r.out ++ res.out,
                 pc := if j + 1 < ss.length then some (n, j + 1) else (p.after n).map fun m => (m, 0) }
        | .skipLine =>
          .inl { vars := res.vars, out := r.out ++ res.out, pc := (p.after n).map fun m => (m, 0) }
        | .jump m =>
          if p.hasLine m then .inl { vars := res.vars, out := r.out ++ res.out, pc := some (m, 0) }
          else .inr (.undefinedStatement, n)
        | .stop => .inl { vars := res.vars, out := r.out ++ res.out, pc := none }
        | .error e => .inr (e, n)

/-- `k` reference steps; an error ends the run -/
def RSteps (p : RProgram F) : Nat → RState F → RState F ⊕ (Err × Nat × List Str)
  | 0, r => .inl r
  | k + 1, r =>
    match RStep p r with
    | .inl r' => RSteps p k r'
    | .inr (e, n) => .inr (e, n, r.out)

end Abasic.Ref
