import Abasic.Ref.Stmt3
/-
  Spec side of C03, third layer: whole programs of the statements of
  Ref/Stmt3.lean and the reference machine that sequences them (Ref/Prog2.lean
  for `RStmt3`).

  * `RProgram3`  — numbered lines, each a list of statements;
  * `compileP3`  — the program store the interpreter holds for such a program;
  * `allData3`   — all DATA items in program order (those in the branches of an
                   IF included), each with its line number;
  * `RStep3`     — one reference step: run the statement at the program counter
                   with `RStmt3.exec`, then sequence according to its `Ctl2`.

  RUN clears variables, arrays, both stacks, the DATA cursor and the function
  table, but not the random number generator: `RProgram3.start g` starts with
  the generator state `g`.
-/
namespace Abasic.Ref
open Abasic

/-- numbered lines; each line is a list of statements separated by colons -/
abbrev RProgram3 (F : Type) := List (Nat × List (RStmt3 F))

variable {F : Type} [NumOps F]

/-! ### the tokens of a program -/

/-- `: s₁ : s₂ …` -/
def renderTail3 : List (RStmt3 F) → List (Token F)
  | [] => []
  | s :: rest => .kw .Colon :: (renderS3 s ++ renderTail3 rest)

/-- `s₀ : s₁ : s₂ …` -/
def renderLine3 : List (RStmt3 F) → List (Token F)
  | [] => []
  | s :: rest => renderS3 s ++ renderTail3 rest

/-- the store after the lines of `p` have been entered -/
def compileP3 (p : RProgram3 F) : Lines F :=
  { map := p.map fun l => (l.1, renderLine3 l.2), sorted := p.map (·.1) }

/-! ### looking things up in a program -/

/-- the statements of line `n` -/
def RProgram3.line : RProgram3 F → Nat → Option (List (RStmt3 F))
  | [], _ => none
  | (k, ss) :: rest, n => if k == n then some ss else RProgram3.line rest n

def RProgram3.hasLine (p : RProgram3 F) (n : Nat) : Bool := (p.line n).isSome

/-- the first line number greater than `n` -/
def RProgram3.after (p : RProgram3 F) (n : Nat) : Option Nat := (p.map (·.1)).find? (fun k => decide (n < k))

/-- the first line -/
def RProgram3.first (p : RProgram3 F) : Option Nat := (p.head?).map (·.1)

/-- statement `j` of line `n`, or what follows the line -/
def RProgram3.resume (p : RProgram3 F) (n j : Nat) : Option (Nat × Nat) :=
  match p.line n with
  | some ss => if j < ss.length then some (n, j) else (p.after n).map fun m => (m, 0)
  | none => (p.after n).map fun m => (m, 0)

/-- where a program starts -/
def RProgram3.start (p : RProgram3 F) (g : Nat) : RState3 F :=
  { pc := p.first.map fun n => (n, 0), rng := g }

/-- ascending line numbers, no empty line -/
structure RProgram3.WF (p : RProgram3 F) : Prop where
  ascending : (p.map (·.1)).Pairwise (· < ·)
  nonempty : ∀ l ∈ p, l.2 ≠ []

/-- the items of a DATA statement -/
def RStmt3.dataOf : RStmt3 F → List (DataElement F)
  | .dataS items => items
  | .ifS _ t none => RStmt3.dataOf t
  | .ifS _ t (some e) => RStmt3.dataOf t ++ RStmt3.dataOf e
  | _ => []

/-- all DATA items in program order, each with the number of its line -/
def allData3 (p : RProgram3 F) : List (Nat × DataElement F) :=
  p.flatMap fun l => (l.2.flatMap RStmt3.dataOf).map fun d => (l.1, d)

/-! ### the reference machine -/

/-- One reference step.  `Sum.inr (e, n)`: the program stops with error `e`,
    raised by the statement of line `n` at the program counter (for DATA TYPE
    MISMATCH: `n` is the line of the DATA statement).  The interpreter reports `e`
    for line `n` — except that an error raised while the body of a user function
    is evaluated is reported for the line of that function's DEF (Props/C03All.lean,
    `TurnStep3`).  A state whose program has ended steps to itself. -/
def RStep3 (p : RProgram3 F) (r : RState3 F) : RState3 F ⊕ (Err × Nat) :=
  match r.pc with
  | none => .inl r
  | some (n, j) =>
    match p.line n with
    | none => .inl { r with pc := none }
    | some ss =>
      match ss[j]? with
      | none => .inl { r with pc := none }
      | some s =>
        let res := RStmt3.exec (allData3 p) n j r s
        match res.2 with
        | .next => .inl { res.1 with pc := p.resume n (j + 1) }
        | .skipLine => .inl { res.1 with pc := (p.after n).map fun m => (m, 0) }
        | .jump m =>
          if p.hasLine m then .inl { res.1 with pc := some (m, 0) }
          else .inr (.undefinedStatement, n)
        | .stop => .inl { res.1 with pc := none }
        | .resume m k => .inl { res.1 with pc := p.resume m k }
        | .error e => .inr (e, n)
        | .errorAt e ln => .inr (e, ln)

/-- `k` reference steps; an error ends the run -/
def RSteps3 (p : RProgram3 F) : Nat → RState3 F → RState3 F ⊕ (Err × Nat × List Str)
  | 0, r => .inl r
  | k + 1, r =>
    match RStep3 p r with
    | .inl r' => RSteps3 p k r'
    | .inr (e, n) => .inr (e, n, r.out)

end Abasic.Ref
