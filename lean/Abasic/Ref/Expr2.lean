import Abasic.Ref.Expr
/-
  Spec side of C02 for the FULL expression language: the trees of `Ref.Expr`
  plus array cells, calls of user-defined functions and RND.

  Evaluation is no longer a pure fold: reading a cell of an undeclared array
  creates the default array, RND advances the generator.  The reference
  environment `RefEnv` holds what an expression can read (globals, the variable
  frames of the functions being evaluated, arrays, the generator state, the
  function definitions) and `fold2` threads it.  Only `arrays` and `rng` ever
  change (`fold2_same` in Props/C02Full.lean).

  Written from the language rules: strict, left to right; dynamic scoping;
  a user function is looked up by name, its arguments are evaluated and
  type-checked one at a time, its body is evaluated with one more frame.
  `fuel` bounds the depth of user-function recursion (33 always suffices: the
  stack cap stops the recursion first).
-/
namespace Abasic.Ref
open Abasic

inductive Expr2 (F : Type) where
  | num (x : F)
  | str (s : Str)
  | var (name : Str)
  | un (op : UnOp) (e : Expr2 F)
  | bin (op : BinOp) (l r : Expr2 F)
  | paren (e : Expr2 F)
  | abs (e : Expr2 F)
  | int (e : Expr2 F)
  | rnd (e : Expr2 F)
  /-- array element `name(idx₁, …, idxₙ)` -/
  | cell (name : Str) (idx : List (Expr2 F))
  /-- user-defined function `fname(arg₁, …, argₙ)` -/
  | call (fname : Str) (args : List (Expr2 F))

/-- `DEF fname(params) = body` -/
structure FnDefSpec (F : Type) where
  params : List Str
  body : Expr2 F

structure RefEnv (F : Type) where
  /-- global variables -/
  vars : List (Str × Value F)
  /-- the parameter bindings of the calls in progress, innermost first -/
  frames : List (List (Str × Value F))
  arrays : List (Str × ArrayV F)
  /-- generator state -/
  rng : Nat
  fns : List (Str × FnDefSpec F)

variable {F : Type} [NumOps F]

/-! ### what the leaves read -/

/-- innermost frame that binds `name` -/
def lookupFrames (name : Str) : List (List (Str × Value F)) → Option (Value F)
  | [] => none
  | f :: rest =>
    match alGet name f with
    | some v => some v
    | none => lookupFrames name rest

/-- dynamic scoping: innermost binding frame, then the globals, then the default -/
def RefEnv.lookup (env : RefEnv F) (name : Str) : Value F :=
  match lookupFrames name env.frames with
  | some v => v
  | none =>
    match alGet name env.vars with
    | some v => v
    | none => Value.defaultFor name

/-- a subscript value as an index: numbers only, truncated, not negative -/
def subscript : Value F → Except Err Nat
  | .str _ => .error .typeMismatch
  | .num x => if NumOps.toI64 x < 0 then .error .illegalQuantity else .ok (NumOps.toI64 x).toNat

/-- the cell of `a` at `idx` (BAD SUBSCRIPT when out of range or of the wrong rank) -/
def readAt (a : ArrayV F) (idx : List Nat) : Except Err (Value F) :=
  match linearIndex idx a.dims with
  | .error e => .error e
  | .ok i =>
    match a with
    | .strs _ cells => .ok (.str (cells.getD i []))
    | .nums _ cells => .ok (.num (cells.getD i NumOps.zero))

/-- reading `name(idx)`: an undeclared array is first created with the default
    size 10 in each of `idx.length` dimensions (and stays) -/
def readCell (env : RefEnv F) (name : Str) (idx : List Nat) : Except Err (Value F × RefEnv F) :=
  match alGet name env.arrays with
  | some a =>
    match readAt a idx with
    | .error e => .error e
    | .ok v => .ok (v, env)
  | none =>
    match ArrayV.create (F := F) name (List.replicate idx.length Extracted.defaultArraySize) with
    | .error e => .error e
    | .ok a =>
      match readAt a idx with
      | .error e => .error e
      | .ok v => .ok (v, { env with arrays := alSet name a env.arrays })

/-- RND(x): x < 0 is not implemented, RND(0) repeats the last value, x > 0 draws the next one -/
def rndStep (env : RefEnv F) (x : F) : Except Err (Value F × RefEnv F) :=
  if NumOps.lt x NumOps.zero then .error .unimplemented
  else if NumOps.eq x NumOps.zero then .ok (.num (rngValue env.rng), env)
  else .ok (.num (rngValue (rngStep env.rng)), { env with rng := rngStep env.rng })

/-! ### the value of an expression -/

mutual
/-- The value of an expression and the environment after it: strict, left to right. -/
def fold2 : Nat → RefEnv F → Expr2 F → Except Err (Value F × RefEnv F)
  | _, env, .num x => .ok (.num x, env)
  | _, env, .str s => .ok (.str s, env)
  | _, env, .var n => .ok (env.lookup n, env)
  | n, env, .un op e =>
    match fold2 n env e with
    | .error err => .error err
    | .ok (v, env1) =>
      match op.eval v with
      | .error err => .error err
      | .ok w => .ok (w, env1)
  | n, env, .bin op l r =>
    match fold2 n env l with
    | .error err => .error err
    | .ok (a, env1) =>
      match fold2 n env1 r with
      | .error err => .error err
      | .ok (b, env2) =>
        match op.eval a b with
        | .error err => .error err
        | .ok w => .ok (w, env2)
  | n, env, .paren e => fold2 n env e
  | n, env, .abs e =>
    match fold2 n env e with
    | .error err => .error err
    | .ok (.str _, _) => .error .typeMismatch
    | .ok (.num x, env1) => .ok (.num (NumOps.abs x), env1)
  | n, env, .int e =>
    match fold2 n env e with
    | .error err => .error err
    | .ok (.str _, _) => .error .typeMismatch
    | .ok (.num x, env1) => .ok (.num (NumOps.floor x), env1)
  | n, env, .rnd e =>
    match fold2 n env e with
    | .error err => .error err
    | .ok (.str _, _) => .error .typeMismatch
    | .ok (.num x, env1) => rndStep env1 x
  | n, env, .cell name idx =>
    match foldIdx n env idx with
    | .error err => .error err
    | .ok (is, env1) => readCell env1 name is
  | n, env, .call f args =>
    match alGet f env.fns with
    | none =>
      -- not a function: an array element
      match foldIdx n env args with
      | .error err => .error err
      | .ok (is, env1) => readCell env1 f is
    | some d =>
      match bindArgs2 n env d.params args [] with
      | .error err => .error err
      | .ok (b, env1) =>
        if env1.frames.length == Extracted.stackLimit then .error .oomStack
        else
          match n with
          | 0 => .error .outOfFuel
          | n' + 1 =>
            match fold2 n' { env1 with frames := b :: env1.frames } d.body with
            | .error err => .error err
            | .ok (v, env2) => .ok (v, { env2 with frames := env1.frames })
termination_by n _ e => (n, sizeOf e)
/-- subscripts: each is evaluated and converted before the next; none at all is a syntax error -/
def foldIdx : Nat → RefEnv F → List (Expr2 F) → Except Err (List Nat × RefEnv F)
  | _, _, [] => .error (.syntax .unexpectedToken)
  | n, env, e :: es =>
    match fold2 n env e with
    | .error err => .error err
    | .ok (v, env1) =>
      match subscript v with
      | .error err => .error err
      | .ok i =>
        match es with
        | [] => .ok ([i], env1)
        | e' :: es' =>
          match foldIdx n env1 (e' :: es') with
          | .error err => .error err
          | .ok (is, env2) => .ok (i :: is, env2)
termination_by n _ es => (n, sizeOf es)
/-- arguments: each is evaluated and checked against its parameter's kind before
    the next; too few or too many arguments are the syntax errors of a missing
    `,` resp. `)` -/
def bindArgs2 : Nat → RefEnv F → List Str → List (Expr2 F) → List (Str × Value F) →
    Except Err (List (Str × Value F) × RefEnv F)
  | _, env, [], [], acc => .ok (acc, env)
  | _, _, [], _ :: _, _ => .error (.syntax (.expectedToken .RightParen))
  | _, _, _ :: _, [], [] => .error (.syntax .unexpectedToken)
  | _, _, _ :: _, [], _ :: _ => .error (.syntax (.expectedToken .Comma))
  | n, env, p :: ps, a :: as, acc =>
    match fold2 n env a with
    | .error err => .error err
    | .ok (v, env1) =>
      if v.matchesName p then bindArgs2 n env1 ps as (alSet p v acc) else .error .typeMismatch
termination_by n _ _ as _ => (n, sizeOf as)
end

/-! ### rendering with minimal parentheses -/

def Expr2.prec : Expr2 F → Nat
  | .bin op _ _ => BinOp.prec op
  | .un _ _ => 7
  | _ => 8

mutual
/-- tokens of `e` in a context that needs binding strength at least `p` -/
def renderAt2 (p : Nat) : Expr2 F → List (Token F)
  | e => if e.prec < p then .kw .LeftParen :: render2 e ++ [.kw .RightParen] else render2 e
termination_by e => (sizeOf e, 1)
/-- tokens of `e` with minimal parentheses (as `render`); subscripts and
    arguments are separated by commas -/
def render2 : Expr2 F → List (Token F)
  | .num x => [.num x]
  | .str s => [.str s]
  | .var n => [.symbol n]
  | .un op e => .kw (UnOp.token op) :: renderAt2 8 e
  | .bin op l r => renderAt2 (BinOp.prec op) l ++ .kw (BinOp.token op) :: renderAt2 (BinOp.prec op + 1) r
  | .paren e => .kw .LeftParen :: render2 e ++ [.kw .RightParen]
  | .abs e => .symbol Extracted.builtinAbs.toList :: .kw .LeftParen :: render2 e ++ [.kw .RightParen]
  | .int e => .symbol Extracted.builtinInt.toList :: .kw .LeftParen :: render2 e ++ [.kw .RightParen]
  | .rnd e => .symbol Extracted.builtinRnd.toList :: .kw .LeftParen :: render2 e ++ [.kw .RightParen]
  | .cell name idx => .symbol name :: .kw .LeftParen :: renderArgs idx ++ [.kw .RightParen]
  | .call f args => .symbol f :: .kw .LeftParen :: renderArgs args ++ [.kw .RightParen]
termination_by e => (sizeOf e, 0)
def renderArgs : List (Expr2 F) → List (Token F)
  | [] => []
  | [e] => render2 e
  | e :: e' :: es => render2 e ++ .kw .Comma :: renderArgs (e' :: es)
termination_by es => (sizeOf es, 0)
end

def Expr2.text (e : Expr2 F) : Str := joinWith [' '] ((render2 e).map Token.render)

/-! ### side conditions of `eval_render2` -/

/-- the names with a built-in meaning before `(` -/
def reserved (name : Str) : Bool :=
  name == Extracted.builtinAbs.toList || name == Extracted.builtinInt.toList ||
  name == Extracted.builtinRnd.toList

mutual
/-- names are used consistently with the function table: an array is not named
    like a built-in or a defined function, a called function is not named like a
    built-in (an undefined one is read as an array, as the interpreter does) -/
def Resolved (fns : List (Str × FnDefSpec F)) : Expr2 F → Prop
  | .num _ => True
  | .str _ => True
  | .var _ => True
  | .un _ e => Resolved fns e
  | .bin _ l r => Resolved fns l ∧ Resolved fns r
  | .paren e => Resolved fns e
  | .abs e => Resolved fns e
  | .int e => Resolved fns e
  | .rnd e => Resolved fns e
  | .cell name idx => reserved name = false ∧ alGet name fns = none ∧ ResolvedL fns idx
  | .call f args => reserved f = false ∧ ResolvedL fns args
def ResolvedL (fns : List (Str × FnDefSpec F)) : List (Expr2 F) → Prop
  | [] => True
  | e :: es => Resolved fns e ∧ ResolvedL fns es
end

mutual
/-- how many levels of `evaluate_expression` nest while `e` is evaluated
    (parentheses, built-in arguments, subscripts, arguments, function bodies);
    `n` is the fuel of `fold2` -/
def depth2 (fns : List (Str × FnDefSpec F)) : Nat → Expr2 F → Nat
  | _, .num _ => 0
  | _, .str _ => 0
  | _, .var _ => 0
  | n, .paren e => depth2 fns n e + 1
  | n, .abs e => depth2 fns n e + 1
  | n, .int e => depth2 fns n e + 1
  | n, .rnd e => depth2 fns n e + 1
  | n, .un _ e => if e.prec < 8 then depth2 fns n e + 1 else depth2 fns n e
  | n, .bin op l r =>
    max (if l.prec < BinOp.prec op then depth2 fns n l + 1 else depth2 fns n l)
        (if r.prec < BinOp.prec op + 1 then depth2 fns n r + 1 else depth2 fns n r)
  | n, .cell _ idx => depthArgs fns n idx
  | n, .call f args =>
    max (depthArgs fns n args)
      (match alGet f fns, n with
       | some d, n' + 1 => depth2 fns n' d.body + 1
       | _, _ => 0)
termination_by n e => (n, sizeOf e)
def depthArgs (fns : List (Str × FnDefSpec F)) : Nat → List (Expr2 F) → Nat
  | _, [] => 1
  | n, e :: es => max (depth2 fns n e + 1) (depthArgs fns n es)
termination_by n es => (n, sizeOf es)
end

end Abasic.Ref
