import Abasic.Interp
/-
  Spec side of C02: expression syntax trees, their value by a fold in the
  number carrier's arithmetic, and their rendering as tokens with minimal
  parentheses.  Written from the language rules (precedence, associativity,
  typing), independently of the token-cursor mechanics of Expr.lean.
-/
namespace Abasic.Ref
open Abasic

inductive Expr (F : Type) where
  | num (x : F)
  | str (s : Str)
  | var (name : Str)
  | un (op : UnOp) (e : Expr F)
  | bin (op : BinOp) (l r : Expr F)
  | paren (e : Expr F)
  | abs (e : Expr F)
  | int (e : Expr F)

variable {F : Type} [NumOps F]

/-- The value of an expression: strict, left to right. -/
def foldE (env : Str → Value F) : Expr F → Except Err (Value F)
  | .num x => .ok (.num x)
  | .str s => .ok (.str s)
  | .var n => .ok (env n)
  | .un op e =>
    match foldE env e with
    | .ok v => op.eval v
    | .error err => .error err
  | .bin op l r =>
    match foldE env l with
    | .error err => .error err
    | .ok a =>
      match foldE env r with
      | .error err => .error err
      | .ok b => op.eval a b
  | .paren e => foldE env e
  | .abs e =>
    match foldE env e with
    | .ok (.num x) => .ok (.num (NumOps.abs x))
    | .ok (.str _) => .error .typeMismatch
    | .error err => .error err
  | .int e =>
    match foldE env e with
    | .ok (.num x) => .ok (.num (NumOps.floor x))
    | .ok (.str _) => .error .typeMismatch
    | .error err => .error err

/-- binding strength: OR 1, AND 2, comparisons 3, + - 4, * / 5, ^ 6, unary 7, atoms 8 -/
def BinOp.prec : BinOp → Nat
  | .or => 1
  | .and => 2
  | .cmp _ => 3
  | .add => 4
  | .sub => 4
  | .mul => 5
  | .div => 5
  | .pow => 6

def Expr.prec : Expr F → Nat
  | .bin op _ _ => BinOp.prec op
  | .un _ _ => 7
  | _ => 8

def BinOp.token : BinOp → Kw
  | .or => .Or
  | .and => .And
  | .cmp .eq => .Equals
  | .cmp .lt => .LessThan
  | .cmp .le => .LessThanOrEqualTo
  | .cmp .gt => .GreaterThan
  | .cmp .ge => .GreaterThanOrEqualTo
  | .cmp .ne => .NotEquals
  | .add => .Plus
  | .sub => .Minus
  | .mul => .Multiply
  | .div => .Divide
  | .pow => .Caret

def UnOp.token : UnOp → Kw
  | .pos => .Plus
  | .neg => .Minus
  | .not => .Not

mutual
/-- tokens of `e` in a context that needs binding strength at least `p` -/
def renderAt (p : Nat) : Expr F → List (Token F)
  | e => if e.prec < p then .kw .LeftParen :: render e ++ [.kw .RightParen] else render e
termination_by e => (sizeOf e, 1)
/-- tokens of `e` with minimal parentheses: a left operand may have the same
    strength as its operator (left associativity), a right operand must bind
    tighter; a unary operator applies to an atom. -/
def render : Expr F → List (Token F)
  | .num x => [.num x]
  | .str s => [.str s]
  | .var n => [.symbol n]
  | .un op e => .kw (UnOp.token op) :: renderAt 8 e
  | .bin op l r => renderAt (BinOp.prec op) l ++ .kw (BinOp.token op) :: renderAt (BinOp.prec op + 1) r
  | .paren e => .kw .LeftParen :: render e ++ [.kw .RightParen]
  | .abs e => .symbol Extracted.builtinAbs.toList :: .kw .LeftParen :: render e ++ [.kw .RightParen]
  | .int e => .symbol Extracted.builtinInt.toList :: .kw .LeftParen :: render e ++ [.kw .RightParen]
termination_by e => (sizeOf e, 0)
end

def Expr.text (e : Expr F) : Str := joinWith [' '] ((render e).map Token.render)

end Abasic.Ref
