import Abasic.Text
/- line_number_parser.rs -/
namespace Abasic

def digitsValue : Str → Nat → Nat
  | [], acc => acc
  | c :: cs, acc => digitsValue cs (acc * 10 + (c.toNat - '0'.toNat))

def takeDigits : Str → Str × Str
  | [] => ([], [])
  | c :: cs => if isAsciiDigit c then let (d, r) := takeDigits cs; (c :: d, r) else ([], c :: cs)

/-- `parse_line_number`: skips ASCII white space, reads a run of ASCII digits,
    parses it as `u64`.  Returns the number and the byte index just after the
    last digit. -/
def parseLineNumberAux : Str → Nat → Option (Nat × Nat)
  | [], _ => none
  | c :: cs, skipped =>
    if isAsciiDigit c then
      let (d, _) := takeDigits (c :: cs)
      let v := digitsValue d 0
      if v < 2 ^ 64 then some (v, skipped + d.length) else none
    else if isAsciiWs c then parseLineNumberAux cs (skipped + 1)
    else none

def parseLineNumber (s : Str) : Option (Nat × Nat) := parseLineNumberAux s 0

end Abasic
