import Abasic.Interp
/-
  analyzer/*: the static analyzer.  It walks the same token cursor as the
  interpreter (both own a `Program`), computing value TYPES instead of values,
  recording symbol accesses, and mapping diagnostics back to file positions.
-/
namespace Abasic
variable {F : Type} [NumOps F]
open M

/-- analyzer/value_type.rs -/
inductive VT where
  | str | num
  deriving DecidableEq, Repr, Inhabited

def VT.ofName (name : Str) : VT := if endsWithDollar name then .str else .num

def VT.check (a expected : VT) : M F VT :=
  if a == expected then pure expected else fail .typeMismatch

def VT.checkNumber (a : VT) : M F VT := VT.check a .num

structure AEvals (F : Type) where
  expr : M F VT
  stmt : M F Unit

/-- `SymbolAccessMap::log_access` (the location must be numbered: `unwrap`) -/
def logAccess (sym : Str) (loc : Loc) (a : Access) : M F Unit := do
  match loc.line with
  | none => rpanic "log_access: unwrap on a non-numbered location"
  | some n => modify fun s => { s with accesses := s.accesses ++ [(sym, n, loc.idx, a)] }

def prevLoc : M F Loc := do
  let s ← get
  pure s.prevLoc

def aArrayIndexLoop (ev : AEvals F) : Nat → Nat → M F Nat
  | 0, _ => fail .outOfFuel
  | n + 1, arity => do
    let t ← ev.expr
    let _ ← VT.checkNumber (F := F) t
    if ← accept .Comma then aArrayIndexLoop ev n (arity + 1) else pure (arity + 1)

/-- `ExpressionAnalyzer::evaluate_array_index` -/
def aArrayIndex (ev : AEvals F) : M F Nat := do
  expect .LeftParen
  let b ← lineBudget
  let arity ← aArrayIndexLoop ev b 0
  expect .RightParen
  pure arity

def aNumberFunctionArg (ev : AEvals F) : M F VT := do
  expect .LeftParen
  let t ← ev.expr
  let r ← VT.checkNumber (F := F) t
  expect .RightParen
  pure r

def aBindArgs (ev : AEvals F) (arity : Nat) : List Str → Nat → M F Unit
  | [], _ => pure ()
  | a :: rest, i => do
    let t ← ev.expr
    let _ ← VT.check (F := F) t (VT.ofName a)
    if i + 1 < arity then expect .Comma
    aBindArgs ev arity rest (i + 1)

def aUserFunctionCall (ev : AEvals F) (name : Str) (loc : Loc) : M F (Option VT) := do
  let s ← get
  match alGet name s.fns with
  | none => pure none
  | some d =>
    logAccess name loc .read
    expect .LeftParen
    aBindArgs ev d.args.length d.args 0
    expect .RightParen
    pure (some (VT.ofName name))

def aFunctionCall (ev : AEvals F) (name : Str) (loc : Loc) : M F (Option VT) := do
  if name == Extracted.builtinAbs.toList || name == Extracted.builtinInt.toList || name == Extracted.builtinRnd.toList then
    let t ← aNumberFunctionArg ev
    pure (some t)
  else aUserFunctionCall ev name loc

def aTerm (ev : AEvals F) : M F VT := do
  match ← nextUnwrapped with
  | .str _ => pure .str
  | .num _ => pure .num
  | .symbol sym =>
    let loc ← prevLoc
    if ← peekIsKw .LeftParen then
      match ← aFunctionCall ev sym loc with
      | some t => pure t
      | none =>
        let _ ← aArrayIndex ev
        logAccess sym loc .read
        pure (VT.ofName sym)
    else
      logAccess sym loc .read
      pure (VT.ofName sym)
  | _ => fail (.syntax .unexpectedToken)

def aParen (ev : AEvals F) : M F VT := do
  if ← accept .LeftParen then
    let t ← ev.expr
    expect .RightParen
    pure t
  else aTerm ev

def aUnary (ev : AEvals F) : M F VT := do
  let op ← tryNext (UnOp.ofToken (F := F))
  let t ← aParen ev
  match op with
  | some .pos => pure t
  | some .neg => VT.checkNumber t
  | some .not => pure .num
  | none => pure t

inductive ATier where
  | arith | cmp | logic
  deriving DecidableEq

/-- one analyzer tier: the three kinds of type rule -/
def aLevelLoop (sub : M F VT) (ops : Token F → Option BinOp) (tier : ATier) : Nat → VT → M F VT
  | 0, _ => fail .outOfFuel
  | n + 1, v => do
    match ← tryNext ops with
    | none => pure v
    | some _ =>
      let r ← sub
      match tier with
      | .arith =>
        let _ ← VT.checkNumber (F := F) v
        let _ ← VT.checkNumber (F := F) r
        aLevelLoop sub ops tier n v
      | .cmp =>
        let _ ← VT.check (F := F) v r
        aLevelLoop sub ops tier n .num
      | .logic => aLevelLoop sub ops tier n .num

def aLevel (sub : M F VT) (ops : Token F → Option BinOp) (tier : ATier) : M F VT := do
  let v ← sub
  let b ← lineBudget
  aLevelLoop sub ops tier b v

def aOrExpr (ev : AEvals F) : M F VT :=
  aLevel (aLevel (aLevel (aLevel (aLevel (aLevel (aUnary ev) powOps .arith) mulOps .arith) addOps .arith) cmpOps .cmp)
    andOps .logic) orOps .logic

def aExprBody (ev : AEvals F) : M F VT := nested (aOrExpr ev)

/-! statement_analyzer.rs -/

structure ALValue where
  name : Str
  loc : Loc
  arity : Option Nat

def aOptionalArrayIndex (ev : AEvals F) : M F (Option Nat) := do
  if ← peekIsKw .LeftParen then
    let a ← aArrayIndex ev
    pure (some a)
  else pure none

def aAssignValue (lv : ALValue) (r : VT) : M F Unit := do
  logAccess lv.name lv.loc .write
  let _ ← VT.check (F := F) (VT.ofName lv.name) r
  pure ()

def aAssignment (ev : AEvals F) (name : Str) : M F Unit := do
  let loc ← prevLoc
  let arity ← aOptionalArrayIndex ev
  expect .Equals
  let t ← ev.expr
  aAssignValue { name := name, loc := loc, arity := arity } t

def aLet (ev : AEvals F) : M F Unit := do
  match ← next with
  | some (.symbol name) => aAssignment ev name
  | _ => fail (.syntax .unexpectedToken)

def aParseLValue (ev : AEvals F) : M F ALValue := do
  match ← next with
  | some (.symbol name) =>
    let loc ← prevLoc
    let arity ← aOptionalArrayIndex ev
    pure { name := name, loc := loc, arity := arity }
  | _ => fail (.syntax .unexpectedToken)

def aReadLoop (ev : AEvals F) : Nat → M F Unit
  | 0 => fail .outOfFuel
  | n + 1 => do
    let lv ← aParseLValue ev
    aAssignValue lv (VT.ofName lv.name)
    if ← accept .Comma then aReadLoop ev n else pure ()

def aGotoOrGosub : M F Unit := do
  match ← next with
  | some (.num x) =>
    let s ← get
    if s.lines.has (NumOps.toU64 x) then pure () else fail .undefinedStatement
  | _ => fail .undefinedStatement

def aStatementOrGoto (ev : AEvals F) : M F Unit := do
  match ← peek with
  | some (.num _) => aGotoOrGosub
  | _ => nested ev.stmt

def aIf (ev : AEvals F) : M F Unit := do
  let _ ← ev.expr
  expect .Then
  aStatementOrGoto ev
  if ← accept .Else then aStatementOrGoto ev

def aPrintLoop (ev : AEvals F) : Nat → M F Unit
  | 0 => fail .outOfFuel
  | n + 1 => do
    match ← peek with
    | none => pure ()
    | some t =>
      if t.isKw .Colon || t.isKw .Else then pure ()
      else if t.isKw .Semicolon || t.isKw .Comma then do
        let _ ← next
        aPrintLoop ev n
      else do
        let _ ← ev.expr
        aPrintLoop ev n

def aFor (ev : AEvals F) : M F Unit := do
  match ← next with
  | some (.symbol sym) =>
    let loc ← prevLoc
    logAccess sym loc .write
    let _ ← VT.checkNumber (F := F) (VT.ofName sym)
    expect .Equals
    let a ← ev.expr
    let _ ← VT.checkNumber (F := F) a
    expect .To
    let b ← ev.expr
    let _ ← VT.checkNumber (F := F) b
    if ← accept .Step then
      let c ← ev.expr
      let _ ← VT.checkNumber (F := F) c
      pure ()
  | _ => fail (.syntax .unexpectedToken)

def aNext : M F Unit := do
  match ← next with
  | some (.symbol sym) =>
    let loc ← prevLoc
    logAccess sym loc .read
    let _ ← VT.checkNumber (F := F) (VT.ofName sym)
    pure ()
  | _ => fail (.syntax .unexpectedToken)

def aDef (ev : AEvals F) : M F Unit := do
  match ← next with
  | some (.symbol fname) =>
    let loc ← prevLoc
    logAccess fname loc .write
    expect .LeftParen
    let b ← lineBudget
    let args ← defArgsLoop b []
    expect .Equals
    defineFunction fname args
    let t ← ev.expr
    let _ ← VT.check (F := F) t (VT.ofName fname)
    pure ()
  | _ => fail (.syntax .unexpectedToken)

/-- `StatementAnalyzer::evaluate_statement` -/
def aStmtBody (ev : AEvals F) : M F Unit := do
  match ← next with
  | none => pure ()
  | some (.remark _) => pure ()
  | some (.data _) => pure ()
  | some (.symbol name) => aAssignment ev name
  | some (.kw k) =>
    match k with
    | .Stop => pure ()
    | .Dim => do
      let lv ← aParseLValue ev
      logAccess lv.name lv.loc .write
    | .Print => do
      let b ← lineBudget
      aPrintLoop ev b
    | .QuestionMark => do
      let b ← lineBudget
      aPrintLoop ev b
    | .Input => do
      let lv ← aParseLValue ev
      logAccess lv.name lv.loc .write
    | .If => aIf ev
    | .Goto => aGotoOrGosub
    | .Gosub => aGotoOrGosub
    | .Return => pure ()
    | .End => pure ()
    | .For => aFor ev
    | .Next => aNext
    | .Restore => modify fun s => { s with data := none }
    | .Def => aDef ev
    | .Read => do
      let b ← lineBudget
      aReadLoop ev b
    | .Colon => pure ()
    | .Let => aLet ev
    | _ => fail (.syntax .unexpectedToken)
  | some _ => fail (.syntax .unexpectedToken)

def aEvalN : Nat → AEvals F
  | 0 => { expr := fail .outOfFuel, stmt := fail .outOfFuel }
  | n + 1 => { expr := aExprBody (aEvalN n), stmt := aStmtBody (aEvalN n) }

/-! source_map.rs, diagnostic_message.rs, source_file_analyzer.rs -/

structure LineRanges where
  lineNumberEnd : Nat := 0
  tokenRanges : Option (List (Nat × Nat)) := none
  tokErrRange : Option (Nat × Nat) := none
  deriving Repr, Inhabited

structure FileMap where
  /-- `basic_lines_to_file_lines` (later insertions win) -/
  basicToFile : List (Nat × Nat) := []
  ranges : List LineRanges := []

def FileMap.lookup (m : FileMap) (n : Nat) : Option Nat :=
  (m.basicToFile.reverse.find? (·.1 == n)).map (·.2)

/-- `map_location_to_source` -/
def FileMap.mapLoc (m : FileMap) (loc : Loc) : Option (Nat × Nat × Nat) :=
  match loc.line with
  | none => none
  | some n =>
    match m.lookup n with
    | none => none
    | some f =>
      match m.ranges[f]? with
      | none => none  -- (an index panic in Rust; the file line always exists)
      | some r =>
        match r.tokenRanges with
        | none => none
        | some trs =>
          let i := if loc.idx == trs.length && !trs.isEmpty then trs.length - 1 else loc.idx
          (trs[i]?).map fun (a, b) => (f, a, b)

inductive Diag where
  | warning (fileLine : Nat) (loc : Option (Nat × Nat)) (msg : Str)
  | error (fileLine : Nat) (e : TErr)

/-- `map_to_source`; the outer `Option` is the Rust index panic -/
def FileMap.mapDiag (m : FileMap) : Diag → Option (Option (Nat × Nat × Nat))
  | .warning _ (some (n, i)) _ => some (m.mapLoc { line := some n, idx := i })
  | .warning f none _ =>
    match m.ranges[f]? with
    | none => none
    | some r => some (some (f, 0, r.lineNumberEnd))
  | .error f e =>
    match e.err with
    | .syntax (.tokenization _) =>
      match m.ranges[f]? with
      | none => none
      | some r => some (r.tokErrRange.map fun (a, b) => (f, a, b))
    | _ =>
      match e.loc with
      | some loc => some (m.mapLoc loc)
      | none => some none

structure Analysis (F : Type) where
  lines : List Str := []
  lineTokens : List (List (TokenType × Nat × Nat)) := []
  st : St F := {}
  messages : List Diag := []
  map : FileMap := {}
  /-- a Rust panic (site), if analysis hit one -/
  panicked : Option String := none

def warnLine (a : Analysis F) (i : Nat) (msg : String) : Analysis F :=
  { a with messages := a.messages ++ [.warning i none msg.toList] }

/-- the per-line part of `SourceFileAnalyzer::run` -/
def analyzeLine (a : Analysis F) (i : Nat) (line : Str) : Analysis F :=
  if line.isEmpty then
    { a with map := { a.map with ranges := a.map.ranges ++ [{}] }, lineTokens := a.lineTokens ++ [[]] }
  else
    match parseLineNumber line with
    | none =>
      warnLine { a with map := { a.map with ranges := a.map.ranges ++ [{}] }, lineTokens := a.lineTokens ++ [[]] } i
        "Line has no line number, ignoring it."
    | some (n, lnEnd) =>
      let a := if a.st.lines.has n then warnLine a i "Redefinition of pre-existing BASIC line." else a
      let numberTok : TokenType × Nat × Nat := (Extracted.numberType, 0, lnEnd)
      match tokenizeRanges (F := F) line lnEnd with
      | (toks, none) =>
        let lt := numberTok :: toks.map fun (t, x, y) => (t.tokenType, x, y)
        let rg : LineRanges := { lineNumberEnd := lnEnd, tokenRanges := some (toks.map fun (_, x, y) => (x, y)) }
        if toks.isEmpty then
          let a := warnLine a i "Line contains no statements and will not be defined."
          { a with map := { a.map with ranges := a.map.ranges ++ [rg] }, lineTokens := a.lineTokens ++ [lt] }
        else
          { a with st := a.st.setNumberedLine n (toks.map (·.1)),
                   map := { basicToFile := a.map.basicToFile ++ [(n, a.map.ranges.length)], ranges := a.map.ranges ++ [rg] },
                   lineTokens := a.lineTokens ++ [lt] }
      | (_, some e) =>
        let rg : LineRanges := { lineNumberEnd := lnEnd, tokErrRange := some (e.range line) }
        { a with messages := a.messages ++ [.error i { err := .syntax (.tokenization e) }],
                 map := { a.map with ranges := a.map.ranges ++ [rg] },
                 lineTokens := a.lineTokens ++ [[numberTok]] }

def analyzeLines (a : Analysis F) : Nat → List Str → Analysis F
  | _, [] => a
  | i, l :: ls => analyzeLines (analyzeLine a i l) (i + 1) ls

/-- the statements of the current line: `while has_next_token { evaluate_statement … }` -/
def analyzeStatements (fuel : Nat) : Nat → Analysis F → Analysis F
  | 0, a => { a with panicked := some "analyzer: iteration budget exhausted" }
  | n + 1, a =>
    match hasNext a.st with
    | .err e _ => { a with panicked := some (toString (repr e.err)) }
    | .ok false st => { a with st := st }
    | .ok true st =>
      match aStmtBody (aEvalN fuel) st with
      | .ok _ st' => analyzeStatements fuel n { a with st := st' }
      | .err e st' =>
        let e := st'.populate e
        match e.err with
        | .panic site => { a with st := st', panicked := some site }
        | _ =>
          match e.loc.bind a.map.mapLoc with
          | some (f, _, _) => { a with st := st', messages := a.messages ++ [.error f e] }
          | none => { a with st := st', panicked := some "Expected error to have a numbered program line" }

/-- `loop { statements; if !next_line { break } }` -/
def analyzeProgram (fuel : Nat) : Nat → Analysis F → Analysis F
  | 0, a => { a with panicked := some "analyzer: line budget exhausted" }
  | n + 1, a =>
    if a.panicked.isSome then a
    else
      let budget := match tokens a.st with
        | .ok ts _ => ts.length + 2
        | .err _ _ => 2
      let a := analyzeStatements fuel budget a
      if a.panicked.isSome then a
      else
        match nextLine a.st with
        | .ok true st => analyzeProgram fuel n { a with st := st }
        | .ok false st => { a with st := st }
        | .err e _ => { a with panicked := some (toString (repr e.err)) }

/-- distinct symbols in first-access order -/
def accessSymbols (acc : List (Str × Nat × Nat × Access)) : List Str :=
  acc.foldl (fun l (s, _, _, _) => if l.contains s then l else l ++ [s]) []

/-- `populate_symbol_access_warnings` (Rust iterates a hash map: order of symbols is unspecified) -/
def symbolWarnings (a : Analysis F) : Analysis F :=
  let acc := a.st.accesses
  (accessSymbols acc).foldl (fun a sym =>
    let reads := acc.filter fun (s, _, _, k) => s == sym && k == .read
    let writes := acc.filter fun (s, _, _, k) => s == sym && k == .write
    let emit (a : Analysis F) (locs : List (Str × Nat × Nat × Access)) (text : Str) : Analysis F :=
      locs.foldl (fun a (_, n, i, _) =>
        match a.map.mapLoc { line := some n, idx := i } with
        | some (f, _, _) => { a with messages := a.messages ++ [.warning f (some (n, i)) text] }
        | none => { a with panicked := some "symbol warning: unwrap on None" }) a
    if reads.isEmpty && !writes.isEmpty then emit a writes (['\''] ++ sym ++ "' is never used.".toList)
    else if writes.isEmpty && !reads.isEmpty then emit a reads (['\''] ++ sym ++ "' is never defined.".toList)
    else a) a

/-- `SourceFileAnalyzer::analyze_lines` -/
def analyzeFile (fuel : Nat) (lines : List Str) : Analysis F :=
  let a := analyzeLines ({ lines := lines } : Analysis F) 0 lines
  let a := { a with st := a.st.runFromFirst }
  let a := analyzeProgram fuel (lines.length + 2) a
  if a.panicked.isSome then a else symbolWarnings a

/-- `str::split('\n')` -/
def splitLF : Str → List Str
  | [] => [[]]
  | c :: cs =>
    match splitLF cs with
    | [] => [[]]
    | l :: ls => if c == '\n' then [] :: l :: ls else (c :: l) :: ls

/-- `SourceFileAnalyzer::analyze` -/
def analyzeText (fuel : Nat) (text : Str) : Analysis F := analyzeFile fuel (splitLF text)

/-- `into_interpreter` -/
def Analysis.intoInterpreter (a : Analysis F) : St F :=
  { lines := a.st.lines, nesting := a.st.nesting }

end Abasic
