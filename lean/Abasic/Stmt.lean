import Abasic.Expr
/- statement.rs: the statement evaluator. -/
namespace Abasic
variable {F : Type} [NumOps F]
open M

structure LValue where
  name : Str
  index : Option (List Nat)

/-- `parse_optional_array_index` -/
def optionalArrayIndex (ev : Evals F) : M F (Option (List Nat)) := do
  if ← peekIsKw .LeftParen then
    let idx ← arrayIndex ev
    pure (some idx)
  else pure none

/-- `assign_value` -/
def assignValue (lv : LValue) (v : Value F) : M F Unit :=
  match lv.index with
  | some idx => do
    warnUndeclaredArray lv.name
    arraySet lv.name idx v
  | none => setVar lv.name v

/-- `evaluate_assignment_statement` -/
def assignmentStatement (ev : Evals F) (name : Str) : M F Unit := do
  let idx ← optionalArrayIndex ev
  expect .Equals
  let v ← ev.expr
  assignValue { name := name, index := idx } v

/-- `evaluate_let_statement` -/
def letStatement (ev : Evals F) : M F Unit := do
  match ← next with
  | some (.symbol name) => assignmentStatement ev name
  | _ => fail (.syntax .unexpectedToken)

/-- `parse_lvalue` -/
def parseLValue (ev : Evals F) : M F LValue := do
  match ← next with
  | some (.symbol name) =>
    let idx ← optionalArrayIndex ev
    pure { name := name, index := idx }
  | _ => fail (.syntax .unexpectedToken)

/-- `evaluate_goto_statement` -/
def gotoStatement : M F Unit := do
  match ← next with
  | some (.num x) => gotoLine (NumOps.toU64 x)
  | _ => fail .undefinedStatement

/-- `evaluate_gosub_statement` -/
def gosubStatement : M F Unit := do
  match ← next with
  | some (.num x) => gosubLine (NumOps.toU64 x)
  | _ => fail .undefinedStatement

/-- `evaluate_statement_or_goto_line_number` -/
def statementOrGoto (ev : Evals F) : M F Unit := do
  match ← peek with
  | some (.num _) => gotoStatement
  | _ => nested ev.stmt

def ifSkipLoop (ev : Evals F) : Nat → M F Unit
  | 0 => fail .outOfFuel
  | n + 1 => do
    match ← next with
    | none => pure ()
    | some t =>
      if t.isKw .Colon then do
        discardRemaining
        ifSkipLoop ev n
      else if t.isKw .Else then statementOrGoto ev
      else ifSkipLoop ev n

/-- `evaluate_if_statement` -/
def ifStatement (ev : Evals F) : M F Unit := do
  let c ← ev.expr
  expect .Then
  if c.toBool then
    statementOrGoto ev
    if ← peekIsKw .Else then discardRemaining
  else
    let b ← lineBudget
    ifSkipLoop ev b

def readLoop (ev : Evals F) : Nat → M F Unit
  | 0 => fail .outOfFuel
  | n + 1 => do
    let lv ← parseLValue ev
    match ← nextDataElement with
    | none => fail .outOfData
    | some e =>
      let v ← liftE (Value.coerceFromData lv.name e)
      assignValue lv v
      if ← accept .Comma then readLoop ev n else pure ()

/-- `evaluate_read_statement` -/
def readStatement (ev : Evals F) : M F Unit := do
  let b ← lineBudget
  readLoop ev b

/-- `Interpreter::take_input` -/
def takeInput : M F (Option (List (DataElement F) × Bool)) := do
  let s ← get
  match s.input with
  | none => pure none
  | some text =>
    set { s with input := none }
    let (items, n) := parseData (F := F) text
    pure (some (items, decide (n < len8 text)))

/-- `rewind_program_and_await_input` -/
def rewindAndAwaitInput : M F Unit := do
  rewindBeforeInput
  modify fun s => { s with state := .awaitingInput }

/-- `evaluate_input_statement` -/
def inputStatement (ev : Evals F) : M F Unit := do
  match ← takeInput with
  | some (items, leftover) =>
    let lv ← parseLValue ev
    match items with
    | [] => rpanic "input: index out of bounds (data[0])"
    | first :: rest =>
      let excess := !rest.isEmpty || leftover
      match Value.coerceFromData lv.name first with
      | .ok v =>
        assignValue lv v
        if excess then emit .extraIgnored
      | .error .dataTypeMismatch =>
        emit .reenter
        rewindAndAwaitInput
      | .error e => fail e
  | none => rewindAndAwaitInput

/-- `evaluate_dim_statement` -/
def dimStatement (ev : Evals F) : M F Unit := do
  let lv ← parseLValue ev
  match lv.index with
  | none => pure ()
  | some idx => arrayCreate lv.name idx

def valueText : Value F → Str
  | .str s => s
  | .num x => NumOps.render x

def printLoop (ev : Evals F) : Nat → Bool → Str → M F (Bool × Str)
  | 0, _, _ => fail .outOfFuel
  | n + 1, semi, acc => do
    match ← peek with
    | none => pure (semi, acc)
    | some t =>
      if t.isKw .Colon || t.isKw .Else then pure (semi, acc)
      else if t.isKw .Semicolon then do
        let _ ← next
        printLoop ev n true acc
      else if t.isKw .Comma then do
        let _ ← next
        printLoop ev n false (acc ++ ['\t'])
      else do
        let v ← ev.expr
        printLoop ev n false (acc ++ valueText v)

/-- `evaluate_print_statement` -/
def printStatement (ev : Evals F) : M F Unit := do
  let b ← lineBudget
  let (semi, text) ← printLoop ev b false []
  emit (.print (if semi then text else text ++ ['\n']))

/-- `evaluate_for_statement` -/
def forStatement (ev : Evals F) : M F Unit := do
  match ← next with
  | some (.symbol sym) =>
    expect .Equals
    match ← ev.expr with
    | .str _ => fail .typeMismatch
    | .num fromV =>
      expect .To
      match ← ev.expr with
      | .str _ => fail .typeMismatch
      | .num toV =>
        if ← accept .Step then
          match ← ev.expr with
          | .str _ => fail .typeMismatch
          | .num stepV => startLoop sym fromV toV stepV
        else startLoop sym fromV toV NumOps.one
  | _ => fail (.syntax .unexpectedToken)

/-- `evaluate_next_statement` -/
def nextStatement : M F Unit := do
  match ← next with
  | some (.symbol sym) => endLoop sym
  | _ => fail (.syntax .unexpectedToken)

def defArgsLoop : Nat → List Str → M F (List Str)
  | 0, _ => fail .outOfFuel
  | n + 1, acc => do
    match ← next with
    | some (.symbol a) =>
      let acc := acc ++ [a]
      match ← next with
      | some t =>
        if t.isKw .Comma then defArgsLoop n acc
        else if t.isKw .RightParen then pure acc
        else fail (.syntax .unexpectedToken)
      | none => fail (.syntax .unexpectedToken)
    | _ => fail (.syntax .unexpectedToken)

def skipToColonLoop : Nat → M F Unit
  | 0 => fail .outOfFuel
  | n + 1 => do
    match ← next with
    | none => pure ()
    | some t => if t.isKw .Colon then pure () else skipToColonLoop n

/-- `evaluate_def_statement` -/
def defStatement : M F Unit := do
  match ← next with
  | some (.symbol fname) =>
    expect .LeftParen
    let b ← lineBudget
    let args ← defArgsLoop b []
    expect .Equals
    defineFunction fname args
    skipToColonLoop b
  | _ => fail (.syntax .unexpectedToken)

/-- `Interpreter::break_at_current_location` -/
def breakAtCurrentLocation : M F Unit := modify fun s =>
  ({ s with state := .idle, out := .brk s.loc.line :: s.out }).progBreak

/-- the trace record `evaluate_statement` emits before dispatching -/
def traceHere : M F Unit := do
  let s ← get
  if s.tracing then
    match s.loc.line with
    | some n => emit (.trace n)
    | none => pure ()

/-- the `match self.program().next_token()` of `evaluate_statement` -/
def dispatch (ev : Evals F) : M F Unit := do
  match ← next with
  | none => pure ()
  | some (.remark _) => pure ()
  | some (.data _) => pure ()
  | some (.symbol name) => assignmentStatement ev name
  | some (.kw k) =>
    match k with
    | .Stop => breakAtCurrentLocation
    | .Dim => dimStatement ev
    | .Print => printStatement ev
    | .QuestionMark => printStatement ev
    | .Input => inputStatement ev
    | .If => ifStatement ev
    | .Goto => gotoStatement
    | .Gosub => gosubStatement
    | .Return => returnFromGosub
    | .End => setImmediate []
    | .For => forStatement ev
    | .Next => nextStatement
    | .Restore => modify fun s => { s with data := none }
    | .Def => defStatement
    | .Read => readStatement ev
    | .Colon => pure ()
    | .Let => letStatement ev
    | _ => fail (.syntax .unexpectedToken)
  | some _ => fail (.syntax .unexpectedToken)

/-- `StatementEvaluator::evaluate_statement` -/
def stmtBody (ev : Evals F) : M F Unit := do
  traceHere
  dispatch ev

/-- Tie the knot with fuel: `evalN 0` is out of fuel, `evalN (n+1)` runs the
    bodies with `evalN n` at the recursive call sites. -/
def evalN : Nat → Evals F
  | 0 => { expr := fail .outOfFuel, stmt := fail .outOfFuel }
  | n + 1 => { expr := exprBody (evalN n), stmt := stmtBody (evalN n) }

/-- Fuel used by the executable model and the default in theorems: the nesting
    cap bounds native recursion depth, so any value above it behaves the same. -/
def defaultFuel : Nat := Extracted.nestingLimit + 8

end Abasic
