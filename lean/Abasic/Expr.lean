import Abasic.Arrays
/- expression.rs: the token-stream expression evaluator. -/
namespace Abasic
variable {F : Type} [NumOps F]
open M

/-- The two places where the Rust code recurses on the native stack
    (`evaluate_expression`, `evaluate_statement`), as parameters: open recursion. -/
structure Evals (F : Type) where
  expr : M F (Value F)
  stmt : M F Unit

def liftE {α : Type} : Except Err α → M F α
  | .ok a => pure a
  | .error e => fail e

/-- iteration budget of a loop over the current line's tokens -/
def lineBudget : M F Nat := do
  let ts ← tokens
  pure (ts.length + 1)

/-- `Interpreter::warn` -/
def warn (msg : Str) : M F Unit := do
  let s ← get
  if s.warnings then emit (.warning msg s.loc.line) else pure ()

/-- `maybe_log_warning_about_undeclared_array_use` -/
def warnUndeclaredArray (name : Str) : M F Unit := do
  let s ← get
  if s.warnings && !alHas name s.arrays then
    warn ("Use of undeclared array '".toList ++ name ++ "'.".toList)
  else pure ()

def arrayIndexLoop (ev : Evals F) : Nat → List Nat → M F (List Nat)
  | 0, _ => fail .outOfFuel
  | n + 1, acc => do
    match ← ev.expr with
    | .str _ => fail .typeMismatch
    | .num x =>
      let i := NumOps.toI64 x
      if i < 0 then fail .illegalQuantity
      else
        let acc := acc ++ [i.toNat]
        if ← accept .Comma then arrayIndexLoop ev n acc else pure acc

/-- `evaluate_array_index` -/
def arrayIndex (ev : Evals F) : M F (List Nat) := do
  expect .LeftParen
  let b ← lineBudget
  let idx ← arrayIndexLoop ev b []
  expect .RightParen
  pure idx

/-- `evaluate_unary_number_function_arg` -/
def numberFunctionArg (ev : Evals F) : M F F := do
  expect .LeftParen
  match ← ev.expr with
  | .str _ => fail .typeMismatch
  | .num x =>
    expect .RightParen
    pure x

def bindArgs (ev : Evals F) (arity : Nat) : List Str → Nat → List (Str × Value F) → M F (List (Str × Value F))
  | [], _, acc => pure acc
  | a :: rest, i, acc => do
    let v ← ev.expr
    if !v.matchesName a then fail .typeMismatch
    else
      let acc := alSet a v acc
      if i + 1 < arity then expect .Comma
      bindArgs ev arity rest (i + 1) acc

/-- `evaluate_user_defined_function_call` -/
def userFunctionCall (ev : Evals F) (name : Str) : M F (Option (Value F)) := do
  let s ← get
  match alGet name s.fns with
  | none => pure none
  | some d =>
    expect .LeftParen
    let bindings ← bindArgs ev d.args.length d.args 0 []
    expect .RightParen
    pushFunctionCall name bindings
    match ← attempt ev.expr with
    | .ok v =>
      popFunctionCall
      pure (some v)
    | .error e =>
      let s ← get
      let e := s.populate e
      popFunctionCall
      throw e

/-- `evaluate_function_call` -/
def functionCall (ev : Evals F) (name : Str) : M F (Option (Value F)) := do
  if name == Extracted.builtinAbs.toList then
    let x ← numberFunctionArg ev
    pure (some (.num (NumOps.abs x)))
  else if name == Extracted.builtinInt.toList then
    let x ← numberFunctionArg ev
    pure (some (.num (NumOps.floor x)))
  else if name == Extracted.builtinRnd.toList then
    let x ← numberFunctionArg ev
    let r ← rnd x
    pure (some (.num r))
  else userFunctionCall ev name

/-- `evaluate_expression_term` -/
def term (ev : Evals F) : M F (Value F) := do
  match ← nextUnwrapped with
  | .str s => pure (.str s)
  | .num x => pure (.num x)
  | .symbol sym =>
    if ← peekIsKw .LeftParen then
      match ← functionCall ev sym with
      | some v => pure v
      | none =>
        let idx ← arrayIndex ev
        warnUndeclaredArray sym
        arrayGet sym idx
    else
      let s ← get
      match findInStack sym s.stack with
      | some v => pure v
      | none =>
        if s.warnings && !alHas sym s.vars then
          warn ("Use of undeclared variable '".toList ++ sym ++ "'.".toList)
        pure (getVar s sym)
  | _ => fail (.syntax .unexpectedToken)

/-- `evaluate_parenthesized_expression` -/
def parenExpr (ev : Evals F) : M F (Value F) := do
  if ← accept .LeftParen then
    let v ← ev.expr
    expect .RightParen
    pure v
  else term ev

/-- `evaluate_unary_operator` -/
def unaryExpr (ev : Evals F) : M F (Value F) := do
  let op ← tryNext (UnOp.ofToken (F := F))
  let v ← parenExpr ev
  match op with
  | some o => liftE (o.eval v)
  | none => pure v

/-- One left-associative binary tier: `value = sub(); while let Some(op) = … { value = op(value, sub()) }`.
    The six near-identical Rust functions are instances of this combinator. -/
def levelLoop (sub : M F (Value F)) (ops : Token F → Option BinOp) : Nat → Value F → M F (Value F)
  | 0, _ => fail .outOfFuel
  | n + 1, v => do
    match ← tryNext ops with
    | none => pure v
    | some op =>
      let r ← sub
      let v' ← liftE (op.eval v r)
      levelLoop sub ops n v'

def level (sub : M F (Value F)) (ops : Token F → Option BinOp) : M F (Value F) := do
  let v ← sub
  let b ← lineBudget
  levelLoop sub ops b v

def powOps : Token F → Option BinOp
  | .kw .Caret => some .pow
  | _ => none
def mulOps : Token F → Option BinOp
  | .kw .Multiply => some .mul
  | .kw .Divide => some .div
  | _ => none
def addOps : Token F → Option BinOp
  | .kw .Plus => some .add
  | .kw .Minus => some .sub
  | _ => none
def cmpOps (t : Token F) : Option BinOp := (CmpOp.ofToken t).map BinOp.cmp
def andOps : Token F → Option BinOp
  | .kw .And => some .and
  | _ => none
def orOps : Token F → Option BinOp
  | .kw .Or => some .or
  | _ => none

/-- `evaluate_logical_or_expression` down to `evaluate_unary_operator` -/
def orExpr (ev : Evals F) : M F (Value F) :=
  level (level (level (level (level (level (unaryExpr ev) powOps) mulOps) addOps) cmpOps) andOps) orOps

/-- `ExpressionEvaluator::evaluate_expression`: one nesting level deeper -/
def exprBody (ev : Evals F) : M F (Value F) := nested (orExpr ev)

end Abasic
