import Abasic.Lines
/- program.rs: token cursor and runtime bookkeeping, as actions of `M`. -/
namespace Abasic
variable {F : Type} [NumOps F]
open M

namespace Value
def toBool : Value F → Bool
  | .str s => !s.isEmpty
  | .num x => NumOps.ne x NumOps.zero
def ofBool (b : Bool) : Value F := .num (NumOps.ofBool b)
def defaultFor (name : Str) : Value F :=
  if endsWithDollar name then .str [] else .num NumOps.zero
/-- `validate_type_matches_variable_name` -/
def matchesName (v : Value F) (name : Str) : Bool :=
  match v with
  | .str _ => endsWithDollar name
  | .num _ => !endsWithDollar name
/-- `coerce_from_data_element` -/
def coerceFromData (name : Str) (e : DataElement F) : Except Err (Value F) :=
  if endsWithDollar name then
    match e with
    | .str s => .ok (.str s)
    | .num x => .ok (.str (NumOps.render x))
  else
    match e with
    | .str _ => .error .dataTypeMismatch
    | .num x => .ok (.num x)
end Value

/-- `tokens_for_line` (panics when a numbered line is missing) -/
def tokensForLine (line : Option Nat) : M F (List (Token F)) := fun s =>
  match line with
  | none => .ok s.imm s
  | some n =>
    match s.lines.get n with
    | some ts => .ok ts s
    | none => .err { err := .panic "tokens_for_line: unwrap on None" } s

def tokens : M F (List (Token F)) := fun s => tokensForLine s.loc.line s

def peek : M F (Option (Token F)) := do
  modify fun s => { s with reads := s.reads + 1 }
  let ts ← tokens
  let s ← get
  pure ts[s.loc.idx]?

def advance : M F Unit := modify fun s => { s with loc := { s.loc with idx := s.loc.idx + 1 } }

/-- `next_token` -/
def next : M F (Option (Token F)) := do
  let t ← peek
  if t.isSome then advance
  pure t

def hasNext : M F Bool := do
  let t ← peek
  pure t.isSome

/-- `next_unwrapped_token` -/
def nextUnwrapped : M F (Token F) := do
  match ← next with
  | some t => pure t
  | none =>
    let s ← get
    throw { err := .syntax .unexpectedEnd, loc := some s.loc }

/-- `expect_next_token` -/
def expect (k : Kw) : M F Unit := do
  let t ← nextUnwrapped
  if t.isKw k then pure () else fail (.syntax (.expectedToken k))

/-- `accept_next_token` -/
def accept (k : Kw) : M F Bool := do
  match ← peek with
  | some t => if t.isKw k then do advance; pure true else pure false
  | none => pure false

def peekIsKw (k : Kw) : M F Bool := do
  match ← peek with
  | some t => pure (t.isKw k)
  | none => pure false

/-- `try_next_token` -/
def tryNext {α : Type} (f : Token F → Option α) : M F (Option α) := do
  match ← peek with
  | some t =>
    match f t with
    | some a => do advance; pure (some a)
    | none => pure none
  | none => pure none

/-- `discard_remaining_tokens` -/
def discardRemaining : M F Unit := do
  let ts ← tokens
  modify fun s => { s with loc := { s.loc with idx := ts.length } }

def findInputBefore (ts : List (Token F)) : Nat → Option Nat
  | 0 => none
  | i + 1 =>
    match ts[i]? with
    | some t => if t.isKw .Input then some i else findInputBefore ts i
    | none => findInputBefore ts i

/-- `rewind_before_token(Token::Input)` -/
def rewindBeforeInput : M F Unit := do
  let ts ← tokens
  let s ← get
  match findInputBefore ts s.loc.idx with
  | some i => set { s with loc := { s.loc with idx := i }, reads := s.reads + (s.loc.idx - i) }
  | none => rpanic "rewind_before_token: token not found"

/-- `set_and_goto_immediate_line` -/
def St.setImmediate (s : St F) (ts : List (Token F)) : St F :=
  { s with stack := if s.bp.isNone then [] else s.stack, imm := ts, loc := {} }

def setImmediate (ts : List (Token F)) : M F Unit := modify (·.setImmediate ts)

/-- `break_at_current_location` (program part) -/
def St.progBreak (s : St F) : St F :=
  let bp := match s.loc.line with
    | none => none
    | some n => some (n, s.loc.idx)
  ({ s with bp := bp }).setImmediate []

/-- `continue_from_breakpoint` -/
def continueFromBreakpoint : M F Unit := do
  setImmediate []
  let s ← get
  match s.bp with
  | none => fail .cannotContinue
  | some (n, i) => set { s with loc := { line := some n, idx := i }, bp := none }

/-- `remove_loop_with_name`: the most recent loop for `sym`, dropping it and
    everything opened after it. -/
def removeLoop (sym : Str) : List (LoopInfo F) → Option (LoopInfo F × List (LoopInfo F))
  | [] => none
  | l :: rest => if l.sym == sym then some (l, rest) else removeLoop sym rest

/-- `Variables::set` -/
def setVar (name : Str) (v : Value F) : M F Unit := do
  if v.matchesName name then modify fun s => { s with vars := alSet name v s.vars }
  else fail .typeMismatch

def getVar (s : St F) (name : Str) : Value F :=
  match alGet name s.vars with
  | some v => v
  | none => Value.defaultFor name

/-- `start_loop` -/
def startLoop (sym : Str) (fromV toV stepV : F) : M F Unit := do
  modify fun s =>
    match removeLoop sym s.loops with
    | some (_, rest) => { s with loops := rest }
    | none => s
  let s ← get
  if s.loops.length == Extracted.stackLimit then fail .oomStack
  else
    set { s with loops := { loc := s.loc, sym := sym, toV := toV, stepV := stepV } :: s.loops }
    setVar sym (.num fromV)

/-- `end_loop` -/
def endLoop (sym : Str) : M F Unit := do
  let s ← get
  match getVar s sym with
  | .str _ => fail .typeMismatch
  | .num cur =>
    match removeLoop sym s.loops with
    | none => fail .nextWithoutFor
    | some (info, rest) =>
      let newV := NumOps.add cur info.stepV
      let cont :=
        if NumOps.ge info.stepV NumOps.zero then NumOps.le newV info.toV
        else NumOps.ge newV info.toV
      if cont then set { s with loops := info :: rest, loc := info.loc }
      else set { s with loops := rest }
      setVar sym (.num newV)

/-- `reset_runtime_state` -/
def St.resetRuntime (s : St F) : St F :=
  ({ s with bp := none, data := none, fns := [], stack := [], loops := [] }).setImmediate []

/-- `run_from_first_numbered_line` -/
def St.runFromFirst (s : St F) : St F :=
  let s := s.resetRuntime
  match s.lines.first with
  | some n => { s with loc := { line := some n, idx := 0 } }
  | none => s

/-- `goto_line_number` -/
def gotoLine (n : Nat) : M F Unit := do
  modify fun s => { s with bp := none }
  let s ← get
  if s.lines.has n then set { s with loc := { line := some n, idx := 0 } }
  else fail .undefinedStatement

/-- `gosub_line_number` -/
def gosubLine (n : Nat) : M F Unit := do
  let s ← get
  if s.stack.length == Extracted.stackLimit then fail .oomStack
  else
    let ret := s.loc
    gotoLine n
    modify fun s => { s with stack := { ret := ret, vars := [] } :: s.stack }

/-- `return_to_last_gosub` -/
def returnFromGosub : M F Unit := do
  modify fun s => { s with bp := none }
  let s ← get
  match s.stack with
  | [] => fail .returnWithoutGosub
  | f :: rest => set { s with stack := rest, loc := f.ret }

/-- `define_function` -/
def defineFunction (name : Str) (args : List Str) : M F Unit := do
  let s ← get
  match s.loc.line with
  | none => fail .illegalDirect
  | some n => set { s with fns := alSet name { args := args, line := n, idx := s.loc.idx } s.fns }

/-- `push_function_call_onto_stack_and_goto_it` -/
def pushFunctionCall (name : Str) (bindings : List (Str × Value F)) : M F Unit := do
  let s ← get
  if s.stack.length == Extracted.stackLimit then fail .oomStack
  else
    match alGet name s.fns with
    | none => rpanic "function must exist"
    | some d =>
      set { s with stack := { ret := s.loc, vars := bindings } :: s.stack,
                   loc := { line := some d.line, idx := d.idx } }

/-- `pop_function_call_off_stack_and_return_from_it` -/
def popFunctionCall : M F Unit := do
  let s ← get
  match s.stack with
  | [] => rpanic "stack must not be empty"
  | f :: rest => set { s with stack := rest, loc := f.ret }

/-- `find_variable_value_in_stack` -/
def findInStack (name : Str) : List (Frame F) → Option (Value F)
  | [] => none
  | f :: rest =>
    match alGet name f.vars with
    | some v => some v
    | none => findInStack name rest

def St.prevLoc (s : St F) : Loc := { line := s.loc.line, idx := s.loc.idx - 1 }

/-- `get_data_location` -/
def St.dataLoc (s : St F) : Option Loc :=
  match s.data with
  | none => none
  | some it => (it.chunks[it.ci]?).map (·.1)

/-- `populate_error_location` -/
def St.populate (s : St F) (e : TErr) : TErr :=
  if e.loc.isSome then e
  else
    match e.err with
    | .dataTypeMismatch => { e with loc := s.dataLoc }
    | _ => { e with loc := some s.prevLoc }

/-- `DataIterator::next` — `fuel` bounds the number of exhausted chunks skipped -/
def DataIter.next (it : DataIter F) : Nat → Option (DataElement F) × DataIter F
  | 0 => (none, it)
  | fuel + 1 =>
    match it.chunks[it.ci]? with
    | none => (none, it)
    | some (_, items) =>
      match items[it.ii]? with
      | some e => (some e, { it with ii := it.ii + 1 })
      | none => DataIter.next { it with ii := 0, ci := it.ci + 1 } fuel

/-- `next_data_element` -/
def nextDataElement : M F (Option (DataElement F)) := do
  let s ← get
  let it ← (match s.data with
    | some it => pure it
    | none =>
      match s.lines.dataChunks with
      | some chunks => pure ({ chunks := chunks } : DataIter F)
      | none => rpanic "data_iterator: unwrap on None")
  let (e, it') := it.next (it.chunks.length + 1)
  modify fun s => { s with data := some it' }
  pure e

/-- `next_line` -/
def nextLine : M F Bool := do
  let s ← get
  match s.loc.line with
  | none => pure false
  | some n =>
    match s.lines.after n with
    | some m => do set { s with loc := { line := some m, idx := 0 } }; pure true
    | none => pure false

/-- `set_numbered_line` -/
def St.setNumberedLine (s : St F) (n : Nat) (ts : List (Token F)) : St F :=
  ({ s with lines := s.lines.set n ts, bp := none, data := none, fns := [], stack := [], loops := [] }).setImmediate []

/-- `enter_nested` / `exit_nested` -/
def enterNested : M F Unit := do
  let s ← get
  if s.nesting == Extracted.nestingLimit then fail .oomStack
  else set { s with nesting := s.nesting + 1 }

def exitNested : M F Unit := do
  let s ← get
  match s.nesting with
  | 0 => rpanic "exit_nested: attempt to subtract with overflow"
  | n + 1 => set { s with nesting := n }

/-- run `m` one nesting level deeper; the counter is restored on both paths -/
def nested {α : Type} (m : M F α) : M F α := do
  enterNested
  let r ← attempt m
  exitNested
  ofExcept r

def emit (o : Out) : M F Unit := modify fun s => { s with out := o :: s.out }

end Abasic
