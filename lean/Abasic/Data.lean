import Abasic.Token
/- data.rs: the DATA item parser (`DataParser`, `parse_data_until_colon`). -/
namespace Abasic
variable {F : Type} [NumOps F]

structure DataParser (F : Type) where
  inQuote : Bool := false
  elements : List (DataElement F) := []
  chomped : Nat := 0
  cur : Str := []
  finished : Bool := false

namespace DataParser

/-- `push_current_element` -/
def pushCurrent (p : DataParser F) : DataParser F :=
  let e : DataElement F :=
    if !p.inQuote then
      let t := trim p.cur
      match NumOps.parse (F := F) t with
      | some x => .num x
      | none => .str t
    else .str p.cur
  { p with cur := [], elements := p.elements ++ [e] }

/-- `finish` (with the trimmed-emptiness test) -/
def finish (p : DataParser F) : DataParser F :=
  if p.finished then p
  else
    let p :=
      if !(trim p.cur).isEmpty then p.pushCurrent
      else if p.elements.isEmpty then p.pushCurrent
      else p
    { p with finished := true }

/-- `parse_char` -/
def parseChar (p : DataParser F) (c : Char) : DataParser F :=
  let p :=
    if !p.inQuote then
      if c == ':' then p.finish
      else if c == ',' then
        if !(trim p.cur).isEmpty then p.pushCurrent else p
      else if c == '"' then
        if (trim p.cur).isEmpty then { p with cur := [], inQuote := true }
        else { p with cur := p.cur ++ [c] }
      else { p with cur := p.cur ++ [c] }
    else
      if c == '"' then { p.pushCurrent with inQuote := false }
      else { p with cur := p.cur ++ [c] }
  if !p.finished then { p with chomped := p.chomped + c.utf8Size } else p

def run : DataParser F → Str → DataParser F
  | p, [] => p
  | p, c :: cs =>
    let p := p.parseChar c
    if p.finished then p else run p cs

end DataParser

/-- `parse_data_until_colon`: the items and the number of bytes consumed
    (everything before the terminating colon, or the whole text). -/
def parseData (s : Str) : List (DataElement F) × Nat :=
  let p := (DataParser.run ({} : DataParser F) s).finish
  (p.elements, p.chomped)

end Abasic
