import Abasic.Extracted
import Abasic.Num
import Abasic.Text
/-
  Tokens (tokenizer.rs `enum Token`, data.rs `DataElement`) and their `Display`.
  The 39 payload-free variants are `Token.kw k` with `k : Kw` generated from the
  Rust enum; tables about them live in `Extracted`.
-/
namespace Abasic

inductive DataElement (F : Type) where
  | str (s : Str)
  | num (x : F)
  deriving Inhabited

inductive Token (F : Type) where
  | kw (k : Kw)
  | remark (s : Str)
  | symbol (s : Str)
  | str (s : Str)
  | num (x : F)
  | data (items : List (DataElement F))
  deriving Inhabited

namespace Token
variable {F : Type}

def isKw (t : Token F) (k : Kw) : Bool :=
  match t with
  | .kw k' => k == k'
  | _ => false

def tokenType : Token F → TokenType
  | .kw k => Extracted.kwType k
  | .remark _ => Extracted.remarkType
  | .symbol _ => Extracted.symbolType
  | .str _ => Extracted.stringType
  | .num _ => Extracted.numberType
  | .data _ => Extracted.dataType
end Token

variable {F : Type} [NumOps F]

def joinWith (sep : Str) : List Str → Str
  | [] => []
  | [a] => a
  | a :: b :: rest => a ++ sep ++ joinWith sep (b :: rest)

/-- data.rs `data_elements_to_string` -/
def DataElement.render : DataElement F → Str
  | .str s => if s.contains '"' then s else '"' :: s ++ ['"']
  | .num x => NumOps.render x

def renderData (items : List (DataElement F)) : Str :=
  joinWith [',', ' '] (items.map DataElement.render)

/-- `impl Display for Token` -/
def Token.render : Token F → Str
  | .kw k => (Extracted.kwSpelling k).toList
  | .remark s => Extracted.remKeyword.toList ++ s
  | .symbol s => s
  | .str s => '"' :: s ++ ['"']
  | .num x => NumOps.render x
  | .data items => Extracted.dataKeyword.toList ++ ' ' :: renderData items

end Abasic
