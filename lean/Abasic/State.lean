import Abasic.Tokenizer
/-
  Interpreter state (interpreter.rs `Interpreter`, program.rs `Program`,
  program_lines.rs, variables.rs, arrays.rs, data.rs `DataIterator`),
  errors (interpreter_error.rs, syntax_error.rs) and the evaluation monad.

  One structure `St` holds everything; the analyzer (which owns a `Program` and
  a symbol-access table in Rust) uses the same structure with the interpreter
  fields left at their defaults.
-/
namespace Abasic

inductive SynErr where
  | tokenization (e : TokErr)
  | unexpectedToken
  | expectedToken (k : Kw)
  | unexpectedEnd
  deriving DecidableEq, Repr, Inhabited

inductive Err where
  | syntax (e : SynErr)
  | typeMismatch
  | dataTypeMismatch
  | undefinedStatement
  | oomStack
  | oomArray
  | outOfData
  | returnWithoutGosub
  | nextWithoutFor
  | badSubscript
  | illegalQuantity
  | unimplemented
  | divisionByZero
  | redimensionedArray
  | cannotContinue
  | illegalDirect
  /-- a Rust `panic!`/`unwrap`/`assert!`/overflow site, made a value -/
  | panic (site : String)
  /-- the model's recursion fuel or an iteration budget ran out -/
  | outOfFuel
  deriving DecidableEq, Repr, Inhabited

def Err.isPanic : Err → Bool
  | .panic _ => true
  | _ => false

/-- `ProgramLocation`: `line = none` is the immediate line. -/
structure Loc where
  line : Option Nat := none
  idx : Nat := 0
  deriving DecidableEq, Repr, Inhabited

/-- `TracedInterpreterError` (without the backtrace) -/
structure TErr where
  err : Err
  loc : Option Loc := none
  deriving DecidableEq, Repr, Inhabited

inductive Value (F : Type) where
  | str (s : Str)
  | num (x : F)
  deriving Inhabited

inductive IState where
  | idle | running | awaitingInput | newRequested
  deriving DecidableEq, Repr, Inhabited

inductive Out where
  | print (s : Str)
  | brk (line : Option Nat)
  | warning (msg : Str) (line : Option Nat)
  | trace (line : Nat)
  | extraIgnored
  | reenter
  /-- INTERNALS / STATS output: text not modelled -/
  | opaque
  deriving DecidableEq, Repr, Inhabited

structure Frame (F : Type) where
  ret : Loc
  vars : List (Str × Value F)

structure LoopInfo (F : Type) where
  loc : Loc
  sym : Str
  toV : F
  stepV : F

structure FnDef where
  args : List Str
  line : Nat
  idx : Nat
  deriving DecidableEq, Repr, Inhabited

structure DataIter (F : Type) where
  chunks : List (Loc × List (DataElement F))
  ci : Nat := 0
  ii : Nat := 0

/-- arrays.rs `ValueArray` / `DimArray` -/
inductive ArrayV (F : Type) where
  | strs (dims : List Nat) (cells : List Str)
  | nums (dims : List Nat) (cells : List F)

/-- program_lines.rs: both indexes are modelled. -/
structure Lines (F : Type) where
  /-- `numbered_lines: HashMap<u64, Vec<Token>>` as an association list -/
  map : List (Nat × List (Token F)) := []
  /-- `sorted_line_numbers: BTreeSet<u64>` as an ascending list -/
  sorted : List Nat := []

inductive Access where
  | read | write
  deriving DecidableEq, Repr, Inhabited

structure St (F : Type) where
  -- Program
  lines : Lines F := {}
  imm : List (Token F) := []
  loc : Loc := {}
  bp : Option (Nat × Nat) := none
  /-- `stack: Vec<StackFrame>`, top of stack first -/
  stack : List (Frame F) := []
  /-- `loop_stack: Vec<LoopInfo>`, most recent first -/
  loops : List (LoopInfo F) := []
  data : Option (DataIter F) := none
  fns : List (Str × FnDef) := []
  nesting : Nat := 0
  -- Interpreter
  input : Option Str := none
  /-- `output: Vec<InterpreterOutput>`, newest first -/
  out : List Out := []
  state : IState := .idle
  rng : Nat := 0
  vars : List (Str × Value F) := []
  arrays : List (Str × ArrayV F) := []
  warnings : Bool := false
  tracing : Bool := false
  -- Analyzer: symbol accesses in program order (symbol, line, token index, kind)
  accesses : List (Str × Nat × Nat × Access) := []
  /-- number of token-cursor reads so far (the `verif-hooks` counter) -/
  reads : Nat := 0

inductive Res (F : Type) (α : Type) where
  | ok (a : α) (s : St F)
  | err (e : TErr) (s : St F)

/-- The evaluation monad: state plus errors that keep the state at the point
    of failure (as the Rust code does). -/
def M (F : Type) (α : Type) : Type := St F → Res F α

namespace M
variable {F : Type} {α β : Type}

@[inline] def pureM (a : α) : M F α := fun s => .ok a s
@[inline] def bindM (m : M F α) (f : α → M F β) : M F β := fun s =>
  match m s with
  | .ok a s' => f a s'
  | .err e s' => .err e s'

instance : Monad (M F) where
  pure := M.pureM
  bind := M.bindM

@[inline] def get : M F (St F) := fun s => .ok s s
@[inline] def set (s : St F) : M F Unit := fun _ => .ok () s
@[inline] def modify (f : St F → St F) : M F Unit := fun s => .ok () (f s)
@[inline] def throw (e : TErr) : M F α := fun s => .err e s
@[inline] def fail (e : Err) : M F α := fun s => .err { err := e } s
@[inline] def rpanic (site : String) : M F α := fun s => .err { err := .panic site } s

/-- run `m`; whatever happens, hand its outcome to the continuation
    (the `let result = …; cleanup; result` idiom). -/
@[inline] def attempt (m : M F α) : M F (Except TErr α) := fun s =>
  match m s with
  | .ok a s' => .ok (.ok a) s'
  | .err e s' => .ok (.error e) s'

@[inline] def ofExcept : Except TErr α → M F α
  | .ok a => pureM a
  | .error e => throw e

end M

/-! ### association lists standing in for hash maps -/

def alGet {β : Type} (k : Str) : List (Str × β) → Option β
  | [] => none
  | (k', v) :: rest => if k' == k then some v else alGet k rest

def alSet {β : Type} (k : Str) (v : β) : List (Str × β) → List (Str × β)
  | [] => [(k, v)]
  | (k', v') :: rest => if k' == k then (k, v) :: rest else (k', v') :: alSet k v rest

def alHas {β : Type} (k : Str) (l : List (Str × β)) : Bool := (alGet k l).isSome

end Abasic
