import Abasic.Stmt
import Abasic.LineNumber
/- interpreter.rs: the host API, and interpreter_error.rs caret rendering. -/
namespace Abasic
variable {F : Type} [NumOps F]
open M

/-- `return_to_idle_state` (string garbage collection is not modelled) -/
def returnToIdle : M F Unit := modify fun s => { s with state := .idle }

/-- `run_next_statement` -/
def runNextStatement (fuel : Nat) : M F Unit := do
  modify fun s => { s with state := .running }
  if ← hasNext then stmtBody (evalN fuel)
  if !(← hasNext) then
    if !(← nextLine) then
      setImmediate []
      returnToIdle

inductive Command where
  | run | list | new | cont | trace | notrace | internals | stats
  deriving DecidableEq, Repr

def Command.ofWord (w : Str) : Option Command :=
  if w == "RUN".toList then some .run
  else if w == "LIST".toList then some .list
  else if w == "NEW".toList then some .new
  else if w == "CONT".toList then some .cont
  else if w == "TRACE".toList then some .trace
  else if w == "NOTRACE".toList then some .notrace
  else if w == "INTERNALS".toList then some .internals
  else if w == "STATS".toList then some .stats
  else none

/-- `maybe_process_command` (applied to the upper-cased line) -/
def maybeProcessCommand (fuel : Nat) (line : Str) : M F Bool := do
  match (commandWord line).bind Command.ofWord with
  | none => pure false
  | some .run =>
    modify fun s => ({ s with input := none, vars := [], arrays := [] }).runFromFirst
    runNextStatement fuel
    pure true
  | some .list =>
    let s ← get
    match s.lines.list with
    | none => rpanic "list: unwrap on None"
    | some ls =>
      set { s with out := (ls.map Out.print).reverse ++ s.out }
      pure true
  | some .new =>
    modify fun s => { s with state := .newRequested }
    pure true
  | some .cont =>
    continueFromBreakpoint
    runNextStatement fuel
    pure true
  | some .trace =>
    modify fun s => { s with tracing := true }
    pure true
  | some .notrace =>
    modify fun s => { s with tracing := false }
    pure true
  | some .internals =>
    emit .opaque
    pure true
  | some .stats =>
    emit .opaque
    pure true

/-- `evaluate_impl` -/
def evaluateImpl (fuel : Nat) (line : Str) : M F Unit := do
  let s ← get
  if s.state != .idle then rpanic "assertion failed: state == Idle"
  else
    setImmediate []
    if ← maybeProcessCommand fuel line then pure ()
    else
      let (num, skip) : Option Nat × Nat :=
        match parseLineNumber line with
        | some (n, e) => (some n, e)
        | none => (none, 0)
      match tokenize (F := F) line skip with
      | .error e => fail (.syntax (.tokenization e))
      | .ok ts =>
        match num with
        | some n => modify fun s => s.setNumberedLine n ts
        | none =>
          setImmediate ts
          runNextStatement fuel

/-- `postprocess_result` -/
def postprocess {α : Type} (m : M F α) : M F α := fun s =>
  match m s with
  | .ok a s' => .ok a s'
  | .err e s' => .err (s'.populate e) { s' with state := .idle }

/-- `start_evaluating` -/
def startEvaluating (fuel : Nat) (line : Str) : M F Unit := postprocess (evaluateImpl fuel line)

/-- `continue_evaluating` -/
def continueEvaluating (fuel : Nat) : M F Unit := do
  let s ← get
  if s.state != .running then rpanic "assertion failed: state == Running"
  else postprocess (runNextStatement fuel)

/-- `provide_input` -/
def provideInput (text : Str) : M F Unit := do
  let s ← get
  if s.state != .awaitingInput then rpanic "assertion failed: state == AwaitingInput"
  else set { s with input := some text, state := .running }

/-- `randomize` -/
def randomize (seed : Nat) : M F Unit := modify fun s => { s with rng := rngNew seed }

/-- `take_output` -/
def takeOutput (s : St F) : List Out × St F := (s.out.reverse, { s with out := [] })

/-- `Program::get_line_with_pointer_caret`; `none` = the `unwrap()` panic -/
def progCaret (s : St F) (loc : Loc) : Option (List Str) :=
  let toks : Option (List (Token F)) :=
    match loc.line with
    | none => some s.imm
    | some n => s.lines.get n
  toks.map fun ts =>
    if ts.isEmpty then []
    else
      let rendered := ts.map Token.render
      let spaces := ((rendered.take loc.idx).map (fun r => len8 r + 1)).sum
      [joinWith [' '] rendered, List.replicate spaces ' ' ++ ['^']]

/-- `TracedInterpreterError::get_line_with_pointer_caret`; `none` = panic -/
def caretLines (s : St F) (e : TErr) (line : Option Str) : Option (List Str) :=
  let fromProgram : Option (List Str) :=
    match e.loc with
    | some loc => progCaret s loc
    | none => some []
  match fromProgram with
  | none => none
  | some (l :: ls) => some (l :: ls)
  | some [] =>
    match line, e.err with
    | some text, .syntax (.tokenization t) =>
      let (a, b) := t.range text
      if b < a then none
      else some [text, List.replicate a ' ' ++ List.replicate (b - a) '^']
    | _, _ => some []

end Abasic
