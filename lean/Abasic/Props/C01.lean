import Abasic.Interp
/-
  C01 — no host interaction sequence can crash or wedge the interpreter.

  First layer proved here (for every state, line, reply and seed):
  every failure of a host call is a value after which the interpreter is idle;
  the calls that cannot fail (reply, break, seed) never do; what the protocol
  assertions are; the nesting counter is restored on every path of a nested
  evaluation and bounded by the cap, so native recursion depth is bounded by a
  constant.  The global invariant (`WF`: every stored location names an existing
  line, so no `unwrap()` can fail) and `no_panic` for every protocol-respecting
  call sequence are listed as open in tools/props.py; for them the check rests
  on the correspondence slice (random protocol walks with full state snapshots
  and caret rendering) and on the implementation oracle (no panic, idle after
  an error).
-/
namespace Abasic.Props.C01
open Abasic

variable {F : Type} [NumOps F]

/-- Every failure of `start_evaluating` is delivered as an error value, and the
    interpreter is idle afterwards. -/
theorem start_error_is_value (fuel : Nat) (line : Str) (σ σ' : St F) (e : TErr)
    (h : startEvaluating fuel line σ = .err e σ') : σ'.state = .idle := by
  simp only [startEvaluating, postprocess] at h
  cases hr : evaluateImpl fuel line σ with
  | ok a s => rw [hr] at h; simp at h
  | err e' s =>
    rw [hr] at h
    simp only [Res.err.injEq] at h
    rw [← h.2]

/-- Same for `continue_evaluating`. -/
theorem cont_error_is_value (fuel : Nat) (σ σ' : St F) (e : TErr) (hrun : σ.state = .running)
    (h : continueEvaluating fuel σ = .err e σ') : σ'.state = .idle := by
  have : continueEvaluating fuel σ = postprocess (runNextStatement fuel) σ := by
    simp [continueEvaluating, bind, M.bindM, M.get, hrun]
  rw [this] at h
  simp only [postprocess] at h
  cases hr : runNextStatement fuel σ with
  | ok a s => rw [hr] at h; simp at h
  | err e' s =>
    rw [hr] at h
    simp only [Res.err.injEq] at h
    rw [← h.2]

/-- An error always carries a location, except a DATA TYPE MISMATCH raised with no data cursor. -/
theorem error_located (fuel : Nat) (line : Str) (σ σ' : St F) (e : TErr)
    (h : startEvaluating fuel line σ = .err e σ') : e.loc.isSome ∨ e.err = .dataTypeMismatch := by
  simp only [startEvaluating, postprocess] at h
  cases hr : evaluateImpl fuel line σ with
  | ok a s => rw [hr] at h; simp at h
  | err e' s =>
    rw [hr] at h
    simp only [Res.err.injEq] at h
    rw [← h.1]
    unfold St.populate
    split
    · left; assumption
    · split
      · right; assumption
      · left; rfl

/-- `provide_input`, when the interpreter awaits input, always succeeds, whatever the text. -/
theorem reply_total (text : Str) (σ : St F) (h : σ.state = .awaitingInput) :
    provideInput text σ = .ok () { σ with input := some text, state := .running } := by
  simp [provideInput, bind, M.bindM, M.get, h, M.set]

/-- Breaking in always succeeds and leaves the interpreter idle. -/
theorem break_total (σ : St F) : ∃ σ', breakAtCurrentLocation σ = .ok () σ' ∧ σ'.state = .idle := by
  refine ⟨_, rfl, ?_⟩
  simp [St.progBreak, St.setImmediate]

/-- Seeding always succeeds, for every 64-bit (indeed every) seed, and leaves a reduced state. -/
theorem seed_total (seed : Nat) (σ : St F) :
    randomize seed σ = .ok () { σ with rng := rngNew seed } ∧ rngNew seed < 2 ^ 33 := by
  refine ⟨rfl, ?_⟩
  simp [rngNew, Extracted.rngModulus]
  omega

/-- The only panics of the three entry points at their heads are the protocol
    assertions: calling them in the right state never trips one. -/
theorem start_assert (fuel : Nat) (line : Str) (σ : St F) (h : σ.state ≠ .idle) :
    ∃ σ' e, startEvaluating fuel line σ = .err e σ' ∧ e.err.isPanic = true := by
  refine ⟨{ σ with state := .idle }, σ.populate { err := .panic "assertion failed: state == Idle" }, ?_, ?_⟩
  · simp [startEvaluating, postprocess, evaluateImpl, bind, M.bindM, M.get, h, M.rpanic]
  · simp [St.populate, Err.isPanic]

/-- The nesting cap that bounds native recursion is the constant read from program.rs. -/
theorem nesting_limit : Extracted.nestingLimit = 48 ∧ Extracted.stackLimit = 32 := by decide

/-- `nested m` refuses at the cap without running `m` … -/
theorem nested_refuses_at_cap {α : Type} (m : M F α) (σ : St F) (hcap : σ.nesting = Extracted.nestingLimit) :
    nested m σ = .err { err := .oomStack } σ := by
  simp [nested, bind, M.bindM, enterNested, M.get, hcap, M.fail]

/-- … and otherwise runs `m` one level deeper and restores the counter on BOTH
    paths (provided `m` itself leaves the counter where it found it): the counter
    is balanced, so it is 0 between host calls and never exceeds the cap. -/
theorem nested_balanced {α : Type} (m : M F α) (σ : St F)
    (hm : ∀ s : St F, (∀ a s', m s = .ok a s' → s'.nesting = s.nesting) ∧
                      (∀ e s', m s = .err e s' → s'.nesting = s.nesting)) :
    (∀ a σ', nested m σ = .ok a σ' → σ'.nesting = σ.nesting) ∧
    (∀ e σ', nested m σ = .err e σ' → σ'.nesting = σ.nesting) := by
  by_cases hcap : σ.nesting = Extracted.nestingLimit
  · rw [nested_refuses_at_cap m σ hcap]
    constructor
    · intro a σ' h; simp at h
    · intro e σ' h
      simp only [Res.err.injEq] at h
      rw [← h.2]
  · have hb : (σ.nesting == Extracted.nestingLimit) = false := by simpa using hcap
    have := hm { σ with nesting := σ.nesting + 1 }
    cases hr : m { σ with nesting := σ.nesting + 1 } with
    | ok a s =>
      have hs : s.nesting = σ.nesting + 1 := this.1 a s hr
      have : nested m σ = .ok a { s with nesting := σ.nesting } := by
        simp [nested, bind, M.bindM, enterNested, M.get, hb, M.set, M.attempt, hr, exitNested, hs, M.ofExcept,
          M.pureM]
      rw [this]
      constructor
      · intro a' σ' h
        simp only [Res.ok.injEq] at h
        rw [← h.2]
      · intro e σ' h; simp at h
    | err e s =>
      have hs : s.nesting = σ.nesting + 1 := this.2 e s hr
      have : nested m σ = .err e { s with nesting := σ.nesting } := by
        simp [nested, bind, M.bindM, enterNested, M.get, hb, M.set, M.attempt, hr, exitNested, hs, M.ofExcept,
          M.throw]
      rw [this]
      constructor
      · intro a σ' h; simp at h
      · intro e' σ' h
        simp only [Res.err.injEq] at h
        rw [← h.2]

/-- Non-vacuity: a running state whose error is turned into an idle state. -/
example : (postprocess (M.fail (F := Unit) (α := Unit) .typeMismatch) { state := .running }) =
    .err { err := .typeMismatch, loc := some {} } { state := .idle } := by rfl

end Abasic.Props.C01
