import Abasic.Props.C12More
/-
  C12, letter case: two texts that differ only in the case of ASCII letters
  (`CaseEq`) tokenize alike outside literal text.  Same plan as for inserted
  blanks: every matcher, then one `chomp_next_token` step, then the loop.
-/
namespace Abasic.Props.C12
open Abasic

/-! ### characters -/

theorem lower_bounds (c : Char) : isAsciiLowerAlpha c = true ↔ 97 ≤ c.toNat ∧ c.toNat ≤ 122 := by
  unfold isAsciiLowerAlpha
  simp only [Bool.and_eq_true, decide_eq_true_eq, Char.le_def, UInt32.le_iff_toNat_le]
  exact Iff.rfl

theorem upper_bounds (c : Char) : isAsciiUpperAlpha c = true ↔ 65 ≤ c.toNat ∧ c.toNat ≤ 90 := by
  unfold isAsciiUpperAlpha
  simp only [Bool.and_eq_true, decide_eq_true_eq, Char.le_def, UInt32.le_iff_toNat_le]
  exact Iff.rfl

theorem digit_bounds (c : Char) : isAsciiDigit c = true ↔ 48 ≤ c.toNat ∧ c.toNat ≤ 57 := by
  unfold isAsciiDigit
  simp only [Bool.and_eq_true, decide_eq_true_eq, Char.le_def, UInt32.le_iff_toNat_le]
  exact Iff.rfl

theorem alpha_bounds (c : Char) :
    isAsciiAlpha c = true ↔ (65 ≤ c.toNat ∧ c.toNat ≤ 90) ∨ (97 ≤ c.toNat ∧ c.toNat ≤ 122) := by
  unfold isAsciiAlpha
  rw [Bool.or_eq_true, upper_bounds, lower_bounds]

theorem ofNat_small : ∀ n, n < 123 → (Char.ofNat n).toNat = n := by decide

theorem asciiUpper_toNat (c : Char) :
    (asciiUpper c).toNat = if isAsciiLowerAlpha c then c.toNat - 32 else c.toNat := by
  unfold asciiUpper
  by_cases h : isAsciiLowerAlpha c = true
  · rw [if_pos h, if_pos h]
    have := (lower_bounds c).mp h
    exact ofNat_small _ (by omega)
  · rw [if_neg h, if_neg h]

/-- Two characters with the same upper-casing are equal or both ASCII letters. -/
theorem upperEq_cases {c d : Char} (h : asciiUpper c = asciiUpper d) :
    c = d ∨ (isAsciiAlpha c = true ∧ isAsciiAlpha d = true) := by
  have e := congrArg Char.toNat h
  rw [asciiUpper_toNat, asciiUpper_toNat] at e
  by_cases lc : isAsciiLowerAlpha c = true
  · have bc := (lower_bounds c).mp lc
    rw [if_pos lc] at e
    by_cases ld : isAsciiLowerAlpha d = true
    · have bd := (lower_bounds d).mp ld
      exact Or.inr ⟨(alpha_bounds c).mpr (Or.inr bc), (alpha_bounds d).mpr (Or.inr bd)⟩
    · rw [if_neg ld] at e
      exact Or.inr ⟨(alpha_bounds c).mpr (Or.inr bc), (alpha_bounds d).mpr (Or.inl (by omega))⟩
  · rw [if_neg lc] at e
    by_cases ld : isAsciiLowerAlpha d = true
    · have bd := (lower_bounds d).mp ld
      rw [if_pos ld] at e
      exact Or.inr ⟨(alpha_bounds c).mpr (Or.inl (by omega)), (alpha_bounds d).mpr (Or.inr bd)⟩
    · rw [if_neg ld] at e
      exact Or.inl (Char.toNat_inj.mp e)

theorem upperEq_alpha {c d : Char} (h : asciiUpper c = asciiUpper d) : isAsciiAlpha c = isAsciiAlpha d := by
  rcases upperEq_cases h with rfl | ⟨h1, h2⟩
  · rfl
  · rw [h1, h2]

theorem alpha_not_digit {c : Char} (h : isAsciiAlpha c = true) : isAsciiDigit c = false := by
  have := (alpha_bounds c).mp h
  cases hd : isAsciiDigit c with
  | false => rfl
  | true => have := (digit_bounds c).mp hd; omega

theorem upperEq_digit {c d : Char} (h : asciiUpper c = asciiUpper d) : isAsciiDigit c = isAsciiDigit d := by
  rcases upperEq_cases h with rfl | ⟨h1, h2⟩
  · rfl
  · rw [alpha_not_digit h1, alpha_not_digit h2]

theorem upperEq_alnum {c d : Char} (h : asciiUpper c = asciiUpper d) : isAsciiAlnum c = isAsciiAlnum d := by
  unfold isAsciiAlnum; rw [upperEq_alpha h, upperEq_digit h]

/-- comparison with a non-letter does not see letter case -/
theorem upperEq_beq {c d : Char} (h : asciiUpper c = asciiUpper d) (x : Char) (hx : isAsciiAlpha x = false) :
    (c == x) = (d == x) := by
  rcases upperEq_cases h with rfl | ⟨h1, h2⟩
  · rfl
  · have n1 : (c == x) = false := by
      apply beq_false_of_ne; intro e; rw [e, hx] at h1; cases h1
    have n2 : (d == x) = false := by
      apply beq_false_of_ne; intro e; rw [e, hx] at h2; cases h2
    rw [n1, n2]

theorem upperEq_beq' {c d : Char} (h : asciiUpper c = asciiUpper d) (x : Char) (hx : isAsciiAlpha x = false) :
    (x == c) = (x == d) := by
  rcases upperEq_cases h with rfl | ⟨h1, h2⟩
  · rfl
  · have n1 : (x == c) = false := by
      apply beq_false_of_ne; intro e; rw [← e, hx] at h1; cases h1
    have n2 : (x == d) = false := by
      apply beq_false_of_ne; intro e; rw [← e, hx] at h2; cases h2
    rw [n1, n2]

theorem upperEq_of_not_alpha {c d : Char} (h : asciiUpper c = asciiUpper d) (hc : isAsciiAlpha c = false) : c = d := by
  rcases upperEq_cases h with e | ⟨h1, _⟩
  · exact e
  · rw [hc] at h1; cases h1

theorem upperEq_lookup {c d : Char} (h : asciiUpper c = asciiUpper d) (tbl : List (Char × Kw))
    (ht : ∀ p ∈ tbl, isAsciiAlpha p.1 = false) : tbl.lookup c = tbl.lookup d := by
  induction tbl with
  | nil => rfl
  | cons p rest ih =>
    obtain ⟨k, v⟩ := p
    rw [List.lookup_cons, List.lookup_cons, upperEq_beq h k (ht (k, v) (List.mem_cons_self ..)),
      ih (fun p hp => ht p (List.mem_cons_of_mem _ hp))]

theorem upperEq_lookupTwo {c d : Char} (h : asciiUpper c = asciiUpper d) (tbl : List (Kw × Char × Kw)) (k : Kw)
    (ht : ∀ p ∈ tbl, isAsciiAlpha p.2.1 = false) : lookupTwo tbl k c = lookupTwo tbl k d := by
  induction tbl with
  | nil => rfl
  | cons p rest ih =>
    obtain ⟨a, x, v⟩ := p
    simp only [lookupTwo]
    rw [upperEq_beq' h x (ht (a, x, v) (List.mem_cons_self ..)),
      ih (fun p hp => ht p (List.mem_cons_of_mem _ hp))]

/-! ### the relation -/

theorem CaseEq.refl (r : Str) : CaseEq r r := by
  induction r with
  | nil => exact CaseEq.nil
  | cons c r ih => exact CaseEq.cons rfl rfl ih

theorem CaseEq.symm {r r' : Str} (h : CaseEq r r') : CaseEq r' r := by
  induction h with
  | nil => exact CaseEq.nil
  | cons h1 h2 _ ih => exact CaseEq.cons h1.symm h2.symm ih

theorem CaseEq.length_eq {r r' : Str} (h : CaseEq r r') : r.length = r'.length := by
  induction h with
  | nil => rfl
  | cons _ _ _ ih => simp only [List.length_cons, ih]

/-- lifted to optional (token, rest) results -/
def CaseEqRes {α : Type} : Option (α × Str) → Option (α × Str) → Prop
  | none, none => True
  | some (a, r), some (a', r') => a = a' ∧ CaseEq r r'
  | _, _ => False

theorem caseEqRes_cases {α : Type} {a b : Option (α × Str)} (h : CaseEqRes a b) :
    (a = none ∧ b = none) ∨ (∃ x r r', a = some (x, r) ∧ b = some (x, r') ∧ CaseEq r r') := by
  cases a with
  | none =>
    cases b with
    | none => exact Or.inl ⟨rfl, rfl⟩
    | some q => exact h.elim
  | some p =>
    obtain ⟨x, r⟩ := p
    cases b with
    | none => exact h.elim
    | some q =>
      obtain ⟨x', r'⟩ := q
      obtain ⟨h1, h2⟩ := h
      subst h1
      exact Or.inr ⟨x, r, r', rfl, rfl, h2⟩

theorem skipWs_caseEq_cases {r r' : Str} (h : CaseEq r r') :
    (skipWs r = [] ∧ skipWs r' = []) ∨
    (∃ c d t t', skipWs r = c :: t ∧ skipWs r' = d :: t' ∧ asciiUpper c = asciiUpper d ∧
      isBasicWs c = isBasicWs d ∧ CaseEq t t') := by
  have hs := skipWs_caseEq h
  generalize skipWs r = a at hs
  generalize skipWs r' = b at hs
  cases hs with
  | nil => exact Or.inl ⟨rfl, rfl⟩
  | cons h1 h2 h3 => exact Or.inr ⟨_, _, _, _, rfl, rfl, h1, h2, h3⟩

/-! ### the matchers -/

theorem chompKeywordTable_caseEq (tbl : List (String × Kw)) {r r' : Str} (h : CaseEq r r') :
    CaseEqRes (chompKeywordTable tbl r) (chompKeywordTable tbl r') := by
  induction tbl with
  | nil => simp [chompKeywordTable, CaseEqRes]
  | cons e rest ih =>
    obtain ⟨word, k⟩ := e
    simp only [chompKeywordTable]
    have := chompKeyword_caseEq word.toList h
    cases h1 : chompKeyword word.toList r <;> cases h2 : chompKeyword word.toList r' <;> rw [h1, h2] at this
    · exact ih
    · exact this.elim
    · exact this.elim
    · exact ⟨rfl, this⟩

/-- The keyword table does not see letter case: `goto`, `GoTo`, `GOTO`. -/
theorem chompAnyKeyword_caseEq {r r' : Str} (h : CaseEq r r') :
    CaseEqRes (chompAnyKeyword r) (chompAnyKeyword r') :=
  chompKeywordTable_caseEq _ h

theorem chompAnyKeyword_caseEq_isSome {r r' : Str} (h : CaseEq r r') :
    (chompAnyKeyword r).isSome = (chompAnyKeyword r').isSome := by
  rcases caseEqRes_cases (chompAnyKeyword_caseEq h) with ⟨h1, h2⟩ | ⟨x, t, t', h1, h2, _⟩ <;> rw [h1, h2] <;> rfl

theorem chompOneOrTwo_caseEq {r r' : Str} (h : CaseEq r r') :
    CaseEqRes (chompOneOrTwo r) (chompOneOrTwo r') := by
  unfold chompOneOrTwo
  rcases skipWs_caseEq_cases h with ⟨h1, h2⟩ | ⟨c, d, t, t', h1, h2, hu, _, h3⟩
  · rw [h1, h2]; trivial
  · rw [h1, h2]
    simp only
    rw [upperEq_lookup hu Extracted.oneChar (by decide)]
    cases Extracted.oneChar.lookup d with
    | none => trivial
    | some k =>
      simp only
      rcases skipWs_caseEq_cases h3 with ⟨g1, g2⟩ | ⟨c2, d2, u, u', g1, g2, gu, _, g3⟩
      · rw [g1, g2]; exact ⟨rfl, h3⟩
      · rw [g1, g2]
        simp only
        rw [upperEq_lookupTwo gu Extracted.twoChar k (by decide)]
        cases lookupTwo Extracted.twoChar k d2 with
        | none => exact ⟨rfl, h3⟩
        | some k2 => exact ⟨rfl, g3⟩

/-- The digit scan under `CaseEq`: same digits (digits have no case), related rests. -/
theorem numLoop_caseEq {r r' : Str} (h : CaseEq r r') :
    (numLoop r).1 = (numLoop r').1 ∧ CaseEq (numLoop r).2 (numLoop r').2 := by
  induction h with
  | nil => exact ⟨rfl, CaseEq.nil⟩
  | @cons c d r r' hu hb h ih =>
    obtain ⟨ih1, ih2⟩ := ih
    by_cases hbc : isBasicWs c = true
    · have hbd : isBasicWs d = true := hb ▸ hbc
      rw [numLoop_blank c hbc, numLoop_blank d hbd, ← ih1]
      by_cases he : (numLoop r).1.isEmpty = true
      · rw [if_pos he, if_pos he]; exact ⟨rfl, CaseEq.cons hu hb h⟩
      · rw [if_neg he, if_neg he]; exact ⟨ih1, ih2⟩
    · have hbd : ¬ isBasicWs d = true := hb ▸ hbc
      have hdot : (c == '.') = (d == '.') := upperEq_beq hu '.' (by decide)
      by_cases hg : (isAsciiDigit c || c == '.') = true
      · have hg' : (isAsciiDigit d || d == '.') = true := by rw [← upperEq_digit hu, ← hdot]; exact hg
        have hna : isAsciiAlpha c = false := by
          cases ha : isAsciiAlpha c with
          | false => rfl
          | true =>
            have h1 := alpha_not_digit ha
            have h2 : (c == '.') = false := by
              apply beq_false_of_ne; intro e; rw [e] at ha; revert ha; decide
            rw [h1, h2] at hg; cases hg
        have hcd : c = d := upperEq_of_not_alpha hu hna
        subst hcd
        rw [numLoop_digit c hbc hg, numLoop_digit c hbc hg]
        exact ⟨congrArg (c :: ·) ih1, ih2⟩
      · have hg' : ¬ (isAsciiDigit d || d == '.') = true := by rw [← upperEq_digit hu, ← hdot]; exact hg
        rw [numLoop_other c hbc hg, numLoop_other d hbd hg']; exact ⟨rfl, CaseEq.cons hu hb h⟩

theorem symValid_caseEq (first : Bool) {c d : Char} (hu : asciiUpper c = asciiUpper d) :
    symValid first c = symValid first d := by
  unfold symValid
  rw [upperEq_alpha hu, upperEq_alnum hu, upperEq_beq hu '$' (by decide)]

/-- The identifier scan under `CaseEq`: the same (upper-cased) name, related rests. -/
theorem symLoop_caseEq (first : Bool) {r r' : Str} (h : CaseEq r r') :
    (symLoop first r).1 = (symLoop first r').1 ∧ CaseEq (symLoop first r).2 (symLoop first r').2 := by
  induction h generalizing first with
  | nil => exact ⟨rfl, CaseEq.nil⟩
  | @cons c d r r' hu hb h ih =>
    by_cases hbc : isBasicWs c = true
    · have hbd : isBasicWs d = true := hb ▸ hbc
      obtain ⟨ih1, ih2⟩ := ih first
      rw [symLoop_blank first c hbc, symLoop_blank first d hbd, ← ih1]
      by_cases he : (symLoop first r).1.isEmpty = true
      · rw [if_pos he, if_pos he]; exact ⟨rfl, CaseEq.cons hu hb h⟩
      · rw [if_neg he, if_neg he]; exact ⟨ih1, ih2⟩
    · have hbd : ¬ isBasicWs d = true := hb ▸ hbc
      obtain ⟨ih1, ih2⟩ := ih false
      have hkk := chompAnyKeyword_caseEq_isSome h
      have hvv := symValid_caseEq first hu
      have hdd : (c == '$') = (d == '$') := upperEq_beq hu '$' (by decide)
      cases hv : symValid first c with
      | false =>
        rw [symLoop_invalid first c hbc hv, symLoop_invalid first d hbd (hvv ▸ hv)]
        exact ⟨rfl, CaseEq.cons hu hb h⟩
      | true =>
        by_cases hd : (c == '$') = true
        · have hcd : c = d := by
            have e1 : c = '$' := by simpa using hd
            have hd' : (d == '$') = true := hdd ▸ hd
            have e2 : d = '$' := by simpa using hd'
            rw [e1, e2]
          subst hcd
          rw [symLoop_dollar first c hbc hv hd, symLoop_dollar first c hbc hv hd]; exact ⟨rfl, h⟩
        · by_cases hk : (chompAnyKeyword r).isSome = true
          · rw [symLoop_kw first c hbc hv hd r hk, symLoop_kw first d hbd (hvv ▸ hv) (hdd ▸ hd) r' (hkk ▸ hk), hu]
            exact ⟨rfl, h⟩
          · rw [symLoop_more first c hbc hv hd r hk, symLoop_more first d hbd (hvv ▸ hv) (hdd ▸ hd) r' (hkk ▸ hk), hu]
            exact ⟨congrArg (asciiUpper d :: ·) ih1, ih2⟩

/-! ### one `chomp_next_token` step -/

variable {F : Type} [NumOps F]

/-- Two outcomes agree up to letter case in what is left. -/
def ChompCase : Chomp F → Chomp F → Prop
  | .tok t r, .tok t' r' => t = t' ∧ CaseEq r r'
  | .illegalChar, .illegalChar => True
  | .invalidNumber r, .invalidNumber r' => CaseEq r r'
  | _, _ => False

theorem afterQuote_caseEq {cs cs' : Str} (h : CaseEq cs cs') :
    ChompCase (afterQuote (F := F) cs) (afterQuote (F := F) cs') ∨
    (ProtectedOutcome (afterQuote (F := F) cs) ∧ ProtectedOutcome (afterQuote (F := F) cs')) := by
  obtain ⟨hn1, hn2⟩ := numLoop_caseEq h
  unfold afterQuote
  generalize numLoop cs = a at hn1 hn2
  generalize numLoop cs' = a' at hn1 hn2
  obtain ⟨ds, r⟩ := a
  obtain ⟨ds', r'⟩ := a'
  simp only at hn1 hn2
  subst hn1
  cases ds with
  | cons x d =>
    simp only
    cases NumOps.parse (F := F) (x :: d) with
    | none => exact Or.inl hn2
    | some v =>
      simp only
      by_cases hf : NumOps.isFinite v = true
      · rw [if_pos hf, if_pos hf]; exact Or.inl ⟨rfl, hn2⟩
      · rw [if_neg hf, if_neg hf]; exact Or.inl hn2
  | nil =>
    simp only
    have hrem := chompKeyword_caseEq Extracted.remKeyword.toList h
    cases h1 : chompKeyword Extracted.remKeyword.toList cs <;>
      cases h2 : chompKeyword Extracted.remKeyword.toList cs' <;> rw [h1, h2] at hrem
    case none.some => exact hrem.elim
    case some.none => exact hrem.elim
    case some.some => exact Or.inr ⟨rfl, rfl⟩
    simp only
    have hdat := chompKeyword_caseEq Extracted.dataKeyword.toList h
    cases h3 : chompKeyword Extracted.dataKeyword.toList cs <;>
      cases h4 : chompKeyword Extracted.dataKeyword.toList cs' <;> rw [h3, h4] at hdat
    case none.some => exact hdat.elim
    case some.none => exact hdat.elim
    case some.some => exact Or.inr ⟨rfl, rfl⟩
    simp only
    obtain ⟨hs1, hs2⟩ := symLoop_caseEq true h
    generalize symLoop true cs = b at hs1 hs2
    generalize symLoop true cs' = b' at hs1 hs2
    obtain ⟨ss, u⟩ := b
    obtain ⟨ss', u'⟩ := b'
    simp only at hs1 hs2
    subst hs1
    cases ss with
    | cons y e => exact Or.inl ⟨rfl, hs2⟩
    | nil => exact Or.inl trivial

/-- One tokenizer step on two texts equal up to letter case: the outcomes agree (same
    token or same kind of error, rests equal up to case), or both are protected. -/
theorem nextToken_caseEq_cases {c d : Char} {t t' : Str} (h : CaseEq (c :: t) (d :: t')) :
    ChompCase (nextToken (F := F) (c :: t)) (nextToken (F := F) (d :: t')) ∨
    (ProtectedOutcome (nextToken (F := F) (c :: t)) ∧ ProtectedOutcome (nextToken (F := F) (d :: t'))) := by
  rcases caseEqRes_cases (chompAnyKeyword_caseEq h) with ⟨k1, k2⟩ | ⟨k, r, r', k1, k2, hr⟩
  · rcases caseEqRes_cases (chompOneOrTwo_caseEq h) with ⟨o1, o2⟩ | ⟨k, r, r', o1, o2, hr⟩
    · have hu : asciiUpper c = asciiUpper d := by cases h with | cons h1 _ _ => exact h1
      have hq : (c == '"') = (d == '"') := upperEq_beq hu '"' (by decide)
      by_cases hc : c = '"'
      · have hd : d = '"' := by
          have : (d == '"') = true := by rw [← hq, hc]; rfl
          simpa using this
        subst hc; subst hd
        rw [nextToken_quote t k1 o1, nextToken_quote t' k2 o2]
        refine Or.inr ⟨?_, ?_⟩
        · cases splitAtQuote t with
          | none => trivial
          | some p => rfl
        · cases splitAtQuote t' with
          | none => trivial
          | some p => rfl
      · have hd : d ≠ '"' := by
          intro e
          have : (c == '"') = true := by rw [hq, e]; rfl
          exact hc (by simpa using this)
        rw [nextToken_noquote c t hc k1 o1, nextToken_noquote d t' hd k2 o2]
        exact afterQuote_caseEq h
    · rw [nextToken_op _ k r k1 o1, nextToken_op _ k r' k2 o2]
      exact Or.inl ⟨rfl, hr⟩
  · rw [nextToken_kw _ k r k1, nextToken_kw _ k r' k2]
    exact Or.inl ⟨rfl, hr⟩

/-- An unprotected token is produced alike whatever the letter case. -/
theorem nextToken_caseEq_unprotected {c d : Char} {t t' : Str} (h : CaseEq (c :: t) (d :: t'))
    (tk : Token F) (rest : Str) (hu : Unprotected tk = true)
    (hn : nextToken (F := F) (c :: t) = .tok tk rest) :
    ∃ rest', nextToken (F := F) (d :: t') = .tok tk rest' ∧ CaseEq rest rest' := by
  rcases nextToken_caseEq_cases (F := F) h with hci | ⟨hp, _⟩
  · rw [hn] at hci
    cases h2 : nextToken (F := F) (d :: t') with
    | tok tk' rest' =>
      rw [h2] at hci
      obtain ⟨e, hr⟩ := hci
      subst e
      exact ⟨rest', rfl, hr⟩
    | illegalChar => rw [h2] at hci; exact hci.elim
    | unterminated => rw [h2] at hci; exact hci.elim
    | invalidNumber r => rw [h2] at hci; exact hci.elim
  · rw [hn] at hp
    have hp' : Unprotected tk = false := hp
    rw [hu] at hp'
    cases hp'

/-! ### whole lines -/

theorem tokLoop_caseEq_unprotected (fuel : Nat) :
    ∀ {cs cs' : Str}, CaseEq cs cs' → ∀ (fuel' idx idx' : Nat) (acc acc' : List (RangedToken F)),
    fuel ≤ fuel' → acc.map (·.1) = acc'.map (·.1) →
    (tokLoop fuel cs idx acc).2 = none →
    (∀ x ∈ (tokLoop fuel cs idx acc).1, Unprotected x.1 = true) →
    (tokLoop fuel' cs' idx' acc').2 = none ∧
    (tokLoop fuel' cs' idx' acc').1.map (·.1) = (tokLoop fuel cs idx acc).1.map (·.1) := by
  induction fuel with
  | zero => intro cs cs' _ fuel' idx idx' acc acc' _ _ h; rw [tokLoop_zero] at h; cases h
  | succ fuel ih =>
    intro cs cs' h fuel' idx idx' acc acc' hf hacc hok hun
    obtain ⟨f', rfl⟩ : ∃ f', fuel' = f' + 1 := ⟨fuel' - 1, by omega⟩
    rcases skipWs_caseEq_cases h with ⟨h1, h2⟩ | ⟨c, d, t, t', h1, h2, hu1, hu2, h3⟩
    · rw [tokLoop_succ_nil f' cs' idx' acc' h2, tokLoop_succ_nil fuel cs idx acc h1]
      refine ⟨rfl, ?_⟩
      simp only [List.map_reverse, hacc]
    · cases hn : nextToken (F := F) (c :: t) with
      | tok tk rest =>
        obtain ⟨a, b, e⟩ := tokLoop_succ_tok fuel cs idx acc c t h1 tk rest hn
        rw [e] at hok hun ⊢
        have hu : Unprotected tk = true :=
          hun _ (tokLoop_acc_mem fuel rest b _ hok (tk, a, b) (List.mem_cons_self ..))
        obtain ⟨rest', hn', hr⟩ := nextToken_caseEq_unprotected (CaseEq.cons hu1 hu2 h3) tk rest hu hn
        obtain ⟨a', b', e'⟩ := tokLoop_succ_tok f' cs' idx' acc' d t' h2 tk rest' hn'
        rw [e']
        exact ih hr f' b b' _ _ (by omega) (by simp only [List.map_cons, hacc]) hok hun
      | illegalChar =>
        exact absurd hok (tokLoop_succ_err fuel cs idx acc c t h1 (by intro tk rest h; rw [hn] at h; cases h))
      | unterminated =>
        exact absurd hok (tokLoop_succ_err fuel cs idx acc c t h1 (by intro tk rest h; rw [hn] at h; cases h))
      | invalidNumber r =>
        exact absurd hok (tokLoop_succ_err fuel cs idx acc c t h1 (by intro tk rest h; rw [hn] at h; cases h))

/-- A line that tokenizes without error into unprotected tokens only tokenizes into the
    very same tokens when the case of any of its ASCII letters is changed. -/
theorem tokenize_caseEq_unprotected {line line' : Str} (h : CaseEq line line') (ts : List (Token F))
    (hok : tokenize (F := F) line 0 = .ok ts) (hun : ∀ t ∈ ts, Unprotected t = true) :
    tokenize (F := F) line' 0 = .ok ts := by
  rw [tokenize_ok_iff] at hok ⊢
  obtain ⟨h1, h2⟩ := hok
  have hun' : ∀ x ∈ (tokLoop (F := F) (line.length + 1) line 0 []).1, Unprotected x.1 = true := by
    intro x hx
    apply hun
    rw [← h2]
    exact List.mem_map_of_mem hx
  have := tokLoop_caseEq_unprotected (F := F) (line.length + 1) h (line'.length + 1) 0 0 [] []
    (by have := h.length_eq; omega) rfl h1 hun'
  exact ⟨this.1, this.2.trans h2⟩

/-- Non-vacuity: `print a1` and `PRINT A1` are `CaseEq`, and the first yields the two
    unprotected tokens PRINT and `A1`. -/
example : CaseEq "print a1".toList "PRINT A1".toList ∧
    tokenize (F := Unit) "print a1".toList 0 = .ok [.kw .Print, .symbol "A1".toList] := by
  refine ⟨?_, by rfl⟩
  repeat (first | exact CaseEq.nil | refine CaseEq.cons (by decide) (by decide) ?_)

end Abasic.Props.C12
