import Abasic.Props.C15
import Abasic.Props.C10
import Abasic.Proofs.AnalyzerFrame
import Abasic.Proofs.AccFrame
/-
  C15 (continued) — loading a program from a file and typing it in behave the same;
  with C10 — RUN starts clean.

  * `numbered_not_command`: a line that starts with a line number is never a command,
    so the side condition of `typed_store` holds for every `GoodLine`.
  * `load_eq_typed`: for a file of good lines, the interpreter built by file mode
    (`cliLoad`: analyse, `into_interpreter`, configure) is EQUAL — every field — to
    the interpreter obtained by typing the lines at the prompt of a freshly created
    one (`typeLines … (cliCreate …)`).  The analyzer side rests on the frame lemma
    `AFrame.analyzeFile_key` (Abasic/Proofs/AnalyzerFrame.lean): the static passes
    never change the program store and leave the nesting counter at 0.
  * `RunEq`, `run_depends_on`, `session_depends_on`: what the RUN command (and the
    whole run that follows) can depend on: program, flags, generator, nesting counter.
    Everything else is reset by RUN (C10) or is a write-only accumulator (pending
    output, read counter, access log; frame lemma in Abasic/Proofs/AccFrame.lean).
  * `same_run`, `runAll`, `same_transcript`: equal runs, step by step.
  * `FileLines`, `load_vs_typed_blank`, `same_transcript_blank`: the same for files
    that also contain empty lines (every file that ends in a newline does); typing an
    empty line costs two token reads, so the two interpreters then differ in the read
    counter — and in nothing else.
  * `skip_check_same_program`.
-/
namespace Abasic.Props.C15
open Abasic

variable {F : Type} [NumOps F]

theorem digit_bounds' (c : Char) : isAsciiDigit c = true ↔ 48 ≤ c.toNat ∧ c.toNat ≤ 57 := by
  unfold isAsciiDigit
  simp only [Bool.and_eq_true, decide_eq_true_eq, Char.le_def, UInt32.le_iff_toNat_le]
  exact Iff.rfl

theorem digit_ne (c d : Char) (h : isAsciiDigit c = true) (hd : d.toNat < 48 ∨ 57 < d.toNat) : (c == d) = false := by
  have := (digit_bounds' c).mp h
  cases hb : c == d with
  | false => rfl
  | true => have := eq_of_beq hb; subst this; omega

theorem digit_not_ws (c : Char) (h : isAsciiDigit c = true) : isAsciiWs c = false := by
  unfold isAsciiWs
  rw [digit_ne c _ h (by decide), digit_ne c _ h (by decide), digit_ne c _ h (by decide), digit_ne c _ h (by decide),
    digit_ne c _ h (by decide)]
  rfl

theorem digit_word_not_command (c : Char) (b : Str) (h : isAsciiDigit c = true) : Command.ofWord (c :: b) = none := by
  have e : ∀ (d : Char) (r : Str), (d.toNat < 48 ∨ 57 < d.toNat) → ((c :: b) == (d :: r)) = false := by
    intro d r hd
    show (c == d && b == r) = false
    rw [digit_ne c d h hd]; rfl
  unfold Command.ofWord
  rw [show "RUN".toList = 'R' :: "UN".toList from rfl, e _ _ (by decide),
    show "LIST".toList = 'L' :: "IST".toList from rfl, e _ _ (by decide),
    show "NEW".toList = 'N' :: "EW".toList from rfl, e _ _ (by decide),
    show "CONT".toList = 'C' :: "ONT".toList from rfl, e _ _ (by decide),
    show "TRACE".toList = 'T' :: "RACE".toList from rfl, e _ _ (by decide),
    show "NOTRACE".toList = 'N' :: "OTRACE".toList from rfl, e _ _ (by decide),
    show "INTERNALS".toList = 'I' :: "NTERNALS".toList from rfl, e _ _ (by decide),
    show "STATS".toList = 'S' :: "TATS".toList from rfl, e _ _ (by decide)]
  rfl

theorem lower_bounds' (c : Char) : isAsciiLowerAlpha c = true ↔ 97 ≤ c.toNat ∧ c.toNat ≤ 122 := by
  unfold isAsciiLowerAlpha
  simp only [Bool.and_eq_true, decide_eq_true_eq, Char.le_def, UInt32.le_iff_toNat_le]
  exact Iff.rfl

theorem digit_upper (c : Char) (h : isAsciiDigit c = true) : asciiUpper c = c := by
  have hb := (digit_bounds' c).mp h
  unfold asciiUpper
  cases hl : isAsciiLowerAlpha c with
  | false => rfl
  | true => have := (lower_bounds' c).mp hl; omega

theorem skip_of_parse (s : Str) (k : Nat) (r : Nat × Nat) (h : parseLineNumberAux s k = some r) :
    ∃ c cs, skipAsciiWs s = c :: cs ∧ isAsciiDigit c = true := by
  induction s generalizing k with
  | nil => simp [parseLineNumberAux] at h
  | cons c cs ih =>
    unfold parseLineNumberAux at h
    by_cases hd : isAsciiDigit c = true
    · refine ⟨c, cs, ?_, hd⟩
      simp [skipAsciiWs, digit_not_ws c hd]
    · rw [if_neg hd] at h
      by_cases hw : isAsciiWs c = true
      · rw [if_pos hw] at h
        obtain ⟨c', cs', h1, h2⟩ := ih _ h
        exact ⟨c', cs', by simp [skipAsciiWs, hw, h1], h2⟩
      · rw [if_neg hw] at h; cases h

/-- A line that starts with a line number is never one of the commands. -/
theorem numbered_not_command (line : Str) (r : Nat × Nat) (h : parseLineNumber line = some r) :
    (commandWord line).bind Command.ofWord = none := by
  obtain ⟨c, cs, h1, h2⟩ := skip_of_parse line 0 r h
  have hb := (digit_bounds' c).mp h2
  unfold commandWord
  rw [h1]
  unfold commandWordChars
  rw [digit_not_ws c h2]
  simp only [Bool.false_eq_true, ↓reduceIte, show c.toNat < 128 by omega, digit_upper c h2]
  cases commandWordChars cs with
  | none => rfl
  | some b => exact digit_word_not_command c b h2


/-! ### the two ways of getting a program into the interpreter give the same interpreter -/

/-- the interpreter right after start-up with the command-line options, holding program `L` -/
def entered (w t : Bool) (seed : Nat) (L : Lines F) : St F :=
  { lines := L, warnings := w, tracing := t, rng := rngNew seed }

theorem typed_exact (fuel : Nat) (line : Str) (σ : St F) (n : Nat) (ts : List (Token F))
    (h : GoodLine F line n ts) (hidle : σ.state = .idle) :
    startEvaluating fuel line σ = .ok () ((σ.setImmediate []).setNumberedLine n ts) := by
  obtain ⟨_, k, rts, hp, ht, hm, _⟩ := h
  have hcmd := numbered_not_command line _ hp
  have htok : tokenize (F := F) line k = .ok ts := by simp [tokenize, ht, hm]
  simp [startEvaluating, postprocess, evaluateImpl, hidle, maybeProcessCommand, hcmd, hp, htok,
    bind, M.bindM, M.get, M.modify, setImmediate, pure, M.pureM]

theorem type_entered (fuel : Nat) (w t : Bool) (seed : Nat) (L : Lines F) (line : Str) (n : Nat)
    (ts : List (Token F)) (h : GoodLine F line n ts) :
    startEvaluating fuel line (entered w t seed L) = .ok () (entered w t seed (L.set n ts)) := by
  rw [typed_exact fuel line _ n ts h rfl]
  rfl

theorem typeLines_entered (fuel : Nat) (w t : Bool) (seed : Nat) (lines : List Str)
    (edits : List (Nat × List (Token F))) (h : GoodFile F lines edits) (L : Lines F) :
    typeLines fuel lines (entered w t seed L) =
      entered w t seed (edits.foldl (fun l e => l.set e.1 e.2) L) := by
  induction h generalizing L with
  | nil => rfl
  | cons hl _ ih =>
    simp only [typeLines, List.foldl_cons]
    rw [type_entered fuel w t seed L _ _ _ hl]
    exact ih _

omit [NumOps F] in
theorem cliCreate_eq (w t : Bool) (seed : Nat) : cliCreate (F := F) w t seed = entered w t seed {} := rfl

theorem cliLoad_eq (fuel : Nat) (w t : Bool) (seed : Nat) (text : Str)
    (edits : List (Nat × List (Token F))) (h : GoodFile F (splitLF text) edits) :
    cliLoad (F := F) fuel w t seed text = entered w t seed (edits.foldl (fun l e => l.set e.1 e.2) {}) := by
  have hk := AFrame.analyzeFile_key (F := F) fuel (splitLF text)
  rw [load_store _ _ h] at hk
  simp only [cliLoad, cliConfigure, Analysis.intoInterpreter, analyzeText, hk.1, hk.2, entered]

/-- **Loading a file and typing it in give the same interpreter** — not merely the same
    program store: every field of the state is equal. -/
theorem load_eq_typed (fuel : Nat) (w t : Bool) (seed : Nat) (text : Str)
    (edits : List (Nat × List (Token F))) (h : GoodFile F (splitLF text) edits) :
    cliLoad (F := F) fuel w t seed text = typeLines fuel (splitLF text) (cliCreate w t seed) := by
  rw [cliLoad_eq fuel w t seed text edits h, cliCreate_eq, typeLines_entered fuel w t seed _ _ h]


/-! ### what RUN depends on -/

/-- the RUN command line -/
def RUN : Str := "RUN".toList

theorem RUN_is_run : (commandWord RUN).bind Command.ofWord = some .run := by decide

/-- The fields of the state a RUN can depend on: the program, the two flags, the
    generator state, and the nesting counter (0 between host calls).  Everything
    else is either overwritten by RUN before the first statement
    (`C10.run_resets_everything`) or an accumulator (`SameAcc`). -/
structure RunEq (s₁ s₂ : St F) : Prop where
  lines : s₁.lines = s₂.lines
  warnings : s₁.warnings = s₂.warnings
  tracing : s₁.tracing = s₂.tracing
  rng : s₁.rng = s₂.rng
  nesting : s₁.nesting = s₂.nesting

/-- the write-only accumulators: not-yet-taken output, the read counter of the
    verification hooks, the analyzer's access log -/
structure SameAcc (s₁ s₂ : St F) : Prop where
  out : s₁.out = s₂.out
  reads : s₁.reads = s₂.reads
  accesses : s₁.accesses = s₂.accesses

/-- RUN in an idle interpreter is: reset, then the first statement. -/
theorem run_unfold (fuel : Nat) (s : St F) (hs : s.state = .idle) :
    startEvaluating fuel RUN s =
      postprocess (do runNextStatement fuel; pure ()) (C10.resetForRun (s.setImmediate [])) := by
  simp only [startEvaluating, postprocess]
  have : evaluateImpl fuel RUN s =
      (fun s' => (do runNextStatement fuel; pure ()) s') (C10.resetForRun (s.setImmediate [])) := by
    simp [evaluateImpl, hs, maybeProcessCommand, RUN_is_run, bind, M.bindM, M.get, M.modify, setImmediate,
      pure, M.pureM, C10.resetForRun]
    cases runNextStatement fuel
      (({ s.setImmediate [] with input := none, vars := [], arrays := [] } : St F).runFromFirst) <;> rfl
  rw [this]

omit [NumOps F] in
/-- After RUN's reset two `RunEq` states with the same accumulators are EQUAL. -/
theorem reset_eq (s₁ s₂ : St F) (h : RunEq s₁ s₂) (ha : SameAcc s₁ s₂)
    (h₁ : s₁.state = .idle) (h₂ : s₂.state = .idle) :
    C10.resetForRun (s₁.setImmediate []) = C10.resetForRun (s₂.setImmediate []) := by
  simp [C10.resetForRun, St.runFromFirst, St.resetRuntime, St.setImmediate, h.lines, h.warnings, h.tracing,
    h.rng, h.nesting, ha.out, ha.reads, ha.accesses, h₁, h₂]

/-- RUN cannot tell two idle interpreters apart that agree on `RunEq` (and on the
    accumulators): same outcome, same error, same resulting state — all of it. -/
theorem run_depends_on_acc (fuel : Nat) (s₁ s₂ : St F) (h : RunEq s₁ s₂) (ha : SameAcc s₁ s₂)
    (h₁ : s₁.state = .idle) (h₂ : s₂.state = .idle) :
    startEvaluating fuel RUN s₁ = startEvaluating fuel RUN s₂ := by
  rw [run_unfold fuel s₁ h₁, run_unfold fuel s₂ h₂, reset_eq s₁ s₂ h ha h₁ h₂]


/-! ### the same run, the same transcript -/

/-- **RUN after loading = RUN after typing.**  Nothing is excluded: the outcome, the
    error (if any) and every field of the resulting state — output queue included —
    are equal, because the two interpreters are (`load_eq_typed`). -/
theorem same_run (fuel : Nat) (w t : Bool) (seed : Nat) (text : Str)
    (edits : List (Nat × List (Token F))) (h : GoodFile F (splitLF text) edits) :
    startEvaluating fuel RUN (cliLoad (F := F) fuel w t seed text) =
    startEvaluating fuel RUN (typeLines fuel (splitLF text) (cliCreate w t seed)) := by
  rw [load_eq_typed fuel w t seed text edits h]

/-- The host loop after RUN: take the output, and while the interpreter is running
    call `continue_evaluating` (no input is supplied, so a program that reaches
    INPUT stops in `awaitingInput`); at most `steps` calls.  Returns all output
    records in order and the state the loop stopped in. -/
def runAll (fuel : Nat) : Nat → St F → List Out × St F
  | 0, s => takeOutput s
  | n + 1, s =>
    let (o, s) := takeOutput s
    if s.state = .running then
      match continueEvaluating fuel s with
      | .ok _ s' => let (os, s'') := runAll fuel n s'; (o ++ os, s'')
      | .err _ s' => let (os, s'') := runAll fuel n s'; (o ++ os, s'')
    else (o, s)

/-- the errors reported along the same loop (an error returns the interpreter to idle,
    so there is at most one) -/
def runAllErrors (fuel : Nat) : Nat → St F → List TErr
  | 0, _ => []
  | n + 1, s =>
    let (_, s) := takeOutput s
    if s.state = .running then
      match continueEvaluating fuel s with
      | .ok _ s' => runAllErrors fuel n s'
      | .err e s' => e :: runAllErrors fuel n s'
    else []

/-- a whole RUN session: the RUN command, then the host loop -/
def session (fuel steps : Nat) (s : St F) : List TErr × List Out × St F :=
  match startEvaluating fuel RUN s with
  | .ok _ s' => (runAllErrors fuel steps s', runAll fuel steps s')
  | .err e s' => (e :: runAllErrors fuel steps s', runAll fuel steps s')

/-- Whole transcripts agree, for every step count: same errors, same output records,
    same final state. -/
theorem same_transcript (fuel steps : Nat) (w t : Bool) (seed : Nat) (text : Str)
    (edits : List (Nat × List (Token F))) (h : GoodFile F (splitLF text) edits) :
    session fuel steps (cliLoad (F := F) fuel w t seed text) =
    session fuel steps (typeLines fuel (splitLF text) (cliCreate w t seed)) := by
  rw [load_eq_typed fuel w t seed text edits h]

/-- … in particular the output transcripts (the form asked for). -/
theorem same_runAll (fuel steps : Nat) (w t : Bool) (seed : Nat) (text : Str)
    (edits : List (Nat × List (Token F))) (h : GoodFile F (splitLF text) edits)
    (r₁ r₂ : Res F Unit)
    (e₁ : startEvaluating fuel RUN (cliLoad (F := F) fuel w t seed text) = r₁)
    (e₂ : startEvaluating fuel RUN (typeLines fuel (splitLF text) (cliCreate w t seed)) = r₂) :
    runAll fuel steps (AFrame.rst r₁) = runAll fuel steps (AFrame.rst r₂) := by
  rw [← e₁, ← e₂, same_run fuel w t seed text edits h]

/-- The session of any two idle interpreters related by `RunEq` (same accumulators). -/
theorem session_depends_on_acc (fuel steps : Nat) (s₁ s₂ : St F) (h : RunEq s₁ s₂) (ha : SameAcc s₁ s₂)
    (h₁ : s₁.state = .idle) (h₂ : s₂.state = .idle) :
    session fuel steps s₁ = session fuel steps s₂ := by
  simp only [session, run_depends_on_acc fuel s₁ s₂ h ha h₁ h₂]

/-! ### the accumulators do not matter either -/

/-- the accumulators of a state -/
def accOf (s : St F) : Acc.Add := { out := s.out, reads := s.reads, accesses := s.accesses }

/-- a state with its accumulators emptied -/
def bare (s : St F) : St F := { s with out := [], reads := 0, accesses := [] }

omit [NumOps F] in
theorem T_bare (s : St F) : Acc.T (accOf s) (bare s) = s := rfl

omit [NumOps F] in
theorem reset_T (d : Acc.Add) (s : St F) :
    C10.resetForRun ((Acc.T d s).setImmediate []) = Acc.T d (C10.resetForRun (s.setImmediate [])) := by
  simp only [C10.resetForRun, St.runFromFirst, St.resetRuntime, St.setImmediate, Acc.T]
  cases s.lines.first <;> rfl

/-- RUN commutes with additions underneath the accumulators. -/
theorem run_comm (fuel : Nat) (d : Acc.Add) (s : St F) (hs : s.state = .idle) :
    startEvaluating fuel RUN (Acc.T d s) = Acc.mapRes (Acc.T d) (startEvaluating fuel RUN s) := by
  rw [run_unfold fuel s hs, run_unfold fuel (Acc.T d s) hs, reset_T]
  have h1 : Acc.Comm d (do runNextStatement (F := F) fuel; pure ()) :=
    Acc.Comm.bind (Acc.comm_runNextStatement fuel) (fun _ => Acc.Comm.pure _)
  exact (Acc.comm_postprocess h1).h _


/-- `r₁` and `r₂` are one and the same result `r`, each on top of the accumulators its
    run started with: same outcome, same error, the same records added to the output
    queue, the same number of reads added to the counter, every other field of the
    resulting states equal. -/
def RunEq' (s₁ s₂ : St F) (r₁ r₂ : Res F Unit) : Prop :=
  ∃ r : Res F Unit, r₁ = Acc.mapRes (Acc.T (accOf s₁)) r ∧ r₂ = Acc.mapRes (Acc.T (accOf s₂)) r

omit [NumOps F] in
theorem RunEq.bare {s₁ s₂ : St F} (h : RunEq s₁ s₂) : RunEq (bare s₁) (bare s₂) :=
  ⟨h.lines, h.warnings, h.tracing, h.rng, h.nesting⟩

/-- **What RUN depends on.**  Two idle interpreters that agree on the program, the
    flags, the generator state and the nesting counter — and differ arbitrarily in
    variables, arrays, loops, GOSUB stack, functions, DATA cursor, breakpoint, pending
    reply, immediate line, location, pending output, read counter — give the same RUN,
    up to what was already in the accumulators (`RunEq'`). -/
theorem run_depends_on (fuel : Nat) (s₁ s₂ : St F) (h : RunEq s₁ s₂)
    (h₁ : s₁.state = .idle) (h₂ : s₂.state = .idle) :
    RunEq' s₁ s₂ (startEvaluating fuel RUN s₁) (startEvaluating fuel RUN s₂) := by
  refine ⟨startEvaluating fuel RUN (bare s₁), ?_, ?_⟩
  · rw [← run_comm fuel (accOf s₁) (bare s₁) h₁, T_bare]
  · rw [run_depends_on_acc fuel (bare s₁) (bare s₂) h.bare ⟨rfl, rfl, rfl⟩ h₁ h₂,
      ← run_comm fuel (accOf s₂) (bare s₂) h₂, T_bare]

/-- what `RunEq'` says, spelled out: same outcome and error … -/
def outcome {α : Type} : Res F α → Option TErr
  | .ok _ _ => none
  | .err e _ => some e

omit [NumOps F] in
theorem RunEq'.outcome {s₁ s₂ : St F} {r₁ r₂ : Res F Unit} (h : RunEq' s₁ s₂ r₁ r₂) :
    outcome r₁ = outcome r₂ := by
  obtain ⟨r, rfl, rfl⟩ := h
  cases r <;> rfl

omit [NumOps F] in
/-- … and resulting states that are one state `σ` on top of the respective old
    accumulators: `σ.out` is the output this RUN produced, `σ.reads` its reads. -/
theorem RunEq'.states {s₁ s₂ : St F} {r₁ r₂ : Res F Unit} (h : RunEq' s₁ s₂ r₁ r₂) :
    ∃ σ : St F,
      AFrame.rst r₁ = { σ with out := σ.out ++ s₁.out, reads := s₁.reads + σ.reads, accesses := σ.accesses ++ s₁.accesses } ∧
      AFrame.rst r₂ = { σ with out := σ.out ++ s₂.out, reads := s₂.reads + σ.reads, accesses := σ.accesses ++ s₂.accesses } := by
  obtain ⟨r, rfl, rfl⟩ := h
  cases r with
  | ok a σ => exact ⟨σ, rfl, rfl⟩
  | err e σ => exact ⟨σ, rfl, rfl⟩


/-! ### … and so do whole sessions -/

/-- `d` once its pending output has been taken -/
def taken (d : Acc.Add) : Acc.Add := { d with out := [] }

omit [NumOps F] in
theorem takeOutput_T (d : Acc.Add) (s : St F) :
    takeOutput (Acc.T d s) = (d.out.reverse ++ (takeOutput s).1, Acc.T (taken d) (takeOutput s).2) := by
  simp only [takeOutput, Acc.T, taken, List.reverse_append, List.append_nil]

/-- The host loop from a state with more underneath its accumulators: the older pending
    output comes out first, everything else is the same. -/
theorem runAll_comm (fuel n : Nat) (d : Acc.Add) (s : St F) :
    runAll fuel n (Acc.T d s) =
      (d.out.reverse ++ (runAll fuel n s).1, Acc.T (taken d) (runAll fuel n s).2) := by
  induction n generalizing d s with
  | zero => exact takeOutput_T d s
  | succ n ih =>
    unfold runAll
    rw [takeOutput_T]
    dsimp only
    have hst : (Acc.T (taken d) (takeOutput s).2).state = (takeOutput s).2.state := rfl
    rw [hst]
    by_cases hr : (takeOutput s).2.state = .running
    · rw [if_pos hr, if_pos hr, (Acc.comm_continueEvaluating (d := taken d) fuel).h]
      cases continueEvaluating fuel (takeOutput s).2 with
      | ok a s' =>
        show (let (os, s'') := runAll fuel n (Acc.T (taken d) s'); (_, s'')) = _
        rw [ih]; simp [taken, List.append_assoc]
      | err e s' =>
        show (let (os, s'') := runAll fuel n (Acc.T (taken d) s'); (_, s'')) = _
        rw [ih]; simp [taken, List.append_assoc]
    · rw [if_neg hr, if_neg hr]

theorem runAllErrors_comm (fuel n : Nat) (d : Acc.Add) (s : St F) :
    runAllErrors fuel n (Acc.T d s) = runAllErrors fuel n s := by
  induction n generalizing d s with
  | zero => rfl
  | succ n ih =>
    unfold runAllErrors
    rw [takeOutput_T]
    dsimp only
    have hst : (Acc.T (taken d) (takeOutput s).2).state = (takeOutput s).2.state := rfl
    rw [hst]
    by_cases hr : (takeOutput s).2.state = .running
    · rw [if_pos hr, if_pos hr, (Acc.comm_continueEvaluating (d := taken d) fuel).h]
      cases continueEvaluating fuel (takeOutput s).2 with
      | ok a s' => exact ih _ _
      | err e s' => exact congrArg (e :: ·) (ih _ _)
    · rw [if_neg hr, if_neg hr]

/-- a whole session from a state with more underneath its accumulators -/
theorem session_comm (fuel n : Nat) (d : Acc.Add) (s : St F) (hs : s.state = .idle) :
    session fuel n (Acc.T d s) =
      ((session fuel n s).1, d.out.reverse ++ (session fuel n s).2.1, Acc.T (taken d) (session fuel n s).2.2) := by
  unfold session
  rw [run_comm fuel d s hs]
  cases startEvaluating fuel RUN s with
  | ok a s' => simp only [Acc.mapRes, runAll_comm, runAllErrors_comm]
  | err e s' => simp only [Acc.mapRes, runAll_comm, runAllErrors_comm]

/-- **Sessions depend on `RunEq` only**: the same errors; the same output records after
    whatever was still pending in each interpreter; final states that are one state `σ`
    on top of the respective read counter and access log. -/
theorem session_depends_on (fuel n : Nat) (s₁ s₂ : St F) (h : RunEq s₁ s₂)
    (h₁ : s₁.state = .idle) (h₂ : s₂.state = .idle) :
    ∃ (errs : List TErr) (outs : List Out) (σ : St F),
      session fuel n s₁ = (errs, s₁.out.reverse ++ outs, Acc.T (taken (accOf s₁)) σ) ∧
      session fuel n s₂ = (errs, s₂.out.reverse ++ outs, Acc.T (taken (accOf s₂)) σ) := by
  refine ⟨(session fuel n (bare s₁)).1, (session fuel n (bare s₁)).2.1, (session fuel n (bare s₁)).2.2, ?_, ?_⟩
  · have := session_comm fuel n (accOf s₁) (bare s₁) h₁
    rw [T_bare] at this
    exact this
  · have := session_comm fuel n (accOf s₂) (bare s₂) h₂
    rw [T_bare, ← session_depends_on_acc fuel n (bare s₁) (bare s₂) h.bare ⟨rfl, rfl, rfl⟩ h₁ h₂] at this
    exact this

/-! ### files with empty lines -/

/-- a file whose lines are good lines or empty (as the last "line" of any file that
    ends in a newline is) -/
inductive FileLines (F : Type) [NumOps F] : List Str → List (Nat × List (Token F)) → Prop
  | nil : FileLines F [] []
  | good {line n ts lines edits} : GoodLine F line n ts → FileLines F lines edits →
      FileLines F (line :: lines) ((n, ts) :: edits)
  | blank {lines edits} : FileLines F lines edits → FileLines F ([] :: lines) edits

theorem GoodFile.fileLines {lines : List Str} {edits : List (Nat × List (Token F))}
    (h : GoodFile F lines edits) : FileLines F lines edits := by
  induction h with
  | nil => exact .nil
  | cons hl _ ih => exact .good hl ih

/-- `entered` with `r` token reads on the counter -/
def enteredR (w t : Bool) (seed : Nat) (r : Nat) (L : Lines F) : St F :=
  { lines := L, warnings := w, tracing := t, rng := rngNew seed, reads := r }

theorem type_good_R (fuel : Nat) (w t : Bool) (seed r : Nat) (L : Lines F) (line : Str) (n : Nat)
    (ts : List (Token F)) (h : GoodLine F line n ts) :
    startEvaluating fuel line (enteredR w t seed r L) = .ok () (enteredR w t seed r (L.set n ts)) := by
  rw [typed_exact fuel line _ n ts h rfl]
  rfl

/-- Typing an empty line runs the (empty) immediate line: two token reads, nothing else. -/
theorem type_blank (fuel : Nat) (w t : Bool) (seed r : Nat) (L : Lines F) :
    startEvaluating fuel [] (enteredR w t seed r L) = .ok () (enteredR w t seed (r + 2) L) := by
  have hcmd : (commandWord []).bind Command.ofWord = none := by decide
  have htok : tokenize (F := F) [] 0 = .ok [] := by
    simp [tokenize, tokenizeRanges, dropBytes, tokLoop, skipWs]
  simp [startEvaluating, postprocess, evaluateImpl, enteredR, maybeProcessCommand, hcmd, htok, parseLineNumber,
    parseLineNumberAux, runNextStatement, hasNext, peek, tokens, tokensForLine, nextLine, returnToIdle,
    bind, M.bindM, M.get, M.modify, setImmediate, pure, M.pureM, St.setImmediate]

theorem typeLines_fileLines (fuel : Nat) (w t : Bool) (seed : Nat) (lines : List Str)
    (edits : List (Nat × List (Token F))) (h : FileLines F lines edits) (r : Nat) (L : Lines F) :
    ∃ k, typeLines fuel lines (enteredR w t seed r L) =
      enteredR w t seed (r + k) (edits.foldl (fun l e => l.set e.1 e.2) L) := by
  induction h generalizing r L with
  | nil => exact ⟨0, rfl⟩
  | good hl _ ih =>
    obtain ⟨k, hk⟩ := ih r (L.set _ _)
    refine ⟨k, ?_⟩
    simp only [typeLines, List.foldl_cons]
    rw [type_good_R fuel w t seed r L _ _ _ hl]
    exact hk
  | blank _ ih =>
    obtain ⟨k, hk⟩ := ih (r + 2) L
    refine ⟨2 + k, ?_⟩
    simp only [typeLines]
    rw [type_blank]
    show typeLines fuel _ (enteredR w t seed (r + 2) L) = _
    rw [hk, Nat.add_assoc]

theorem analyzeLine_blank (a : Analysis F) (i : Nat) : (analyzeLine a i []).st = a.st := by
  simp [analyzeLine]

theorem load_store_fileLines (lines : List Str) (edits : List (Nat × List (Token F)))
    (h : FileLines F lines edits) (a : Analysis F) (i : Nat) :
    (analyzeLines a i lines).st.lines = edits.foldl (fun l e => l.set e.1 e.2) a.st.lines := by
  induction h generalizing a i with
  | nil => rfl
  | good hl _ ih =>
    simp only [analyzeLines, List.foldl_cons]
    rw [ih, analyzeLine_store a i _ _ _ hl]
  | blank _ ih =>
    simp only [analyzeLines]
    rw [ih, analyzeLine_blank]

theorem cliLoad_eq_fileLines (fuel : Nat) (w t : Bool) (seed : Nat) (text : Str)
    (edits : List (Nat × List (Token F))) (h : FileLines F (splitLF text) edits) :
    cliLoad (F := F) fuel w t seed text = entered w t seed (edits.foldl (fun l e => l.set e.1 e.2) {}) := by
  have hk := AFrame.analyzeFile_key (F := F) fuel (splitLF text)
  rw [load_store_fileLines _ _ h] at hk
  simp only [cliLoad, cliConfigure, Analysis.intoInterpreter, analyzeText, hk.1, hk.2, entered]

/-- **Loading vs typing, empty lines allowed**: the typed-in interpreter is the loaded
    one with `k` more token reads on the hook counter (two per empty line); every other
    field is equal. -/
theorem load_vs_typed_blank (fuel : Nat) (w t : Bool) (seed : Nat) (text : Str)
    (edits : List (Nat × List (Token F))) (h : FileLines F (splitLF text) edits) :
    ∃ k, typeLines fuel (splitLF text) (cliCreate w t seed) =
      { cliLoad (F := F) fuel w t seed text with reads := k } := by
  obtain ⟨k, hk⟩ := typeLines_fileLines fuel w t seed _ _ h 0 {}
  refine ⟨k, ?_⟩
  rw [cliLoad_eq_fileLines fuel w t seed text edits h]
  have : cliCreate (F := F) w t seed = enteredR w t seed 0 {} := rfl
  rw [this, hk, Nat.zero_add]
  rfl

/-- … hence `RunEq`, both idle … -/
theorem load_runEq_typed (fuel : Nat) (w t : Bool) (seed : Nat) (text : Str)
    (edits : List (Nat × List (Token F))) (h : FileLines F (splitLF text) edits) :
    RunEq (cliLoad (F := F) fuel w t seed text) (typeLines fuel (splitLF text) (cliCreate w t seed)) ∧
    (cliLoad (F := F) fuel w t seed text).state = .idle ∧
    (typeLines fuel (splitLF text) (cliCreate (F := F) w t seed)).state = .idle := by
  obtain ⟨k, hk⟩ := load_vs_typed_blank fuel w t seed text edits h
  rw [hk, cliLoad_eq_fileLines fuel w t seed text edits h]
  exact ⟨⟨rfl, rfl, rfl, rfl, rfl⟩, rfl, rfl⟩

/-- … hence the same RUN (`RunEq'`: same outcome, same error, same output, same state
    but for the read counter) … -/
theorem same_run_blank (fuel : Nat) (w t : Bool) (seed : Nat) (text : Str)
    (edits : List (Nat × List (Token F))) (h : FileLines F (splitLF text) edits) :
    RunEq' (cliLoad (F := F) fuel w t seed text) (typeLines fuel (splitLF text) (cliCreate w t seed))
      (startEvaluating fuel RUN (cliLoad (F := F) fuel w t seed text))
      (startEvaluating fuel RUN (typeLines fuel (splitLF text) (cliCreate w t seed))) := by
  obtain ⟨hr, h1, h2⟩ := load_runEq_typed fuel w t seed text edits h
  exact run_depends_on fuel _ _ hr h1 h2

/-- … and the same transcript, for every step count: same errors, same output records,
    final states equal but for the read counter (which differs by the same `k`). -/
theorem same_transcript_blank (fuel steps : Nat) (w t : Bool) (seed : Nat) (text : Str)
    (edits : List (Nat × List (Token F))) (h : FileLines F (splitLF text) edits) :
    ∃ k, session fuel steps (typeLines fuel (splitLF text) (cliCreate w t seed)) =
      ((session fuel steps (cliLoad (F := F) fuel w t seed text)).1,
       (session fuel steps (cliLoad (F := F) fuel w t seed text)).2.1,
       { (session fuel steps (cliLoad (F := F) fuel w t seed text)).2.2 with
         reads := k + (session fuel steps (cliLoad (F := F) fuel w t seed text)).2.2.reads }) := by
  obtain ⟨k, hk⟩ := load_vs_typed_blank fuel w t seed text edits h
  refine ⟨k, ?_⟩
  have hl := cliLoad_eq_fileLines fuel w t seed text edits h
  have hT : ({ cliLoad (F := F) fuel w t seed text with reads := k } : St F) =
      Acc.T { reads := k } (cliLoad (F := F) fuel w t seed text) := by
    rw [hl]; rfl
  have hidle : (cliLoad (F := F) fuel w t seed text).state = .idle := by rw [hl]; rfl
  rw [hk, hT, session_comm fuel steps _ _ hidle]
  simp [Acc.T, taken]

/-! ### `--skip-check` -/

/-- file mode as a whole: refuse, or hand over the loaded interpreter -/
def cliFileMode (fuel : Nat) (skipCheck w t : Bool) (seed : Nat) (text : Str) : Option (St F) :=
  if cliRefuses (F := F) fuel skipCheck text then none else some (cliLoad fuel w t seed text)

/-- `--skip-check` only decides WHETHER the program runs: whenever file mode runs
    something, with or without the flag, it is the same interpreter `cliLoad` built
    (which has no skip-check parameter); with the flag it never refuses. -/
theorem skip_check_same_program (fuel : Nat) (w t : Bool) (seed : Nat) (text : Str) :
    (∀ skipCheck s, cliFileMode (F := F) fuel skipCheck w t seed text = some s → s = cliLoad fuel w t seed text) ∧
    cliFileMode (F := F) fuel true w t seed text = some (cliLoad fuel w t seed text) ∧
    (cliRefuses (F := F) fuel false text = false →
      cliFileMode (F := F) fuel false w t seed text = cliFileMode fuel true w t seed text) := by
  refine ⟨?_, ?_, ?_⟩
  · intro sk s hs
    unfold cliFileMode at hs
    split at hs
    · cases hs
    · exact (Option.some.inj hs).symm
  · simp [cliFileMode, cliRefuses]
  · intro hr
    have ht : cliRefuses (F := F) fuel true text = false := by simp [cliRefuses]
    unfold cliFileMode
    rw [hr, ht]

/-! ### non-vacuity -/

theorem good_10_END :
    GoodLine Unit "10 END".toList 10 ((tokenizeRanges (F := Unit) "10 END".toList 2).1.map (·.1)) := by
  refine ⟨by decide, 2, (tokenizeRanges (F := Unit) "10 END".toList 2).1, by decide, ?_, rfl, ?_⟩
  · exact Prod.ext rfl (by decide)
  · intro h
    have : ((tokenizeRanges (F := Unit) "10 END".toList 2).1.map (·.1)).length = 1 := by decide
    rw [h] at this; cases this

/-- a file of good lines (no final newline) … -/
example : ∃ edits, GoodFile Unit (splitLF "10 END".toList) edits :=
  ⟨_, by
    have : splitLF "10 END".toList = ["10 END".toList] := by decide
    rw [this]
    exact .cons good_10_END .nil⟩

/-- … and one with the empty last line that a final newline makes. -/
example : ∃ edits, FileLines Unit (splitLF "10 END\n".toList) edits :=
  ⟨_, by
    have : splitLF "10 END\n".toList = ["10 END".toList, []] := by decide
    rw [this]
    exact .good good_10_END (.blank .nil)⟩

end Abasic.Props.C15
