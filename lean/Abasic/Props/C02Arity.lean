import Abasic.Props.C02Names
import Abasic.Props.C14More
/-
  C02: why `eval_render2_any_partial` (Props/C02Names.lean) carries the side
  condition `Arity1`.

  A tree may give a built-in name any number of arguments: `.cell "ABS" [x, y]`
  (and `.call "ABS" [x, y]`) renders to `ABS ( x , y )`.  On that text

    * the evaluator reads ABS as the built-in, evaluates the first argument and
      then wants `)`: syntax error EXPECTED `)` (`absTwo_eval`); no array is
      created;
    * `fold2` of the tree — and of its normalisation, which is the same tree —
      reads the cell (x, y) of an array named ABS, creating the default 11 × 11
      array (`absTwo_fold`).

  `builtin_arity_counterexample` packs the two facts; `eval_render2_any_false`
  concludes that the statement of `eval_render2_any_partial` without `Arity1`
  is false (for every carrier that has numbers truncating to 1 and 2; closed
  form `eval_render2_any_false_closed`).

  The zero-argument variant `ABS ( )`: the evaluator reports UNEXPECTED TOKEN
  (`absNone_eval`).  Here the spec AGREES on the error: subscripts "none at
  all" is UNEXPECTED TOKEN in `foldIdx` too (`absNone_fold`) — so `ABS ( )` is
  excluded by `Arity1` but is not by itself a counterexample to the error
  clause; only the trees with two or more arguments are.
-/
namespace Abasic.Props.C02
open Abasic Abasic.Ref Abasic.ExprL Abasic.ExprL2 Abasic.Names

variable {F : Type} [NumOps F]

namespace DemoArity
section Examples
set_option linter.unusedSectionVars false
set_option linter.unusedSimpArgs false
open Demo2

/-- the error of a run, forgetting the state -/
def errOf {α : Type} : Res F α → Option TErr
  | .ok _ _ => none
  | .err e _ => some e

/-- the state a run ends in -/
def finalOf {α : Type} : Res F α → St F
  | .ok _ s => s
  | .err _ s => s

/-- `ABS(x, y)` as an array element … -/
def absTwo (x y : F) : Expr2 F := .cell "ABS".toList [.num x, .num y]
/-- … and as a call -/
def absTwoCall (x y : F) : Expr2 F := .call "ABS".toList [.num x, .num y]
/-- `ABS()` -/
def absNone (F : Type) : Expr2 F := .cell "ABS".toList []

/-- `ABS ( x , y )` -/
def absTwoToks (x y : F) : List (Token F) :=
  [.symbol "ABS".toList, .kw .LeftParen, .num x, .kw .Comma, .num y, .kw .RightParen]
/-- `ABS ( )` -/
def absNoneToks (F : Type) : List (Token F) := [.symbol "ABS".toList, .kw .LeftParen, .kw .RightParen]

theorem absTwo_render (x y : F) : render2 (absTwo x y) = absTwoToks x y := by
  simp [absTwo, absTwoToks, render2, renderArgs]

theorem absTwoCall_render (x y : F) : render2 (absTwoCall x y) = absTwoToks x y := by
  simp [absTwoCall, absTwoToks, render2, renderArgs]

theorem absNone_render : render2 (absNone F) = absNoneToks F := by
  simp [absNone, absNoneToks, render2, renderArgs]

/-- normalisation leaves the two-argument node alone (whatever the function table) … -/
theorem absTwo_norm (fns : List (Str × FnDefSpec F)) (x y : F) : normalize fns (absTwo x y) = absTwo x y := by
  have h : ("ABS".toList == Extracted.builtinAbs.toList) = true := by decide
  rw [absTwo, normalize, normalizeL, normalizeL, normalizeL, normalize, normalize]
  unfold resolveNode
  rw [if_pos h]

/-- … and turns the call node into the same array element -/
theorem absTwoCall_norm (fns : List (Str × FnDefSpec F)) (x y : F) :
    normalize fns (absTwoCall x y) = absTwo x y := by
  have h : ("ABS".toList == Extracted.builtinAbs.toList) = true := by decide
  rw [absTwoCall, normalize, normalizeL, normalizeL, normalizeL, normalize, normalize]
  unfold resolveNode
  rw [if_pos h]
  rfl

theorem absNone_norm (fns : List (Str × FnDefSpec F)) : normalize fns (absNone F) = absNone F := by
  have h : ("ABS".toList == Extracted.builtinAbs.toList) = true := by decide
  rw [absNone, normalize, normalizeL]
  unfold resolveNode
  rw [if_pos h]

/-- the default two-dimensional array named ABS -/
def arrAbs (F : Type) [NumOps F] : List (Str × ArrayV F) :=
  [("ABS".toList, .nums [11, 11] (List.replicate 121 NumOps.zero))]

/-- The spec on the tree: the cell (1, 2) of an array ABS — created on the spot, value 0. -/
theorem absTwo_fold (k : Nat) (x y : F) (hx : NumOps.toI64 x = 1) (hy : NumOps.toI64 y = 2) :
    fold2 k (emptyEnv F) (absTwo x y) = .ok (.num NumOps.zero, { emptyEnv F with arrays := arrAbs F }) := by
  simp [absTwo, fold2, foldIdx, subscript, hx, hy, readCell, emptyEnv, alGet, ArrayV.create, dimSizes,
    Extracted.defaultArraySize, Extracted.maxDimTotalElements, endsWithDollar, readAt, linearIndex, linearIndexAux,
    ArrayV.dims, alSet, arrAbs]

/-- the call node folds to the same (no function ABS is defined: "not a function: an array element") -/
theorem absTwoCall_fold (k : Nat) (x y : F) (hx : NumOps.toI64 x = 1) (hy : NumOps.toI64 y = 2) :
    fold2 k (emptyEnv F) (absTwoCall x y) = .ok (.num NumOps.zero, { emptyEnv F with arrays := arrAbs F }) := by
  simp [absTwoCall, fold2, foldIdx, subscript, hx, hy, readCell, emptyEnv, alGet, ArrayV.create, dimSizes,
    Extracted.defaultArraySize, Extracted.maxDimTotalElements, endsWithDollar, readAt, linearIndex, linearIndexAux,
    ArrayV.dims, alSet, arrAbs]

/-- The evaluator on the text: the built-in ABS takes `x`, then wants `)` and finds `,`:
    EXPECTED `)`.  The cursor stands after the comma (4 tokens read), the nesting
    counter is back to 0, no array has been created. -/
theorem absTwo_eval (x y : F) :
    orExpr (evalN defaultFuel) ({ imm := absTwoToks x y } : St F) =
      .err { err := .syntax (.expectedToken .RightParen) }
        ({ imm := absTwoToks x y, loc := { line := none, idx := 4 }, reads := 15 } : St F) := rfl

/-- The spec on `ABS()`: no subscript at all is UNEXPECTED TOKEN … -/
theorem absNone_fold (k : Nat) (env : RefEnv F) : fold2 k env (absNone F) = .error (.syntax .unexpectedToken) := by
  simp [absNone, fold2, foldIdx]

/-- … and so says the evaluator on `ABS ( )`: the argument of the built-in starts with `)`. -/
theorem absNone_eval :
    orExpr (evalN defaultFuel) ({ imm := absNoneToks F } : St F) =
      .err { err := .syntax .unexpectedToken }
        ({ imm := absNoneToks F, loc := { line := none, idx := 3 }, reads := 8 } : St F) := rfl

end Examples
end DemoArity

open DemoArity Demo2

/-- **`builtin_arity_counterexample`.**  For every carrier and numbers `x`, `y`
    truncating to 1 and 2: the trees `.cell "ABS" [x, y]` and `.call "ABS" [x, y]`
    render to `ABS ( x , y )`; normalisation maps both to the first; the spec
    (`fold2`, any fuel, empty environment) gives the value 0 and creates the
    default 11 × 11 array ABS; the evaluator on the rendering (fresh interpreter)
    fails with EXPECTED `)` and creates nothing. -/
theorem builtin_arity_counterexample (x y : F) (hx : NumOps.toI64 x = 1) (hy : NumOps.toI64 y = 2) :
    render2 (absTwo x y) = absTwoToks x y ∧ render2 (absTwoCall x y) = absTwoToks x y ∧
    (∀ fns, normalize fns (absTwo x y) = absTwo x y) ∧ (∀ fns, normalize fns (absTwoCall x y) = absTwo x y) ∧
    (∀ k, fold2 k (emptyEnv F) (absTwo x y) = .ok (.num NumOps.zero, { emptyEnv F with arrays := arrAbs F })) ∧
    (∀ k, fold2 k (emptyEnv F) (absTwoCall x y) = .ok (.num NumOps.zero, { emptyEnv F with arrays := arrAbs F })) ∧
    errOf (orExpr (evalN defaultFuel) ({ imm := absTwoToks x y } : St F)) =
      some { err := .syntax (.expectedToken .RightParen) } ∧
    (finalOf (orExpr (evalN defaultFuel) ({ imm := absTwoToks x y } : St F))).arrays = [] :=
  ⟨absTwo_render x y, absTwoCall_render x y, fun fns => absTwo_norm fns x y, fun fns => absTwoCall_norm fns x y,
   fun k => absTwo_fold k x y hx hy, fun k => absTwoCall_fold k x y hx hy, rfl, rfl⟩

/-- The zero-argument variant: `.cell "ABS" []` renders to `ABS ( )`, is its own
    normalisation; the evaluator reports UNEXPECTED TOKEN — and so does the
    spec (the error kinds agree here; the tree is outside `Arity1` all the same). -/
theorem builtin_arity_zero :
    render2 (absNone F) = absNoneToks F ∧ (∀ fns, normalize fns (absNone F) = absNone F) ∧
    errOf (orExpr (evalN defaultFuel) ({ imm := absNoneToks F } : St F)) = some { err := .syntax .unexpectedToken } ∧
    (∀ k env, fold2 k env (absNone F) = .error (.syntax .unexpectedToken)) ∧
    ¬ Arity1 (absNone F) ∧ (∀ x y : F, ¬ Arity1 (absTwo x y)) :=
  ⟨absNone_render, absNone_norm, rfl, absNone_fold,
   (by simp only [absNone, Arity1]; intro h; exact absurd (h.1 (by decide)) (by simp)),
   (fun x y => by simp only [absTwo, Arity1]; intro h; exact absurd (h.1 (by decide)) (by simp))⟩

/-- The hypotheses of `eval_render2_any_partial` WITHOUT `Arity1` (neither for
    the tree nor for the function bodies). -/
structure ReadyAny0 (σ : St F) (env : RefEnv F) (pre : List (Token F)) (e : Expr2 F) (rest : List (Token F))
    (k n : Nat) : Prop where
  toks : tokens σ = .ok (pre ++ render2 e ++ rest) σ
  idx : σ.loc.idx = pre.length
  envOf : EnvOf σ env
  arrays_ok : ∀ p ∈ σ.arrays, p.2.cellCount = Props.C16.prod p.2.dims
  rng_ok : σ.rng < 2 ^ 33
  stack : σ.stack.length ≤ Extracted.stackLimit
  specFuel : Extracted.stackLimit < k + σ.stack.length
  nesting : σ.nesting + depth2 (normFns env.fns) k (normalize env.fns e) < Extracted.nestingLimit
  fuel : depth2 (normFns env.fns) k (normalize env.fns e) + 1 ≤ n
  follows : Follows rest

omit [NumOps F] in
/-- `ReadyAny` is `ReadyAny0` plus `Arity1` -/
theorem ReadyAny.ready0 {σ : St F} {env : RefEnv F} {pre rest : List (Token F)} {e : Expr2 F} {k n : Nat}
    (h : ReadyAny σ env pre e rest k n) : ReadyAny0 σ env pre e rest k n :=
  ⟨h.toks, h.idx, h.envOf, h.arrays_ok, h.rng_ok, h.stack, h.specFuel, h.nesting, h.fuel, h.follows⟩

/-- the conclusion of `eval_render2_any_partial` -/
def AnyConclusion (e : Expr2 F) (k n : Nat) (σ : St F) (env : RefEnv F) (pre : List (Token F)) : Prop :=
  (∀ v env', fold2 k (normEnv env) (normalize env.fns e) = .ok (v, env') → ∃ r, σ.reads < r ∧
    orExpr (evalN n) σ =
      .ok v { σ with loc := { σ.loc with idx := pre.length + (render2 e).length }, reads := r, arrays := env'.arrays, rng := env'.rng } ∧
    EnvOf ({ σ with loc := { σ.loc with idx := pre.length + (render2 e).length }, reads := r, arrays := env'.arrays, rng := env'.rng } : St F) env') ∧
  (∀ x, fold2 k (normEnv env) (normalize env.fns e) = .error x → ∃ te σ',
    orExpr (evalN n) σ = .err te σ' ∧ te.err = x ∧
    σ'.nesting = σ.nesting ∧ σ'.stack = σ.stack ∧ σ'.loc.line = σ.loc.line ∧ ErrLoc σ te)

/-- (what is proved: the conclusion under `ReadyAny`) -/
theorem anyConclusion_of_readyAny (e : Expr2 F) (k n : Nat) (σ : St F) (env : RefEnv F)
    (pre rest : List (Token F)) (h : ReadyAny σ env pre e rest k n) (hw : σ.warnings = false) :
    AnyConclusion e k n σ env pre :=
  eval_render2_any_partial e k n σ env pre rest h hw

/-- a fresh interpreter with `ABS ( x , y )` as the immediate line meets `ReadyAny0` -/
theorem absTwo_ready0 (x y : F) :
    ReadyAny0 ({ imm := absTwoToks x y } : St F) (emptyEnv F) [] (absTwo x y) [] 33 defaultFuel where
  toks := by rw [absTwo_render]; rfl
  idx := rfl
  envOf := ⟨rfl, rfl, rfl, rfl, fun _ _ => rfl, fun _ _ h => by cases h⟩
  arrays_ok := by intro p hp; cases hp
  rng_ok := by show (0 : Nat) < 2 ^ 33; decide
  stack := by show (0 : Nat) ≤ _; exact Nat.zero_le _
  specFuel := by show Extracted.stackLimit < 33 + 0; decide
  nesting := by
    show 0 + _ < _
    rw [absTwo_norm]
    simp [absTwo, depth2, depthArgs, Extracted.nestingLimit]
  fuel := by
    rw [absTwo_norm]
    simp [absTwo, depth2, depthArgs, defaultFuel, Extracted.nestingLimit]
  follows := follows_nil

/-- **`eval_render2_any_false`.**  Without `Arity1` the statement of
    `eval_render2_any_partial` is false: in every carrier that has numbers
    truncating to 1 and 2 the hypotheses `ReadyAny0` do not imply the
    conclusion (witness: `ABS ( x , y )` on a fresh interpreter — the spec has a
    value, the evaluator an error). -/
theorem eval_render2_any_false (x y : F) (hx : NumOps.toI64 x = 1) (hy : NumOps.toI64 y = 2) :
    ¬ (∀ (e : Expr2 F) (k n : Nat) (σ : St F) (env : RefEnv F) (pre rest : List (Token F)),
        ReadyAny0 σ env pre e rest k n → σ.warnings = false → AnyConclusion e k n σ env pre) := by
  intro hall
  have h := (hall (absTwo x y) 33 defaultFuel _ (emptyEnv F) [] [] (absTwo_ready0 x y) rfl).1
    (.num NumOps.zero) { emptyEnv F with arrays := arrAbs F }
    (by rw [absTwo_norm]; exact absTwo_fold 33 x y hx hy)
  obtain ⟨r, _, hr, _⟩ := h
  rw [absTwo_eval] at hr
  cases hr

section
attribute [local instance] Abasic.Props.C14.natOps

/-- the text level, carrier `Nat` with decimal numerals (`C14.natOps`): the tree
    prints as `ABS ( 1 , 2 )`, and the tokenizer reads `ABS(1,2)` (and the printed
    text) as the rendering of the tree -/
example :
    Expr2.text (absTwo (1 : Nat) 2) = "ABS ( 1 , 2 )".toList ∧
    tokenize (F := Nat) "ABS(1,2)".toList 0 = .ok (absTwoToks 1 2) ∧
    tokenize (F := Nat) "ABS ( 1 , 2 )".toList 0 = .ok (absTwoToks 1 2) ∧
    Expr2.text (absNone Nat) = "ABS ( )".toList ∧
    tokenize (F := Nat) "ABS()".toList 0 = .ok (absNoneToks Nat) := by
  refine ⟨?_, by rfl, by rfl, ?_, by rfl⟩
  · rw [Expr2.text, absTwo_render]; rfl
  · rw [Expr2.text, absNone_render]; rfl

/-- **closed form**: the unrestricted statement, quantified over all carriers, is false -/
theorem eval_render2_any_false_closed :
    ¬ (∀ (F : Type) [NumOps F] (e : Expr2 F) (k n : Nat) (σ : St F) (env : RefEnv F) (pre rest : List (Token F)),
        ReadyAny0 σ env pre e rest k n → σ.warnings = false → AnyConclusion e k n σ env pre) :=
  fun hall => eval_render2_any_false (F := Nat) 1 2 rfl rfl (hall Nat)
end

end Abasic.Props.C02
