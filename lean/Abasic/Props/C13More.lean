import Abasic.Props.C13
/-
  C13, continued — strict non-emptiness and the upper bound of token ranges,
  termination of the tokenizer loop inside its fuel, and "a token never ends
  in a blank".
-/
namespace Abasic.Props.C13
open Abasic

variable {F : Type} [NumOps F]

/-! ### `len8` -/

theorem len8_append (a b : Str) : len8 (a ++ b) = len8 a + len8 b := by
  induction a with
  | nil => simp [len8]
  | cons c a ih => simp only [List.cons_append, len8, ih]; omega

theorem len8_pos_of_ne_nil {a : Str} (h : a ≠ []) : 0 < len8 a := by
  cases a with
  | nil => exact absurd rfl h
  | cons c a =>
    have := Char.utf8Size_pos c
    simp only [len8]; omega

theorem len8_cons_pos (c : Char) (a : Str) : 0 < len8 (c :: a) :=
  len8_pos_of_ne_nil (List.cons_ne_nil c a)

/-- `skipWs` returns a suffix; the byte distance is the length of what it dropped,
    and it never makes the text longer. -/
theorem skipWs_suffix' (cs : Str) :
    ∃ pre, cs = pre ++ skipWs cs ∧ len8 cs - len8 (skipWs cs) = len8 pre ∧
      len8 cs = len8 pre + len8 (skipWs cs) ∧ (skipWs cs).length ≤ cs.length := by
  obtain ⟨pre, h, _⟩ := skipWs_suffix cs
  refine ⟨pre, h, ?_, ?_, ?_⟩
  · have := len8_append pre (skipWs cs); rw [← h] at this; omega
  · have := len8_append pre (skipWs cs); rw [← h] at this; omega
  · have := congrArg List.length h; simp only [List.length_append] at this; omega

/-! ### the matchers return proper suffixes -/

/-- `chompKeyword` returns a (possibly improper) suffix of its input. -/
theorem chompKeyword_suffix (ks cs r : Str) (h : chompKeyword ks cs = some r) :
    ∃ pre, cs = pre ++ r := by
  induction ks generalizing cs with
  | nil =>
    simp only [chompKeyword, Option.some.injEq] at h
    exact ⟨[], by simp [h]⟩
  | cons k ks ih =>
    obtain ⟨ws, hws, _⟩ := skipWs_suffix cs
    cases hs : skipWs cs with
    | nil => simp [chompKeyword, hs] at h
    | cons c r0 =>
      rw [hs] at hws
      simp only [chompKeyword, hs] at h
      split at h
      · obtain ⟨p, hp⟩ := ih r0 h
        exact ⟨ws ++ c :: p, by rw [hws, hp]; simp⟩
      · cases h

/-- … and a proper one when the keyword is not empty. -/
theorem chompKeyword_consumes (k : Char) (ks cs r : Str) (h : chompKeyword (k :: ks) cs = some r) :
    ∃ pre, pre ≠ [] ∧ cs = pre ++ r := by
  obtain ⟨ws, hws, _⟩ := skipWs_suffix cs
  cases hs : skipWs cs with
  | nil => simp [chompKeyword, hs] at h
  | cons c r0 =>
    rw [hs] at hws
    simp only [chompKeyword, hs] at h
    split at h
    · obtain ⟨p, hp⟩ := chompKeyword_suffix ks r0 r h
      exact ⟨ws ++ c :: p, by simp, by rw [hws, hp]; simp⟩
    · cases h

theorem keywords_nonempty : ∀ p ∈ Extracted.keywords, p.1.toList ≠ [] := by
  decide

theorem remKeyword_nonempty : Extracted.remKeyword.toList ≠ [] := by decide
theorem dataKeyword_nonempty : Extracted.dataKeyword.toList ≠ [] := by decide

theorem chompKeywordTable_consumes (tbl : List (String × Kw)) (hne : ∀ p ∈ tbl, p.1.toList ≠ [])
    (cs : Str) (k : Kw) (r : Str) (h : chompKeywordTable tbl cs = some (k, r)) :
    ∃ pre, pre ≠ [] ∧ cs = pre ++ r := by
  induction tbl with
  | nil => simp [chompKeywordTable] at h
  | cons p rest ih =>
    obtain ⟨w, k'⟩ := p
    simp only [chompKeywordTable] at h
    cases hc : chompKeyword w.toList cs with
    | some r1 =>
      rw [hc] at h
      simp only [Option.some.injEq, Prod.mk.injEq] at h
      obtain ⟨_, rfl⟩ := h
      have hw : w.toList ≠ [] := hne (w, k') (by simp)
      cases hwl : w.toList with
      | nil => exact absurd hwl hw
      | cons a as =>
        rw [hwl] at hc
        exact chompKeyword_consumes a as cs r1 hc
    | none =>
      rw [hc] at h
      exact ih (fun p hp => hne p (List.mem_cons_of_mem _ hp)) h

theorem chompAnyKeyword_consumes (cs : Str) (k : Kw) (r : Str) (h : chompAnyKeyword cs = some (k, r)) :
    ∃ pre, pre ≠ [] ∧ cs = pre ++ r :=
  chompKeywordTable_consumes _ keywords_nonempty cs k r h

theorem chompOneOrTwo_consumes (cs : Str) (k : Kw) (r : Str) (h : chompOneOrTwo cs = some (k, r)) :
    ∃ pre, pre ≠ [] ∧ cs = pre ++ r := by
  obtain ⟨ws, hws, _⟩ := skipWs_suffix cs
  unfold chompOneOrTwo at h
  cases hs : skipWs cs with
  | nil => simp [hs] at h
  | cons c r0 =>
    rw [hs] at hws
    simp only [hs] at h
    cases hl : Extracted.oneChar.lookup c with
    | none => simp [hl] at h
    | some k1 =>
      simp only [hl] at h
      obtain ⟨ws2, hws2, _⟩ := skipWs_suffix r0
      cases hs2 : skipWs r0 with
      | nil =>
        simp only [hs2, Option.some.injEq, Prod.mk.injEq] at h
        obtain ⟨_, rfl⟩ := h
        exact ⟨ws ++ [c], by simp, by rw [hws]; simp⟩
      | cons c2 r2 =>
        rw [hs2] at hws2
        simp only [hs2] at h
        cases hl2 : lookupTwo Extracted.twoChar k1 c2 with
        | none =>
          simp only [hl2, Option.some.injEq, Prod.mk.injEq] at h
          obtain ⟨_, rfl⟩ := h
          exact ⟨ws ++ [c], by simp, by rw [hws]; simp⟩
        | some k2 =>
          simp only [hl2, Option.some.injEq, Prod.mk.injEq] at h
          obtain ⟨_, rfl⟩ := h
          exact ⟨ws ++ c :: ws2 ++ [c2], by simp, by rw [hws, hws2]; simp⟩

/-- `splitAtQuote` splits exactly at a double quote. -/
theorem splitAtQuote_eq (q s r : Str) (h : splitAtQuote q = some (s, r)) : q = s ++ '"' :: r := by
  induction q generalizing s with
  | nil => simp [splitAtQuote] at h
  | cons c cs ih =>
    simp only [splitAtQuote] at h
    split at h
    · rename_i hc
      simp only [Option.some.injEq, Prod.mk.injEq] at h
      obtain ⟨rfl, rfl⟩ := h
      have : c = '"' := by simpa using hc
      simp [this]
    · cases hq : splitAtQuote cs with
      | none => simp [hq] at h
      | some p =>
        obtain ⟨a, r1⟩ := p
        simp only [hq, Option.some.injEq, Prod.mk.injEq] at h
        obtain ⟨rfl, rfl⟩ := h
        rw [ih a hq]; simp

theorem splitAtQuote_consumes (q s r : Str) (h : splitAtQuote q = some (s, r)) :
    ∃ pre, pre ≠ [] ∧ q = pre ++ r :=
  ⟨s ++ ['"'], by simp, by rw [splitAtQuote_eq q s r h]; simp⟩

/-- no digits collected: `numLoop` hands back its input -/
theorem numLoop_nil (cs : Str) (h : (numLoop cs).1 = []) : (numLoop cs).2 = cs := by
  induction cs with
  | nil => rfl
  | cons c cs ih =>
    cases hn : numLoop cs with
    | mk d r =>
      simp only [numLoop, hn] at h ⊢
      split
      · split
        · rfl
        · rename_i h1 h2
          simp only [h1, h2] at h
          simp only [if_true, Bool.false_eq_true, if_false] at h
          subst h; simp at h2
      · split
        · rename_i h1 h2
          simp [h1, h2] at h
        · rfl

/-- digits collected: the text consumed by `numLoop` ends in a non-blank
    (the last digit or dot). -/
theorem numLoop_consumes_nb (cs d r : Str) (h : numLoop cs = (d, r)) (hd : d ≠ []) :
    ∃ pre x, cs = pre ++ x :: r ∧ isBasicWs x = false := by
  induction cs generalizing d r with
  | nil => simp [numLoop] at h; exact absurd h.1 hd
  | cons c cs ih =>
    cases hn : numLoop cs with
    | mk d1 r1 =>
      simp only [numLoop, hn] at h
      by_cases hb : isBasicWs c = true
      · simp only [hb, if_true] at h
        by_cases he : d1.isEmpty = true
        · simp only [he, if_true, Prod.mk.injEq] at h
          exact absurd h.1.symm hd
        · simp only [he, Bool.false_eq_true, if_false, Prod.mk.injEq] at h
          obtain ⟨rfl, rfl⟩ := h
          obtain ⟨pre, x, hx, hxb⟩ := ih d1 r1 hn hd
          exact ⟨c :: pre, x, by rw [hx]; simp, hxb⟩
      · simp only [hb, Bool.false_eq_true, if_false] at h
        by_cases hdig : (isAsciiDigit c || c == '.') = true
        · simp only [hdig, if_true, Prod.mk.injEq] at h
          obtain ⟨_, rfl⟩ := h
          cases d1 with
          | nil =>
            have := numLoop_nil cs (by rw [hn])
            rw [hn] at this
            simp only at this
            subst this
            exact ⟨[], c, rfl, by simpa using hb⟩
          | cons a as =>
            obtain ⟨pre, x, hx, hxb⟩ := ih (a :: as) r1 hn (by simp)
            exact ⟨c :: pre, x, by rw [hx]; simp, hxb⟩
        · simp only [hdig, Bool.false_eq_true, if_false, Prod.mk.injEq] at h
          exact absurd h.1.symm hd

theorem numLoop_consumes (cs d r : Str) (h : numLoop cs = (d, r)) (hd : d ≠ []) :
    ∃ pre, pre ≠ [] ∧ cs = pre ++ r := by
  obtain ⟨pre, x, hx, _⟩ := numLoop_consumes_nb cs d r h hd
  exact ⟨pre ++ [x], by simp, by rw [hx]; simp⟩

/-- no characters collected: `symLoop` hands back its input -/
theorem symLoop_nil (first : Bool) (cs : Str) (h : (symLoop first cs).1 = []) :
    (symLoop first cs).2 = cs := by
  induction cs generalizing first with
  | nil => rfl
  | cons c cs ih =>
    cases hn : symLoop first cs with
    | mk d r =>
    cases hn2 : symLoop false cs with
    | mk d2 r2 =>
      simp only [symLoop, hn, hn2] at h ⊢
      by_cases hb : isBasicWs c = true
      · simp only [hb, if_true] at h ⊢
        by_cases he : d.isEmpty = true
        · simp only [he, if_true]
        · simp only [he, Bool.false_eq_true, if_false] at h ⊢
          subst h; simp at he
      · simp only [hb, Bool.false_eq_true, if_false] at h ⊢
        generalize (if first = true then isAsciiAlpha c else (isAsciiAlnum c || c == '$')) = v at h ⊢
        cases v with
        | false => simp
        | true =>
          simp only [Bool.not_true, Bool.false_eq_true, if_false] at h ⊢
          split at h
          · simp at h
          · split at h <;> simp at h

/-- characters collected: the text consumed by `symLoop` ends in a non-blank. -/
theorem symLoop_consumes_nb (first : Bool) (cs d r : Str) (h : symLoop first cs = (d, r)) (hd : d ≠ []) :
    ∃ pre x, cs = pre ++ x :: r ∧ isBasicWs x = false := by
  induction cs generalizing first d r with
  | nil => simp [symLoop] at h; exact absurd h.1 hd
  | cons c cs ih =>
    cases hn : symLoop first cs with
    | mk d1 r1 =>
    cases hn2 : symLoop false cs with
    | mk d2 r2 =>
      simp only [symLoop, hn, hn2] at h
      by_cases hb : isBasicWs c = true
      · simp only [hb, if_true] at h
        by_cases he : d1.isEmpty = true
        · simp only [he, if_true, Prod.mk.injEq] at h
          exact absurd h.1.symm hd
        · simp only [he, Bool.false_eq_true, if_false, Prod.mk.injEq] at h
          obtain ⟨rfl, rfl⟩ := h
          obtain ⟨pre, x, hx, hxb⟩ := ih first d1 r1 hn hd
          exact ⟨c :: pre, x, by rw [hx]; simp, hxb⟩
      · have hb' : isBasicWs c = false := by simpa using hb
        simp only [hb, Bool.false_eq_true, if_false] at h
        generalize (if first = true then isAsciiAlpha c else (isAsciiAlnum c || c == '$')) = v at h
        cases v with
        | false =>
          simp only [Bool.not_false, if_true, Prod.mk.injEq] at h
          exact absurd h.1.symm hd
        | true =>
          simp only [Bool.not_true, Bool.false_eq_true, if_false] at h
          split at h
          · simp only [Prod.mk.injEq] at h
            obtain ⟨_, rfl⟩ := h
            exact ⟨[], c, rfl, hb'⟩
          · split at h
            · simp only [Prod.mk.injEq] at h
              obtain ⟨_, rfl⟩ := h
              exact ⟨[], c, rfl, hb'⟩
            · simp only [Prod.mk.injEq] at h
              obtain ⟨_, rfl⟩ := h
              cases d2 with
              | nil =>
                have := symLoop_nil false cs (by rw [hn2])
                rw [hn2] at this
                simp only at this
                subst this
                exact ⟨[], c, rfl, hb'⟩
              | cons a as =>
                obtain ⟨pre, x, hx, hxb⟩ := ih false (a :: as) r2 hn2 (by simp)
                exact ⟨c :: pre, x, by rw [hx]; simp, hxb⟩

theorem symLoop_consumes (first : Bool) (cs d r : Str) (h : symLoop first cs = (d, r)) (hd : d ≠ []) :
    ∃ pre, pre ≠ [] ∧ cs = pre ++ r := by
  obtain ⟨pre, x, hx, _⟩ := symLoop_consumes_nb first cs d r h hd
  exact ⟨pre ++ [x], by simp, by rw [hx]; simp⟩

/-- `dropBytes` returns a (possibly improper) suffix. -/
theorem dropBytes_suffix (n : Nat) (cs : Str) : ∃ pre, cs = pre ++ dropBytes n cs := by
  induction cs generalizing n with
  | nil => cases n <;> exact ⟨[], rfl⟩
  | cons c cs ih =>
    cases n with
    | zero => exact ⟨[], rfl⟩
    | succ n =>
      obtain ⟨pre, hp⟩ := ih (n + 1 - c.utf8Size)
      refine ⟨c :: pre, ?_⟩
      simp only [dropBytes, List.cons_append]
      rw [← hp]

/-! ### … and what they consume ends in a non-blank -/

theorem chompKeyword_consumes_nb (k : Char) (ks cs r : Str) (h : chompKeyword (k :: ks) cs = some r) :
    ∃ pre x, cs = pre ++ x :: r ∧ isBasicWs x = false := by
  induction ks generalizing k cs with
  | nil =>
    obtain ⟨ws, hws, _⟩ := skipWs_suffix cs
    cases hs : skipWs cs with
    | nil => simp [chompKeyword, hs] at h
    | cons c r0 =>
      rw [hs] at hws
      simp only [chompKeyword, hs] at h
      split at h
      · simp only [Option.some.injEq] at h
        subst h
        exact ⟨ws, c, hws, skipWs_nonblank cs c _ hs⟩
      · cases h
  | cons k2 ks ih =>
    obtain ⟨ws, hws, _⟩ := skipWs_suffix cs
    cases hs : skipWs cs with
    | nil => simp [chompKeyword, hs] at h
    | cons c r0 =>
      rw [hs] at hws
      rw [chompKeyword] at h
      simp only [hs] at h
      split at h
      · obtain ⟨pre, x, hx, hxb⟩ := ih k2 r0 h
        exact ⟨ws ++ c :: pre, x, by rw [hws, hx]; simp, hxb⟩
      · cases h

theorem chompKeywordTable_consumes_nb (tbl : List (String × Kw)) (hne : ∀ p ∈ tbl, p.1.toList ≠ [])
    (cs : Str) (k : Kw) (r : Str) (h : chompKeywordTable tbl cs = some (k, r)) :
    ∃ pre x, cs = pre ++ x :: r ∧ isBasicWs x = false := by
  induction tbl with
  | nil => simp [chompKeywordTable] at h
  | cons p rest ih =>
    obtain ⟨w, k'⟩ := p
    simp only [chompKeywordTable] at h
    cases hc : chompKeyword w.toList cs with
    | some r1 =>
      rw [hc] at h
      simp only [Option.some.injEq, Prod.mk.injEq] at h
      obtain ⟨_, rfl⟩ := h
      have hw : w.toList ≠ [] := hne (w, k') (by simp)
      cases hwl : w.toList with
      | nil => exact absurd hwl hw
      | cons a as =>
        rw [hwl] at hc
        exact chompKeyword_consumes_nb a as cs r1 hc
    | none =>
      rw [hc] at h
      exact ih (fun p hp => hne p (List.mem_cons_of_mem _ hp)) h

theorem chompAnyKeyword_consumes_nb (cs : Str) (k : Kw) (r : Str) (h : chompAnyKeyword cs = some (k, r)) :
    ∃ pre x, cs = pre ++ x :: r ∧ isBasicWs x = false :=
  chompKeywordTable_consumes_nb _ keywords_nonempty cs k r h

theorem chompOneOrTwo_consumes_nb (cs : Str) (k : Kw) (r : Str) (h : chompOneOrTwo cs = some (k, r)) :
    ∃ pre x, cs = pre ++ x :: r ∧ isBasicWs x = false := by
  obtain ⟨ws, hws, _⟩ := skipWs_suffix cs
  unfold chompOneOrTwo at h
  cases hs : skipWs cs with
  | nil => simp [hs] at h
  | cons c r0 =>
    rw [hs] at hws
    simp only [hs] at h
    have hcb := skipWs_nonblank cs c r0 hs
    cases hl : Extracted.oneChar.lookup c with
    | none => simp [hl] at h
    | some k1 =>
      simp only [hl] at h
      obtain ⟨ws2, hws2, _⟩ := skipWs_suffix r0
      cases hs2 : skipWs r0 with
      | nil =>
        simp only [hs2, Option.some.injEq, Prod.mk.injEq] at h
        obtain ⟨_, rfl⟩ := h
        exact ⟨ws, c, hws, hcb⟩
      | cons c2 r2 =>
        rw [hs2] at hws2
        simp only [hs2] at h
        cases hl2 : lookupTwo Extracted.twoChar k1 c2 with
        | none =>
          simp only [hl2, Option.some.injEq, Prod.mk.injEq] at h
          obtain ⟨_, rfl⟩ := h
          exact ⟨ws, c, hws, hcb⟩
        | some k2 =>
          simp only [hl2, Option.some.injEq, Prod.mk.injEq] at h
          obtain ⟨_, rfl⟩ := h
          exact ⟨ws ++ c :: ws2, c2, by rw [hws, hws2]; simp, skipWs_nonblank r0 c2 r2 hs2⟩

/-! ### one `nextToken` -/

/-- What one successful `nextToken` leaves over: either the consumed text ends
    in a non-blank character, or the token is a remark and nothing is left, or it
    is a `DATA` token and a non-empty prefix was consumed. -/
theorem nextToken_cases (cs : Str) (t : Token F) (r' : Str)
    (h : nextToken (F := F) cs = .tok t r') :
    (∃ pre x, cs = pre ++ x :: r' ∧ isBasicWs x = false) ∨
    ((∃ s, t = .remark s) ∧ r' = [] ∧ cs ≠ []) ∨
    ((∃ items, t = .data items) ∧ ∃ pre, pre ≠ [] ∧ cs = pre ++ r') := by
  unfold nextToken at h
  split at h
  · rename_i k r hk
    injection h with h1 h2
    subst h2
    exact .inl (chompAnyKeyword_consumes_nb cs k r hk)
  · split at h
    · rename_i k r hk
      injection h with h1 h2
      subst h2
      exact .inl (chompOneOrTwo_consumes_nb cs k r hk)
    · split at h
      · split at h
        · rename_i s r hq
          injection h with h1 h2
          subst h2
          refine .inl ⟨'"' :: s, '"', ?_, by decide⟩
          rw [splitAtQuote_eq _ s r hq]; simp
        · cases h
      · split at h
        · rename_i c d r hn
          have hc := numLoop_consumes_nb cs (c :: d) r hn (by simp)
          split at h
          · split at h
            · injection h with h1 h2
              subst h2
              exact .inl hc
            · cases h
          · cases h
        · split at h
          · rename_i r hr
            injection h with h1 h2
            subst h2
            refine .inr (.inl ⟨⟨r, h1.symm⟩, rfl, ?_⟩)
            have hne := remKeyword_nonempty
            cases hd : Extracted.remKeyword.toList with
            | nil => exact absurd hd hne
            | cons a as =>
              rw [hd] at hr
              obtain ⟨pre, hpre, hcs⟩ := chompKeyword_consumes a as cs r hr
              rw [hcs]; intro hnil; exact hpre (List.append_eq_nil_iff.mp hnil).1
          · split at h
            · rename_i r hr
              simp only at h
              injection h with h1 h2
              subst h2
              refine .inr (.inr ⟨⟨_, h1.symm⟩, ?_⟩)
              have hne := dataKeyword_nonempty
              cases hd : Extracted.dataKeyword.toList with
              | nil => exact absurd hd hne
              | cons a as =>
                rw [hd] at hr
                obtain ⟨pre, hpre, hcs⟩ := chompKeyword_consumes a as cs r hr
                obtain ⟨p2, hp2⟩ := dropBytes_suffix (parseData (F := F) r).2 r
                refine ⟨pre ++ p2, by simp [hpre], ?_⟩
                rw [List.append_assoc, ← hp2]; exact hcs
            · split at h
              · rename_i c d r hs
                injection h with h1 h2
                subst h2
                exact .inl (symLoop_consumes_nb true cs (c :: d) r hs (by simp))
              · cases h

/-- a successful `nextToken` consumes a non-empty prefix (any input) -/
theorem nextToken_cases_consumes (cs : Str) (t : Token F) (r' : Str)
    (h : nextToken (F := F) cs = .tok t r') : ∃ pre, pre ≠ [] ∧ cs = pre ++ r' := by
  rcases nextToken_cases cs t r' h with ⟨pre, x, hx, _⟩ | ⟨_, rfl, hne⟩ | ⟨_, h3⟩
  · exact ⟨pre ++ [x], by simp, by rw [hx]; simp⟩
  · exact ⟨cs, hne, by simp⟩
  · exact h3

/-- Item 3: a successful `nextToken` consumes a non-empty prefix. -/
theorem nextToken_consumes : ∀ (c : Char) (r : Str) (t : Token F) (r' : Str),
    nextToken (F := F) (c :: r) = .tok t r' → isBasicWs c = false →
    ∃ pre, pre ≠ [] ∧ c :: r = pre ++ r' := by
  intro c r t r' h _
  exact nextToken_cases_consumes (c :: r) t r' h

/-- Item 6: except for `REM` and `DATA` tokens, the text a token consumes ends
    in a non-blank character. -/
theorem nonblank_ends (cs : Str) (t : Token F) (r' : Str)
    (h : nextToken (F := F) cs = .tok t r')
    (hrem : ∀ s, t ≠ .remark s) (hdata : ∀ items, t ≠ .data items) :
    ∃ pre x, cs = pre ++ x :: r' ∧ isBasicWs x = false := by
  rcases nextToken_cases cs t r' h with h1 | ⟨⟨s, hs⟩, _⟩ | ⟨⟨items, hi⟩, _⟩
  · exact h1
  · exact absurd hs (hrem s)
  · exact absurd hi (hdata items)

/-! ### the main loop: ranges are non-empty and inside the line -/

/-- Invariant of the main loop: as long as `idx + len8 cs ≤ total`, every token
    it appends has a range `[a, b)` with `idx ≤ a < b ≤ total`. -/
theorem tokLoop_ranges_strict (fuel : Nat) (cs : Str) (idx total : Nat) (acc : List (RangedToken F))
    (hinv : idx + len8 cs ≤ total) :
    ∃ out, (tokLoop fuel cs idx acc).1 = acc.reverse ++ out ∧
      ∀ t a b, (t, a, b) ∈ out → idx ≤ a ∧ a < b ∧ b ≤ total := by
  induction fuel generalizing cs idx acc with
  | zero => exact ⟨[], by simp [tokLoop], by simp⟩
  | succ fuel ih =>
    obtain ⟨ws, _, _, hlen, _⟩ := skipWs_suffix' cs
    unfold tokLoop
    simp only
    generalize skipWs cs = r at hlen ⊢
    cases r with
    | nil => exact ⟨[], by simp, by simp⟩
    | cons c r0 =>
      simp only
      cases hn : nextToken (F := F) (c :: r0) with
      | tok t rest =>
        simp only
        obtain ⟨pre, hpre, hcr⟩ := nextToken_cases_consumes (c :: r0) t rest hn
        have hpos := len8_pos_of_ne_nil hpre
        have hl : len8 (c :: r0) = len8 pre + len8 rest := by rw [hcr]; exact len8_append pre rest
        have hstart : idx + (len8 cs - len8 (c :: r0)) = idx + len8 ws := by omega
        have hstop : idx + (len8 cs - len8 (c :: r0)) + (len8 (c :: r0) - len8 rest) =
            idx + len8 ws + len8 pre := by omega
        rw [hstop, hstart]
        obtain ⟨out, hout, hall⟩ := ih rest (idx + len8 ws + len8 pre)
          ((t, idx + len8 ws, idx + len8 ws + len8 pre) :: acc) (by omega)
        refine ⟨(t, idx + len8 ws, idx + len8 ws + len8 pre) :: out, ?_, ?_⟩
        · rw [hout]; simp
        · intro t' a b hmem
          rcases List.mem_cons.mp hmem with heq | hmem
          · simp only [Prod.mk.injEq] at heq
            obtain ⟨_, rfl, rfl⟩ := heq
            omega
          · have := hall t' a b hmem
            omega
      | illegalChar => exact ⟨[], by simp, by simp⟩
      | unterminated => exact ⟨[], by simp, by simp⟩
      | invalidNumber r'' => exact ⟨[], by simp, by simp⟩

/-- `dropBytes n` drops at least `n` bytes (or everything). -/
theorem dropBytes_len8 (n : Nat) (cs : Str) :
    dropBytes n cs = [] ∨ n + len8 (dropBytes n cs) ≤ len8 cs := by
  induction cs generalizing n with
  | nil => cases n <;> exact .inl rfl
  | cons c cs ih =>
    cases n with
    | zero => exact .inr (by simp [dropBytes])
    | succ n =>
      simp only [dropBytes]
      rcases ih (n + 1 - c.utf8Size) with h | h
      · exact .inl h
      · refine .inr ?_
        simp only [len8]; omega

/-- Item 4: every reported range is non-empty and lies inside the line
    (for every line and every skip; no hypothesis on `skip` is needed). -/
theorem ranges_in_bounds_strict (line : Str) (skip : Nat) :
    ∀ t a b, (t, a, b) ∈ (tokenizeRanges (F := F) line skip).1 →
      skip ≤ a ∧ a < b ∧ b ≤ len8 line := by
  unfold tokenizeRanges
  simp only
  rcases dropBytes_len8 skip line with h | h
  · rw [h]
    intro t a b hmem
    simp [tokLoop, skipWs] at hmem
  · obtain ⟨out, hout, hall⟩ := tokLoop_ranges_strict (F := F) (dropBytes skip line).length.succ
      (dropBytes skip line) skip (len8 line) [] h
    rw [hout]
    simpa using hall

/-- the same for the whole line -/
theorem ranges_in_bounds_strict_zero (line : Str) :
    ∀ t a b, (t, a, b) ∈ (tokenizeRanges (F := F) line 0).1 → a < b ∧ b ≤ len8 line :=
  fun t a b h => (ranges_in_bounds_strict line 0 t a b h).2

/-! ### the fuel never runs out -/

theorem tokLoop_total (fuel : Nat) (cs : Str) (idx : Nat) (acc : List (RangedToken F))
    (hf : cs.length < fuel) : (tokLoop fuel cs idx acc).2 ≠ some .outOfFuel := by
  induction fuel generalizing cs idx acc with
  | zero => omega
  | succ fuel ih =>
    obtain ⟨ws, _, _, _, hlen⟩ := skipWs_suffix' cs
    unfold tokLoop
    simp only
    generalize skipWs cs = r at hlen ⊢
    cases r with
    | nil => simp
    | cons c r0 =>
      simp only
      cases hn : nextToken (F := F) (c :: r0) with
      | tok t rest =>
        simp only
        obtain ⟨pre, hpre, hcr⟩ := nextToken_cases_consumes (c :: r0) t rest hn
        apply ih
        have h1 := congrArg List.length hcr
        have h2 : 0 < pre.length := List.length_pos_iff.mpr hpre
        simp only [List.length_append] at h1
        omega
      | illegalChar => simp
      | unterminated => simp
      | invalidNumber r'' => simp

/-- Item 5: the tokenizer's iteration budget is never exhausted. -/
theorem tokenize_total (line : Str) (skip : Nat) :
    (tokenizeRanges (F := F) line skip).2 ≠ some .outOfFuel := by
  unfold tokenizeRanges
  exact tokLoop_total _ _ _ _ (Nat.lt_succ_self _)

/-! ### ranges are exact: whole characters, non-blank at both ends -/

/-- `[a, b)` is the byte range of a non-empty run `m` of whole characters of
    `whole` (so `a` and `b` are character boundaries and `a < b ≤ len8 whole`),
    the run starts with a non-blank and — unless the token is a remark or a
    `DATA` token — also ends with a non-blank. -/
def RangeExact (whole : Str) (t : Token F) (a b : Nat) : Prop :=
  ∃ p m s, whole = p ++ m ++ s ∧ len8 p = a ∧ a + len8 m = b ∧
    (∃ x m', m = x :: m' ∧ isBasicWs x = false) ∧
    ((∀ s, t ≠ .remark s) → (∀ d, t ≠ .data d) → ∃ m' x, m = m' ++ [x] ∧ isBasicWs x = false)

omit [NumOps F] in
theorem RangeExact.bounds {whole : Str} {t : Token F} {a b : Nat} (h : RangeExact whole t a b) :
    a < b ∧ b ≤ len8 whole := by
  obtain ⟨p, m, s, hw, hp, hm, ⟨x, m', hx, _⟩, _⟩ := h
  have h1 : 0 < len8 m := by rw [hx]; exact len8_cons_pos x m'
  have h2 : len8 whole = len8 p + len8 m + len8 s := by
    rw [hw, len8_append, len8_append]
  omega

/-- Invariant of the main loop with `idx + len8 cs = len8 whole` kept as an
    equality: `whole = done ++ cs` and `idx = len8 done`. -/
theorem tokLoop_exact (fuel : Nat) (cs : Str) (idx : Nat) (acc : List (RangedToken F))
    (whole done : Str) (hw : whole = done ++ cs) (hidx : len8 done = idx) :
    ∃ out, (tokLoop fuel cs idx acc).1 = acc.reverse ++ out ∧
      ∀ t a b, (t, a, b) ∈ out → RangeExact whole t a b := by
  induction fuel generalizing cs idx acc done with
  | zero => exact ⟨[], by simp [tokLoop], by simp⟩
  | succ fuel ih =>
    obtain ⟨ws, hws, _, hlen, _⟩ := skipWs_suffix' cs
    have hnb := skipWs_nonblank cs
    unfold tokLoop
    simp only
    generalize skipWs cs = r at hws hlen hnb ⊢
    cases r with
    | nil => exact ⟨[], by simp, by simp⟩
    | cons c r0 =>
      simp only
      have hc : isBasicWs c = false := hnb c r0 rfl
      cases hn : nextToken (F := F) (c :: r0) with
      | tok t rest =>
        simp only
        obtain ⟨pre, hpre, hcr⟩ := nextToken_cases_consumes (c :: r0) t rest hn
        have hl : len8 (c :: r0) = len8 pre + len8 rest := by rw [hcr]; exact len8_append pre rest
        have hstart : idx + (len8 cs - len8 (c :: r0)) = idx + len8 ws := by omega
        have hstop : idx + (len8 cs - len8 (c :: r0)) + (len8 (c :: r0) - len8 rest) =
            idx + len8 ws + len8 pre := by omega
        rw [hstop, hstart]
        have hw' : whole = (done ++ ws ++ pre) ++ rest := by
          rw [hw, hws, hcr]; simp
        obtain ⟨out, hout, hall⟩ := ih rest (idx + len8 ws + len8 pre)
          ((t, idx + len8 ws, idx + len8 ws + len8 pre) :: acc) (done ++ ws ++ pre) hw'
          (by rw [len8_append, len8_append, hidx])
        refine ⟨(t, idx + len8 ws, idx + len8 ws + len8 pre) :: out, ?_, ?_⟩
        · rw [hout]; simp
        · intro t' a b hmem
          rcases List.mem_cons.mp hmem with heq | hmem
          · simp only [Prod.mk.injEq] at heq
            obtain ⟨rfl, rfl, rfl⟩ := heq
            refine ⟨done ++ ws, pre, rest, ?_, by rw [len8_append, hidx], rfl, ?_, ?_⟩
            · rw [hw']
            · cases pre with
              | nil => exact absurd rfl hpre
              | cons x m' =>
                simp only [List.cons_append, List.cons.injEq] at hcr
                exact ⟨x, m', rfl, by rw [← hcr.1]; exact hc⟩
            · intro hrem hdata
              obtain ⟨pre2, x, hx, hxb⟩ := nonblank_ends (c :: r0) t' rest hn hrem hdata
              refine ⟨pre2, x, ?_, hxb⟩
              have : pre ++ rest = (pre2 ++ [x]) ++ rest := by rw [← hcr, hx]; simp
              exact List.append_cancel_right this
          · exact hall t' a b hmem
      | illegalChar => exact ⟨[], by simp, by simp⟩
      | unterminated => exact ⟨[], by simp, by simp⟩
      | invalidNumber r'' => exact ⟨[], by simp, by simp⟩

/-- Every range reported for a whole line is exact. -/
theorem ranges_exact_zero (line : Str) :
    ∀ t a b, (t, a, b) ∈ (tokenizeRanges (F := F) line 0).1 → RangeExact line t a b := by
  unfold tokenizeRanges
  simp only [dropBytes]
  obtain ⟨out, hout, hall⟩ := tokLoop_exact (F := F) line.length.succ line 0 [] line [] rfl rfl
  rw [hout]
  simpa using hall

/-- … and for a skip that falls on a character boundary. -/
theorem ranges_exact (line : Str) (skip : Nat)
    (hskip : ∃ pre, line = pre ++ dropBytes skip line ∧ len8 pre = skip) :
    ∀ t a b, (t, a, b) ∈ (tokenizeRanges (F := F) line skip).1 → RangeExact line t a b := by
  obtain ⟨pre, hline, hpre⟩ := hskip
  unfold tokenizeRanges
  simp only
  obtain ⟨out, hout, hall⟩ := tokLoop_exact (F := F) (dropBytes skip line).length.succ
    (dropBytes skip line) skip [] line pre hline hpre
  rw [hout]
  simpa using hall

/-- the general-skip version of item 4 in the form the task states it -/
theorem ranges_in_bounds_strict_skip (line : Str) (skip : Nat)
    (hskip : ∃ pre, line = pre ++ dropBytes skip line ∧ len8 pre = skip) :
    ∀ t a b, (t, a, b) ∈ (tokenizeRanges (F := F) line skip).1 → a < b ∧ b ≤ len8 line :=
  fun t a b h => (ranges_exact line skip hskip t a b h).bounds

/-- Non-vacuity of `RangeExact`: `PRINT` at bytes 3..8 of `10 PRINT`. -/
example : RangeExact (F := Unit) "10 PRINT".toList (.kw .Print) 3 8 :=
  ⟨"10 ".toList, "PRINT".toList, [], by decide, by decide, by decide,
    ⟨'P', "RINT".toList, by decide, by decide⟩, fun _ _ => ⟨"PRIN".toList, 'T', by decide, by decide⟩⟩

end Abasic.Props.C13
