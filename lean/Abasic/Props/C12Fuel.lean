import Abasic.Props.C12More
/-
  The tokenizer's iteration budget is never the limit: every step consumes at
  least one character, so `length + 1` iterations always suffice and any larger
  budget gives the same result.  Used to turn the loop theorem about *removing*
  a blank into a statement about `tokenize`.
-/
namespace Abasic.Props.C12
open Abasic

theorem skipWs_length (cs : Str) : (skipWs cs).length ≤ cs.length := by
  induction cs with
  | nil => exact Nat.le_refl _
  | cons c cs ih =>
    simp only [skipWs]
    split
    · simp only [List.length_cons]; omega
    · exact Nat.le_refl _

theorem chompKeyword_length (kw : Str) : ∀ (cs r : Str), chompKeyword kw cs = some r →
    r.length + kw.length ≤ cs.length := by
  induction kw with
  | nil => intro cs r h; simp only [chompKeyword] at h; injection h with h; subst h; simp
  | cons k ks ih =>
    intro cs r h
    simp only [chompKeyword] at h
    have hl := skipWs_length cs
    cases hs : skipWs cs with
    | nil => rw [hs] at h; cases h
    | cons c r0 =>
      rw [hs] at h hl
      simp only at h
      by_cases hk : (asciiUpper c == k) = true
      · rw [if_pos hk] at h
        have := ih r0 r h
        simp only [List.length_cons] at hl ⊢
        omega
      · rw [if_neg hk] at h; cases h

theorem chompKeywordTable_length (tbl : List (String × Kw)) (hne : ∀ p ∈ tbl, 0 < p.1.toList.length)
    (cs : Str) (k : Kw) (r : Str) (h : chompKeywordTable tbl cs = some (k, r)) : r.length < cs.length := by
  induction tbl with
  | nil => simp only [chompKeywordTable] at h; cases h
  | cons e rest ih =>
    obtain ⟨word, k0⟩ := e
    simp only [chompKeywordTable] at h
    cases h1 : chompKeyword word.toList cs with
    | none => rw [h1] at h; exact ih (fun p hp => hne p (List.mem_cons_of_mem _ hp)) h
    | some r0 =>
      rw [h1] at h
      simp only at h
      injection h with h; injection h with _ h; subst h
      have := chompKeyword_length word.toList cs r0 h1
      have := hne (word, k0) (List.mem_cons_self ..)
      simp only at this
      omega

theorem keywords_nonempty : ∀ p ∈ Extracted.keywords, 0 < p.1.toList.length := by decide

theorem chompAnyKeyword_length (cs : Str) (k : Kw) (r : Str) (h : chompAnyKeyword cs = some (k, r)) :
    r.length < cs.length :=
  chompKeywordTable_length _ keywords_nonempty cs k r h

theorem chompOneOrTwo_length (cs : Str) (k : Kw) (r : Str) (h : chompOneOrTwo cs = some (k, r)) :
    r.length < cs.length := by
  unfold chompOneOrTwo at h
  have hl := skipWs_length cs
  cases hs : skipWs cs with
  | nil => rw [hs] at h; cases h
  | cons c r0 =>
    rw [hs] at h hl
    simp only at h
    simp only [List.length_cons] at hl
    cases hlk : Extracted.oneChar.lookup c with
    | none => rw [hlk] at h; cases h
    | some k1 =>
      rw [hlk] at h
      simp only at h
      have hl2 := skipWs_length r0
      cases hs2 : skipWs r0 with
      | nil =>
        rw [hs2] at h
        injection h with h; injection h with _ h; subst h; omega
      | cons c2 r2 =>
        rw [hs2] at h hl2
        simp only at h
        simp only [List.length_cons] at hl2
        cases hq : lookupTwo Extracted.twoChar k1 c2 with
        | none => rw [hq] at h; injection h with h; injection h with _ h; subst h; omega
        | some k2 => rw [hq] at h; injection h with h; injection h with _ h; subst h; omega

theorem splitAtQuote_length (q : Str) : ∀ (s r : Str), splitAtQuote q = some (s, r) → r.length < q.length := by
  induction q with
  | nil => intro s r h; simp only [splitAtQuote] at h; cases h
  | cons c cs ih =>
    intro s r h
    simp only [splitAtQuote] at h
    by_cases hc : (c == '"') = true
    · rw [if_pos hc] at h
      injection h with h; injection h with _ h; subst h; simp
    · rw [if_neg hc] at h
      cases hs : splitAtQuote cs with
      | none => rw [hs] at h; cases h
      | some p =>
        obtain ⟨a, r0⟩ := p
        rw [hs] at h
        simp only at h
        injection h with h; injection h with _ h; subst h
        have := ih a r0 hs
        simp only [List.length_cons]; omega

theorem numLoop_length (cs : Str) :
    (numLoop cs).2.length ≤ cs.length ∧ ((numLoop cs).1 ≠ [] → (numLoop cs).2.length < cs.length) := by
  induction cs with
  | nil => exact ⟨Nat.le_refl _, fun h => absurd rfl h⟩
  | cons c cs ih =>
    obtain ⟨ih1, ih2⟩ := ih
    by_cases hb : isBasicWs c = true
    · rw [numLoop_blank c hb]
      by_cases hd : (numLoop cs).1.isEmpty = true
      · rw [if_pos hd]; exact ⟨Nat.le_refl _, fun h => absurd rfl h⟩
      · rw [if_neg hd]
        simp only [List.length_cons]
        exact ⟨by omega, fun h => by have := ih2 h; omega⟩
    · by_cases hg : (isAsciiDigit c || c == '.') = true
      · rw [numLoop_digit c hb hg]
        simp only [List.length_cons]
        exact ⟨by omega, fun _ => by omega⟩
      · rw [numLoop_other c hb hg]; exact ⟨Nat.le_refl _, fun h => absurd rfl h⟩

theorem symLoop_length (first : Bool) (cs : Str) :
    (symLoop first cs).2.length ≤ cs.length ∧
    ((symLoop first cs).1 ≠ [] → (symLoop first cs).2.length < cs.length) := by
  induction cs generalizing first with
  | nil => exact ⟨Nat.le_refl _, fun h => absurd rfl h⟩
  | cons c cs ih =>
    by_cases hb : isBasicWs c = true
    · obtain ⟨ih1, ih2⟩ := ih first
      rw [symLoop_blank first c hb]
      by_cases hd : (symLoop first cs).1.isEmpty = true
      · rw [if_pos hd]; exact ⟨Nat.le_refl _, fun h => absurd rfl h⟩
      · rw [if_neg hd]
        simp only [List.length_cons]
        exact ⟨by omega, fun h => by have := ih2 h; omega⟩
    · obtain ⟨ih1, ih2⟩ := ih false
      cases hv : symValid first c with
      | false => rw [symLoop_invalid first c hb hv]; exact ⟨Nat.le_refl _, fun h => absurd rfl h⟩
      | true =>
        by_cases hd : (c == '$') = true
        · rw [symLoop_dollar first c hb hv hd]
          simp only [List.length_cons]; exact ⟨by omega, fun _ => by omega⟩
        · by_cases hk : (chompAnyKeyword cs).isSome = true
          · rw [symLoop_kw first c hb hv hd cs hk]
            simp only [List.length_cons]; exact ⟨by omega, fun _ => by omega⟩
          · rw [symLoop_more first c hb hv hd cs hk]
            simp only [List.length_cons]; exact ⟨by omega, fun _ => by omega⟩

theorem dropBytes_length (n : Nat) (cs : Str) : (dropBytes n cs).length ≤ cs.length := by
  induction cs generalizing n with
  | nil => cases n <;> simp [dropBytes]
  | cons c cs ih =>
    cases n with
    | zero => simp [dropBytes]
    | succ n =>
      simp only [dropBytes, List.length_cons]
      have := ih (n + 1 - c.utf8Size)
      omega

variable {F : Type} [NumOps F]

theorem afterQuote_length (cs : Str) (hne : 0 < cs.length) (tk : Token F) (rest : Str)
    (h : afterQuote (F := F) cs = .tok tk rest) : rest.length < cs.length := by
  unfold afterQuote at h
  obtain ⟨hn1, hn2⟩ := numLoop_length cs
  generalize numLoop cs = a at h hn1 hn2
  obtain ⟨ds, r⟩ := a
  simp only at hn1 hn2
  cases ds with
  | cons x d =>
    simp only at h
    have hlt := hn2 (by intro e; cases e)
    cases hq : NumOps.parse (F := F) (x :: d) with
    | none => rw [hq] at h; cases h
    | some v =>
      rw [hq] at h
      simp only at h
      by_cases hf : NumOps.isFinite v = true
      · rw [if_pos hf] at h; injection h with _ h; subst h; exact hlt
      · rw [if_neg hf] at h; cases h
  | nil =>
    simp only at h
    cases h1 : chompKeyword Extracted.remKeyword.toList cs with
    | some r1 => rw [h1] at h; simp only at h; injection h with _ h; subst h; exact hne
    | none =>
      rw [h1] at h
      simp only at h
      cases h2 : chompKeyword Extracted.dataKeyword.toList cs with
      | some r2 =>
        rw [h2] at h
        simp only at h
        injection h with _ h; subst h
        have l1 := chompKeyword_length _ cs r2 h2
        have l2 := dropBytes_length (parseData (F := F) r2).2 r2
        have l3 : 0 < Extracted.dataKeyword.toList.length := by decide
        omega
      | none =>
        rw [h2] at h
        simp only at h
        obtain ⟨hs1, hs2⟩ := symLoop_length true cs
        generalize symLoop true cs = b at h hs1 hs2
        obtain ⟨ss, u⟩ := b
        simp only at hs1 hs2
        cases ss with
        | cons y e =>
          simp only at h; injection h with _ h; subst h
          exact hs2 (by intro e; cases e)
        | nil => simp only at h; cases h

/-- Every token consumes at least one character. -/
theorem nextToken_length (c : Char) (t : Str) (tk : Token F) (rest : Str)
    (h : nextToken (F := F) (c :: t) = .tok tk rest) : rest.length < (c :: t).length := by
  cases k1 : chompAnyKeyword (c :: t) with
  | some p =>
    obtain ⟨k, r⟩ := p
    rw [nextToken_kw _ k r k1] at h
    injection h with _ h; subst h
    exact chompAnyKeyword_length _ k r k1
  | none =>
    cases o1 : chompOneOrTwo (c :: t) with
    | some p =>
      obtain ⟨k, r⟩ := p
      rw [nextToken_op _ k r k1 o1] at h
      injection h with _ h; subst h
      exact chompOneOrTwo_length _ k r o1
    | none =>
      by_cases hc : c = '"'
      · subst hc
        rw [nextToken_quote t k1 o1] at h
        cases hs : splitAtQuote t with
        | none => rw [hs] at h; cases h
        | some p =>
          obtain ⟨s, r⟩ := p
          rw [hs] at h
          simp only at h
          injection h with _ h; subst h
          have := splitAtQuote_length t s r hs
          simp only [List.length_cons]; omega
      · rw [nextToken_noquote c t hc k1 o1] at h
        exact afterQuote_length _ (by simp) tk rest h

theorem tokLoop_succ_cons (fuel : Nat) (cs : Str) (idx : Nat) (acc : List (RangedToken F))
    (c : Char) (t : Str) (hs : skipWs cs = c :: t) :
    tokLoop (fuel + 1) cs idx acc =
      match nextToken (F := F) (c :: t) with
      | .tok tk r' =>
        tokLoop fuel r' (idx + (len8 cs - len8 (c :: t)) + (len8 (c :: t) - len8 r'))
          ((tk, idx + (len8 cs - len8 (c :: t)), idx + (len8 cs - len8 (c :: t)) + (len8 (c :: t) - len8 r')) :: acc)
      | .illegalChar => (acc.reverse, some (.illegalChar (idx + (len8 cs - len8 (c :: t)))))
      | .unterminated => (acc.reverse, some (.unterminated (idx + (len8 cs - len8 (c :: t)))))
      | .invalidNumber r' =>
        (acc.reverse, some (.invalidNumber (idx + (len8 cs - len8 (c :: t)))
          (idx + (len8 cs - len8 (c :: t)) + (len8 (c :: t) - len8 r')))) := by
  conv => lhs; unfold tokLoop; simp only [hs]
  cases nextToken (F := F) (c :: t) <;> rfl

/-- Any two budgets larger than the text length give the same result. -/
theorem tokLoop_fuel_irrelevant (fuel : Nat) : ∀ (fuel' : Nat) (cs : Str) (idx : Nat) (acc : List (RangedToken F)),
    cs.length < fuel → cs.length < fuel' → tokLoop fuel cs idx acc = tokLoop fuel' cs idx acc := by
  induction fuel with
  | zero => intro _ cs _ _ h; omega
  | succ fuel ih =>
    intro fuel' cs idx acc h1 h2
    obtain ⟨f', rfl⟩ : ∃ f', fuel' = f' + 1 := ⟨fuel' - 1, by omega⟩
    have hl := skipWs_length cs
    cases hs : skipWs cs with
    | nil => rw [tokLoop_succ_nil fuel cs idx acc hs, tokLoop_succ_nil f' cs idx acc hs]
    | cons c t =>
      rw [tokLoop_succ_cons fuel cs idx acc c t hs, tokLoop_succ_cons f' cs idx acc c t hs]
      rw [hs] at hl
      cases hn : nextToken (F := F) (c :: t) with
      | tok tk rest =>
        simp only
        have := nextToken_length c t tk rest hn
        exact ih f' rest _ _ (by omega) (by omega)
      | illegalChar => rfl
      | unterminated => rfl
      | invalidNumber r => rfl

/-- The budget is never exhausted when it exceeds the text length (the model's
    `outOfFuel` is unreachable from `tokenizeRanges`). -/
theorem tokLoop_not_outOfFuel (fuel : Nat) : ∀ (cs : Str) (idx : Nat) (acc : List (RangedToken F)),
    cs.length < fuel → (tokLoop fuel cs idx acc).2 ≠ some .outOfFuel := by
  induction fuel with
  | zero => intro cs _ _ h; omega
  | succ fuel ih =>
    intro cs idx acc h1
    have hl := skipWs_length cs
    cases hs : skipWs cs with
    | nil => rw [tokLoop_succ_nil fuel cs idx acc hs]; intro h; cases h
    | cons c t =>
      rw [tokLoop_succ_cons fuel cs idx acc c t hs]
      rw [hs] at hl
      cases hn : nextToken (F := F) (c :: t) with
      | tok tk rest =>
        simp only
        have := nextToken_length c t tk rest hn
        exact ih rest _ _ (by omega)
      | illegalChar => intro h; cases h
      | unterminated => intro h; cases h
      | invalidNumber r => intro h; cases h

theorem tokenizeRanges_not_outOfFuel (line : Str) (skip : Nat) :
    (tokenizeRanges (F := F) line skip).2 ≠ some .outOfFuel := by
  unfold tokenizeRanges
  exact tokLoop_not_outOfFuel _ _ _ _ (Nat.lt_succ_self _)

/-- Removing a blank from a line whose tokens are all unprotected changes no token. -/
theorem tokenize_del_unprotected (w : Char) (hw : isBasicWs w = true) {line line' : Str}
    (h : Ins w line line') (ts : List (Token F)) (hok : tokenize (F := F) line' 0 = .ok ts)
    (hun : ∀ t ∈ ts, Unprotected t = true) : tokenize (F := F) line 0 = .ok ts := by
  rw [tokenize_ok_iff] at hok ⊢
  obtain ⟨h1, h2⟩ := hok
  have hun' : ∀ x ∈ (tokLoop (F := F) (line'.length + 1) line' 0 []).1, Unprotected x.1 = true := by
    intro x hx
    apply hun
    rw [← h2]
    exact List.mem_map_of_mem hx
  have := tokLoop_del_unprotected (F := F) w hw (line'.length + 1) h (line'.length + 1) 0 0 [] []
    (Nat.le_refl _) rfl h1 hun'
  have hle := h.length_le
  rw [tokLoop_fuel_irrelevant (line.length + 1) (line'.length + 1) line 0 [] (by omega) (by omega)]
  exact ⟨this.1, this.2.trans h2⟩

/-- Spacing, both ways: two lines related by one inserted/removed blank have the same
    unprotected tokenization. -/
theorem tokenize_ins_iff_unprotected (w : Char) (hw : isBasicWs w = true) {line line' : Str}
    (h : Ins w line line') (ts : List (Token F)) (hun : ∀ t ∈ ts, Unprotected t = true) :
    tokenize (F := F) line 0 = .ok ts ↔ tokenize (F := F) line' 0 = .ok ts :=
  ⟨fun hok => tokenize_ins_unprotected w hw h ts hok hun,
   fun hok => tokenize_del_unprotected w hw h ts hok hun⟩

end Abasic.Props.C12
