import Abasic.Props.C05Eval
import Abasic.Proofs.BudgetAnalyzerFuel
import Abasic.Proofs.AnalyzerFrame
/-
  C05, concluded — the analyzer is total.

  `analyze_no_rust_panic` (C05Eval.lean) left two ways for `Analysis.panicked`
  to be set: the model's own iteration budgets of `analyzeStatements` (one
  iteration per statement of a line) and `analyzeProgram` (one iteration per
  stored line).  Neither is ever exhausted:

  * every statement analysis that succeeds consumed at least the token
    `hasNext` saw, and stays on the same line (`Budget.wp_aStmtBody`, on both
    paths); so `rem + 1` iterations suffice for a line (`analyzeStatements_total`)
    and `analyzeProgram` passes `length + 2`;
  * `nextLine` moves to a strictly greater stored line number (`C04.after_least`),
    so the number of stored lines after the current one decreases
    (`analyzeProgram_total`); at most one line is stored per line of the file, and
    `analyzeFile` passes `lines.length + 2`.

  Hence `analyze_total`: for every file and every fuel the panic flag is clear.
-/
namespace Abasic.Props.C05
open Abasic Abasic.AInv Abasic.Budget

variable {F : Type} [NumOps F]

omit [NumOps F] in
theorem toks_of_sinv {L : Lines F} {s : St F} (hs : SInv L s) : ∃ ts, toks s = some ts := by
  obtain ⟨n, ts, hl, hg, _⟩ := hs.loc
  refine ⟨ts, ?_⟩
  unfold toks
  rw [hl, hs.lines]
  exact hg

/-! ### the statements of one line -/

/-- a diagnostic that is not the model's fuel/budget error -/
def NoFuelDiag (d : Diag) : Prop := ∀ f e, d = .error f e → e.err ≠ .outOfFuel

/-- the analysis `a` reports no fuel error so far -/
def NoFuelMsgs (a : Analysis F) : Prop := ∀ d ∈ a.messages, NoFuelDiag d

/-- the analyzer's recursion fuel suffices from the state `s` -/
def FuelOK (fuel : Nat) (s : St F) : Prop :=
  Extracted.nestingLimit + 1 ≤ fuel + s.nesting ∧ s.nesting ≤ Extracted.nestingLimit

omit [NumOps F] in
theorem FuelOK.congr {fuel : Nat} {s s' : St F} (h : s'.nesting = s.nesting) (hf : FuelOK fuel s) :
    FuelOK fuel s' := by
  unfold FuelOK at hf ⊢
  rw [h]; exact hf

/-- **The statement budget is never exhausted.**  With a budget above the number
    of tokens left on the line, the statement pass of a line leaves the panic
    flag clear and stays on the line; with enough recursion fuel it reports no
    fuel error. -/
theorem analyzeStatements_total {L : Lines F} {m : FileMap} (hLM : LinesMapped L m) (fuel : Nat) :
    ∀ (n : Nat) (a : Analysis F), SInv L a.st → a.map = m → a.panicked = none → rem a.st < n →
      (analyzeStatements fuel n a).panicked = none ∧ Fr a.st (analyzeStatements fuel n a).st ∧
      (FuelOK fuel a.st → NoFuelMsgs a → NoFuelMsgs (analyzeStatements fuel n a)) := by
  intro n
  induction n with
  | zero => intro a _ _ _ h; omega
  | succ n ih =>
    intro a hs hm hp hn
    unfold analyzeStatements
    obtain ⟨b, st, hhn, hst⟩ := hasNext_ok hs
    have hspec := wp_ok (wp_hasNext (E := FrE) a.st) hhn
    obtain ⟨hrd, hb⟩ := hspec
    rw [hhn]
    subst hrd
    cases b with
    | false => exact ⟨hp, fr_rd _, fun _ h => h⟩
    | true =>
      simp only
      have hcur : cur (rd a.st) ≠ none := by
        intro h
        rw [cur_rd] at h
        rw [h] at hb
        cases hb
      have hgood := good_aStmtBody (good_aEvalN (F := F) (L := L) fuel).1 (good_aEvalN (F := F) (L := L) fuel).2
        (rd a.st) hst
      have hw := wp_aStmtBody (aEvOK_aEvalN (F := F) fuel) (rd a.st)
      have hwd := sat_aStmtBodyD (aEvOKd_aEvalN (F := F) fuel) (rd a.st)
      cases hres : aStmtBody (aEvalN fuel) (rd a.st) with
      | ok u st' =>
        rw [hres] at hgood
        have hpost := wp_ok hw hres
        obtain ⟨hf, hlt⟩ := hpost
        have hlt' := hlt hcur
        rw [rem_rd] at hlt'
        obtain ⟨r1, r2, r3⟩ := ih { a with st := st' } hgood.1 hm hp (by show rem st' < n; omega)
        have hnest : st'.nesting = a.st.nesting := hf.nesting
        exact ⟨r1, (fr_rd _).trans (hf.trans r2), fun hfu hmsg => r3 (hfu.congr hnest) hmsg⟩
      | err e st' =>
        rw [hres] at hgood
        obtain ⟨hst', _, he⟩ := hgood
        obtain ⟨hplain, loc, hloc, hlocok⟩ := populate_ok hst' he
        have hf : Fr (rd a.st) st' := by
          have := wp_err hw hres
          exact this
        have hnf : NF (Extracted.nestingLimit + 2 - fuel) (rd a.st) e st' := wp_err hwd hres
        simp only
        cases hpe : (st'.populate e).err with
        | panic site => rw [hpe] at hplain; cases hplain
        | _ =>
          simp only
          obtain ⟨f, x, y, hmap⟩ := mapLoc_of_locOk hLM hlocok
          rw [hloc, hm]
          simp only [Option.bind_some, hmap]
          refine ⟨hp, (fr_rd _).trans hf, ?_⟩
          intro hfu hmsg dg hdg
          rcases List.mem_append.mp hdg with hdg | hdg
          · exact hmsg dg hdg
          · simp only [List.mem_singleton] at hdg
            subst hdg
            intro f' e' heq
            injection heq with _ h2
            subst h2
            rw [populate_err]
            refine hnf ?_ hfu.2
            have := hfu.1
            show Extracted.nestingLimit + 2 - fuel ≤ a.st.nesting + 1
            omega

/-! ### the lines of the program -/

/-- the number of stored lines after the current one -/
def later (L : Lines F) (s : St F) : Nat :=
  match s.loc.line with
  | some n => (L.sorted.filter fun k => decide (n < k)).length
  | none => 0

omit [NumOps F] in
theorem later_le (L : Lines F) (s : St F) : later L s ≤ L.sorted.length := by
  unfold later
  cases s.loc.line with
  | none => exact Nat.zero_le _
  | some n => exact List.length_filter_le _ _

theorem filter_length_lt (l : List Nat) (n m : Nat) (hnm : n < m) (hm : m ∈ l) :
    (l.filter fun k => decide (m < k)).length < (l.filter fun k => decide (n < k)).length := by
  have hle : ∀ l : List Nat, (l.filter fun k => decide (m < k)).length ≤ (l.filter fun k => decide (n < k)).length := by
    intro l
    induction l with
    | nil => exact Nat.le_refl _
    | cons k ks ih =>
      simp only [List.filter_cons]
      by_cases h1 : m < k
      · have h2 : n < k := by omega
        simp only [h1, h2, decide_true, if_true, List.length_cons]
        omega
      · simp only [h1, decide_false, Bool.false_eq_true, if_false]
        split
        · simp only [List.length_cons]; omega
        · exact ih
  induction l with
  | nil => cases hm
  | cons k ks ih =>
    simp only [List.filter_cons]
    rcases List.mem_cons.mp hm with rfl | hm'
    · have h1 : ¬ m < m := Nat.lt_irrefl _
      simp only [h1, hnm, decide_true, decide_false, Bool.false_eq_true, if_false, if_true, List.length_cons]
      have := hle ks
      omega
    · have := ih hm'
      by_cases h1 : m < k
      · have h2 : n < k := by omega
        simp only [h1, h2, decide_true, if_true, List.length_cons]
        omega
      · simp only [h1, decide_false, Bool.false_eq_true, if_false]
        split
        · simp only [List.length_cons]; omega
        · exact this

omit [NumOps F] in
theorem nextLine_true {s st : St F} (h : nextLine s = .ok true st) :
    ∃ n k, s.loc.line = some n ∧ s.lines.after n = some k ∧ st.loc.line = some k ∧ st.nesting = s.nesting := by
  simp only [nextLine, bind, M.bindM, M.get] at h
  cases hl : s.loc.line with
  | none =>
    rw [hl] at h
    simp only [pure, M.pureM] at h
    injection h with h1 _
    cases h1
  | some n =>
    rw [hl] at h
    simp only at h
    cases ha : s.lines.after n with
    | none =>
      rw [ha] at h
      simp only [pure, M.pureM] at h
      injection h with h1 _
      cases h1
    | some k =>
      rw [ha] at h
      simp only [pure] at h
      injection h with _ h2
      exact ⟨n, k, rfl, ha, by rw [← h2], by rw [← h2]⟩

omit [NumOps F] in
/-- `next_line` strictly decreases the number of stored lines still ahead -/
theorem later_nextLine {L : Lines F} (hwf : C04.WF L) {s st : St F} (hl : s.lines = L)
    (h : nextLine s = .ok true st) : later L st < later L s := by
  obtain ⟨n, k, h1, h2, h3, _⟩ := nextLine_true h
  rw [hl] at h2
  obtain ⟨hmem, hlt, _⟩ := (C04.after_least L hwf n).1 k h2
  unfold later
  rw [h1, h3]
  exact filter_length_lt _ n k hlt hmem

/-- **The line budget is never exhausted.**  With a budget above the number of
    stored lines after the current one, the statement pass over the program
    leaves the panic flag clear (and, with enough fuel, reports no fuel error). -/
theorem analyzeProgram_total {L : Lines F} {m : FileMap} (hwf : C04.WF L) (hLM : LinesMapped L m)
    (fuel : Nat) : ∀ (n : Nat) (a : Analysis F), SInv L a.st → a.map = m → a.panicked = none →
      later L a.st < n → (analyzeProgram fuel n a).panicked = none ∧
        (FuelOK fuel a.st → NoFuelMsgs a → NoFuelMsgs (analyzeProgram fuel n a)) := by
  intro n
  induction n with
  | zero => intro a _ _ _ h; omega
  | succ n ih =>
    intro a hs hm hp hn
    unfold analyzeProgram
    have hnp : ¬ a.panicked.isSome = true := by rw [hp]; simp
    rw [if_neg hnp]
    obtain ⟨ts, hts⟩ := toks_of_sinv hs
    have htok : tokens a.st = .ok ts a.st := by rw [tokens_eq, hts]
    rw [htok]
    dsimp only
    have hrem : rem a.st < ts.length + 2 := by
      unfold rem
      rw [hts]
      simp only
      omega
    obtain ⟨t1, t2, t3⟩ := analyzeStatements_total hLM fuel (ts.length + 2) a hs hm hp hrem
    obtain ⟨h1, _, _⟩ := analyzeStatements_inv hLM fuel (ts.length + 2) a hs hm hp
    have hm1 : (analyzeStatements fuel (ts.length + 2) a).map = m :=
      ((analyzeStatements_ext fuel (ts.length + 2) a).map).trans hm
    generalize analyzeStatements fuel (ts.length + 2) a = a1 at t1 t2 t3 h1 hm1
    have hnp1 : ¬ a1.panicked.isSome = true := by rw [t1]; simp
    rw [if_neg hnp1]
    obtain ⟨b, st, hnl, hst⟩ := nextLine_ok hwf h1
    rw [hnl]
    cases b with
    | false => exact ⟨t1, fun hfu hmsg => t3 hfu hmsg⟩
    | true =>
      have hdec := later_nextLine hwf h1.lines hnl
      have hsame : later L a1.st = later L a.st := by
        unfold later
        rw [t2.line]
      obtain ⟨_, _, _, _, _, hnest⟩ := nextLine_true hnl
      obtain ⟨r1, r2⟩ := ih { a1 with st := st } hst hm1 t1 (by show later L st < n; omega)
      exact ⟨r1, fun hfu hmsg => r2 (hfu.congr (hnest.trans t2.nesting)) (t3 hfu hmsg)⟩

/-! ### one stored line per file line at most -/

theorem insertSorted_length (n : Nat) (l : List Nat) : (Lines.insertSorted n l).length ≤ l.length + 1 := by
  induction l with
  | nil => simp [Lines.insertSorted]
  | cons k ks ih =>
    simp only [Lines.insertSorted]
    split
    · simp
    · split
      · simp
      · simp only [List.length_cons]; omega

theorem eraseSorted_length (n : Nat) (l : List Nat) : (Lines.eraseSorted n l).length ≤ l.length := by
  induction l with
  | nil => simp [Lines.eraseSorted]
  | cons k ks ih =>
    simp only [Lines.eraseSorted]
    split
    · simp only [List.length_cons]; omega
    · simp only [List.length_cons]; omega

omit [NumOps F] in
theorem set_sorted_length (L : Lines F) (n : Nat) (ts : List (Token F)) :
    (L.set n ts).sorted.length ≤ L.sorted.length + 1 := by
  unfold Lines.set
  split
  · have := eraseSorted_length n L.sorted
    show (Lines.eraseSorted n L.sorted).length ≤ _
    omega
  · exact insertSorted_length n L.sorted

theorem analyzeLine_sorted (a : Analysis F) (i : Nat) (line : Str) :
    (analyzeLine a i line).st.lines.sorted.length ≤ a.st.lines.sorted.length + 1 := by
  rcases analyzeLine_st a i line with ⟨hst, _⟩ | ⟨n, lnEnd, toks, _, _, _, _, hst, _⟩
  · rw [hst]; omega
  · rw [hst]
    exact set_sorted_length a.st.lines n _

theorem analyzeLines_sorted (a : Analysis F) (i : Nat) (lines : List Str) :
    (analyzeLines a i lines).st.lines.sorted.length ≤ a.st.lines.sorted.length + lines.length := by
  induction lines generalizing a i with
  | nil => exact Nat.le_refl _
  | cons l ls ih =>
    have h1 := ih (analyzeLine a i l) (i + 1)
    have h2 := analyzeLine_sorted a i l
    show (analyzeLines (analyzeLine a i l) (i + 1) ls).st.lines.sorted.length ≤ _
    simp only [List.length_cons]
    omega

/-! ### the whole analysis -/

omit [NumOps F] in
theorem noFuelDiag_warning (f : Nat) (loc : Option (Nat × Nat)) (msg : Str) : NoFuelDiag (.warning f loc msg) :=
  fun _ _ h => by cases h

omit [NumOps F] in
theorem symbolWarnings_noFuel (a : Analysis F) (h : NoFuelMsgs a) : NoFuelMsgs (symbolWarnings a) := by
  obtain ⟨extra, hext, hex⟩ := (symbolWarnings_total a).1
  intro d hd
  rw [hext] at hd
  rcases List.mem_append.mp hd with hd | hd
  · exact h d hd
  · obtain ⟨f, n, i, msg, rfl⟩ := hex d hd
    exact noFuelDiag_warning _ _ _

/-- both conclusions at once -/
theorem analyze_total_aux (fuel : Nat) (lines : List Str) :
    (analyzeFile (F := F) fuel lines).panicked = none ∧
    (Extracted.nestingLimit + 1 ≤ fuel → NoFuelMsgs (analyzeFile (F := F) fuel lines)) := by
  have hinv := analyzeLines_lineInv ({ lines := lines } : Analysis F) 0 lines (lineInv_init lines)
  have hpan := (analyzeLines_file (F := F) lines).2.2.2
  have hlen : (analyzeLines ({ lines := lines } : Analysis F) 0 lines).st.lines.sorted.length ≤ lines.length := by
    have := analyzeLines_sorted ({ lines := lines } : Analysis F) 0 lines
    have h0 : ({ lines := lines } : Analysis F).st.lines.sorted.length = 0 := rfl
    omega
  have hnest : (analyzeLines ({ lines := lines } : Analysis F) 0 lines).st.nesting = 0 :=
    AFrame.analyzeLines_nesting _ 0 lines
  have hmsg0 : NoFuelMsgs (analyzeLines ({ lines := lines } : Analysis F) 0 lines) := by
    intro d hd
    rcases (analyzeLines_total (F := F) lines).2 d hd with ⟨f, msg, rfl⟩ | ⟨f, t, rfl⟩
    · exact noFuelDiag_warning _ _ _
    · intro f' e' heq
      injection heq with _ h2
      subst h2
      intro h; cases h
  unfold analyzeFile
  simp only
  generalize analyzeLines ({ lines := lines } : Analysis F) 0 lines = a0 at hinv hpan hlen hnest hmsg0
  obtain ⟨hl, hacc, himm, hfirst⟩ := runFromFirst_facts a0.st
  have hfuel : Extracted.nestingLimit + 1 ≤ fuel →
      FuelOK fuel ({ a0 with st := a0.st.runFromFirst } : Analysis F).st := by
    intro hf
    have hn : a0.st.runFromFirst.nesting = 0 := (runFromFirst_nesting a0.st).trans hnest
    refine ⟨?_, ?_⟩
    · show Extracted.nestingLimit + 1 ≤ fuel + a0.st.runFromFirst.nesting
      omega
    · show a0.st.runFromFirst.nesting ≤ Extracted.nestingLimit
      omega
  rcases hfirst with ⟨_, hline⟩ | ⟨n, hfn, hloc⟩
  · -- no BASIC line: nothing runs
    obtain ⟨k1, k2, k3⟩ := analyzeProgram_empty fuel (lines.length + 1) { a0 with st := a0.st.runFromFirst }
      hpan hline himm
    generalize analyzeProgram fuel (lines.length + 1 + 1) { a0 with st := a0.st.runFromFirst } = a2 at k1 k2 k3
    have hnp : ¬ a2.panicked.isSome = true := by rw [k1]; simp
    rw [if_neg hnp]
    refine ⟨((symbolWarnings_total a2).2 ?_).trans k1, fun _ => symbolWarnings_noFuel a2 ?_⟩
    · intro x hx
      rw [k3] at hx
      have : a0.st.runFromFirst.accesses = [] := hacc.trans hinv.acc
      simp only at hx
      rw [this] at hx
      simp at hx
    · intro d hd
      rw [k2] at hd
      exact hmsg0 d hd
  · -- the evaluator runs under its invariant, within both budgets
    have hmem : n ∈ a0.st.lines.sorted := by
      unfold Lines.first at hfn
      exact List.mem_of_mem_head? (by rw [hfn]; rfl)
    obtain ⟨ts, hts⟩ := Option.isSome_iff_exists.mp ((hinv.wf.agree n).mp hmem)
    have hs : SInv a0.st.lines ({ a0 with st := a0.st.runFromFirst } : Analysis F).st := by
      refine ⟨hl, ?_, ?_⟩
      · show LocOk a0.st.lines a0.st.runFromFirst.loc
        rw [hloc]
        exact ⟨n, ts, rfl, hts, Nat.zero_le _⟩
      · intro x hx
        have : a0.st.runFromFirst.accesses = [] := hacc.trans hinv.acc
        simp only at hx
        rw [this] at hx
        simp at hx
    have hlater : later a0.st.lines ({ a0 with st := a0.st.runFromFirst } : Analysis F).st < lines.length + 2 := by
      have := later_le a0.st.lines ({ a0 with st := a0.st.runFromFirst } : Analysis F).st
      omega
    obtain ⟨k1, _, _⟩ := analyzeProgram_inv hinv.wf hinv.mapped fuel (lines.length + 2)
      { a0 with st := a0.st.runFromFirst } hs rfl hpan
    obtain ⟨ktot, kmsg⟩ := analyzeProgram_total hinv.wf hinv.mapped fuel (lines.length + 2)
      { a0 with st := a0.st.runFromFirst } hs rfl hpan hlater
    have kmap : (analyzeProgram fuel (lines.length + 2) { a0 with st := a0.st.runFromFirst }).map = a0.map :=
      (analyzeProgram_ext fuel (lines.length + 2) { a0 with st := a0.st.runFromFirst }).map
    generalize analyzeProgram fuel (lines.length + 2) { a0 with st := a0.st.runFromFirst } = a2 at k1 ktot kmsg kmap
    have hnp : ¬ a2.panicked.isSome = true := by rw [ktot]; simp
    rw [if_neg hnp]
    refine ⟨((symbolWarnings_total a2).2 ?_).trans ktot,
      fun hf => symbolWarnings_noFuel a2 (kmsg (hfuel hf) hmsg0)⟩
    intro x hx
    obtain ⟨f, u, v, hmap⟩ := mapLoc_of_locOk hinv.mapped (k1.acc x hx)
    rw [kmap, hmap]; rfl

/-- **The analyzer is total.**  For every file and every fuel the finished
    analysis has its panic flag clear: no Rust panic site is reached
    (`analyze_no_rust_panic`) and neither iteration budget of the model is
    exhausted. -/
theorem analyze_total (fuel : Nat) (lines : List Str) :
    (analyzeFile (F := F) fuel lines).panicked = none :=
  (analyze_total_aux fuel lines).1

/-- **No phantom diagnostics.**  With recursion fuel above the nesting cap (in
    particular `defaultFuel`) no diagnostic of any file is the model's
    `outOfFuel`: neither the fuel of `aEvalN` nor any loop budget of the
    analyzer's evaluator (`aArrayIndexLoop`, `aLevelLoop`, `aReadLoop`,
    `aPrintLoop`, `defArgsLoop`) is ever exhausted. -/
theorem analyze_no_outOfFuel (fuel : Nat) (hf : Extracted.nestingLimit + 1 ≤ fuel) (lines : List Str)
    (f : Nat) (e : TErr) (hd : .error f e ∈ (analyzeFile (F := F) fuel lines).messages) :
    e.err ≠ .outOfFuel :=
  (analyze_total_aux fuel lines).2 hf _ hd f e rfl

/-- the same for a document as the language server receives it -/
theorem analyzeText_total (fuel : Nat) (text : Str) : (analyzeText (F := F) fuel text).panicked = none :=
  analyze_total fuel _

/-- **The language server's analysis is total**: whatever the document. -/
theorem lsp_total (fuel : Nat) (doc : Str) : (lspAnalyze (F := F) fuel doc).panicked = none :=
  analyze_total fuel _

theorem lsp_no_outOfFuel (fuel : Nat) (hf : Extracted.nestingLimit + 1 ≤ fuel) (doc : Str)
    (f : Nat) (e : TErr) (hd : .error f e ∈ (lspAnalyze (F := F) fuel doc).messages) : e.err ≠ .outOfFuel :=
  analyze_no_outOfFuel fuel hf _ f e hd

/-! ### the budgeted loops of the analyzer's evaluator, one by one

  As for the interpreter (C01Budget.lean): with a budget above `rem σ` the
  result does not depend on the budget, and the loop raises no `outOfFuel`
  unless the recursive entry points do.  `aEvalN n` satisfies the assumption
  `AEvOKd (nestingLimit + 2 - n)` (`Budget.aEvOKd_aEvalN`). -/

section aloops
variable {d : Nat} {ev : AEvals F}

theorem aArrayIndexLoop_budget_irrelevant (hev : AEvOKd d ev) (b1 b2 arity : Nat) (σ : St F)
    (h1 : rem σ < b1) (h2 : rem σ < b2) : aArrayIndexLoop ev b1 arity σ = aArrayIndexLoop ev b2 arity σ :=
  (aArrayIndexLoop_wp2 hev b1 b2 arity σ h1 h2).1

theorem aArrayIndexLoop_not_exhausted (hev : AEvOKd d ev) (b arity : Nat) (σ : St F) (hb : rem σ < b)
    (h1 : d ≤ σ.nesting + 1) (h2 : σ.nesting ≤ Extracted.nestingLimit) (e : TErr) (σ' : St F)
    (he : aArrayIndexLoop ev b arity σ = .err e σ') : e.err ≠ .outOfFuel :=
  wp_err (aArrayIndexLoop_wp2 hev b b arity σ hb hb).2 he h1 h2

theorem aLevelLoop_budget_irrelevant {sub : M F VT} (hsub : Sat (NF d) Fr sub) (ops : Token F → Option BinOp)
    (tier : ATier) (b1 b2 : Nat) (v : VT) (σ : St F) (h1 : rem σ < b1) (h2 : rem σ < b2) :
    aLevelLoop sub ops tier b1 v σ = aLevelLoop sub ops tier b2 v σ :=
  (aLevelLoop_wp2 hsub ops tier b1 b2 v σ h1 h2).1

theorem aLevelLoop_not_exhausted {sub : M F VT} (hsub : Sat (NF d) Fr sub) (ops : Token F → Option BinOp)
    (tier : ATier) (b : Nat) (v : VT) (σ : St F) (hb : rem σ < b)
    (h1 : d ≤ σ.nesting + 1) (h2 : σ.nesting ≤ Extracted.nestingLimit) (e : TErr) (σ' : St F)
    (he : aLevelLoop sub ops tier b v σ = .err e σ') : e.err ≠ .outOfFuel :=
  wp_err (aLevelLoop_wp2 hsub ops tier b b v σ hb hb).2 he h1 h2

theorem aReadLoop_budget_irrelevant (hev : AEvOKd d ev) (b1 b2 : Nat) (σ : St F)
    (h1 : rem σ < b1) (h2 : rem σ < b2) : aReadLoop ev b1 σ = aReadLoop ev b2 σ :=
  (aReadLoop_wp2 hev b1 b2 σ h1 h2).1

theorem aReadLoop_not_exhausted (hev : AEvOKd d ev) (b : Nat) (σ : St F) (hb : rem σ < b)
    (h1 : d ≤ σ.nesting + 1) (h2 : σ.nesting ≤ Extracted.nestingLimit) (e : TErr) (σ' : St F)
    (he : aReadLoop ev b σ = .err e σ') : e.err ≠ .outOfFuel :=
  wp_err (aReadLoop_wp2 hev b b σ hb hb).2 he h1 h2

theorem aPrintLoop_budget_irrelevant (hev : AEvOKd d ev) (b1 b2 : Nat) (σ : St F)
    (h1 : rem σ < b1) (h2 : rem σ < b2) : aPrintLoop ev b1 σ = aPrintLoop ev b2 σ :=
  (aPrintLoop_wp2 hev b1 b2 σ h1 h2).1

theorem aPrintLoop_not_exhausted (hev : AEvOKd d ev) (b : Nat) (σ : St F) (hb : rem σ < b)
    (h1 : d ≤ σ.nesting + 1) (h2 : σ.nesting ≤ Extracted.nestingLimit) (e : TErr) (σ' : St F)
    (he : aPrintLoop ev b σ = .err e σ') : e.err ≠ .outOfFuel :=
  wp_err (aPrintLoop_wp2 hev b b σ hb hb).2 he h1 h2

end aloops

/-- the analyzer's recursion fuel: as `evalN_expr_not_outOfFuel` / `evalN_stmt_not_outOfFuel` -/
theorem aEvalN_not_outOfFuel (n : Nat) (σ : St F) (h2 : σ.nesting ≤ Extracted.nestingLimit) :
    (Extracted.nestingLimit + 1 ≤ n + σ.nesting →
      ∀ e σ', (aEvalN n).expr σ = .err e σ' → e.err ≠ .outOfFuel) ∧
    (Extracted.nestingLimit + 2 ≤ n + σ.nesting →
      ∀ e σ', (aEvalN n).stmt σ = .err e σ' → e.err ≠ .outOfFuel) :=
  ⟨fun h1 _ _ he => wp_err ((aEvOKd_aEvalN n).expr σ) he (by omega) h2,
   fun h1 _ _ he => wp_err ((aEvOKd_aEvalN n).stmt σ) he (by omega) h2⟩

/-- Non-vacuity: a multi-statement, multi-line file, analysed with no recursion
    fuel at all — the flag is clear (the fuel shortage is an error diagnostic). -/
example :
    (analyzeFile (F := Unit) 0 ["10 A = 1 : B = 2 : PRINT A; B".toList, "20 GOTO 10".toList]).panicked = none := by
  decide

end Abasic.Props.C05
