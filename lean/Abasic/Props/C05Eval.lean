import Abasic.Props.C05More
import Abasic.Props.C04
import Abasic.Proofs.AnalyzerInv
/-
  C05, continued — the statement pass.

  With the invariant of the analyzer's evaluator (Abasic/Proofs/AnalyzerInv.lean):
  for every file and every fuel, the analysis never hits one of the Rust panic
  sites; the only way `Analysis.panicked` can be set is one of the model's two
  iteration budgets.  Every diagnostic has a source position.
-/
namespace Abasic.Props.C05
open Abasic Abasic.AInv
open Abasic.Props.C13

variable {F : Type} [NumOps F]

/-! ### the line store and the file map agree -/

/-- Every stored BASIC line is non-empty and the file map sends its number to a
    range record with exactly one range per token. -/
def LinesMapped (L : Lines F) (m : FileMap) : Prop :=
  ∀ n ts, L.get n = some ts → ts ≠ [] ∧
    ∃ f r trs, m.lookup n = some f ∧ m.ranges[f]? = some r ∧ r.tokenRanges = some trs ∧ trs.length = ts.length

omit [NumOps F] in
/-- A location on a stored line, at most one past its last token, maps. -/
theorem mapLoc_of_locOk {L : Lines F} {m : FileMap} (hLM : LinesMapped L m) {loc : Loc} (hloc : LocOk L loc) :
    ∃ f x y, m.mapLoc loc = some (f, x, y) := by
  obtain ⟨n, ts, hl, hg, hi⟩ := hloc
  obtain ⟨hne, f, r, trs, hlook, hr, htrs, hlen⟩ := hLM n ts hg
  have hpos : 0 < trs.length := by
    rw [hlen]; exact List.length_pos_iff.mpr hne
  simp only [FileMap.mapLoc, hl, hlook, hr, htrs]
  by_cases he : loc.idx = trs.length
  · have hne' : trs.isEmpty = false := by
      cases trs with
      | nil => simp at hpos
      | cons _ _ => rfl
    have hlt : trs.length - 1 < trs.length := by omega
    simp only [he, beq_self_eq_true, hne', Bool.not_false, Bool.and_self, if_true]
    rw [List.getElem?_eq_getElem hlt]
    exact ⟨f, _, _, rfl⟩
  · have hlt : loc.idx < trs.length := by omega
    have hb : (loc.idx == trs.length) = false := by simpa using he
    simp only [hb, Bool.false_and, Bool.false_eq_true, if_false]
    rw [List.getElem?_eq_getElem hlt]
    exact ⟨f, _, _, rfl⟩


/-- What the line pass does to the interpreter state and the BASIC→file map:
    nothing, or it stores a non-empty tokenized line and enters it in the map. -/
theorem analyzeLine_st (a : Analysis F) (i : Nat) (line : Str) :
    ((analyzeLine a i line).st = a.st ∧ (analyzeLine a i line).map.basicToFile = a.map.basicToFile) ∨
    (∃ n lnEnd toks, ¬ line.isEmpty = true ∧ parseLineNumber line = some (n, lnEnd) ∧
      tokenizeRanges (F := F) line lnEnd = (toks, none) ∧ toks ≠ [] ∧
      (analyzeLine a i line).st = a.st.setNumberedLine n (toks.map (·.1)) ∧
      (analyzeLine a i line).map.basicToFile = a.map.basicToFile ++ [(n, a.map.ranges.length)]) := by
  unfold analyzeLine
  by_cases he : line.isEmpty = true
  · rw [if_pos he]; exact .inl ⟨rfl, rfl⟩
  · rw [if_neg he]
    cases hp : parseLineNumber line with
    | none => exact .inl ⟨rfl, rfl⟩
    | some p =>
      obtain ⟨n, lnEnd⟩ := p
      simp only
      cases ht : tokenizeRanges (F := F) line lnEnd with
      | mk toks oe =>
        cases oe with
        | none =>
          simp only
          by_cases hemp : toks.isEmpty = true
          · rw [if_pos hemp]
            split <;> exact .inl ⟨rfl, rfl⟩
          · rw [if_neg hemp]
            have hne : toks ≠ [] := by
              intro h; subst h; simp at hemp
            split <;> exact .inr ⟨n, lnEnd, toks, he, rfl, ht, hne, rfl, rfl⟩
        | some e =>
          simp only
          split <;> exact .inl ⟨rfl, rfl⟩

omit [NumOps F] in
theorem lookup_append_same (m : FileMap) (n f : Nat) (rs : List LineRanges) :
    ({ basicToFile := m.basicToFile ++ [(n, f)], ranges := rs } : FileMap).lookup n = some f := by
  simp [FileMap.lookup]

omit [NumOps F] in
theorem lookup_append_other (m : FileMap) (n n' f : Nat) (rs : List LineRanges) (h : n' ≠ n) :
    ({ basicToFile := m.basicToFile ++ [(n, f)], ranges := rs } : FileMap).lookup n' = m.lookup n' := by
  have : (n == n') = false := by simpa using (Ne.symm h)
  simp [FileMap.lookup, this]

/-- the invariant of the line pass -/
structure LineInv (a : Analysis F) : Prop where
  wf : C04.WF a.st.lines
  mapped : LinesMapped a.st.lines a.map
  acc : a.st.accesses = []

theorem analyzeLine_lineInv (a : Analysis F) (i : Nat) (line : Str) (h : LineInv a) :
    LineInv (analyzeLine a i line) := by
  obtain ⟨_, hr, _, _⟩ := analyzeLine_records a i line
  have hmapped_keep : ∀ (b : Analysis F), b.st = a.st → b.map.basicToFile = a.map.basicToFile →
      b.map.ranges = a.map.ranges ++ [lineRangesOf F line] → LinesMapped b.st.lines b.map := by
    intro b hst hb hrg n ts hg
    rw [hst] at hg
    obtain ⟨hne, f, r, trs, hlook, hrf, htrs, hlen⟩ := h.mapped n ts hg
    refine ⟨hne, f, r, trs, ?_, ?_, htrs, hlen⟩
    · simp only [FileMap.lookup, hb]; exact hlook
    · rw [hrg, List.getElem?_append_left (List.getElem?_eq_some_iff.mp hrf).1]; exact hrf
  rcases analyzeLine_st a i line with ⟨hst, hb⟩ | ⟨n, lnEnd, toks, he, hp, ht, hne, hst, hb⟩
  · exact ⟨by rw [hst]; exact h.wf, hmapped_keep _ hst hb hr, by rw [hst]; exact h.acc⟩
  · have hlines : (analyzeLine a i line).st.lines = a.st.lines.set n (toks.map (·.1)) := by rw [hst]; rfl
    have hne' : toks.map (·.1) ≠ [] := by simpa using hne
    have hemp : (toks.map (·.1)).isEmpty = false := by
      cases hm : toks.map (·.1) with
      | nil => exact absurd hm hne'
      | cons _ _ => rfl
    refine ⟨by rw [hlines]; exact C04.wf_set _ h.wf _ _, ?_, by rw [hst]; exact h.acc⟩
    have hmap_eq : (analyzeLine a i line).map =
        { basicToFile := a.map.basicToFile ++ [(n, a.map.ranges.length)],
          ranges := a.map.ranges ++ [lineRangesOf F line] } := by
      cases hm : (analyzeLine a i line).map with
      | mk b r => rw [hm] at hb hr; simp only at hb hr; rw [hb, hr]
    intro n' ts hg
    rw [hlines, C04.get_set] at hg
    rw [hmap_eq]
    by_cases hn : n' = n
    · subst hn
      simp only [if_true, hemp, Bool.false_eq_true, if_false, Option.some.injEq] at hg
      subst hg
      refine ⟨hne', a.map.ranges.length, lineRangesOf F line, toks.map (fun (_, x, y) => (x, y)),
        lookup_append_same _ _ _ _, by simp, ?_, by simp⟩
      rw [lineRangesOf_of_ok he hp ht]
    · simp only [hn, if_false] at hg
      obtain ⟨hnets, f, r, trs, hlook, hrf, htrs, hlen⟩ := h.mapped n' ts hg
      refine ⟨hnets, f, r, trs, ?_, ?_, htrs, hlen⟩
      · rw [lookup_append_other _ _ _ _ _ hn]; exact hlook
      · simp only
        rw [List.getElem?_append_left (List.getElem?_eq_some_iff.mp hrf).1]; exact hrf

theorem analyzeLines_lineInv (a : Analysis F) (i : Nat) (lines : List Str) (h : LineInv a) :
    LineInv (analyzeLines a i lines) := by
  induction lines generalizing a i with
  | nil => exact h
  | cons l ls ih => exact ih _ _ (analyzeLine_lineInv a i l h)

omit [NumOps F] in
theorem lineInv_init (lines : List Str) : LineInv ({ lines := lines } : Analysis F) :=
  ⟨C04.wf_empty, by intro n ts hg; simp [Lines.get, Lines.getMap] at hg, rfl⟩


/-! ### the statement pass under the evaluator invariant -/

/-- an error diagnostic whose error is neither a panic, nor a tokenization
    error, nor a DATA type mismatch -/
def PlainErr (d : Diag) : Prop := ∃ f e, d = .error f e ∧ plain e.err = true

/-- the panic flag is clear or names the statement budget of the model -/
def StmtFlag (p : Option String) : Prop :=
  p = none ∨ p = some "analyzer: iteration budget exhausted"

/-- the panic flag is clear or names one of the two budgets of the model -/
def BudgetFlag (p : Option String) : Prop :=
  p = none ∨ p = some "analyzer: iteration budget exhausted" ∨ p = some "analyzer: line budget exhausted"

omit [NumOps F] in
theorem hasNext_ok {L : Lines F} {s : St F} (hs : SInv L s) :
    ∃ b s', hasNext s = .ok b s' ∧ SInv L s' := by
  obtain ⟨n, ts, hl, hg, hi, hp⟩ := hs.view
  refine ⟨(ts[s.loc.idx]?).isSome, { s with reads := s.reads + 1 }, ?_, hs.reads _⟩
  simp only [hasNext, Bind.bind, M.bindM, hp, Pure.pure, M.pureM]

omit [NumOps F] in
theorem populate_ok {L : Lines F} {s : St F} {e : TErr} (hs : SInv L s) (he : EOk L e) :
    plain (s.populate e).err = true ∧ ∃ loc, (s.populate e).loc = some loc ∧ LocOk L loc := by
  have hprev : LocOk L s.prevLoc := by
    obtain ⟨n, ts, hl, hg, hi⟩ := hs.loc
    refine ⟨n, ts, hl, hg, ?_⟩
    show s.loc.idx - 1 ≤ ts.length
    omega
  unfold St.populate
  cases hl : e.loc with
  | some loc =>
    simp only [Option.isSome_some, if_true]
    exact ⟨he.plain, loc, hl, he.loc loc hl⟩
  | none =>
    simp only [Option.isSome_none, Bool.false_eq_true, if_false]
    split
    · rename_i hd
      have := he.plain
      rw [hd] at this
      cases this
    · exact ⟨he.plain, s.prevLoc, rfl, hprev⟩

theorem analyzeStatements_inv {L : Lines F} {m : FileMap} (hLM : LinesMapped L m) (fuel n : Nat)
    (a : Analysis F) (hs : SInv L a.st) (hm : a.map = m) (hp : a.panicked = none) :
    SInv L (analyzeStatements fuel n a).st ∧ StmtFlag (analyzeStatements fuel n a).panicked ∧
    ∀ d ∈ (analyzeStatements fuel n a).messages, d ∈ a.messages ∨ PlainErr d := by
  induction n generalizing a with
  | zero => exact ⟨hs, .inr rfl, fun d hd => .inl hd⟩
  | succ n ih =>
    unfold analyzeStatements
    obtain ⟨b, st, hhn, hst⟩ := hasNext_ok hs
    rw [hhn]
    cases b with
    | false => exact ⟨hst, .inl hp, fun d hd => .inl hd⟩
    | true =>
      simp only
      have hgood := good_aStmtBody (good_aEvalN (F := F) (L := L) fuel).1 (good_aEvalN (F := F) (L := L) fuel).2 st hst
      cases hres : aStmtBody (aEvalN fuel) st with
      | ok u st' =>
        rw [hres] at hgood
        exact ih { a with st := st' } hgood.1 hm hp
      | err e st' =>
        rw [hres] at hgood
        obtain ⟨hst', _, he⟩ := hgood
        obtain ⟨hplain, loc, hloc, hlocok⟩ := populate_ok hst' he
        simp only
        cases hpe : (st'.populate e).err with
        | panic site => rw [hpe] at hplain; cases hplain
        | _ =>
          simp only
          obtain ⟨f, x, y, hmap⟩ := mapLoc_of_locOk hLM hlocok
          rw [hloc, hm]
          simp only [Option.bind_some, hmap]
          refine ⟨hst', .inl hp, ?_⟩
          intro d hd
          rcases List.mem_append.mp hd with hd | hd
          · exact .inl hd
          · simp only [List.mem_singleton] at hd
            exact .inr ⟨f, _, hd, hplain⟩

omit [NumOps F] in
theorem nextLine_ok {L : Lines F} (hwf : C04.WF L) {s : St F} (hs : SInv L s) :
    ∃ b s', nextLine s = .ok b s' ∧ SInv L s' := by
  obtain ⟨n, ts, hl, hg, hi⟩ := hs.loc
  simp only [nextLine, Bind.bind, M.bindM, M.get, hl]
  cases ha : s.lines.after n with
  | none => exact ⟨false, s, rfl, hs⟩
  | some k =>
    refine ⟨true, { s with loc := { line := some k, idx := 0 } }, rfl, ⟨hs.lines, ?_, hs.acc⟩⟩
    rw [hs.lines] at ha
    have hmem := ((C04.after_least L hwf n).1 k ha).1
    obtain ⟨ts', hts'⟩ := Option.isSome_iff_exists.mp ((hwf.agree k).mp hmem)
    exact ⟨k, ts', rfl, hts', Nat.zero_le _⟩

theorem analyzeProgram_tail_inv {L : Lines F} {m : FileMap} (hwf : C04.WF L) (hLM : LinesMapped L m)
    (fuel n budget : Nat) (a : Analysis F) (hs : SInv L a.st) (hm : a.map = m) (hp : a.panicked = none)
    (ih : ∀ a : Analysis F, SInv L a.st → a.map = m → a.panicked = none →
      SInv L (analyzeProgram fuel n a).st ∧ BudgetFlag (analyzeProgram fuel n a).panicked ∧
      ∀ d ∈ (analyzeProgram fuel n a).messages, d ∈ a.messages ∨ PlainErr d) :
    let r := (if (analyzeStatements fuel budget a).panicked.isSome then analyzeStatements fuel budget a
       else
        match nextLine (analyzeStatements fuel budget a).st with
        | .ok true st => analyzeProgram fuel n { analyzeStatements fuel budget a with st := st }
        | .ok false st => { analyzeStatements fuel budget a with st := st }
        | .err e _ => { analyzeStatements fuel budget a with panicked := some (toString (repr e.err)) })
    SInv L r.st ∧ BudgetFlag r.panicked ∧ ∀ d ∈ r.messages, d ∈ a.messages ∨ PlainErr d := by
  obtain ⟨h1, h2, h3⟩ := analyzeStatements_inv hLM fuel budget a hs hm hp
  have hm1 : (analyzeStatements fuel budget a).map = m := ((analyzeStatements_ext fuel budget a).map).trans hm
  generalize analyzeStatements fuel budget a = a1 at h1 h2 h3 hm1
  intro r
  by_cases hp1 : a1.panicked.isSome = true
  · have hr : r = a1 := if_pos hp1
    rw [hr]
    refine ⟨h1, ?_, h3⟩
    rcases h2 with h2 | h2
    · exact .inl h2
    · exact .inr (.inl h2)
  · have hp1' : a1.panicked = none := by
      cases hpp : a1.panicked with
      | none => rfl
      | some x => rw [hpp] at hp1; simp at hp1
    obtain ⟨b, st, hnl, hst⟩ := nextLine_ok hwf h1
    have hr : r = (match nextLine a1.st with
        | .ok true st => analyzeProgram fuel n { a1 with st := st }
        | .ok false st => { a1 with st := st }
        | .err e _ => { a1 with panicked := some (toString (repr e.err)) }) := if_neg hp1
    rw [hr, hnl]
    cases b with
    | false => exact ⟨hst, .inl hp1', h3⟩
    | true =>
      obtain ⟨k1, k2, k3⟩ := ih { a1 with st := st } hst hm1 hp1'
      refine ⟨k1, k2, ?_⟩
      intro d hd
      rcases k3 d hd with hd | hd
      · exact h3 d hd
      · exact .inr hd

theorem analyzeProgram_inv {L : Lines F} {m : FileMap} (hwf : C04.WF L) (hLM : LinesMapped L m)
    (fuel n : Nat) (a : Analysis F) (hs : SInv L a.st) (hm : a.map = m) (hp : a.panicked = none) :
    SInv L (analyzeProgram fuel n a).st ∧ BudgetFlag (analyzeProgram fuel n a).panicked ∧
    ∀ d ∈ (analyzeProgram fuel n a).messages, d ∈ a.messages ∨ PlainErr d := by
  induction n generalizing a with
  | zero => exact ⟨hs, .inr (.inr rfl), fun d hd => .inl hd⟩
  | succ n ih =>
    unfold analyzeProgram
    have hnp : ¬ a.panicked.isSome = true := by rw [hp]; simp
    rw [if_neg hnp]
    cases tokens a.st with
    | ok ts st => exact analyzeProgram_tail_inv hwf hLM fuel n _ a hs hm hp ih
    | err e st => exact analyzeProgram_tail_inv hwf hLM fuel n _ a hs hm hp ih


/-! ### the whole analysis -/

omit [NumOps F] in
theorem runFromFirst_facts (s : St F) :
    s.runFromFirst.lines = s.lines ∧ s.runFromFirst.accesses = s.accesses ∧ s.runFromFirst.imm = [] ∧
    ((s.lines.first = none ∧ s.runFromFirst.loc.line = none) ∨
     (∃ n, s.lines.first = some n ∧ s.runFromFirst.loc = { line := some n, idx := 0 })) := by
  have hfirst : s.resetRuntime.lines.first = s.lines.first := rfl
  unfold St.runFromFirst
  simp only [hfirst]
  cases hf : s.lines.first with
  | none => exact ⟨rfl, rfl, rfl, .inl ⟨rfl, rfl⟩⟩
  | some n => exact ⟨rfl, rfl, rfl, .inr ⟨n, rfl, rfl⟩⟩

omit [NumOps F] in
theorem hasNext_empty (s : St F) (hl : s.loc.line = none) (hi : s.imm = []) :
    hasNext s = .ok false { s with reads := s.reads + 1 } := by
  simp only [hasNext, peek, Bind.bind, M.bindM, M.modify, tokens, tokensForLine, hl, hi, M.get, Pure.pure, M.pureM,
    List.getElem?_nil, Option.isSome_none]

omit [NumOps F] in
theorem nextLine_empty (s : St F) (hl : s.loc.line = none) : nextLine s = .ok false s := by
  simp only [nextLine, Bind.bind, M.bindM, M.get, hl, Pure.pure, M.pureM]

theorem analyzeStatements_noNext (fuel k : Nat) (a : Analysis F) (st' : St F)
    (h : hasNext a.st = .ok false st') : analyzeStatements fuel (k + 1) a = { a with st := st' } := by
  unfold analyzeStatements
  rw [h]

/-- an analysis with nothing to run: no BASIC line is stored -/
theorem analyzeProgram_empty (fuel n : Nat) (a : Analysis F) (hp : a.panicked = none)
    (hl : a.st.loc.line = none) (hi : a.st.imm = []) :
    (analyzeProgram fuel (n + 1) a).panicked = none ∧ (analyzeProgram fuel (n + 1) a).messages = a.messages ∧
    (analyzeProgram fuel (n + 1) a).st.accesses = a.st.accesses := by
  have key : ∀ budget : Nat,
      (if (analyzeStatements fuel (budget + 2) a).panicked.isSome then analyzeStatements fuel (budget + 2) a
       else
        match nextLine (analyzeStatements fuel (budget + 2) a).st with
        | .ok true st => analyzeProgram fuel n { analyzeStatements fuel (budget + 2) a with st := st }
        | .ok false st => { analyzeStatements fuel (budget + 2) a with st := st }
        | .err e _ => { analyzeStatements fuel (budget + 2) a with panicked := some (toString (repr e.err)) }) =
      { a with st := { a.st with reads := a.st.reads + 1 } } := by
    intro budget
    rw [analyzeStatements_noNext fuel (budget + 1) a _ (hasNext_empty a.st hl hi)]
    have hnp : ¬ ({ a with st := { a.st with reads := a.st.reads + 1 } } : Analysis F).panicked.isSome = true := by
      show ¬ a.panicked.isSome = true
      rw [hp]; simp
    rw [if_neg hnp]
    rw [nextLine_empty _ (by exact hl)]
  unfold analyzeProgram
  have hnp : ¬ a.panicked.isSome = true := by rw [hp]; simp
  rw [if_neg hnp]
  cases tokens a.st with
  | ok ts st =>
    have h := key ts.length
    exact ⟨(congrArg Analysis.panicked h).trans hp, (congrArg Analysis.messages h).trans rfl,
      (congrArg (fun x : Analysis F => x.st.accesses) h).trans rfl⟩
  | err e st =>
    have h := key 0
    exact ⟨(congrArg Analysis.panicked h).trans hp, (congrArg Analysis.messages h).trans rfl,
      (congrArg (fun x : Analysis F => x.st.accesses) h).trans rfl⟩

/-- The statement pass and the symbol pass on the outcome of the line pass. -/
theorem analyzeFile_late (fuel : Nat) (lines : List Str) :
    BudgetFlag (analyzeFile (F := F) fuel lines).panicked ∧
    ∀ d ∈ (analyzeFile (F := F) fuel lines).messages,
      d ∈ (analyzeLines ({ lines := lines } : Analysis F) 0 lines).messages ∨ PlainErr d ∨
      ∃ f n i msg, d = .warning f (some (n, i)) msg := by
  have hinv := analyzeLines_lineInv ({ lines := lines } : Analysis F) 0 lines (lineInv_init lines)
  have hpan := (analyzeLines_file (F := F) lines).2.2.2
  unfold analyzeFile
  simp only
  generalize analyzeLines ({ lines := lines } : Analysis F) 0 lines = a0 at hinv hpan
  obtain ⟨hl, hacc, himm, hfirst⟩ := runFromFirst_facts a0.st
  -- the symbol pass after a statement pass that left the flag clear
  have hsym : ∀ a2 : Analysis F, a2.panicked = none → AccessesMap a2 →
      (∀ d ∈ a2.messages, d ∈ a0.messages ∨ PlainErr d) →
      BudgetFlag (symbolWarnings a2).panicked ∧
      ∀ d ∈ (symbolWarnings a2).messages, d ∈ a0.messages ∨ PlainErr d ∨
        ∃ f n i msg, d = .warning f (some (n, i)) msg := by
    intro a2 hp2 hacc2 hmsg2
    obtain ⟨⟨extra, hext, hex⟩, hflag⟩ := symbolWarnings_total a2
    refine ⟨.inl ((hflag hacc2).trans hp2), ?_⟩
    intro d hd
    rw [hext] at hd
    rcases List.mem_append.mp hd with hd | hd
    · rcases hmsg2 d hd with h | h
      · exact .inl h
      · exact .inr (.inl h)
    · exact .inr (.inr (hex d hd))
  rcases hfirst with ⟨_, hline⟩ | ⟨n, hfn, hloc⟩
  · -- no BASIC line: nothing runs
    obtain ⟨k1, k2, k3⟩ := analyzeProgram_empty fuel (lines.length + 1) { a0 with st := a0.st.runFromFirst }
      hpan hline himm
    generalize analyzeProgram fuel (lines.length + 1 + 1) { a0 with st := a0.st.runFromFirst } = a2 at k1 k2 k3
    have hnp : ¬ a2.panicked.isSome = true := by rw [k1]; simp
    rw [if_neg hnp]
    refine hsym a2 k1 ?_ ?_
    · intro x hx
      rw [k3] at hx
      have : a0.st.runFromFirst.accesses = [] := hacc.trans hinv.acc
      simp only at hx
      rw [this] at hx
      simp at hx
    · intro d hd
      rw [k2] at hd
      exact .inl hd
  · -- the evaluator runs under its invariant
    have hmem : n ∈ a0.st.lines.sorted := by
      unfold Lines.first at hfn
      exact List.mem_of_mem_head? (by rw [hfn]; rfl)
    obtain ⟨ts, hts⟩ := Option.isSome_iff_exists.mp ((hinv.wf.agree n).mp hmem)
    have hs : SInv a0.st.lines ({ a0 with st := a0.st.runFromFirst } : Analysis F).st := by
      refine ⟨hl, ?_, ?_⟩
      · show LocOk a0.st.lines a0.st.runFromFirst.loc
        rw [hloc]
        exact ⟨n, ts, rfl, hts, Nat.zero_le _⟩
      · intro x hx
        have : a0.st.runFromFirst.accesses = [] := hacc.trans hinv.acc
        simp only at hx
        rw [this] at hx
        simp at hx
    obtain ⟨k1, k2, k3⟩ := analyzeProgram_inv hinv.wf hinv.mapped fuel (lines.length + 2)
      { a0 with st := a0.st.runFromFirst } hs rfl hpan
    have kmap : (analyzeProgram fuel (lines.length + 2) { a0 with st := a0.st.runFromFirst }).map = a0.map :=
      (analyzeProgram_ext fuel (lines.length + 2) { a0 with st := a0.st.runFromFirst }).map
    generalize analyzeProgram fuel (lines.length + 2) { a0 with st := a0.st.runFromFirst } = a2 at k1 k2 k3 kmap
    by_cases hp2 : a2.panicked.isSome = true
    · rw [if_pos hp2]
      refine ⟨k2, ?_⟩
      intro d hd
      rcases k3 d hd with h | h
      · exact .inl h
      · exact .inr (.inl h)
    · rw [if_neg hp2]
      have hp2' : a2.panicked = none := by
        cases hpp : a2.panicked with
        | none => rfl
        | some x => rw [hpp] at hp2; simp at hp2
      refine hsym a2 hp2' ?_ k3
      intro x hx
      obtain ⟨f, u, v, hmap⟩ := mapLoc_of_locOk hinv.mapped (k1.acc x hx)
      rw [kmap, hmap]; rfl

/-- **No Rust panic for any file.**  Whatever the file and the fuel, the panic
    flag of the finished analysis is clear, or it names one of the two iteration
    budgets of the model (`analyzeStatements`, `analyzeProgram`) — never one of
    the panic sites of the analyzer (`tokens_for_line`/`log_access` unwraps,
    `exit_nested` underflow, "Expected error to have a numbered program line",
    the symbol-warning unwrap, an index into the range table). -/
theorem analyze_no_rust_panic (fuel : Nat) (lines : List Str) :
    (analyzeFile (F := F) fuel lines).panicked = none ∨
    (analyzeFile (F := F) fuel lines).panicked = some "analyzer: iteration budget exhausted" ∨
    (analyzeFile (F := F) fuel lines).panicked = some "analyzer: line budget exhausted" :=
  (analyzeFile_late fuel lines).1

/-- Every diagnostic of every file has a source position: it maps to
    `(fileLine, s, e)`, the file line exists and `[s, e)` is a span of it. -/
theorem diag_located_all (fuel : Nat) (lines : List Str) (d : Diag)
    (hd : d ∈ (analyzeFile (F := F) fuel lines).messages) :
    ∃ f s e line, (analyzeFile (F := F) fuel lines).map.mapDiag d = some (some (f, s, e)) ∧
      lines[f]? = some line ∧ Span line s e := by
  have hmaps := (diag_maps fuel lines d hd).2
  rcases diag_located fuel lines d hd with ⟨f, s, e, h⟩ | ⟨f, e, t, rfl, het, hloc⟩
  · obtain ⟨line, hline, hspan⟩ := hmaps f s e h
    exact ⟨f, s, e, line, h, hline, hspan⟩
  · exfalso
    rcases (analyzeFile_late fuel lines).2 _ hd with h | ⟨f', e', h, hplain⟩ | ⟨_, _, _, _, h⟩
    · have := analyzeLines_msgs ({ lines := lines } : Analysis F) 0 lines rfl (by intro d hd; simp at hd) _ h
      rcases this with ⟨_, _, h, _⟩ | ⟨_, _, _, _, _, h, _, _⟩
      · cases h
      · injection h with _ h2
        subst h2
        simp at hloc
    · injection h with _ h2
      subst h2
      rw [het] at hplain
      cases hplain
    · cases h

/-- The statement pass never reports a tokenization error, a DATA type
    mismatch or a panic as a diagnostic: an error diagnostic that is not of the
    line pass carries a plain evaluator error. -/
theorem error_diag_kinds (fuel : Nat) (lines : List Str) (f : Nat) (e : TErr)
    (hd : .error f e ∈ (analyzeFile (F := F) fuel lines).messages) :
    (∃ t, e = { err := .syntax (.tokenization t) }) ∨ plain e.err = true := by
  rcases (analyzeFile_late fuel lines).2 _ hd with h | ⟨f', e', h, hplain⟩ | ⟨_, _, _, _, h⟩
  · have := analyzeLines_msgs ({ lines := lines } : Analysis F) 0 lines rfl (by intro d hd; simp at hd) _ h
    rcases this with ⟨_, _, h, _⟩ | ⟨_, t, _, _, _, h, _, _⟩
    · cases h
    · injection h with _ h2
      exact .inl ⟨t, h2⟩
  · injection h with _ h2
    subst h2
    exact .inr hplain
  · cases h


/-- Non-vacuity: a program whose statements run through the evaluator — a type
    mismatch, a GOTO to a missing line, an unexpected end, a function call, an
    array — is analysed without panic and every diagnostic has a position. -/
example :
    let a := analyzeFile (F := Unit) 12
      ["10 DEF FNA(X) = X + 1".toList, "20 A$ = 1".toList, "30 GOTO 99".toList, "40 PRINT (".toList,
       "50 DIM B(3): B(1) = FNA(2)".toList, "50 FOR I = 1 TO".toList]
    a.panicked = none ∧ a.messages.length ≥ 4 ∧
      a.messages.all (fun d => match a.map.mapDiag d with | some (some _) => true | _ => false) = true := by
  decide

end Abasic.Props.C05
