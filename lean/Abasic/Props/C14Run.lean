import Abasic.Props.C14More2
import Abasic.Props.C15General
import Abasic.Props.C10More
import Abasic.Props.C04More
import Abasic.Props.C01WF
import Abasic.Proofs.LNormLift
/-
  C14 / C10 — closing the loop between LIST, reload and RUN.

  `reload fuel σ` is a new interpreter (same generator state, flags and bookkeeping as
  `σ`, EMPTY program) into which every line printed by LIST — without its final newline,
  as a host submits it — has been entered with `start_evaluating`, in order.

  * `reload_lines_eq_partial`: the program store of `reload σ` is the store of `σ` with its
    token map re-arranged in ascending key order: same ordered index, same tokens under
    every line number (`reload_get`, token for token), same LIST, same DATA chunks.
    The literal `(reload σ).lines = σ.lines` is FALSE for the model's store: `Lines.map`
    is an association list standing for a `HashMap`, in insertion order; a session that
    enters line 20 before line 10 holds `[(20,…),(10,…)]`, its reload `[(10,…),(20,…)]`
    (`reload_lines_eq_false`).  It holds when the map is in key order
    (`reload_lines_eq_of_keySorted`).
  * The order of the token map is unobservable: `lsim_call` (Proofs/LNormLift.lean) —
    every host call, from states equal up to `lnorm`, has the same outcome and leads to
    states equal up to `lnorm`.
  * `reload_same_run`: for every reachable idle `σ` and every call sequence `cs`, the
    transcripts (outcome of every call and output queue after it) of `RUN :: cs` from
    `reload σ` and from `σ` are equal, and the final states are equal up to `lnorm`.
  * `reload_data_sequence`, `reload_list`.
  Hypotheses: `NumLaws F` and reachability (which yields that stored lines are non-empty
  tokenizer outputs under numbers `< 2^64`: `stored_reachable`).
-/
namespace Abasic.Props.C14
open Abasic Abasic.Hoare Abasic.Props.C01 Abasic.Props.C15

def dataCode {F : Type} : DataElement F → Sum Str F
  | .str s => .inl s
  | .num x => .inr x

theorem dataCode_inj {F : Type} (a b : DataElement F) (h : dataCode a = dataCode b) : a = b := by
  cases a <;> cases b <;> simp_all [dataCode]

instance instDecEqData {F : Type} [DecidableEq F] : DecidableEq (DataElement F) := fun a b =>
  decidable_of_iff (dataCode a = dataCode b) ⟨dataCode_inj a b, fun h => by rw [h]⟩

/-- tokens as a sum, to decide equality of tokens in the checked examples -/
def tokCode {F : Type} : Token F → Sum Kw (Sum Str (Sum Str (Sum Str (Sum F (List (DataElement F))))))
  | .kw k => .inl k
  | .remark s => .inr (.inl s)
  | .symbol s => .inr (.inr (.inl s))
  | .str s => .inr (.inr (.inr (.inl s)))
  | .num x => .inr (.inr (.inr (.inr (.inl x))))
  | .data items => .inr (.inr (.inr (.inr (.inr items))))

theorem tokCode_inj {F : Type} (a b : Token F) (h : tokCode a = tokCode b) : a = b := by
  cases a <;> cases b <;> simp_all [tokCode]

set_option synthInstance.maxSize 1024 in
instance instDecEqToken {F : Type} [DecidableEq F] : DecidableEq (Token F) := fun a b =>
  decidable_of_iff (tokCode a = tokCode b) ⟨tokCode_inj a b, fun h => by rw [h]⟩

deriving instance DecidableEq for Lines

variable {F : Type} [NumOps F]

/-! ### 1. definitions -/

/-- submit each text with `start_evaluating`, in order (Front.lean `typeLines`) -/
abbrev enterAll (fuel : Nat) (texts : List Str) (σ : St F) : St F := typeLines fuel texts σ

/-- a LIST record without its final newline (what a host that re-enters a listing submits;
    the tokenizer rejects a newline character: `newline_rejected`) -/
def chompNl (s : Str) : Str := if s.getLast? = some '\n' then s.dropLast else s

/-- a newly created interpreter with `σ`'s generator state, flags and bookkeeping — `C10.fresh`
    with an EMPTY program -/
def newState (σ : St F) : St F :=
  { rng := σ.rng, warnings := σ.warnings, tracing := σ.tracing, out := σ.out, reads := σ.reads,
    accesses := σ.accesses }

/-- enter the listing of `σ` into a new interpreter -/
def reload (fuel : Nat) (σ : St F) : St F :=
  enterAll fuel ((σ.lines.list.getD []).map chompNl) (newState σ)

/-- the line LIST prints for `(n, ts)`, without the newline -/
def listedLine (n : Nat) (ts : List (Token F)) : Str := natToStr n ++ ' ' :: listLine ts

omit [NumOps F] in
theorem chompNl_snoc (s : Str) : chompNl (s ++ ['\n']) = s := by
  simp [chompNl]

theorem list_chomped (l : Lines F) (entries : List (Nat × List (Token F))) (h : l.listTokens = some entries) :
    (l.list.getD []).map chompNl = entries.map fun e => listedLine e.1 e.2 := by
  simp only [Lines.list, h, Option.map_some, Option.getD_some, List.map_map]
  apply List.map_congr_left
  intro e _
  obtain ⟨n, ts⟩ := e
  show chompNl (natToStr n ++ ' ' :: listLine ts ++ ['\n']) = _
  rw [chompNl_snoc]
  rfl

/-! ### 2. stored lines come from the tokenizer -/

/-- every stored line has a number `< 2^64` and a non-empty token list that the tokenizer produced -/
def Stored (l : Lines F) : Prop :=
  ∀ n ts, l.get n = some ts → n < C04.u64Bound ∧ ts ≠ [] ∧ ∃ text, Toks text ts

theorem stored_empty : Stored ({} : Lines F) := by
  intro n ts h
  simp [Lines.get, Lines.getMap] at h

theorem toks_of_tokenizeRanges (line : Str) (k : Nat) (rts : List (RangedToken F))
    (h : tokenizeRanges (F := F) line k = (rts, none)) : Toks (dropBytes k line) (rts.map (·.1)) := by
  unfold tokenizeRanges at h
  obtain ⟨ts', g1, g2⟩ := toks_of_tokLoop (F := F) _ (dropBytes k line) k [] (by rw [h])
  rw [h] at g2
  simp only [List.reverse_nil, List.map_nil, List.nil_append] at g2
  rw [g2]; exact g1

theorem stored_applyEdit (line : Str) (l : Lines F) (h : Stored l) : Stored (applyEdit (typedEdit F line) l) := by
  unfold typedEdit
  cases hp : parseLineNumber line with
  | none => exact h
  | some p =>
    obtain ⟨n, k⟩ := p
    simp only []
    cases ht : tokenizeRanges (F := F) line k with
    | mk rts err =>
      cases err with
      | some e => exact h
      | none =>
        simp only [applyEdit]
        intro m ts hm
        rw [Lines.get_set'] at hm
        by_cases hmn : m = n
        · rw [if_pos hmn] at hm
          by_cases he : (rts.map (·.1)).isEmpty = true
          · rw [if_pos he] at hm; cases hm
          · rw [if_neg he] at hm
            injection hm with hm
            subst hm
            obtain ⟨_, _, _, _, _, hlt, _⟩ := (C04.lineno_parse_spec line n k).mp hp
            refine ⟨hmn ▸ hlt, ?_, _, toks_of_tokenizeRanges line k rts ht⟩
            intro e; rw [e] at he; exact he rfl
        · rw [if_neg hmn] at hm
          exact h m ts hm

theorem lines_cont (fuel : Nat) (σ : St F) : (continueEvaluating fuel σ).final.lines = σ.lines := by
  have h1 : continueEvaluating fuel σ =
      (if (σ.state != .running) = true then (M.rpanic "assertion failed: state == Running" : M F Unit)
       else postprocess (runNextStatement fuel)) σ := rfl
  rw [h1]
  by_cases hs : (σ.state != .running) = true
  · rw [if_pos hs]; rfl
  · rw [if_neg hs, final_postprocess_lines]
    exact (le_runNextStatement fuel).final σ

theorem lines_call (fuel : Nat) (c : Call) (σ : St F) :
    (applyCall fuel c σ).lines = σ.lines ∨
    ∃ line, (applyCall fuel c σ).lines = applyEdit (typedEdit F line) σ.lines := by
  cases c with
  | start text =>
    have h := typed_line_store fuel text σ
    by_cases hi : σ.state = .idle
    · rw [if_pos hi] at h; exact .inr ⟨text, h⟩
    · rw [if_neg hi] at h; exact .inl h
  | cont => exact .inl (lines_cont fuel σ)
  | reply text =>
    left
    show (provideInput text σ).final.lines = _
    unfold provideInput
    simp only [bind, M.bindM, M.get]
    split <;> rfl
  | brk => exact .inl rfl
  | seed n => exact .inl rfl
  | output => exact .inl rfl

/-- in every state a host can reach, the stored lines are non-empty tokenizer outputs under
    numbers `< 2^64` -/
theorem stored_reachable (fuel : Nat) (σ : St F) (h : Reachable fuel σ) : Stored σ.lines := by
  induction h with
  | init => exact stored_empty
  | @step σ c _ ih =>
    rcases lines_call fuel c σ with h | ⟨line, h⟩
    · rw [h]; exact ih
    · rw [h]; exact stored_applyEdit line _ ih

/-! ### 3. entering one listed line -/

theorem natToStr_digits (n : Nat) : natToStr n = Nat.toDigits 10 n := by
  unfold natToStr
  rw [Nat.toString_eq_repr, Nat.toList_repr]

theorem len8_natToStr (n : Nat) : len8 (natToStr n) = (natToStr n).length := by
  have := C04.len8_ascii [] (natToStr n) (by intro c hc; cases hc)
    (by rw [natToStr_digits]; exact C04.toDigits_digits n)
  simpa using this

theorem tokenize_skip_of_toks (line : Str) (k : Nat) (ts : List (Token F))
    (h : Toks (dropBytes k line) ts) : tokenize (F := F) line k = .ok ts := by
  unfold tokenize tokenizeRanges
  obtain ⟨g1, g2⟩ := tokLoop_of_toks h ((dropBytes k line).length.succ) k [] (Nat.lt_succ_self _)
  generalize tokLoop (F := F) (dropBytes k line).length.succ (dropBytes k line) k [] = p at g1 g2
  obtain ⟨l, e⟩ := p
  simp only at g1 g2
  subst g1
  simp only [List.reverse_nil, List.map_nil, List.nil_append] at g2
  simp only [g2]

/-- the state after a numbered line has been stored -/
def store (s : St F) (e : Nat × List (Token F)) : St F := (s.setImmediate []).setNumberedLine e.1 e.2

omit [NumOps F] in
theorem store_state (s : St F) (e : Nat × List (Token F)) : (store s e).state = s.state := rfl

/-- **Entering one LIST line** (without its newline) at an idle prompt stores exactly the
    listed tokens under the listed number. -/
theorem enter_listed (laws : NumLaws F) (fuel n : Nat) (ts : List (Token F)) (text : Str) (σ : St F)
    (hidle : σ.state = .idle) (hn : n < C04.u64Bound) (ht : Toks text ts) :
    startEvaluating fuel (listedLine n ts) σ = .ok () (store σ (n, ts)) := by
  have hfix : tokenize (F := F) (listLine ts) 0 = .ok ts :=
    list_fixpoint laws text ts (tokenize_of_toks text ts ht)
  have htoks : Toks (' ' :: listLine ts) ts := toks_blank ' ' (by decide) (toks_of_tokenize _ _ hfix)
  have hp : parseLineNumber (listedLine n ts) = some (n, (natToStr n).length) :=
    C04.lineno_roundtrip_list n hn _ (by show isAsciiDigit ' ' = false; decide)
  have hdrop : dropBytes (natToStr n).length (listedLine n ts) = ' ' :: listLine ts := by
    rw [← len8_natToStr]
    exact Abasic.DataRT.dropBytes_len8_append _ _
  have htok : tokenize (F := F) (listedLine n ts) (natToStr n).length = .ok ts :=
    tokenize_skip_of_toks _ _ _ (by rw [hdrop]; exact htoks)
  have hcmd := numbered_not_command _ _ hp
  simp [startEvaluating, postprocess, evaluateImpl, hidle, maybeProcessCommand, hcmd, hp, htok,
    bind, M.bindM, M.get, M.modify, setImmediate, pure, M.pureM, store]

/-- entering a list of listed lines -/
theorem enter_all_listed (laws : NumLaws F) (fuel : Nat) (es : List (Nat × List (Token F))) (s : St F)
    (hidle : s.state = .idle)
    (hes : ∀ e ∈ es, e.1 < C04.u64Bound ∧ ∃ text, Toks text e.2) :
    enterAll fuel (es.map fun e => listedLine e.1 e.2) s = es.foldl store s := by
  induction es generalizing s with
  | nil => rfl
  | cons e es ih =>
    obtain ⟨hn, text, ht⟩ := hes e (List.mem_cons_self ..)
    simp only [List.map_cons, List.foldl_cons]
    show typeLines fuel (listedLine e.1 e.2 :: _) s = _
    rw [typeLines_cons, enter_listed laws fuel e.1 e.2 text s hidle hn ht]
    exact ih (store s e) hidle (fun e' he' => hes e' (List.mem_cons_of_mem _ he'))

/-- a new interpreter holding the store `L` (with `σ`'s generator state, flags and bookkeeping) -/
def loaded (σ : St F) (L : Lines F) : St F := { newState σ with lines := L }

omit [NumOps F] in
theorem store_loaded (σ : St F) (L : Lines F) (e : Nat × List (Token F)) :
    store (loaded σ L) e = loaded σ (L.set e.1 e.2) := rfl

omit [NumOps F] in
theorem foldl_store_loaded (σ : St F) (es : List (Nat × List (Token F))) (L : Lines F) :
    es.foldl store (loaded σ L) = loaded σ (applyEdits es L) := by
  induction es generalizing L with
  | nil => rfl
  | cons e es ih =>
    simp only [List.foldl_cons, store_loaded, ih]
    rfl

/-! ### 4. the store obtained by entering the listing -/

omit [NumOps F] in
theorem setMap_append (n : Nat) (v : List (Token F)) (l : List (Nat × List (Token F)))
    (h : n ∉ l.map Prod.fst) : Lines.setMap n v l = l ++ [(n, v)] := by
  induction l with
  | nil => rfl
  | cons p rest ih =>
    obtain ⟨k, w⟩ := p
    simp only [List.map_cons, List.mem_cons, not_or] at h
    have : (k == n) = false := by simpa using fun e : k = n => h.1 e.symm
    simp only [Lines.setMap, this, Bool.false_eq_true, if_false, List.cons_append]
    rw [ih h.2]

omit [NumOps F] in
/-- entering lines in ascending order of fresh numbers appends them to the token map -/
theorem applyEdits_map (es : List (Nat × List (Token F))) (L : Lines F)
    (hs : (L.map.map Prod.fst ++ es.map Prod.fst).Pairwise (· < ·))
    (hne : ∀ e ∈ es, e.2 ≠ []) : (applyEdits es L).map = L.map ++ es := by
  induction es generalizing L with
  | nil => simp [applyEdits]
  | cons e es ih =>
    have hne' : e.2.isEmpty = false := by
      have := hne e (List.mem_cons_self ..)
      cases h : e.2 with
      | nil => exact absurd h this
      | cons _ _ => rfl
    have hnot : e.1 ∉ L.map.map Prod.fst := by
      intro hm
      have := (List.pairwise_append.mp hs).2.2 e.1 hm e.1 (by simp)
      omega
    have hset : (L.set e.1 e.2).map = L.map ++ [e] := by
      simp only [Lines.set, hne', Bool.false_eq_true, if_false]
      exact setMap_append e.1 e.2 L.map hnot
    show (applyEdits es (L.set e.1 e.2)).map = _
    rw [ih (L.set e.1 e.2) (by rw [hset]; simpa using hs) (fun e' he' => hne e' (List.mem_cons_of_mem _ he')), hset]
    simp

omit [NumOps F] in
theorem applyEdits_get (es : List (Nat × List (Token F))) (L : Lines F)
    (hs : (es.map Prod.fst).Pairwise (· < ·)) (hne : ∀ e ∈ es, e.2 ≠ []) :
    (∀ e ∈ es, (applyEdits es L).get e.1 = some e.2) ∧
    (∀ m, m ∉ es.map Prod.fst → (applyEdits es L).get m = L.get m) := by
  induction es generalizing L with
  | nil => exact ⟨(fun e he => by cases he), fun m _ => rfl⟩
  | cons e es ih =>
    have hc := List.pairwise_cons.mp (show ((e.1 :: es.map Prod.fst).Pairwise (· < ·)) from hs)
    obtain ⟨i1, i2⟩ := ih (L.set e.1 e.2) hc.2 (fun e' he' => hne e' (List.mem_cons_of_mem _ he'))
    have hne' : e.2.isEmpty = false := by
      have := hne e (List.mem_cons_self ..)
      cases h : e.2 with
      | nil => exact absurd h this
      | cons _ _ => rfl
    constructor
    · intro e' he'
      show (applyEdits es (L.set e.1 e.2)).get e'.1 = some e'.2
      rcases List.mem_cons.mp he' with rfl | he'
      · rw [i2 e'.1 (fun hm => by have := hc.1 e'.1 hm; omega), Lines.get_set']
        simp [hne']
      · exact i1 e' he'
    · intro m hm
      simp only [List.map_cons, List.mem_cons, not_or] at hm
      show (applyEdits es (L.set e.1 e.2)).get m = _
      rw [i2 m hm.2, Lines.get_set', if_neg hm.1]

/-- what `σ`'s listing denotes -/
structure Listing (σ : St F) (entries : List (Nat × List (Token F))) : Prop where
  list : σ.lines.listTokens = some entries
  keys : entries.map (·.1) = σ.lines.sorted
  get : ∀ e ∈ entries, σ.lines.get e.1 = some e.2

omit [NumOps F] in
theorem listing_exists (σ : St F) (hwf : C04.WF σ.lines) : ∃ entries, Listing σ entries := by
  obtain ⟨es, h1, h2, h3⟩ := C04.list_sorted σ.lines hwf
  exact ⟨es, h1, h2, h3⟩

/-- **The reloaded interpreter**, explicitly: a new interpreter whose store is the listing
    entered line by line. -/
theorem reload_eq (laws : NumLaws F) (fuel : Nat) (σ : St F) (entries : List (Nat × List (Token F)))
    (hl : Listing σ entries) (hst : Stored σ.lines) :
    reload fuel σ = loaded σ (applyEdits entries {}) := by
  unfold reload
  rw [list_chomped σ.lines entries hl.list,
    enter_all_listed laws fuel entries (newState σ) rfl
      (fun e he => by
        obtain ⟨h1, _, h3⟩ := hst e.1 e.2 (hl.get e he)
        exact ⟨h1, h3⟩)]
  exact foldl_store_loaded σ entries {}

omit [NumOps F] in
theorem listed_get (σ : St F) (entries : List (Nat × List (Token F))) (hwf : C04.WF σ.lines)
    (hl : Listing σ entries) (hne : ∀ e ∈ entries, e.2 ≠ []) (n : Nat) :
    (applyEdits entries ({} : Lines F)).get n = σ.lines.get n := by
  have hs : (entries.map Prod.fst).Pairwise (· < ·) := by
    have := hl.keys
    rw [this]; exact hwf.sorted
  obtain ⟨i1, i2⟩ := applyEdits_get entries ({} : Lines F) hs hne
  by_cases hm : n ∈ entries.map Prod.fst
  · obtain ⟨e, he, rfl⟩ := List.mem_map.mp hm
    rw [i1 e he, hl.get e he]
  · rw [i2 n hm]
    have hn : n ∉ σ.lines.sorted := by rw [← hl.keys]; exact hm
    have : (σ.lines.get n).isSome = false := by
      cases h : (σ.lines.get n).isSome with
      | false => rfl
      | true => exact absurd ((hwf.agree n).mpr h) hn
    cases h : σ.lines.get n with
    | none => rfl
    | some ts => rw [h] at this; cases this

omit [NumOps F] in
theorem listed_sorted (σ : St F) (entries : List (Nat × List (Token F))) (hwf : C04.WF σ.lines)
    (hl : Listing σ entries) (hne : ∀ e ∈ entries, e.2 ≠ []) :
    (applyEdits entries ({} : Lines F)).sorted = σ.lines.sorted := by
  have hwf' : C04.WF (applyEdits entries ({} : Lines F)) := C04.wf_reachable entries
  apply Lines.sorted_ext _ _ hwf'.sorted hwf.sorted
  intro x
  rw [hwf'.agree, hwf.agree, listed_get σ entries hwf hl hne x]

omit [NumOps F] in
theorem listed_map (σ : St F) (entries : List (Nat × List (Token F))) (hwf : C04.WF σ.lines)
    (hl : Listing σ entries) (hne : ∀ e ∈ entries, e.2 ≠ []) :
    (applyEdits entries ({} : Lines F)).map = entries := by
  have hs : (entries.map Prod.fst).Pairwise (· < ·) := by
    have := hl.keys
    rw [this]; exact hwf.sorted
  have := applyEdits_map entries ({} : Lines F) (by simpa using hs) hne
  simpa using this

/-! ### 5. the reloaded program -/

/-- reachable states: the listing exists, its lines are non-empty tokenizer outputs, and
    `reload` is the interpreter holding the listing entered line by line -/
theorem reload_facts (laws : NumLaws F) (fuel fuel' : Nat) (σ : St F) (hr : Reachable fuel' σ) :
    ∃ entries, Listing σ entries ∧ (∀ e ∈ entries, e.2 ≠ []) ∧ C04.WF σ.lines ∧
      reload fuel σ = loaded σ (applyEdits entries {}) := by
  have hwf : C04.WF σ.lines := (wf_reachable fuel' σ hr).lines
  have hst := stored_reachable fuel' σ hr
  obtain ⟨entries, hl⟩ := listing_exists σ hwf
  exact ⟨entries, hl, (fun e he => (hst e.1 e.2 (hl.get e he)).2.1), hwf, reload_eq laws fuel σ entries hl hst⟩

/-- the reloaded program has the same ordered index of line numbers … -/
theorem reload_sorted (laws : NumLaws F) (fuel fuel' : Nat) (σ : St F) (hr : Reachable fuel' σ) :
    (reload fuel σ).lines.sorted = σ.lines.sorted := by
  obtain ⟨entries, hl, hne, hwf, he⟩ := reload_facts laws fuel fuel' σ hr
  rw [he]
  exact listed_sorted σ entries hwf hl hne

/-- … and, under every line number, the same tokens — token for token -/
theorem reload_get (laws : NumLaws F) (fuel fuel' : Nat) (σ : St F) (hr : Reachable fuel' σ) (n : Nat) :
    (reload fuel σ).lines.get n = σ.lines.get n := by
  obtain ⟨entries, hl, hne, hwf, he⟩ := reload_facts laws fuel fuel' σ hr
  rw [he]
  exact listed_get σ entries hwf hl hne n

/-- **reload_lines_eq (closest true form).**  The store of the reloaded interpreter is the
    store of `σ` with its token map in ascending key order (`Lines.canon` keeps the ordered
    index, and `get` for every line number: `Lines.canon_get`). -/
theorem reload_lines_eq_partial (laws : NumLaws F) (fuel fuel' : Nat) (σ : St F) (hr : Reachable fuel' σ) :
    (reload fuel σ).lines = σ.lines.canon := by
  obtain ⟨entries, hl, hne, hwf, he⟩ := reload_facts laws fuel fuel' σ hr
  have hc : (reload fuel σ).lines.canon = σ.lines.canon :=
    (Lines.canon_eq_iff _ _).mpr ⟨reload_sorted laws fuel fuel' σ hr, reload_get laws fuel fuel' σ hr⟩
  have hks : Lines.KeySorted (reload fuel σ).lines.map := by
    rw [he]
    show Lines.KeySorted (applyEdits entries ({} : Lines F)).map
    rw [listed_map σ entries hwf hl hne]
    show (entries.map Prod.fst).Pairwise (· < ·)
    have := hl.keys
    rw [this]; exact hwf.sorted
  have hself : (reload fuel σ).lines.canon = (reload fuel σ).lines := by
    show ({ map := Lines.canonMap (reload fuel σ).lines.map, sorted := (reload fuel σ).lines.sorted } : Lines F) = _
    rw [Lines.canonMap_of_keySorted _ hks]
  rw [← hself, hc]

/-- `reload_lines_eq` as stated holds exactly when the token map of `σ` is in key order
    (e.g. the lines were first entered in ascending order) -/
theorem reload_lines_eq_of_keySorted (laws : NumLaws F) (fuel fuel' : Nat) (σ : St F) (hr : Reachable fuel' σ)
    (hk : Lines.KeySorted σ.lines.map) : (reload fuel σ).lines = σ.lines := by
  rw [reload_lines_eq_partial laws fuel fuel' σ hr]
  show ({ map := Lines.canonMap σ.lines.map, sorted := σ.lines.sorted } : Lines F) = _
  rw [Lines.canonMap_of_keySorted _ hk]

/-- LIST of the reloaded program is LIST of the program (the fixed point, for whole programs) -/
theorem reload_list (laws : NumLaws F) (fuel fuel' : Nat) (σ : St F) (hr : Reachable fuel' σ) :
    (reload fuel σ).lines.list = σ.lines.list := by
  rw [reload_lines_eq_partial laws fuel fuel' σ hr, Lines.canon_list]

/-- **reload_data_sequence.**  READ sees the same sequence of DATA items (same chunks at the
    same locations) in the reloaded program. -/
theorem reload_data_sequence (laws : NumLaws F) (fuel fuel' : Nat) (σ : St F) (hr : Reachable fuel' σ) :
    (reload fuel σ).lines.dataChunks = σ.lines.dataChunks := by
  rw [reload_lines_eq_partial laws fuel fuel' σ hr, Lines.canon_dataChunks]

/-! ### 6. RUN cannot tell the reloaded interpreter from the original -/

/-- every host call, from states equal up to the order of the token map, has the same
    outcome and leads to states equal up to the order of the token map -/
theorem lsim_call (fuel : Nat) (c : Call) : LSim (c.run (F := F) fuel) := by
  cases c with
  | start text => exact lsim_startEvaluating fuel text
  | cont => exact lsim_continueEvaluating fuel
  | reply text => exact (lcomm_provideInput text).sim
  | brk => exact (lcomm_breakAtCurrentLocation (F := F)).sim
  | seed n => exact (lcomm_randomize n).sim
  | output => exact (lcomm_modify (f := fun s : St F => (takeOutput s).2) (fun σ => rfl)).sim

/-- what the host sees of a call: `none` for `Ok`, the error otherwise -/
def outcome {α : Type} : Res F α → Option TErr
  | .ok _ _ => none
  | .err e _ => some e

/-- the transcript of a call sequence: the outcome of every call and the output queue after it -/
def transcript (fuel : Nat) : List Call → St F → List (Option TErr × List Out)
  | [], _ => []
  | c :: cs, σ => (outcome (c.run fuel σ), (applyCall fuel c σ).out) :: transcript fuel cs (applyCall fuel c σ)

theorem applyCalls_cons (fuel : Nat) (c : Call) (cs : List Call) (σ : St F) :
    applyCalls fuel (c :: cs) σ = applyCalls fuel cs (applyCall fuel c σ) := rfl

/-- the order of the token map is unobservable, for every call sequence -/
theorem transcript_lsim (fuel : Nat) (cs : List Call) (σ₁ σ₂ : St F) (h : lnorm σ₁ = lnorm σ₂) :
    transcript fuel cs σ₁ = transcript fuel cs σ₂ ∧
    lnorm (applyCalls fuel cs σ₁) = lnorm (applyCalls fuel cs σ₂) := by
  induction cs generalizing σ₁ σ₂ with
  | nil => exact ⟨rfl, h⟩
  | cons c cs ih =>
    have hs := lsim_call fuel c σ₁ σ₂ h
    have key : outcome (c.run fuel σ₁) = outcome (c.run fuel σ₂) ∧
        lnorm (applyCall fuel c σ₁) = lnorm (applyCall fuel c σ₂) := by
      unfold applyCall
      cases h₁ : c.run fuel σ₁ with
      | ok a s =>
        cases h₂ : c.run fuel σ₂ with
        | ok b t => rw [h₁, h₂] at hs; exact ⟨rfl, hs.2⟩
        | err e t => rw [h₁, h₂] at hs; exact hs.elim
      | err e s =>
        cases h₂ : c.run fuel σ₂ with
        | ok b t => rw [h₁, h₂] at hs; exact hs.elim
        | err e' t => rw [h₁, h₂] at hs; exact ⟨congrArg some hs.1, hs.2⟩
    obtain ⟨k1, k2⟩ := key
    obtain ⟨i1, i2⟩ := ih _ _ k2
    have hout : (applyCall fuel c σ₁).out = (applyCall fuel c σ₂).out := by
      have := congrArg St.out k2; exact this
    exact ⟨by simp only [transcript, k1, hout, i1], by rw [applyCalls_cons, applyCalls_cons]; exact i2⟩

theorem transcript_first_congr (fuel : Nat) (c : Call) (cs : List Call) (σ σ' : St F)
    (h : c.run fuel σ = c.run fuel σ') :
    transcript fuel (c :: cs) σ = transcript fuel (c :: cs) σ' ∧
    applyCalls fuel (c :: cs) σ = applyCalls fuel (c :: cs) σ' := by
  have ha : applyCall fuel c σ = applyCall fuel c σ' := by unfold applyCall; rw [h]
  exact ⟨by simp only [transcript, h, ha], by rw [applyCalls_cons, applyCalls_cons, ha]⟩

/-- the RUN command -/
def runCall : Call := .start "RUN".toList

/-- **reload_same_run.**  For every reachable idle `σ` and EVERY later call sequence `cs`
    (continue, replies to INPUT, breaks, further lines and commands, …): `RUN :: cs` in the
    reloaded interpreter and in `σ` have the same transcript — the same outcome of every
    call and the same output queue after every call — and end in states that differ at most
    in the order of the token map.  (C14's "same RUN behaviour"; C10's "freshly started
    interpreter holding the same program".) -/
theorem reload_same_run (laws : NumLaws F) (fuel fuel' : Nat) (σ : St F) (hr : Reachable fuel' σ)
    (hidle : σ.state = .idle) (cs : List Call) :
    transcript fuel (runCall :: cs) (reload fuel σ) = transcript fuel (runCall :: cs) σ ∧
    lnorm (applyCalls fuel (runCall :: cs) (reload fuel σ)) = lnorm (applyCalls fuel (runCall :: cs) σ) := by
  have hrun : (commandWord "RUN".toList).bind Command.ofWord = some .run := by decide
  obtain ⟨entries, hl, hne, hwf, he⟩ := reload_facts laws fuel fuel' σ hr
  -- RUN in σ = RUN in `fresh σ`
  have h1 : runCall.run fuel σ = runCall.run fuel (C10.fresh σ) :=
    C10.run_clean_reachable fuel fuel' _ σ hr hidle hrun
  -- RUN in `reload σ` = RUN in `fresh (reload σ)`
  have h2 : runCall.run fuel (reload fuel σ) = runCall.run fuel (C10.fresh (reload fuel σ)) := by
    rw [he]
    exact C10.run_clean fuel _ _ rfl rfl hrun
  -- the two fresh interpreters differ at most in the order of the token map
  have h3 : lnorm (C10.fresh (reload fuel σ)) = lnorm (C10.fresh σ) := by
    have hc : (reload fuel σ).lines.canon = σ.lines.canon :=
      (Lines.canon_eq_iff _ _).mpr ⟨reload_sorted laws fuel fuel' σ hr, reload_get laws fuel fuel' σ hr⟩
    have e1 : lnorm (C10.fresh (reload fuel σ)) =
        { C10.fresh σ with lines := (reload fuel σ).lines.canon } := by rw [he]; rfl
    have e2 : lnorm (C10.fresh σ) = { C10.fresh σ with lines := σ.lines.canon } := rfl
    rw [e1, e2, hc]
  obtain ⟨a1, a2⟩ := transcript_first_congr fuel runCall cs _ _ h1
  obtain ⟨b1, b2⟩ := transcript_first_congr fuel runCall cs _ _ h2
  obtain ⟨c1, c2⟩ := transcript_lsim fuel (runCall :: cs) _ _ h3
  exact ⟨by rw [a1, b1, c1], by rw [a2, b2, c2]⟩

/-- in particular the output produced is the same after every prefix of the session -/
theorem reload_same_output (laws : NumLaws F) (fuel fuel' : Nat) (σ : St F) (hr : Reachable fuel' σ)
    (hidle : σ.state = .idle) (cs : List Call) :
    (applyCalls fuel (runCall :: cs) (reload fuel σ)).out = (applyCalls fuel (runCall :: cs) σ).out ∧
    (applyCalls fuel (runCall :: cs) (reload fuel σ)).state = (applyCalls fuel (runCall :: cs) σ).state ∧
    (applyCalls fuel (runCall :: cs) (reload fuel σ)).vars = (applyCalls fuel (runCall :: cs) σ).vars ∧
    (applyCalls fuel (runCall :: cs) (reload fuel σ)).arrays = (applyCalls fuel (runCall :: cs) σ).arrays := by
  have h := (reload_same_run laws fuel fuel' σ hr hidle cs).2
  have o := congrArg St.out h
  have st := congrArg St.state h
  have v := congrArg St.vars h
  have a := congrArg St.arrays h
  exact ⟨o, st, v, a⟩

/-! ### 7. counterexamples to the literal statements, non-vacuity -/

/-- LIST records end in a newline, which the tokenizer rejects: a host that re-enters a
    listing must strip it (`chompNl`); entered verbatim, no line of the listing is stored. -/
theorem newline_rejected :
    (tokenize (F := Unit) "10 END\n".toList 2).toOption.isSome = false ∧
    (tokenize (F := Unit) "10 END".toList 2).toOption.isSome = true ∧
    (enterAll (F := Unit) 5 ["10 END\n".toList] {}).lines.sorted = [] := by
  decide +kernel

/-- a session that enters line 20 before line 10 -/
def outOfOrder : St Unit := applyCalls 5 [.start "20 END".toList, .start "10 END".toList] {}

/-- **`(reload σ).lines = σ.lines` is false as a structural equality**: the model keeps the
    token map (a `HashMap` in the implementation) as an association list in insertion
    order; the reloaded store has it in line order.  Same index, same tokens under every
    number. -/
theorem reload_lines_eq_false :
    Reachable 5 outOfOrder ∧ outOfOrder.state = .idle ∧
    (reload 5 outOfOrder).lines ≠ outOfOrder.lines ∧
    (reload 5 outOfOrder).lines.map.map (·.1) = [10, 20] ∧ outOfOrder.lines.map.map (·.1) = [20, 10] ∧
    (reload 5 outOfOrder).lines.sorted = outOfOrder.lines.sorted := by
  refine ⟨reachable_applyCalls 5 _ _ .init, by decide +kernel, ?_, by decide +kernel, by decide +kernel,
    by decide +kernel⟩
  intro h
  have : (reload 5 outOfOrder).lines.map.map (·.1) = outOfOrder.lines.map.map (·.1) := by rw [h]
  exact absurd this (by decide +kernel)

/-- A session on the degenerate carrier (`NumLaws Unit` holds), entered out of order, with a
    DATA line holding a quoted string with a comma and an unquoted string. -/
def sessionU : St Unit :=
  applyCalls 30 [.start "30 PRINT A$; B$".toList, .start "10 DATA \"A, B\", x y".toList,
    .start "20 READ A$, B$".toList] {}

theorem sessionU_reachable : Reachable 30 sessionU := reachable_applyCalls 30 _ _ .init

theorem numLaws_unit : NumLaws Unit :=
  ⟨(fun _ _ _ _ hp => by cases hp), (fun _ _ _ hp => by cases hp), (fun _ _ hp => by cases hp)⟩

/-- the theorems instantiated: all hypotheses hold together … -/
example (cs : List Call) :
    transcript 30 (runCall :: cs) (reload 30 sessionU) = transcript 30 (runCall :: cs) sessionU :=
  (reload_same_run numLaws_unit 30 30 sessionU sessionU_reachable (by decide +kernel) cs).1

example : (reload 30 sessionU).lines.dataChunks = sessionU.lines.dataChunks :=
  reload_data_sequence numLaws_unit 30 30 sessionU sessionU_reachable

/-- … and the conclusion is not trivial: the token maps differ in order, the run prints. -/
example :
    sessionU.lines.map.map (·.1) = [30, 10, 20] ∧ (reload 30 sessionU).lines.map.map (·.1) = [10, 20, 30] ∧
    sessionU.lines.dataChunks = some [({ line := some 10, idx := 0 }, [.str "A, B".toList, .str "x y".toList])] ∧
    transcript 30 [runCall, .cont, .cont] sessionU =
      [(none, []), (none, []), (none, [.print "A, Bx y\n".toList])] := by
  decide +kernel

/-! #### with numerals: a carrier of decimal numerals -/

/-- decimal numerals: (all digits read as one number, number of fraction digits) -/
abbrev Dec := Nat × Nat

def decParse (s : Str) : Option Dec :=
  let ip := s.takeWhile (· != '.')
  let fp := (s.dropWhile (· != '.')).drop 1
  if (ip ++ fp).isEmpty || !(ip ++ fp).all isAsciiDigit then none
  else some (digitsValue (ip ++ fp) 0, fp.length)

def decRender (x : Dec) : Str :=
  let ds := Nat.toDigits 10 x.1
  let ds := List.replicate (x.2 + 1 - ds.length) '0' ++ ds
  if x.2 = 0 then ds else ds.take (ds.length - x.2) ++ '.' :: ds.drop (ds.length - x.2)

/-- only `parse` / `render` / comparison matter here -/
@[instance_reducible] def decOps : NumOps Dec where
  zero := (0, 0)
  one := (1, 0)
  add := fun a _ => a
  sub := fun a _ => a
  mul := fun a _ => a
  div := fun a _ => a
  pow := fun a _ => a
  neg := fun a => a
  abs := fun a => a
  floor := fun a => a
  lt := fun a b => decide (a.1 * 10 ^ b.2 < b.1 * 10 ^ a.2)
  le := fun a b => decide (a.1 * 10 ^ b.2 ≤ b.1 * 10 ^ a.2)
  eq := fun a b => decide (a.1 * 10 ^ b.2 = b.1 * 10 ^ a.2)
  toI64 := fun a => ((a.1 / 10 ^ a.2 : Nat) : Int)
  toU64 := fun a => a.1 / 10 ^ a.2
  ofNat := fun n => (n, 0)
  parse := decParse
  render := decRender
  isFinite := fun _ => true

section
attribute [local instance] decOps

/-- a program entered out of order: a DATA line with a quoted string containing a comma, a
    numeral and an unquoted string; a numeral after an identifier (`A .5`, stored as the
    number 0.5 and listed as `.5`) -/
def sessionD : St Dec :=
  applyCalls 50 [.start "30 PRINT A .5".toList, .start "10 DATA \"A, B\", 1.5, x y".toList,
    .start "20 READ A$, B, C$".toList, .start "40 PRINT A$; B; C$".toList] {}

/-- **Non-vacuity, checked by evaluation** (kernel): the session is reachable and idle; the
    listing shows the numeral after the identifier as `.5`; the reloaded store has the same
    index, the same tokens under every line number, the same listing and the same DATA
    chunks — while the token maps differ in order; RUN and three further turns have the same
    transcript, which prints `00.5` and `A, B1.5x y`. -/
theorem reload_example :
    Reachable 50 sessionD ∧ sessionD.state = .idle ∧
    sessionD.lines.list = some ["10 DATA \"A, B\", 1.5, \"x y\"\n".toList, "20 READ A$ , B , C$\n".toList,
      "30 PRINT A .5\n".toList, "40 PRINT A$ ; B ; C$\n".toList] ∧
    (reload 50 sessionD).lines.sorted = sessionD.lines.sorted ∧
    (sessionD.lines.sorted.all fun n => decide ((reload 50 sessionD).lines.get n = sessionD.lines.get n)) = true ∧
    (reload 50 sessionD).lines = sessionD.lines.canon ∧
    (reload 50 sessionD).lines.list = sessionD.lines.list ∧
    (reload 50 sessionD).lines.dataChunks = sessionD.lines.dataChunks ∧
    sessionD.lines.dataChunks =
      some [({ line := some 10, idx := 0 }, [.str "A, B".toList, .num (15, 1), .str "x y".toList])] ∧
    sessionD.lines.map.map (·.1) = [30, 10, 20, 40] ∧ (reload 50 sessionD).lines.map.map (·.1) = [10, 20, 30, 40] ∧
    transcript 50 [runCall, .cont, .cont, .cont] (reload 50 sessionD) =
      transcript 50 [runCall, .cont, .cont, .cont] sessionD ∧
    transcript 50 [runCall, .cont, .cont, .cont] sessionD =
      [(none, []), (none, []), (none, [.print "00.5\n".toList]),
       (none, [.print "A, B1.5x y\n".toList, .print "00.5\n".toList])] := by
  refine ⟨reachable_applyCalls 50 _ _ .init, by decide +kernel, by decide +kernel, by decide +kernel,
    by decide +kernel, by decide +kernel, by decide +kernel, by decide +kernel, by decide +kernel,
    by decide +kernel, by decide +kernel, by decide +kernel, by decide +kernel⟩
end

end Abasic.Props.C14
