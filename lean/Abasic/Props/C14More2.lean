import Abasic.Proofs.DataRoundTrip
/-
  C14, continued — the LIST fixed point
      `tokenize line 0 = .ok ts → tokenize (listLine ts) 0 = .ok ts`.

  The carrier of numbers is abstract (`NumOps`), so the statement needs laws about
  `parse`/`render`.  Proved here:

   * `list_fixpoint`          — for every line, from the single hypothesis `NumLaws F`
                                (three laws of `parse`/`render`, section 9);
   * `list_fixpoint_plain`    — unconditionally, for lines without numbers (keywords,
                                operators, identifiers, strings, REM, DATA with string
                                items only);
   * `list_fixpoint_partial'` — for every line, under three hypotheses about how the
                                numbers of that line are rendered (`RenderOK`, `FracOK`,
                                `DataNumOK`);
   * `list_fixpoint_partial`  — the same with the hypotheses in the raw form `NumsOK`;
   * `list_fixpoint_rounding_repaired` — the line `PRINT A .99999999999999999999`, which
                                violated the fixed point before `listSpellings` was
                                repaired (the numeral rounds to 1, was listed as `A 1`
                                and read back as the identifier `A1`), now satisfies it.

  Stages:
   A. `nextToken_listed`  — one listed token followed by the listed rest is read
      back as that token, under the side condition `TokOK`.
   B. `canon_of_tokenize` (`canonFrom_of_toks`, `step_canon`) — every tokenizer output
      satisfies `Canon` (the side conditions hold along the whole list).
   C. `tokenize_of_canon` (`toks_of_canonFrom`) — `Canon ts` implies the listed line
      tokenizes to `ts`.
  Helper files: `Proofs/ListFixLemmas.lean` (blank-free view `sq`, similarity `Sim`),
  `Proofs/DataRoundTrip.lean` (DATA item parser: invariants and round trip).
-/
namespace Abasic.Props.C14
open Abasic
open Abasic.Props.C12
open Abasic.Props.C13
open Abasic.DataRT

variable {F : Type} [NumOps F]

/-! ### 1. the tokenizer loop as a relation -/

/-- `Toks cs ts`: the main loop, started on `cs`, ends without error with the tokens `ts`. -/
inductive Toks : Str → List (Token F) → Prop
  | nil {cs : Str} : skipWs cs = [] → Toks cs []
  | cons {cs : Str} {c : Char} {r : Str} {t : Token F} {r' : Str} {ts : List (Token F)} :
      skipWs cs = c :: r → nextToken (F := F) (c :: r) = .tok t r' → Toks r' ts → Toks cs (t :: ts)

theorem toks_of_tokLoop (fuel : Nat) : ∀ (cs : Str) (idx : Nat) (acc : List (RangedToken F)),
    (tokLoop fuel cs idx acc).2 = none →
    ∃ ts, Toks cs ts ∧ (tokLoop fuel cs idx acc).1.map (·.1) = acc.reverse.map (·.1) ++ ts := by
  induction fuel with
  | zero => intro cs idx acc h; rw [tokLoop_zero] at h; cases h
  | succ fuel ih =>
    intro cs idx acc hok
    cases hs : skipWs cs with
    | nil =>
      rw [tokLoop_succ_nil fuel cs idx acc hs]
      exact ⟨[], Toks.nil hs, by simp⟩
    | cons c t =>
      cases hn : nextToken (F := F) (c :: t) with
      | tok tk rest =>
        obtain ⟨a, b, e⟩ := tokLoop_succ_tok fuel cs idx acc c t hs tk rest hn
        rw [e] at hok ⊢
        obtain ⟨ts, h1, h2⟩ := ih rest b _ hok
        exact ⟨tk :: ts, Toks.cons hs hn h1, by rw [h2]; simp⟩
      | illegalChar =>
        exact absurd hok (tokLoop_succ_err fuel cs idx acc c t hs (by intro tk rest h; rw [hn] at h; cases h))
      | unterminated =>
        exact absurd hok (tokLoop_succ_err fuel cs idx acc c t hs (by intro tk rest h; rw [hn] at h; cases h))
      | invalidNumber r =>
        exact absurd hok (tokLoop_succ_err fuel cs idx acc c t hs (by intro tk rest h; rw [hn] at h; cases h))

theorem tokLoop_of_toks {cs : Str} {ts : List (Token F)} (h : Toks cs ts) :
    ∀ (fuel idx : Nat) (acc : List (RangedToken F)), cs.length < fuel →
    (tokLoop fuel cs idx acc).2 = none ∧
    (tokLoop fuel cs idx acc).1.map (·.1) = acc.reverse.map (·.1) ++ ts := by
  induction h with
  | nil hs =>
    intro fuel idx acc hf
    obtain ⟨f, rfl⟩ : ∃ f, fuel = f + 1 := ⟨fuel - 1, by omega⟩
    rw [tokLoop_succ_nil f _ idx acc hs]
    exact ⟨rfl, by simp⟩
  | @cons cs c r t r' ts hs hn _ ih =>
    intro fuel idx acc hf
    obtain ⟨f, rfl⟩ : ∃ f, fuel = f + 1 := ⟨fuel - 1, by omega⟩
    obtain ⟨a, b, e⟩ := tokLoop_succ_tok f cs idx acc c r hs t r' hn
    rw [e]
    have h1 := nextToken_length c r t r' hn
    have h2 := skipWs_length cs
    rw [hs] at h2
    obtain ⟨g1, g2⟩ := ih f b ((t, a, b) :: acc) (by omega)
    exact ⟨g1, by rw [g2]; simp⟩

theorem toks_of_tokenize (line : Str) (ts : List (Token F))
    (h : tokenize (F := F) line 0 = .ok ts) : Toks line ts := by
  rw [tokenize_ok_iff] at h
  obtain ⟨h1, h2⟩ := h
  obtain ⟨ts', g1, g2⟩ := toks_of_tokLoop (F := F) _ line 0 [] h1
  rw [h2] at g2
  simp only [List.reverse_nil, List.map_nil, List.nil_append] at g2
  rw [g2]; exact g1

theorem tokenize_of_toks (line : Str) (ts : List (Token F)) (h : Toks line ts) :
    tokenize (F := F) line 0 = .ok ts := by
  rw [tokenize_ok_iff]
  obtain ⟨g1, g2⟩ := tokLoop_of_toks h (line.length + 1) 0 [] (Nat.lt_succ_self _)
  exact ⟨g1, by rw [g2]; simp⟩

theorem toks_blank (w : Char) (hw : isBasicWs w = true) {cs : Str} {ts : List (Token F)}
    (h : Toks cs ts) : Toks (w :: cs) ts := by
  cases h with
  | nil hs => exact Toks.nil (by rw [skipWs_blank w cs hw]; exact hs)
  | cons hs hn ht => exact Toks.cons (by rw [skipWs_blank w cs hw]; exact hs) hn ht

theorem toks_congr {a b : Str} (hab : skipWs a = skipWs b) {ts : List (Token F)} (h : Toks a ts) :
    Toks b ts := by
  cases h with
  | nil hs => exact Toks.nil (by rw [← hab]; exact hs)
  | cons hs hn ht => exact Toks.cons (by rw [← hab]; exact hs) hn ht

theorem toks_nil_inv {ts : List (Token F)} (h : Toks ([] : Str) ts) : ts = [] := by
  cases h with
  | nil _ => rfl
  | cons hs _ _ => simp [skipWs] at hs

/-! ### 2. the listed text -/

/-- the spelling LIST uses for token `t` when the token before it is `prev` -/
def spell (prev : Option (Token F)) (t : Token F) : Str :=
  let s := t.render
  match prev, t with
  | some (.symbol sym), .num _ =>
    if endsWithDollar sym then s
    else if s == ['0'] then ['.', '0']
    else if s == ['1'] then ".99999999999999999999".toList
    else if s.head? == some '0' then s.tail else s
  | _, _ => s

theorem listSpellings_cons (prev : Option (Token F)) (t : Token F) (rest : List (Token F)) :
    listSpellings prev (t :: rest) = spell prev t :: listSpellings (some t) rest := rfl

/-- the listed text of `ts` when the token before it is `prev` -/
def listed (prev : Option (Token F)) (ts : List (Token F)) : Str :=
  joinWith [' '] (listSpellings prev ts)

theorem listLine_eq (ts : List (Token F)) : listLine ts = listed none ts := rfl

/-- what follows the spelling of `t` in the listed text -/
def restOf (t : Token F) (ts : List (Token F)) : Str :=
  match ts with
  | [] => []
  | _ :: _ => ' ' :: listed (some t) ts

theorem listed_nil (prev : Option (Token F)) : listed prev ([] : List (Token F)) = [] := rfl

theorem listed_cons (prev : Option (Token F)) (t : Token F) (ts : List (Token F)) :
    listed prev (t :: ts) = spell prev t ++ restOf t ts := by
  cases ts with
  | nil =>
    simp only [listed, listSpellings_cons, restOf, List.append_nil]
    rfl
  | cons u us =>
    simp only [listed, listSpellings_cons, joinWith, restOf, List.append_assoc, List.singleton_append]

theorem sq_restOf (t : Token F) (ts : List (Token F)) : sq (restOf t ts) = sq (listed (some t) ts) := by
  cases ts with
  | nil => rfl
  | cons u us => exact sq_ws ' ' _ (by decide)

theorem spell_kw (prev : Option (Token F)) (k : Kw) :
    spell prev (.kw k) = (Extracted.kwSpelling k).toList := by
  cases prev with
  | none => rfl
  | some p => cases p <;> rfl

theorem spell_str (prev : Option (Token F)) (s : Str) : spell prev (.str s) = '"' :: s ++ ['"'] := by
  cases prev with
  | none => rfl
  | some p => cases p <;> rfl

theorem spell_remark (prev : Option (Token F)) (s : Str) :
    spell prev (.remark s) = Extracted.remKeyword.toList ++ s := by
  cases prev with
  | none => rfl
  | some p => cases p <;> rfl

theorem spell_symbol (prev : Option (Token F)) (s : Str) : spell prev (.symbol s) = s := by
  cases prev with
  | none => rfl
  | some p => cases p <;> rfl

theorem spell_data (prev : Option (Token F)) (items : List (DataElement F)) :
    spell prev (.data items) = Extracted.dataKeyword.toList ++ ' ' :: renderData items := by
  cases prev with
  | none => rfl
  | some p => cases p <;> rfl

/-- the token before is an identifier that does not end in `$` (so a numeral after it
    would be absorbed if it began with a digit) -/
def NonDollarSym (prev : Option (Token F)) : Prop :=
  ∃ sym, prev = some (.symbol sym) ∧ endsWithDollar sym = false

/-! ### 3. side conditions and stage A -/

/-- no two-character operator starts with `k` followed by the head of `q` -/
def twoFree (k : Kw) (q : Str) : Bool := headAll (fun h => (lookupTwo Extracted.twoChar k h).isNone) q
/-- `q` does not start with a digit or point -/
def numFree (q : Str) : Bool := headAll (fun h => !digdot h) q
/-- `q` does not start with a character that continues an identifier -/
def endFree (q : Str) : Bool := headAll (fun h => !symValid false h) q

/-- `symLoop first (s ++ R)` collects exactly `s`: every character is valid, already
    upper-case, `$` only at the end, no keyword starts inside, and what follows the
    last character does not continue the identifier. -/
def SymOK : Bool → Str → Str → Prop
  | _, [], _ => False
  | first, c :: d, R =>
    symValid first c = true ∧ asciiUpper c = c ∧ isBasicWs c = false ∧
    (c ≠ '$' ∨ d = []) ∧
    (c ≠ '$' → d = [] → anyKw (sq R) = true ∨ endFree (sq R) = true) ∧
    (d ≠ [] → anyKw (sq (d ++ R)) = false ∧ SymOK false d R)

/-- The side condition under which the listed spelling of `t`, followed by `R`, is read
    back as `t` leaving `R`. -/
def TokOK (prev : Option (Token F)) (t : Token F) (R : Str) : Prop :=
  match t with
  | .kw k => twoFree k (sq R) = true
  | .str s => ∀ c ∈ s, c ≠ '"'
  | .num x => ∃ h tl, spell prev (.num x) = h :: tl ∧ (∀ c ∈ h :: tl, digdot c = true) ∧
      NumOps.parse (F := F) (h :: tl) = some x ∧ NumOps.isFinite x = true ∧ numFree (sq R) = true
  | .remark _ => R = []
  | .symbol s => anyKw (sq (s ++ R)) = false ∧ pre Extracted.remKeyword.toList (sq (s ++ R)) = false ∧
      pre Extracted.dataKeyword.toList (sq (s ++ R)) = false ∧ SymOK true s R
  | .data items => DataOK items ∧ (R = [] ∨ ∃ R2, R = ' ' :: ':' :: R2)

/-! #### tables -/

theorem lookup_mem {α β : Type} [BEq α] [LawfulBEq α] (tbl : List (α × β)) (a : α) (b : β)
    (h : tbl.lookup a = some b) : (a, b) ∈ tbl := by
  induction tbl with
  | nil => simp at h
  | cons p rest ih =>
    obtain ⟨x, y⟩ := p
    rw [List.lookup_cons] at h
    by_cases hx : (a == x) = true
    · rw [hx] at h
      simp only [Option.some.injEq] at h
      have : a = x := by simpa using hx
      subst this; subst h
      exact List.mem_cons_self ..
    · have : (a == x) = false := by simpa using hx
      rw [this] at h
      exact List.mem_cons_of_mem _ (ih h)

theorem lookup_none_of {β : Type} (tbl : List (Char × β)) (c : Char) (P : Char → Bool)
    (ht : ∀ p ∈ tbl, P p.1 = false) (hc : P c = true) : tbl.lookup c = none := by
  cases h : tbl.lookup c with
  | none => rfl
  | some b =>
    have := ht _ (lookup_mem tbl c b h)
    simp only at this
    rw [hc] at this; cases this

theorem oneChar_not_alpha : ∀ p ∈ Extracted.oneChar, isAsciiAlpha p.1 = false := by decide
theorem oneChar_not_digdot : ∀ p ∈ Extracted.oneChar, digdot p.1 = false := by decide
theorem oneChar_not_quote : ∀ p ∈ Extracted.oneChar, (p.1 == '"') = false := by decide

theorem lookupTwo_mem (tbl : List (Kw × Char × Kw)) (k : Kw) (c : Char) (k2 : Kw)
    (h : lookupTwo tbl k c = some k2) : (k, c, k2) ∈ tbl := by
  induction tbl with
  | nil => simp [lookupTwo] at h
  | cons p rest ih =>
    obtain ⟨a, x, v⟩ := p
    simp only [lookupTwo] at h
    by_cases hx : (a == k && x == c) = true
    · rw [if_pos hx] at h
      simp only [Option.some.injEq] at h
      simp only [Bool.and_eq_true, beq_iff_eq] at hx
      obtain ⟨rfl, rfl⟩ := hx
      subst h
      exact List.mem_cons_self ..
    · rw [if_neg hx] at h
      exact List.mem_cons_of_mem _ (ih h)

theorem twoChar_first : ∀ p ∈ Extracted.twoChar, (p.1 = .LessThan ∨ p.1 = .GreaterThan) ∧
    digdot p.2.1 = false ∧ isAsciiAlpha p.2.1 = false := by decide

theorem twoChar_not_alpha : ∀ p ∈ Extracted.twoChar, isAsciiAlpha p.2.1 = false := by decide

theorem lookupTwo_upper (k : Kw) (c : Char) :
    lookupTwo Extracted.twoChar k (asciiUpper c) = lookupTwo Extracted.twoChar k c :=
  upperEq_lookupTwo (upper_idem c) _ k twoChar_not_alpha

/-- only `<` and `>` start a two-character operator -/
theorem twoFree_of_not_lt_gt (k : Kw) (hk : k ≠ .LessThan ∧ k ≠ .GreaterThan) (q : Str) :
    twoFree k q = true := by
  cases q with
  | nil => rfl
  | cons h q =>
    simp only [twoFree, headAll]
    cases hl : lookupTwo Extracted.twoChar k h with
    | none => rfl
    | some k2 =>
      have := (twoChar_first _ (lookupTwo_mem _ k h k2 hl)).1
      simp only at this
      rcases this with e | e
      · exact absurd e hk.1
      · exact absurd e hk.2

/-- no keyword starts with a non-letter -/
theorem keywords_head_alpha : ∀ p ∈ Extracted.keywords,
    (match p.1.toList with | [] => false | k :: _ => isAsciiAlpha k) = true := by decide

theorem preTable_head_nonalpha (tbl : List (String × Kw))
    (ht : ∀ p ∈ tbl, (match p.1.toList with | [] => false | k :: _ => isAsciiAlpha k) = true)
    (h : Char) (q : Str) (hh : isAsciiAlpha h = false) : preTable tbl (h :: q) = false := by
  induction tbl with
  | nil => rfl
  | cons e rest ih =>
    simp only [preTable, List.any_cons]
    have he := ht e (List.mem_cons_self ..)
    have hr := ih (fun p hp => ht p (List.mem_cons_of_mem _ hp))
    simp only [preTable] at hr
    rw [hr, Bool.or_false]
    cases hw : e.1.toList with
    | nil => rw [hw] at he; cases he
    | cons k ks =>
      rw [hw] at he
      simp only at he
      simp only [pre]
      have : (h == k) = false := by
        apply beq_false_of_ne; intro e'
        rw [e', he] at hh; cases hh
      rw [this]; rfl

theorem anyKw_head_nonalpha (h : Char) (q : Str) (hh : isAsciiAlpha h = false) : anyKw (h :: q) = false :=
  preTable_head_nonalpha _ keywords_head_alpha h q hh

theorem pre_head_ne (k : Char) (ks : Str) (h : Char) (q : Str) (hne : h ≠ k) : pre (k :: ks) (h :: q) = false := by
  simp only [pre]
  rw [beq_false_of_ne hne]; rfl

/-! #### keywords and operators -/

theorem chompOneOrTwo_one (c : Char) (k : Kw) (R : Str) (hc : isBasicWs c = false)
    (hl : Extracted.oneChar.lookup c = some k) (h2 : twoFree k (sq R) = true) :
    chompOneOrTwo (c :: R) = some (k, R) := by
  unfold chompOneOrTwo
  have hs : skipWs (c :: R) = c :: R := by simp [skipWs, hc]
  rw [hs]
  simp only [hl]
  cases hs2 : skipWs R with
  | nil => rfl
  | cons c2 r2 =>
    simp only
    rw [sq_of_skipWs_cons R c2 r2 hs2] at h2
    simp only [twoFree, headAll] at h2
    rw [lookupTwo_upper] at h2
    cases hq : lookupTwo Extracted.twoChar k c2 with
    | none => rfl
    | some k2 => rw [hq] at h2; cases h2

theorem nextToken_listed_kw (k : Kw) (R : Str) (h : twoFree k (sq R) = true) :
    nextToken (F := F) ((Extracted.kwSpelling k).toList ++ R) = .tok (.kw k) R := by
  have op : ∀ (c : Char), chompAnyKeyword (c :: R) = none → isBasicWs c = false →
      Extracted.oneChar.lookup c = some k → nextToken (F := F) (c :: R) = .tok (.kw k) R := by
    intro c h1 h2 h3
    exact nextToken_op _ k R h1 (chompOneOrTwo_one c k R h2 h3 h)
  cases k <;> first
    | rfl
    | exact op _ rfl rfl rfl

/-! #### string literals -/

theorem splitAtQuote_listed (s R : Str) (h : ∀ c ∈ s, c ≠ '"') :
    splitAtQuote (s ++ '"' :: R) = some (s, R) := by
  induction s with
  | nil => simp [splitAtQuote]
  | cons c s ih =>
    have hc : (c == '"') = false := beq_false_of_ne (h c (List.mem_cons_self ..))
    simp only [List.cons_append, splitAtQuote, hc, Bool.false_eq_true, if_false]
    rw [ih (fun x hx => h x (List.mem_cons_of_mem _ hx))]

theorem splitAtQuote_noquote (q s r : Str) (h : splitAtQuote q = some (s, r)) : ∀ c ∈ s, c ≠ '"' := by
  induction q generalizing s with
  | nil => simp [splitAtQuote] at h
  | cons x q ih =>
    simp only [splitAtQuote] at h
    by_cases hx : (x == '"') = true
    · rw [if_pos hx] at h
      simp only [Option.some.injEq, Prod.mk.injEq] at h
      obtain ⟨rfl, _⟩ := h
      intro c hc; cases hc
    · rw [if_neg hx] at h
      cases hq : splitAtQuote q with
      | none => rw [hq] at h; cases h
      | some p =>
        obtain ⟨a, r1⟩ := p
        rw [hq] at h
        simp only [Option.some.injEq, Prod.mk.injEq] at h
        obtain ⟨rfl, rfl⟩ := h
        intro c hc
        rcases List.mem_cons.mp hc with rfl | hc
        · intro e; rw [e] at hx; exact hx rfl
        · exact ih a hq c hc

theorem chompOneOrTwo_none_of (c : Char) (X : Str) (hb : isBasicWs c = false)
    (hl : Extracted.oneChar.lookup c = none) : chompOneOrTwo (c :: X) = none := by
  unfold chompOneOrTwo
  have hs : skipWs (c :: X) = c :: X := by simp [skipWs, hb]
  rw [hs]
  simp only [hl]

theorem nextToken_listed_str (s R : Str) (h : ∀ c ∈ s, c ≠ '"') :
    nextToken (F := F) (('"' :: s ++ ['"']) ++ R) = .tok (.str s) R := by
  have e : ('"' :: s ++ ['"']) ++ R = '"' :: (s ++ '"' :: R) := by simp
  rw [e]
  have k1 : chompAnyKeyword ('"' :: (s ++ '"' :: R)) = none := by
    apply chompAnyKeyword_none
    rw [sq_nb _ _ (by decide)]
    exact anyKw_head_nonalpha _ _ (by decide)
  have o1 : chompOneOrTwo ('"' :: (s ++ '"' :: R)) = none :=
    chompOneOrTwo_none_of _ _ (by decide) (by decide)
  rw [nextToken_quote _ k1 o1, splitAtQuote_listed s R h]

/-! #### numerals -/

theorem numLoop_nil_of_numFree (R : Str) (h : numFree (sq R) = true) : numLoop R = ([], R) := by
  induction R with
  | nil => rfl
  | cons c R ih =>
    by_cases hb : isBasicWs c = true
    · rw [sq_ws c R hb] at h
      rw [numLoop_blank c hb, ih h]; rfl
    · have hb' : isBasicWs c = false := by simpa using hb
      rw [sq_nb c R hb'] at h
      simp only [numFree, headAll, upper_digdot] at h
      apply numLoop_other c hb
      intro hg
      have : digdot c = true := hg
      rw [this] at h; cases h

theorem numFree_of_numLoop_nil (R : Str) (h : (numLoop R).1 = []) : numFree (sq R) = true := by
  induction R with
  | nil => rfl
  | cons c R ih =>
    by_cases hb : isBasicWs c = true
    · rw [sq_ws c R hb]
      rw [numLoop_blank c hb] at h
      by_cases hd : (numLoop R).1.isEmpty = true
      · exact ih (List.isEmpty_iff.mp hd)
      · rw [if_neg hd] at h; rw [h] at hd; exact absurd rfl hd
    · have hb' : isBasicWs c = false := by simpa using hb
      rw [sq_nb c R hb']
      by_cases hg : (isAsciiDigit c || c == '.') = true
      · rw [numLoop_digit c hb hg] at h; cases h
      · simp only [numFree, headAll, upper_digdot]
        have : digdot c = false := by simpa [digdot] using hg
        rw [this]; rfl

theorem numLoop_listed (sp R : Str) (hd : ∀ c ∈ sp, digdot c = true) (h : numFree (sq R) = true) :
    numLoop (sp ++ R) = (sp, R) := by
  induction sp with
  | nil => exact numLoop_nil_of_numFree R h
  | cons c sp ih =>
    have hc := hd c (List.mem_cons_self ..)
    have hb : ¬ isBasicWs c = true := by rw [digdot_not_ws c hc]; simp
    rw [List.cons_append, numLoop_digit c hb hc, ih (fun x hx => hd x (List.mem_cons_of_mem _ hx))]

theorem nextToken_listed_num (x : F) (h : Char) (tl R : Str) (hd : ∀ c ∈ h :: tl, digdot c = true)
    (hp : NumOps.parse (F := F) (h :: tl) = some x) (hf : NumOps.isFinite x = true)
    (hR : numFree (sq R) = true) :
    nextToken (F := F) ((h :: tl) ++ R) = .tok (.num x) R := by
  have hh := hd h (List.mem_cons_self ..)
  have hb := digdot_not_ws h hh
  have k1 : chompAnyKeyword ((h :: tl) ++ R) = none := by
    apply chompAnyKeyword_none
    rw [List.cons_append, sq_nb _ _ hb]
    apply anyKw_head_nonalpha
    rw [upperEq_alpha (upper_idem h)]
    exact digdot_not_alpha h hh
  have o1 : chompOneOrTwo ((h :: tl) ++ R) = none :=
    chompOneOrTwo_none_of _ _ hb (lookup_none_of _ h digdot oneChar_not_digdot hh)
  have hq : h ≠ '"' := by intro e; rw [e] at hh; revert hh; decide
  rw [List.cons_append] at k1 o1 ⊢
  rw [nextToken_noquote h _ hq k1 o1]
  unfold afterQuote
  rw [← List.cons_append, numLoop_listed (h :: tl) R hd hR]
  simp only [hp, hf, if_true]

/-! #### identifiers -/

theorem symLoop_nil_of_endFree (R : Str) (h : endFree (sq R) = true) : symLoop false R = ([], R) := by
  induction R with
  | nil => rfl
  | cons c R ih =>
    by_cases hb : isBasicWs c = true
    · rw [sq_ws c R hb] at h
      rw [symLoop_blank false c hb, ih h]; rfl
    · have hb' : isBasicWs c = false := by simpa using hb
      rw [sq_nb c R hb'] at h
      simp only [endFree, headAll, upper_symValid] at h
      apply symLoop_invalid false c hb
      simpa using h

theorem endFree_of_symLoop_nil (R : Str) (h : (symLoop false R).1 = []) : endFree (sq R) = true := by
  induction R with
  | nil => rfl
  | cons c R ih =>
    by_cases hb : isBasicWs c = true
    · rw [sq_ws c R hb]
      rw [symLoop_blank false c hb] at h
      by_cases hd : (symLoop false R).1.isEmpty = true
      · exact ih (List.isEmpty_iff.mp hd)
      · rw [if_neg hd] at h; rw [h] at hd; exact absurd rfl hd
    · have hb' : isBasicWs c = false := by simpa using hb
      rw [sq_nb c R hb']
      simp only [endFree, headAll, upper_symValid]
      cases hv : symValid false c with
      | false => rfl
      | true =>
        exfalso
        by_cases hd : (c == '$') = true
        · rw [symLoop_dollar false c hb hv hd] at h; cases h
        · by_cases hk : (chompAnyKeyword R).isSome = true
          · rw [symLoop_kw false c hb hv hd R hk] at h; cases h
          · rw [symLoop_more false c hb hv hd R hk] at h; cases h

theorem symLoop_listed (first : Bool) (s R : Str) (h : SymOK first s R) : symLoop first (s ++ R) = (s, R) := by
  induction s generalizing first with
  | nil => exact h.elim
  | cons c d ih =>
    obtain ⟨hv, hu, hb, h1, h2, h3⟩ := h
    have hb' : ¬ isBasicWs c = true := by rw [hb]; simp
    rw [List.cons_append]
    by_cases hd : (c == '$') = true
    · have hc : c = '$' := by simpa using hd
      have : d = [] := by
        rcases h1 with h1 | h1
        · exact absurd hc h1
        · exact h1
      subst this
      rw [symLoop_dollar first c hb' hv hd]; rfl
    · have hc : c ≠ '$' := by intro e; rw [e] at hd; exact hd rfl
      cases d with
      | nil =>
        rw [List.nil_append]
        by_cases hk : (chompAnyKeyword R).isSome = true
        · rw [symLoop_kw first c hb' hv hd R hk, hu]
        · rw [symLoop_more first c hb' hv hd R hk, hu]
          rcases h2 hc rfl with h2 | h2
          · rw [chompAnyKeyword_isSome, h2] at hk; exact absurd rfl hk
          · rw [symLoop_nil_of_endFree R h2]
      | cons e d =>
        obtain ⟨h4, h5⟩ := h3 (by simp)
        have hk : ¬ (chompAnyKeyword ((e :: d) ++ R)).isSome = true := by
          rw [chompAnyKeyword_isSome, h4]; simp
        rw [symLoop_more first c hb' hv hd _ hk, hu, ih false h5]

theorem symOK_clean (first : Bool) (s R : Str) (h : SymOK first s R) : Clean s := by
  induction s generalizing first with
  | nil => exact h.elim
  | cons c d ih =>
    obtain ⟨_, hu, hb, _, _, h3⟩ := h
    intro x hx
    rcases List.mem_cons.mp hx with rfl | hx
    · exact ⟨hb, hu⟩
    · cases d with
      | nil => cases hx
      | cons e d => exact ih false (h3 (by simp)).2 x hx

theorem nextToken_listed_symbol (s R : Str) (hk : anyKw (sq (s ++ R)) = false)
    (hrem : pre Extracted.remKeyword.toList (sq (s ++ R)) = false)
    (hdat : pre Extracted.dataKeyword.toList (sq (s ++ R)) = false) (hs : SymOK true s R) :
    nextToken (F := F) (s ++ R) = .tok (.symbol s) R := by
  cases s with
  | nil => exact hs.elim
  | cons c d =>
    have hv : isAsciiAlpha c = true := by
      have := hs.1
      simpa [symValid] using this
    have hb := hs.2.2.1
    have k1 : chompAnyKeyword ((c :: d) ++ R) = none := chompAnyKeyword_none _ hk
    have o1 : chompOneOrTwo ((c :: d) ++ R) = none :=
      chompOneOrTwo_none_of _ _ hb (lookup_none_of _ c isAsciiAlpha oneChar_not_alpha hv)
    have hq : c ≠ '"' := by intro e; rw [e] at hv; revert hv; decide
    have hsl := symLoop_listed true (c :: d) R hs
    have hr := chompKeyword_none _ _ hrem
    have hda := chompKeyword_none _ _ hdat
    rw [List.cons_append] at k1 o1 hsl hr hda ⊢
    rw [nextToken_noquote c _ hq k1 o1]
    unfold afterQuote
    have hn : numLoop (c :: (d ++ R)) = ([], c :: (d ++ R)) := by
      apply numLoop_other c (by rw [hb]; simp)
      have := alpha_not_digit hv
      intro hg
      simp only [Bool.or_eq_true, beq_iff_eq] at hg
      rcases hg with hg | hg
      · rw [this] at hg; cases hg
      · rw [hg] at hv; revert hv; decide
    rw [hn]
    simp only [hr, hda, hsl]

/-! #### stage A -/

theorem nextToken_data (r0 : Str) :
    nextToken (F := F) (Extracted.dataKeyword.toList ++ r0) =
      .tok (.data (parseData (F := F) r0).1) (dropBytes (parseData (F := F) r0).2 r0) := rfl

theorem nextToken_listed_data (items : List (DataElement F)) (R : Str) (h : DataOK items)
    (hR : R = [] ∨ ∃ R2, R = ' ' :: ':' :: R2) :
    ∃ R', nextToken (F := F) ((Extracted.dataKeyword.toList ++ ' ' :: renderData items) ++ R) = .tok (.data items) R' ∧
      skipWs R' = skipWs R := by
  rw [List.append_assoc, nextToken_data]
  rcases hR with rfl | ⟨R2, rfl⟩
  · refine ⟨[], ?_, rfl⟩
    rw [List.append_nil, parseData_listed_end items h]
    simp only
    have := dropBytes_len8_append (' ' :: renderData items) []
    rw [List.append_nil] at this
    rw [this]
  · refine ⟨':' :: R2, ?_, ?_⟩
    · have e0 : (' ' :: renderData items) ++ ' ' :: ':' :: R2 = (' ' :: renderData items ++ [' ']) ++ ':' :: R2 := by
        simp
      rw [parseData_listed_colon items h R2]
      simp only
      rw [e0, dropBytes_len8_append]
    · rw [skipWs_blank ' ' _ (by decide)]

/-- Stage A: the listed spelling of one token, followed by the listed rest `R`, is read
    back as exactly that token, and what is left is `R` up to leading blanks (exactly `R`
    except after a DATA token, whose parser also takes the blank before the colon) —
    under the side condition `TokOK`. -/
theorem nextToken_listed (prev : Option (Token F)) (t : Token F) (R : Str) (h : TokOK prev t R) :
    ∃ R', nextToken (F := F) (spell prev t ++ R) = .tok t R' ∧ skipWs R' = skipWs R := by
  cases t with
  | kw k => rw [spell_kw]; exact ⟨R, nextToken_listed_kw k R h, rfl⟩
  | str s => rw [spell_str]; exact ⟨R, nextToken_listed_str s R h, rfl⟩
  | num x =>
    obtain ⟨hd, tl, e, h1, h2, h3, h4⟩ := h
    rw [e]; exact ⟨R, nextToken_listed_num x hd tl R h1 h2 h3 h4, rfl⟩
  | remark s =>
    have : R = [] := h
    subst this
    rw [spell_remark, List.append_nil]; exact ⟨[], rfl, rfl⟩
  | symbol s =>
    obtain ⟨h1, h2, h3, h4⟩ := h
    rw [spell_symbol]; exact ⟨R, nextToken_listed_symbol s R h1 h2 h3 h4, rfl⟩
  | data items =>
    rw [spell_data]; exact nextToken_listed_data items R h.1 h.2

/-- the spelling of a token that satisfies its side condition starts with a non-blank -/
theorem spell_head (prev : Option (Token F)) (t : Token F) (R : Str) (h : TokOK prev t R) :
    ∃ c r, spell prev t = c :: r ∧ isBasicWs c = false := by
  cases t with
  | kw k => rw [spell_kw]; cases k <;> exact ⟨_, _, rfl, by decide⟩
  | str s => rw [spell_str]; exact ⟨'"', s ++ ['"'], rfl, by decide⟩
  | num x =>
    obtain ⟨hd, tl, e, h1, _⟩ := h
    exact ⟨hd, tl, e, digdot_not_ws hd (h1 hd (List.mem_cons_self ..))⟩
  | remark s => rw [spell_remark]; exact ⟨'R', _, rfl, by decide⟩
  | symbol s =>
    obtain ⟨_, _, _, h4⟩ := h
    rw [spell_symbol]
    cases s with
    | nil => exact h4.elim
    | cons c d => exact ⟨c, d, rfl, h4.2.2.1⟩
  | data items => rw [spell_data]; exact ⟨'D', _, rfl, by decide⟩

/-! ### 4. `Canon` and stage C -/

/-- Side conditions along a whole token list (`prev`: the token before it). -/
def CanonFrom : Option (Token F) → List (Token F) → Prop
  | _, [] => True
  | prev, t :: ts => TokOK prev t (restOf t ts) ∧ CanonFrom (some t) ts

/-- Token lists whose listed text is read back token by token: every token satisfies
    its side condition with respect to the listed text that follows it. -/
def Canon (ts : List (Token F)) : Prop := CanonFrom none ts

theorem toks_of_canonFrom (prev : Option (Token F)) (ts : List (Token F)) (h : CanonFrom prev ts) :
    Toks (listed prev ts) ts := by
  induction ts generalizing prev with
  | nil => exact Toks.nil rfl
  | cons t ts ih =>
    obtain ⟨h1, h2⟩ := h
    rw [listed_cons]
    obtain ⟨c, r, e, hb⟩ := spell_head prev t _ h1
    obtain ⟨R', hn, hR'⟩ := nextToken_listed prev t _ h1
    rw [e] at hn ⊢
    refine Toks.cons (c := c) (r := r ++ restOf t ts) ?_ hn ?_
    · simp [skipWs, hb]
    · apply toks_congr hR'.symm
      cases ts with
      | nil => exact Toks.nil rfl
      | cons u us => exact toks_blank ' ' (by decide) (ih (some t) h2)

/-- Stage C: the listed line of a canonical token list tokenizes to that list. -/
theorem tokenize_of_canon (ts : List (Token F)) (h : Canon ts) :
    tokenize (F := F) (listLine ts) 0 = .ok ts :=
  tokenize_of_toks _ _ (toks_of_canonFrom none ts h)

/-! ### 5. stage B: every tokenizer output is canonical -/

/-! #### what the matchers consume, seen through `sq` -/

theorem keywords_spelling : ∀ p ∈ Extracted.keywords,
    p.1 = Extracted.kwSpelling p.2 ∧ p.2 ≠ .LessThan ∧ p.2 ≠ .GreaterThan := by decide

theorem kwSpelling_clean (k : Kw) : sq (Extracted.kwSpelling k).toList = (Extracted.kwSpelling k).toList := by
  cases k <;> rfl

theorem kwSpelling_ne_nil (k : Kw) : (Extracted.kwSpelling k).toList ≠ [] := by
  cases k <;> decide

theorem chompAnyKeyword_sq (cs : Str) (k : Kw) (r : Str) (h : chompAnyKeyword cs = some (k, r)) :
    sq cs = (Extracted.kwSpelling k).toList ++ sq r ∧ k ≠ .LessThan ∧ k ≠ .GreaterThan := by
  obtain ⟨w, hm, hs⟩ := chompKeywordTable_sq Extracted.keywords cs k r h
  obtain ⟨e, h1, h2⟩ := keywords_spelling _ hm
  simp only at e h1 h2
  rw [e] at hs
  exact ⟨hs, h1, h2⟩

theorem oneChar_spelling : ∀ p ∈ Extracted.oneChar,
    (Extracted.kwSpelling p.2).toList = [p.1] ∧ isAsciiAlpha p.1 = false := by decide

theorem twoChar_spelling : ∀ p ∈ Extracted.twoChar,
    (Extracted.kwSpelling p.2.2).toList = (Extracted.kwSpelling p.1).toList ++ [p.2.1] ∧
    isAsciiAlpha p.2.1 = false ∧ p.2.2 ≠ .LessThan ∧ p.2.2 ≠ .GreaterThan := by decide

theorem chompOneOrTwo_sq (cs : Str) (k : Kw) (r : Str) (h : chompOneOrTwo cs = some (k, r)) :
    sq cs = (Extracted.kwSpelling k).toList ++ sq r ∧ twoFree k (sq r) = true := by
  unfold chompOneOrTwo at h
  cases hs : skipWs cs with
  | nil => rw [hs] at h; cases h
  | cons c r0 =>
    rw [hs] at h
    simp only at h
    cases hl : Extracted.oneChar.lookup c with
    | none => rw [hl] at h; cases h
    | some k1 =>
      rw [hl] at h
      simp only at h
      obtain ⟨sp1, na1⟩ := oneChar_spelling _ (lookup_mem _ c k1 hl)
      simp only at sp1 na1
      have hsq : sq cs = c :: sq r0 := by
        rw [sq_of_skipWs_cons cs c r0 hs, upper_of_not_alpha c na1]
      cases hs2 : skipWs r0 with
      | nil =>
        rw [hs2] at h
        simp only [Option.some.injEq, Prod.mk.injEq] at h
        obtain ⟨rfl, rfl⟩ := h
        refine ⟨by rw [hsq, sp1]; rfl, ?_⟩
        rw [sq_of_skipWs_nil r0 hs2]; rfl
      | cons c2 r2 =>
        rw [hs2] at h
        simp only at h
        cases hq : lookupTwo Extracted.twoChar k1 c2 with
        | none =>
          rw [hq] at h
          simp only [Option.some.injEq, Prod.mk.injEq] at h
          obtain ⟨rfl, rfl⟩ := h
          refine ⟨by rw [hsq, sp1]; rfl, ?_⟩
          rw [sq_of_skipWs_cons r0 c2 r2 hs2]
          simp only [twoFree, headAll, lookupTwo_upper, hq]; rfl
        | some k2 =>
          rw [hq] at h
          simp only [Option.some.injEq, Prod.mk.injEq] at h
          obtain ⟨rfl, rfl⟩ := h
          obtain ⟨sp2, na2, n1, n2⟩ := twoChar_spelling _ (lookupTwo_mem _ k1 c2 _ hq)
          simp only at sp2 na2 n1 n2
          refine ⟨?_, twoFree_of_not_lt_gt _ ⟨n1, n2⟩ _⟩
          rw [hsq, sq_of_skipWs_cons r0 c2 r2 hs2, upper_of_not_alpha c2 na2, sp2, sp1]; rfl

theorem numFree_of_numLoop (cs d rr : Str) (h : numLoop cs = (d, rr)) (hd : d ≠ []) :
    numFree (sq rr) = true := by
  induction cs generalizing d with
  | nil =>
    have := congrArg Prod.fst h
    simp only [numLoop] at this
    exact absurd this.symm hd
  | cons c cs ih =>
    by_cases hb : isBasicWs c = true
    · rw [numLoop_blank c hb] at h
      by_cases he : (numLoop cs).1.isEmpty = true
      · rw [if_pos he] at h
        have := congrArg Prod.fst h
        exact absurd this.symm hd
      · rw [if_neg he] at h
        exact ih d h hd
    · by_cases hg : (isAsciiDigit c || c == '.') = true
      · rw [numLoop_digit c hb hg] at h
        have h2 : (numLoop cs).2 = rr := congrArg Prod.snd h
        cases hd' : (numLoop cs).1 with
        | nil =>
          rw [numLoop_nil_rest cs hd'] at h2
          rw [← h2]
          exact numFree_of_numLoop_nil cs hd'
        | cons e d' =>
          exact ih (e :: d') (by rw [← hd', ← h2]) (by simp)
      · rw [numLoop_other c hb hg] at h
        have := congrArg Prod.fst h
        exact absurd this.symm hd

theorem digdot_of_numLoop (c : Char) (r d rr : Str) (hb : isBasicWs c = false)
    (h : numLoop (c :: r) = (d, rr)) (hd : d ≠ []) : digdot c = true := by
  by_cases hg : (isAsciiDigit c || c == '.') = true
  · exact hg
  · rw [numLoop_other c (by rw [hb]; simp) hg] at h
    have := congrArg Prod.fst h
    exact absurd this.symm hd

theorem endsWithDollar_singleton (x : Char) : endsWithDollar [x] = (x == '$') := by
  simp [endsWithDollar]

theorem endsWithDollar_cons_cons (x e : Char) (d : Str) :
    endsWithDollar (x :: e :: d) = endsWithDollar (e :: d) := by
  simp [endsWithDollar, List.getLast?_cons_cons]

/-- What `symLoop` collected on the original text satisfies `SymOK` against any text `R`
    that is similar to what `symLoop` left (and that does not continue the identifier
    where the original did not). -/
theorem symOK_of_symLoop (first : Bool) (cs s rr R : Str) (h : symLoop first cs = (s, rr)) (hne : s ≠ [])
    (hsim : Sim (sq rr) (sq R))
    (hend : endsWithDollar s = false → endFree (sq rr) = true → endFree (sq R) = true) :
    SymOK first s R ∧ sq cs = s ++ sq rr := by
  induction cs generalizing first s with
  | nil =>
    have := congrArg Prod.fst h
    simp only [symLoop] at this
    exact absurd this.symm hne
  | cons c cs ih =>
    by_cases hb : isBasicWs c = true
    · rw [symLoop_blank first c hb] at h
      by_cases he : (symLoop first cs).1.isEmpty = true
      · rw [if_pos he] at h
        have := congrArg Prod.fst h
        exact absurd this.symm hne
      · rw [if_neg he] at h
        obtain ⟨h1, h2⟩ := ih first s h hne hend
        exact ⟨h1, by rw [sq_ws c cs hb]; exact h2⟩
    · have hb' : isBasicWs c = false := by simpa using hb
      have hub : isBasicWs (asciiUpper c) = false := by rw [upper_ws]; exact hb'
      cases hv : symValid first c with
      | false =>
        rw [symLoop_invalid first c hb hv] at h
        have := congrArg Prod.fst h
        exact absurd this.symm hne
      | true =>
        have huv : symValid first (asciiUpper c) = true := by rw [upper_symValid]; exact hv
        by_cases hd : (c == '$') = true
        · rw [symLoop_dollar first c hb hv hd] at h
          have e1 : [c] = s := congrArg Prod.fst h
          have e2 : cs = rr := congrArg Prod.snd h
          subst e1; subst e2
          have hc : c = '$' := by simpa using hd
          have hu : asciiUpper c = c := by subst hc; decide
          refine ⟨⟨hv, hu, hb', Or.inr rfl, fun hn => absurd hc hn, fun hn => absurd rfl hn⟩, ?_⟩
          rw [sq_nb c cs hb', hu]; rfl
        · have hud : asciiUpper c ≠ '$' := by
            intro e
            have := upper_eq_dollar c
            rw [e] at this
            rw [← this] at hd
            exact hd rfl
          by_cases hk : (chompAnyKeyword cs).isSome = true
          · rw [symLoop_kw first c hb hv hd cs hk] at h
            have e1 : [asciiUpper c] = s := congrArg Prod.fst h
            have e2 : cs = rr := congrArg Prod.snd h
            subst e1; subst e2
            refine ⟨⟨huv, upper_idem c, hub, Or.inr rfl, fun _ _ => Or.inl ?_, fun hn => absurd rfl hn⟩, ?_⟩
            · rw [← anyKw_sim hsim, ← chompAnyKeyword_isSome]; exact hk
            · rw [sq_nb c cs hb']; rfl
          · rw [symLoop_more first c hb hv hd cs hk] at h
            have e1 : asciiUpper c :: (symLoop false cs).1 = s := congrArg Prod.fst h
            have e2 : (symLoop false cs).2 = rr := congrArg Prod.snd h
            cases hd' : (symLoop false cs).1 with
            | nil =>
              rw [hd'] at e1
              rw [symLoop_nil_rest false cs hd'] at e2
              subst e1; subst e2
              refine ⟨⟨huv, upper_idem c, hub, Or.inr rfl, fun _ _ => Or.inr ?_, fun hn => absurd rfl hn⟩, ?_⟩
              · apply hend
                · rw [endsWithDollar_singleton]
                  exact beq_false_of_ne hud
                · exact endFree_of_symLoop_nil cs hd'
              · rw [sq_nb c cs hb']; rfl
            | cons e d' =>
              rw [hd'] at e1
              subst e1
              have hsl : symLoop false cs = (e :: d', rr) := by rw [← hd', ← e2]
              obtain ⟨ok, hsq⟩ := ih false (e :: d') hsl (by simp)
                (by rw [endsWithDollar_cons_cons] at hend; exact hend)
              have hcl := sq_clean _ (symOK_clean false _ R ok)
              refine ⟨⟨huv, upper_idem c, hub, Or.inl hud, fun _ hn => (List.cons_ne_nil _ _ hn).elim, fun _ => ⟨?_, ok⟩⟩, ?_⟩
              · rw [sq_append, hcl, ← anyKw_sim (Sim.append_left (e :: d') hsim), ← hsq,
                  ← chompAnyKeyword_isSome]
                simpa using hk
              · rw [sq_nb c cs hb', hsq]; rfl

theorem remKeyword_alpha : ∀ k ∈ Extracted.remKeyword.toList, isAsciiAlpha k = true := by decide
theorem dataKeyword_alpha : ∀ k ∈ Extracted.dataKeyword.toList, isAsciiAlpha k = true := by decide

theorem endFree_prefix (sp x y : Str) (hne : sp ≠ []) : endFree (sp ++ x) = endFree (sp ++ y) := by
  cases sp with
  | nil => exact absurd rfl hne
  | cons h a => rfl

/-! #### the numeral hypotheses -/

/-- The `NumOps` facts the fixed point needs about a numeral `x` listed after `prev`:
    its listed spelling consists of digits and points, parses back to `x`, and — after
    an identifier not ending in `$` — starts with the decimal point. -/
def NumOK (prev : Option (Token F)) (x : F) : Prop :=
  ∃ h tl, spell prev (.num x) = h :: tl ∧ (∀ c ∈ h :: tl, digdot c = true) ∧
    NumOps.parse (F := F) (h :: tl) = some x ∧ (NonDollarSym prev → h = '.')

/-- The `NumOps` facts the fixed point needs about a number `x` among the items of a DATA
    token: its rendering is a text DATA lists without quotes (not blank at either end, no
    comma, colon, or leading quote) and parses back to `x`. -/
def DataNumOK (x : F) : Prop :=
  RawText (NumOps.render x) ∧ NumOps.parse (F := F) (NumOps.render x) = some x

/-- the numeral hypotheses along a token list (`prev`: the token before it) -/
def NumsOK : Option (Token F) → List (Token F) → Prop
  | _, [] => True
  | prev, t :: ts =>
    ((∀ x, t = .num x → NumOK prev x) ∧
     (∀ items, t = .data items → ∀ x, DataElement.num x ∈ items → DataNumOK x)) ∧ NumsOK (some t) ts

theorem itemOK_of_strOK (i : DataElement F) (h : StrOK i) (hn : ∀ x, i = .num x → DataNumOK x) : ItemOK i := by
  cases i with
  | str s => exact h
  | num x => exact hn x rfl

theorem nextToken_colon (r2 : Str) : nextToken (F := F) (':' :: r2) = .tok (.kw .Colon) r2 :=
  nextToken_op _ .Colon r2 rfl
    (chompOneOrTwo_one ':' .Colon r2 (by decide) rfl (twoFree_of_not_lt_gt _ ⟨by decide, by decide⟩ _))

/-! #### one step -/

/-- One tokenizer step on the original text against the listed text: if what the
    original leaves (`r'`) is similar to the listed rest `R`, the produced token satisfies
    its side condition against `R`, and the texts before the step are similar again. -/
theorem step_canon (c : Char) (r : Str) (t : Token F) (r' : Str) (prev : Option (Token F)) (R : Str)
    (hb : isBasicWs c = false) (hn : nextToken (F := F) (c :: r) = .tok t r')
    (hsim : Sim (sq r') (sq R))
    (hend : NonDollarSym (some t) → endFree (sq r') = true → endFree (sq R) = true)
    (hnum : ∀ x, t = .num x → NumOK prev x)
    (hdat : ∀ items, t = .data items → ∀ x, DataElement.num x ∈ items → DataNumOK x)
    (hR : r' = [] → R = []) (hcolon : ∀ r2, r' = ':' :: r2 → ∃ R2, R = ' ' :: ':' :: R2) :
    TokOK prev t R ∧ Sim (sq (c :: r)) (sq (spell prev t ++ R)) ∧
    (NonDollarSym prev → endFree (sq (c :: r)) = true → endFree (sq (spell prev t ++ R)) = true) := by
  cases k1 : chompAnyKeyword (c :: r) with
  | some p =>
    obtain ⟨k, rr⟩ := p
    rw [nextToken_kw _ k rr k1] at hn
    injection hn with e1 e2
    subst e1; subst e2
    obtain ⟨hsq, n1, n2⟩ := chompAnyKeyword_sq _ k _ k1
    refine ⟨twoFree_of_not_lt_gt k ⟨n1, n2⟩ _, ?_, ?_⟩
    · rw [hsq, spell_kw, sq_append, kwSpelling_clean]
      exact Sim.append_left _ hsim
    · intro _ he
      rw [spell_kw, sq_append, kwSpelling_clean]
      rw [hsq] at he
      rw [← endFree_prefix _ _ _ (kwSpelling_ne_nil k)]; exact he
  | none =>
    cases o1 : chompOneOrTwo (c :: r) with
    | some p =>
      obtain ⟨k, rr⟩ := p
      rw [nextToken_op _ k rr k1 o1] at hn
      injection hn with e1 e2
      subst e1; subst e2
      obtain ⟨hsq, h2⟩ := chompOneOrTwo_sq _ k _ o1
      refine ⟨?_, ?_, ?_⟩
      · refine headAll_sim hsim _ ?_ h2
        intro x y _ hy _
        cases hl : lookupTwo Extracted.twoChar k y with
        | none => rfl
        | some k2 =>
          have := (twoChar_first _ (lookupTwo_mem _ k y k2 hl)).2.1
          simp only at this
          rw [hy] at this; cases this
      · rw [hsq, spell_kw, sq_append, kwSpelling_clean]
        exact Sim.append_left _ hsim
      · intro _ he
        rw [spell_kw, sq_append, kwSpelling_clean]
        rw [hsq] at he
        rw [← endFree_prefix _ _ _ (kwSpelling_ne_nil k)]; exact he
    | none =>
      by_cases hq : c = '"'
      · subst hq
        rw [nextToken_quote r k1 o1] at hn
        cases hs : splitAtQuote r with
        | none => rw [hs] at hn; cases hn
        | some p =>
          obtain ⟨s, rr⟩ := p
          rw [hs] at hn
          simp only at hn
          injection hn with e1 e2
          subst e1; subst e2
          have e : sq (spell prev (Token.str s) ++ R) = '"' :: sq (s ++ ['"'] ++ R) := by
            rw [spell_str]
            simp only [List.cons_append]
            rw [sq_nb _ _ (by decide)]
            rfl
          refine ⟨splitAtQuote_noquote r s _ hs, ?_, ?_⟩
          · rw [e, sq_nb _ _ (by decide)]
            exact Sim.other _ _ _ (by decide)
          · intro _ _
            rw [e]; rfl
      · rw [nextToken_noquote c r hq k1 o1] at hn
        unfold afterQuote at hn
        generalize hnl : numLoop (c :: r) = a at hn
        obtain ⟨ds, rr⟩ := a
        cases ds with
        | cons x d =>
          simp only at hn
          cases hp : NumOps.parse (F := F) (x :: d) with
          | none => rw [hp] at hn; cases hn
          | some v =>
            rw [hp] at hn
            simp only at hn
            by_cases hf : NumOps.isFinite v = true
            · rw [if_pos hf] at hn
              injection hn with e1 e2
              subst e1; subst e2
              obtain ⟨h, tl, e, hdd, hpp, hdot⟩ := hnum v rfl
              have hcd := digdot_of_numLoop c r _ _ hb hnl (by simp)
              have hfree := numFree_of_numLoop _ _ _ hnl (by simp)
              have hh := hdd h (List.mem_cons_self ..)
              have e' : sq (spell prev (Token.num v) ++ R) = asciiUpper h :: sq (tl ++ R) := by
                rw [e, List.cons_append, sq_nb _ _ (digdot_not_ws h hh)]
              refine ⟨⟨h, tl, e, hdd, hpp, hf, ?_⟩, ?_, ?_⟩
              · refine headAll_sim hsim _ ?_ hfree
                intro x y hx _ hpx
                rw [hx] at hpx; cases hpx
              · rw [e', sq_nb c r hb]
                exact Sim.dig _ _ _ _ (by rw [upper_digdot]; exact hcd) (by rw [upper_digdot]; exact hh)
              · intro hnds _
                rw [e', hdot hnds]; rfl
            · rw [if_neg hf] at hn; cases hn
        | nil =>
          simp only at hn
          cases h1 : chompKeyword Extracted.remKeyword.toList (c :: r) with
          | some s =>
            rw [h1] at hn
            simp only at hn
            injection hn with e1 e2
            subst e1; subst e2
            have hRn : R = [] := hR rfl
            subst hRn
            have hsq := chompKeyword_sq _ _ _ h1
            have hcl : sq Extracted.remKeyword.toList = Extracted.remKeyword.toList := by decide
            refine ⟨rfl, ?_, ?_⟩
            · rw [hsq, spell_remark, List.append_nil, sq_append, hcl]
              exact Sim.refl _
            · intro _ he
              rw [spell_remark, List.append_nil, sq_append, hcl]
              rw [hsq] at he; exact he
          | none =>
            rw [h1] at hn
            simp only at hn
            cases h2 : chompKeyword Extracted.dataKeyword.toList (c :: r) with
            | some s =>
              rw [h2] at hn
              simp only at hn
              injection hn with e1 e2
              subst e1; subst e2
              obtain ⟨p1, p2, p3⟩ := parseData_spec (F := F) s
              have hsq := chompKeyword_sq _ _ _ h2
              have hcl : sq Extracted.dataKeyword.toList = Extracted.dataKeyword.toList := by decide
              have hsp : sq (spell prev (Token.data (parseData (F := F) s).1) ++ R) =
                  Extracted.dataKeyword.toList ++ sq ((' ' :: renderData (parseData (F := F) s).1) ++ R) := by
                rw [spell_data, List.append_assoc, sq_append, hcl]
              refine ⟨⟨⟨p1, fun i hi => itemOK_of_strOK i (p2 i hi) ?_⟩, ?_⟩, ?_, ?_⟩
              · intro x e; subst e; exact hdat _ rfl x hi
              · rcases p3 with p3 | ⟨b, p3⟩
                · exact Or.inl (hR p3)
                · exact Or.inr (hcolon b p3)
              · rw [hsq, hsp]
                exact Sim.data _ _
              · intro _ he
                rw [hsp]
                rw [hsq] at he
                rw [← endFree_prefix _ _ _ (by decide)]; exact he
            | none =>
              rw [h2] at hn
              simp only at hn
              generalize hsl : symLoop true (c :: r) = b at hn
              obtain ⟨ss, u⟩ := b
              cases ss with
              | nil => simp only at hn; cases hn
              | cons y e =>
                simp only at hn
                injection hn with e1 e2
                subst e1; subst e2
                obtain ⟨ok, hsq⟩ := symOK_of_symLoop true (c :: r) (y :: e) _ R hsl (by simp) hsim
                  (fun hd => hend ⟨y :: e, rfl, hd⟩)
                have hcl := sq_clean _ (symOK_clean true _ R ok)
                have hs' : sq ((y :: e) ++ R) = (y :: e) ++ sq R := by rw [sq_append, hcl]
                have hsim' : Sim (sq (c :: r)) (sq ((y :: e) ++ R)) := by
                  rw [hsq, hs']; exact Sim.append_left _ hsim
                have a1 : anyKw (sq (c :: r)) = false := by
                  rw [← chompAnyKeyword_isSome, k1]; rfl
                have a2 : pre Extracted.remKeyword.toList (sq (c :: r)) = false := by
                  rw [← chompKeyword_isSome, h1]; rfl
                have a3 : pre Extracted.dataKeyword.toList (sq (c :: r)) = false := by
                  rw [← chompKeyword_isSome, h2]; rfl
                refine ⟨⟨?_, ?_, ?_, ok⟩, ?_, ?_⟩
                · rw [← anyKw_sim hsim']; exact a1
                · rw [← pre_sim hsim' _ remKeyword_alpha (by decide)]; exact a2
                · rw [← pre_sim hsim' _ dataKeyword_alpha (by decide)]; exact a3
                · rw [spell_symbol]; exact hsim'
                · intro _ he
                  rw [spell_symbol, hs']
                  rw [hsq] at he
                  rw [← endFree_prefix _ _ _ (List.cons_ne_nil y e)]; exact he

/-! #### the whole list -/

theorem canonFrom_of_toks {cs : Str} {ts : List (Token F)} (h : Toks cs ts) :
    ∀ prev, NumsOK prev ts →
    CanonFrom prev ts ∧ Sim (sq cs) (sq (listed prev ts)) ∧
    (NonDollarSym prev → endFree (sq cs) = true → endFree (sq (listed prev ts)) = true) := by
  induction h with
  | nil hs =>
    intro prev _
    rw [sq_of_skipWs_nil _ hs, listed_nil]
    exact ⟨trivial, Sim.nil, fun _ _ => rfl⟩
  | @cons cs c r t r' ts hs hn ht ih =>
    intro prev hnum
    obtain ⟨⟨hnum1, hdat1⟩, hnum2⟩ := hnum
    obtain ⟨ic, isim, iend⟩ := ih (some t) hnum2
    have hcs : sq cs = sq (c :: r) := by rw [← sq_skipWs, hs]
    have hb := skipWs_nonblank cs c r hs
    rw [← sq_restOf] at isim iend
    have hR : r' = [] → restOf t ts = [] := by
      intro e
      rw [e] at ht
      rw [toks_nil_inv ht]; rfl
    have hcolon : ∀ r2, r' = ':' :: r2 → ∃ R2, restOf t ts = ' ' :: ':' :: R2 := by
      intro r2 e
      rw [e] at ht
      cases ht with
      | nil hs2 => simp [skipWs, isBasicWs, isAsciiWs] at hs2
      | @cons _ c2 r3 t2 r4 ts2 hs2 hn2 ht2 =>
        have e2 : skipWs (':' :: r2) = ':' :: r2 := by simp [skipWs, isBasicWs, isAsciiWs]
        rw [e2] at hs2
        injection hs2 with e3 e4
        subst e3; subst e4
        rw [nextToken_colon] at hn2
        injection hn2 with e5 _
        subst e5
        refine ⟨restOf (Token.kw Kw.Colon) ts2, ?_⟩
        show ' ' :: listed (some t) (Token.kw Kw.Colon :: ts2) = _
        rw [listed_cons, spell_kw]; rfl
    obtain ⟨g1, g2, g3⟩ := step_canon c r t r' prev (restOf t ts) hb hn isim iend hnum1 hdat1 hR hcolon
    rw [listed_cons, hcs]
    exact ⟨⟨g1, ic⟩, g2, g3⟩

/-- Stage B: every successful tokenizer output is canonical, given the numeral hypotheses. -/
theorem canon_of_tokenize (line : Str) (ts : List (Token F)) (h : tokenize (F := F) line 0 = .ok ts)
    (hnum : NumsOK none ts) : Canon ts :=
  (canonFrom_of_toks (toks_of_tokenize line ts h) none hnum).1

/-- **LIST fixed point** (numerals under `NumsOK`): the listed text of a stored line
    tokenizes to the stored tokens. -/
theorem list_fixpoint_partial (line : Str) (ts : List (Token F)) (h : tokenize (F := F) line 0 = .ok ts)
    (hnum : NumsOK none ts) : tokenize (F := F) (listLine ts) 0 = .ok ts :=
  tokenize_of_canon ts (canon_of_tokenize line ts h hnum)

/-! ### 6. the numeral hypotheses in terms of `NumOps` alone -/

/-- `render x` consists of digits and points and parses back to `x`. -/
def RenderOK (x : F) : Prop :=
  ∃ h tl, NumOps.render x = h :: tl ∧ (∀ c ∈ h :: tl, digdot c = true) ∧
    NumOps.parse (F := F) (h :: tl) = some x

/-- What LIST prints for `x` right after an identifier parses back to `x`: `render x` is
    `0` (listed `.0`), or starts with the zero that LIST drops (listed as the text after
    the zero, which starts with the point), or is `1` — a leading-point numeral that
    rounded up — (listed `.99999999999999999999`, which must round up the same way). -/
def FracOK (x : F) : Prop :=
  (NumOps.render x = ['0'] ∧ NumOps.parse (F := F) ['.', '0'] = some x) ∨
  (∃ tl, NumOps.render x = '0' :: '.' :: tl ∧ NumOps.parse (F := F) ('.' :: tl) = some x) ∨
  (NumOps.render x = ['1'] ∧ NumOps.parse (F := F) ".99999999999999999999".toList = some x)

theorem numOK_of_render (prev : Option (Token F)) (x : F) (h1 : RenderOK x)
    (h2 : NonDollarSym prev → FracOK x) : NumOK prev x := by
  obtain ⟨h, tl, e, hd, hp⟩ := h1
  have plain : spell prev (.num x) = NumOps.render x → ¬ NonDollarSym prev → NumOK prev x := by
    intro hs hn
    exact ⟨h, tl, by rw [hs, e], hd, hp, fun hh => absurd hh hn⟩
  cases prev with
  | none => exact plain rfl (by rintro ⟨sym, hs, _⟩; cases hs)
  | some p =>
    cases p with
    | kw k => exact plain rfl (by rintro ⟨sym, hs, _⟩; cases hs)
    | remark s => exact plain rfl (by rintro ⟨sym, hs, _⟩; cases hs)
    | str s => exact plain rfl (by rintro ⟨sym, hs, _⟩; cases hs)
    | num y => exact plain rfl (by rintro ⟨sym, hs, _⟩; cases hs)
    | data items => exact plain rfl (by rintro ⟨sym, hs, _⟩; cases hs)
    | symbol sym =>
      cases hdl : endsWithDollar sym with
      | true =>
        refine plain ?_ ?_
        · simp [spell, hdl, Token.render]
        · rintro ⟨sym', hs, hd'⟩
          injection hs with hs; injection hs with hs
          subst hs; rw [hdl] at hd'; cases hd'
      | false =>
        rcases h2 ⟨sym, rfl, hdl⟩ with ⟨r0, p0⟩ | ⟨tl', r1, p1⟩ | ⟨r2, p2⟩
        rotate_left 2
        · refine ⟨'.', "99999999999999999999".toList, ?_, ?_, p2, fun _ => rfl⟩
          · simp [spell, hdl, Token.render, r2]
          · decide
        · refine ⟨'.', ['0'], ?_, ?_, p0, fun _ => rfl⟩
          · simp [spell, hdl, Token.render, r0]
          · intro c hc
            simp only [List.mem_cons, List.not_mem_nil, or_false] at hc
            rcases hc with rfl | rfl <;> decide
        · refine ⟨'.', tl', ?_, ?_, p1, fun _ => rfl⟩
          · simp [spell, hdl, Token.render, r1]
          · intro c hc
            apply hd
            rw [e] at r1
            rw [r1]
            exact List.mem_cons_of_mem _ hc

/-- `x` is a numeral of `ts` that directly follows an identifier not ending in `$`. -/
def AfterSym (ts : List (Token F)) (x : F) : Prop :=
  ∃ pre sym post, ts = pre ++ .symbol sym :: .num x :: post ∧ endsWithDollar sym = false

theorem numsOK_of_laws (prev : Option (Token F)) (ts : List (Token F))
    (hren : ∀ x, Token.num x ∈ ts → RenderOK x)
    (hfrac0 : ∀ x rest, ts = .num x :: rest → NonDollarSym prev → FracOK x)
    (hfrac : ∀ x, AfterSym ts x → FracOK x)
    (hdata : ∀ items x, Token.data items ∈ ts → DataElement.num x ∈ items → DataNumOK x) :
    NumsOK prev ts := by
  induction ts generalizing prev with
  | nil => trivial
  | cons t ts ih =>
    refine ⟨⟨?_, ?_⟩, ih (some t) ?_ ?_ ?_ ?_⟩
    · intro x e
      subst e
      exact numOK_of_render prev x (hren x (List.mem_cons_self ..)) (hfrac0 x ts rfl)
    · intro items e x hx
      subst e
      exact hdata items x (List.mem_cons_self ..) hx
    · intro x hx; exact hren x (List.mem_cons_of_mem _ hx)
    · rintro x rest e ⟨sym, hs, hd⟩
      injection hs with hs
      subst hs; subst e
      exact hfrac x ⟨[], sym, rest, rfl, hd⟩
    · rintro x ⟨pre, sym, post, e, hd⟩
      exact hfrac x ⟨t :: pre, sym, post, by rw [e]; rfl, hd⟩
    · intro items x hm hx
      exact hdata items x (List.mem_cons_of_mem _ hm) hx

/-- **LIST fixed point**, hypotheses on `NumOps` only.  If every numeral token of the
    line is rendered with digits and points and parses back (`RenderOK`), every numeral
    directly after an identifier not ending in `$` is rendered with the leading zero LIST
    drops (`FracOK`), and every number among DATA items is rendered as a text that needs
    no quotes and parses back (`DataNumOK`), then the listed text tokenizes to the stored
    tokens.  No restriction on the kinds of tokens. -/
theorem list_fixpoint_partial' (line : Str) (ts : List (Token F))
    (h : tokenize (F := F) line 0 = .ok ts)
    (hren : ∀ x, Token.num x ∈ ts → RenderOK x) (hfrac : ∀ x, AfterSym ts x → FracOK x)
    (hdata : ∀ items x, Token.data items ∈ ts → DataElement.num x ∈ items → DataNumOK x) :
    tokenize (F := F) (listLine ts) 0 = .ok ts :=
  list_fixpoint_partial line ts h
    (numsOK_of_laws none ts hren (by rintro x rest _ ⟨sym, hs, _⟩; cases hs) hfrac hdata)

/-- a DATA item that is a string -/
def strItem : DataElement F → Bool
  | .str _ => true
  | .num _ => false

/-- tokens without numbers: keywords, operators, identifiers, string literals, remarks,
    and DATA tokens all of whose items are strings -/
def plainTok : Token F → Bool
  | .num _ => false
  | .data items => items.all strItem
  | _ => true

theorem numsOK_of_plain (prev : Option (Token F)) (ts : List (Token F)) (h : ts.all plainTok = true) :
    NumsOK prev ts := by
  induction ts generalizing prev with
  | nil => trivial
  | cons t ts ih =>
    simp only [List.all_cons, Bool.and_eq_true] at h
    refine ⟨⟨?_, ?_⟩, ih (some t) h.2⟩
    · intro x e; subst e
      have := h.1; cases this
    · intro items e x hx; subst e
      have h1 : items.all strItem = true := h.1
      have := List.all_eq_true.mp h1 _ hx
      cases this

/-- **LIST fixed point, unconditional part**: a line whose tokens are keywords,
    operators, identifiers, string literals, a remark, and DATA statements with string
    items only, is listed as a text that tokenizes to the same tokens (no hypothesis on
    `NumOps`). -/
theorem list_fixpoint_plain (line : Str) (ts : List (Token F))
    (h : tokenize (F := F) line 0 = .ok ts) (hp : ts.all plainTok = true) :
    tokenize (F := F) (listLine ts) 0 = .ok ts :=
  list_fixpoint_partial line ts h (numsOK_of_plain none ts hp)

/-! ### 7. the rounding case, repaired -/

/-- **The rounding case.**  On any carrier where `.99999999999999999999` parses to a finite
    number that is rendered as `1` (IEEE doubles: the literal rounds to 1.0), the line
    `PRINT A .99999999999999999999` is stored as `PRINT`, `A`, that number; it is listed as
    the very same text, and the listed text tokenizes to the stored tokens.

    (Before the repair of `listSpellings` — a numeral `1` after an identifier was listed
    as `1` — this line violated the fixed point: it was listed as `PRINT A 1`, which
    tokenizes to `PRINT`, `A1`.  That was proved here as
    `list_fixpoint_numeral_counterexample` against the earlier model and confirmed on the
    implementation, which was then repaired.) -/
theorem list_fixpoint_rounding_repaired (x : F)
    (hp : NumOps.parse (F := F) ".99999999999999999999".toList = some x)
    (hf : NumOps.isFinite x = true) (hr : NumOps.render x = ['1']) :
    tokenize (F := F) "PRINT A .99999999999999999999".toList 0 =
      .ok [.kw .Print, .symbol ['A'], .num x] ∧
    listLine [Token.kw .Print, .symbol ['A'], .num x] = "PRINT A .99999999999999999999".toList ∧
    tokenize (F := F) (listLine [Token.kw .Print, .symbol ['A'], .num x]) 0 =
      .ok [.kw .Print, .symbol ['A'], .num x] := by
  have h1 : tokenize (F := F) "PRINT A .99999999999999999999".toList 0 =
      .ok [.kw .Print, .symbol ['A'], .num x] := by
    apply tokenize_of_toks
    have e : nextToken (F := F) ".99999999999999999999".toList =
        (match NumOps.parse (F := F) ".99999999999999999999".toList with
         | some x => if NumOps.isFinite x then .tok (.num x) [] else .invalidNumber []
         | none => .invalidNumber []) := rfl
    refine Toks.cons (c := 'P') (r := "RINT A .99999999999999999999".toList)
      (r' := " A .99999999999999999999".toList) rfl rfl ?_
    refine Toks.cons (c := 'A') (r := " .99999999999999999999".toList)
      (r' := " .99999999999999999999".toList) rfl rfl ?_
    refine Toks.cons (c := '.') (r := "99999999999999999999".toList) (r' := []) rfl ?_ (Toks.nil rfl)
    rw [show ('.' :: "99999999999999999999".toList) = ".99999999999999999999".toList from rfl, e, hp]
    simp only [hf, if_true]
  have l : listLine [Token.kw .Print, .symbol ['A'], .num x] = "PRINT A .99999999999999999999".toList := by
    simp [listLine, listSpellings, Token.render, hr, endsWithDollar, joinWith, Extracted.kwSpelling]
  have hn : NumsOK none [Token.kw .Print, .symbol ['A'], .num x] := by
    refine ⟨⟨(fun y e => by cases e), (fun i e => by cases e)⟩,
      ⟨(fun y e => by cases e), (fun i e => by cases e)⟩, ⟨?_, (fun i e => by cases e)⟩, trivial⟩
    intro y e
    injection e with e
    subst e
    refine ⟨'.', "99999999999999999999".toList, ?_, by decide, hp, fun _ => rfl⟩
    simp [spell, Token.render, hr, endsWithDollar]
  exact ⟨h1, l, list_fixpoint_partial _ _ h1 hn⟩

/-- The hypotheses of `list_fixpoint_rounding_repaired` are satisfiable (a toy carrier; for
    IEEE doubles they hold by correct rounding). -/
example : ∃ (F : Type) (inst : NumOps F) (x : F),
    @NumOps.parse F inst ".99999999999999999999".toList = some x ∧ @NumOps.isFinite F inst x = true ∧
    @NumOps.render F inst x = ['1'] :=
  ⟨Unit, { (inferInstance : NumOps Unit) with parse := fun _ => some (), render := fun _ => ['1'] },
    (), rfl, rfl, rfl⟩

/-! ### 8. non-vacuity -/

/-- the tokens of the example line -/
def exampleTokens : List (Token Unit) :=
  [.kw .If, .symbol "A$".toList, .kw .NotEquals, .str "x y".toList, .kw .Then, .kw .Print,
   .symbol ['B'], .kw .To, .symbol ['C'], .kw .Semicolon, .kw .Colon, .remark "  Hi there".toList]

/-- A line with blanks inside keywords, lower case, an identifier ending where a
    keyword starts, a two-character operator written with a blank, a string and a
    remark: it tokenizes, and its listing tokenizes to the same tokens. -/
example :
    tokenize (F := Unit) "i f a$< >\"x y\"t hen pr int bto c;:rem  Hi there".toList 0 = .ok exampleTokens ∧
    listLine exampleTokens = "IF A$ <> \"x y\" THEN PRINT B TO C ; : REM  Hi there".toList ∧
    tokenize (F := Unit) (listLine exampleTokens) 0 = .ok exampleTokens := by
  have h : tokenize (F := Unit) "i f a$< >\"x y\"t hen pr int bto c;:rem  Hi there".toList 0 =
      .ok exampleTokens := rfl
  exact ⟨h, rfl, list_fixpoint_plain _ _ h rfl⟩

/-- the tokens of the DATA example line -/
def exampleDataTokens : List (Token Unit) :=
  [.data [.str "a\"b".toList, .str "c, d".toList, .str ['e'], .str ['x']], .kw .Colon, .kw .Print,
   .symbol "A$".toList]

/-- A DATA statement with an unquoted item containing a quote, a quoted item with a
    comma, text after a closing quote, and a following statement. -/
example :
    tokenize (F := Unit) "d ata a\"b , \"c, d\" e,x :pr int a$".toList 0 = .ok exampleDataTokens ∧
    listLine exampleDataTokens = "DATA a\"b, \"c, d\", \"e\", \"x\" : PRINT A$".toList ∧
    tokenize (F := Unit) (listLine exampleDataTokens) 0 = .ok exampleDataTokens := by
  have h : tokenize (F := Unit) "d ata a\"b , \"c, d\" e,x :pr int a$".toList 0 = .ok exampleDataTokens := rfl
  exact ⟨h, rfl, list_fixpoint_plain _ _ h rfl⟩

/-! ### 9. the fixed point from one hypothesis about the number carrier -/

/-- What the fixed point needs of the number carrier, as laws of `parse`/`render`:
    * `numeral`: a finite number obtained by parsing a digits-and-points text is rendered
      with digits and points only, and that rendering parses back to it;
    * `leadingPoint`: if the parsed text starts with the point, the rendering is `0`
      (and `.0` parses to the number), or `0.`+digits (and `.`+digits parses to it), or `1`
      (and `.99999999999999999999` parses to it);
    * `dataItem`: a number obtained by parsing any text (a DATA item) is rendered as a text
      that is not blank at either end, does not start with a quote, contains no comma or
      colon, and parses back to it. -/
structure NumLaws (F : Type) [NumOps F] : Prop where
  numeral : ∀ (d : Str) (x : F), d ≠ [] → (∀ c ∈ d, digdot c = true) →
    NumOps.parse (F := F) d = some x → NumOps.isFinite x = true → RenderOK x
  leadingPoint : ∀ (d : Str) (x : F), (∀ c ∈ d, digdot c = true) →
    NumOps.parse (F := F) ('.' :: d) = some x → NumOps.isFinite x = true → FracOK x
  dataItem : ∀ (s : Str) (x : F), NumOps.parse (F := F) s = some x → DataNumOK x

theorem numLoop_digdot (cs : Str) : ∀ c ∈ (numLoop cs).1, digdot c = true := by
  induction cs with
  | nil => intro c hc; cases hc
  | cons x cs ih =>
    by_cases hb : isBasicWs x = true
    · rw [numLoop_blank x hb]
      by_cases he : (numLoop cs).1.isEmpty = true
      · rw [if_pos he]; intro c hc; cases hc
      · rw [if_neg he]; exact ih
    · by_cases hg : (isAsciiDigit x || x == '.') = true
      · rw [numLoop_digit x hb hg]
        intro c hc
        rcases List.mem_cons.mp hc with rfl | hc
        · exact hg
        · exact ih c hc
      · rw [numLoop_other x hb hg]; intro c hc; cases hc

/-- where a numeral, identifier or DATA token comes from -/
theorem nextToken_inv (c : Char) (r : Str) (t : Token F) (r' : Str)
    (hn : nextToken (F := F) (c :: r) = .tok t r') :
    (∀ x, t = .num x → ∃ d, numLoop (c :: r) = (d, r') ∧ d ≠ [] ∧
      NumOps.parse (F := F) d = some x ∧ NumOps.isFinite x = true) ∧
    (∀ s, t = .symbol s → symLoop true (c :: r) = (s, r') ∧ s ≠ []) ∧
    (∀ items, t = .data items → ∃ r0, items = (parseData (F := F) r0).1) := by
  cases k1 : chompAnyKeyword (c :: r) with
  | some p =>
    obtain ⟨k, rr⟩ := p
    rw [nextToken_kw _ k rr k1] at hn
    injection hn with e1 e2
    subst e1
    exact ⟨(fun x e => by cases e), (fun s e => by cases e), (fun i e => by cases e)⟩
  | none =>
    cases o1 : chompOneOrTwo (c :: r) with
    | some p =>
      obtain ⟨k, rr⟩ := p
      rw [nextToken_op _ k rr k1 o1] at hn
      injection hn with e1 e2
      subst e1
      exact ⟨(fun x e => by cases e), (fun s e => by cases e), (fun i e => by cases e)⟩
    | none =>
      by_cases hq : c = '"'
      · subst hq
        rw [nextToken_quote r k1 o1] at hn
        cases hs : splitAtQuote r with
        | none => rw [hs] at hn; cases hn
        | some p =>
          obtain ⟨s, rr⟩ := p
          rw [hs] at hn
          simp only at hn
          injection hn with e1 e2
          subst e1
          exact ⟨(fun x e => by cases e), (fun s e => by cases e), (fun i e => by cases e)⟩
      · rw [nextToken_noquote c r hq k1 o1] at hn
        unfold afterQuote at hn
        generalize hnl : numLoop (c :: r) = a at hn
        obtain ⟨ds, rr⟩ := a
        cases ds with
        | cons x d =>
          simp only at hn
          cases hp : NumOps.parse (F := F) (x :: d) with
          | none => rw [hp] at hn; cases hn
          | some v =>
            rw [hp] at hn
            simp only at hn
            by_cases hf : NumOps.isFinite v = true
            · rw [if_pos hf] at hn
              injection hn with e1 e2
              subst e1; subst e2
              refine ⟨?_, (fun s e => by cases e), (fun i e => by cases e)⟩
              intro y e
              injection e with e
              subst e
              exact ⟨x :: d, rfl, by simp, hp, hf⟩
            · rw [if_neg hf] at hn; cases hn
        | nil =>
          simp only at hn
          cases h1 : chompKeyword Extracted.remKeyword.toList (c :: r) with
          | some s =>
            rw [h1] at hn
            simp only at hn
            injection hn with e1 e2
            subst e1
            exact ⟨(fun x e => by cases e), (fun s e => by cases e), (fun i e => by cases e)⟩
          | none =>
            rw [h1] at hn
            simp only at hn
            cases h2 : chompKeyword Extracted.dataKeyword.toList (c :: r) with
            | some s =>
              rw [h2] at hn
              simp only at hn
              injection hn with e1 e2
              subst e1
              refine ⟨(fun x e => by cases e), (fun s e => by cases e), ?_⟩
              intro items e
              injection e with e
              exact ⟨s, e.symm⟩
            | none =>
              rw [h2] at hn
              simp only at hn
              generalize hsl : symLoop true (c :: r) = b at hn
              obtain ⟨ss, u⟩ := b
              cases ss with
              | nil => simp only at hn; cases hn
              | cons y e =>
                simp only at hn
                injection hn with e1 e2
                subst e1; subst e2
                refine ⟨(fun x e => by cases e), ?_, (fun i e => by cases e)⟩
                intro s e'
                injection e' with e'
                subst e'
                exact ⟨rfl, by simp⟩

/-- after an identifier that does not end in `$`, a keyword starts or the text does not
    continue the identifier -/
theorem symOK_end (first : Bool) (s R : Str) (h : SymOK first s R) (hd : endsWithDollar s = false) :
    anyKw (sq R) = true ∨ endFree (sq R) = true := by
  induction s generalizing first with
  | nil => exact h.elim
  | cons c d ih =>
    obtain ⟨_, _, _, _, h2, h3⟩ := h
    cases d with
    | nil =>
      rw [endsWithDollar_singleton] at hd
      exact h2 (by intro e; rw [e] at hd; cases hd) rfl
    | cons e d' =>
      rw [endsWithDollar_cons_cons] at hd
      exact ih false (h3 (by simp)).2 hd

/-- Under `NumLaws`, every tokenizer output satisfies the numeral hypotheses. -/
theorem numsOK_of_toks (laws : NumLaws F) {cs : Str} {ts : List (Token F)} (h : Toks cs ts) :
    ∀ prev, (NonDollarSym prev → ∀ c r, skipWs cs = c :: r → digdot c = true → c = '.') →
    NumsOK prev ts := by
  induction h with
  | nil _ => intro _ _; trivial
  | @cons cs c r t r' ts hs hn ht ih =>
    intro prev hprev
    obtain ⟨i1, i2, i3⟩ := nextToken_inv c r t r' hn
    have hb := skipWs_nonblank cs c r hs
    refine ⟨⟨?_, ?_⟩, ih (some t) ?_⟩
    · intro x e
      obtain ⟨d, hnl, hne, hp, hf⟩ := i1 x e
      have hcd := digdot_of_numLoop c r d r' hb hnl hne
      have hall : ∀ y ∈ d, digdot y = true := by
        have := numLoop_digdot (c :: r)
        rw [hnl] at this
        exact this
      have hd1 : d = c :: (numLoop r).1 := by
        have := numLoop_digit c (by rw [hb]; simp) hcd r
        rw [hnl] at this
        exact congrArg Prod.fst this
      refine numOK_of_render prev x (laws.numeral d x hne hall hp hf) ?_
      intro hnds
      have hc := hprev hnds c r hs hcd
      subst hc
      rw [hd1] at hp hall
      exact laws.leadingPoint _ x (fun y hy => hall y (List.mem_cons_of_mem _ hy)) hp hf
    · intro items e x hx
      obtain ⟨r0, hi⟩ := i3 items e
      subst hi
      obtain ⟨s, hs'⟩ := (parseData_spec (F := F) r0).2.1 _ hx
      exact laws.dataItem s x hs'
    · rintro ⟨sym, hs', hd⟩ c2 r2 hs2 hdig
      injection hs' with hs'
      obtain ⟨hsl, hne⟩ := i2 sym hs'
      obtain ⟨ok, _⟩ := symOK_of_symLoop true (c :: r) sym r' r' hsl hne (Sim.refl _) (fun _ h => h)
      have hsq := sq_of_skipWs_cons r' c2 r2 hs2
      have hna : isAsciiAlpha (asciiUpper c2) = false := by
        rw [upperEq_alpha (upper_idem c2)]; exact digdot_not_alpha c2 hdig
      rcases symOK_end true sym r' ok hd with hk | he
      · rw [hsq, anyKw_head_nonalpha _ _ hna] at hk; cases hk
      · rw [hsq] at he
        simp only [endFree, headAll, upper_symValid] at he
        have hv : symValid false c2 = false := by simpa using he
        simp only [symValid, Bool.false_eq_true, if_false, Bool.or_eq_false_iff, isAsciiAlnum] at hv
        have hdg : isAsciiDigit c2 = false := hv.1.2
        simp only [digdot, hdg, Bool.false_or, beq_iff_eq] at hdig
        exact hdig

/-- **LIST fixed point** from one hypothesis about the number carrier: if `parse`/`render`
    satisfy `NumLaws`, the listed text of every stored line tokenizes to the stored tokens.
    (The numerals of `ts` need no separate hypothesis: `ts` is a tokenizer output, so each
    of them was obtained by parsing.) -/
theorem list_fixpoint (laws : NumLaws F) (line : Str) (ts : List (Token F))
    (h : tokenize (F := F) line 0 = .ok ts) : tokenize (F := F) (listLine ts) 0 = .ok ts :=
  list_fixpoint_partial line ts h
    (numsOK_of_toks laws (toks_of_tokenize line ts h) none (by rintro ⟨sym, hs, _⟩; cases hs))

/-- `NumLaws` is satisfiable (trivially so on the degenerate carrier, which parses nothing). -/
example : NumLaws Unit :=
  ⟨(fun _ _ _ _ hp => by cases hp), (fun _ _ _ hp => by cases hp), (fun _ _ hp => by cases hp)⟩

end Abasic.Props.C14
