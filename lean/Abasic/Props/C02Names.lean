import Abasic.Props.C02Full
import Abasic.Proofs.Expr2WarnInd
/-
  C02, the open items of `eval_render2`:

  1. `term_resolution` — what a term `name ( args )` means in a state
     (`resolve`): ABS / INT / RND first, then the defined functions, else an
     array element; the evaluator's `term` does exactly that.  A DEF named like
     a built-in is stored but never called (`def_builtin_never_called`); an
     array named like a defined function cannot be read while the function is
     defined (`function_shadows_array`).

  3. `eval_render2_warn` — `eval_render2` for ANY value of the warnings flag:
     value, cursor, arrays, generator state exactly as `fold2` says (hence as
     with the flag off: `warn_on_vs_off`), and the output queue grows by
     exactly `warnsOf …` (Proofs/Expr2Warn.lean): the warning records of the
     undeclared scalar reads and undeclared array reads met, in evaluation
     order, each with the line it is raised on (inside a function body: the
     line of the DEF).

  2. `eval_render2_any` — `eval_render2` without the side condition `Resolved`:
     `normalize fns` rewrites every `cell` / `call` node into what `resolve`
     says, does not change the rendering (`render2_normalize`), and the
     evaluator on `render2 e` computes `fold2` of the normalized tree
     (`eval_render2_any`, and with warnings `eval_render2_any_warn`).
-/
namespace Abasic.Props.C02
open Abasic Abasic.Ref Abasic.ExprL Abasic.ExprL2 Abasic.Names

variable {F : Type} [NumOps F]

/-! ## 1. name resolution -/

/-- **`term_resolution`.**  On `name ( …` the evaluator reads the name, looks at
    the parenthesis (two more cursor reads, cursor one token further) and then
    does what `resolve σ name` says:
    `builtin b` — `builtinM`: the parenthesised argument, then ABS / INT / RND;
    `call d`    — `callM`: bind the arguments to `d.args`, push the frame, evaluate
                  the body on the line of the definition, pop the frame;
    `cell`      — `cellM'`: subscripts, the undeclared-array warning, the read.
    `ev` (the evaluator used for the nested expressions) and the rest of the
    line are arbitrary. -/
theorem term_resolution (ev : Evals F) (σ : St F) (pre rest : List (Token F)) (name : Str)
    (hAt : At σ pre (.symbol name :: .kw .LeftParen :: rest)) :
    term ev σ = meaning ev name (resolve σ name) (mv σ 1 (σ.reads + 1 + 1)) :=
  term_resolves ev σ pre rest name hAt

omit [NumOps F] in
/-- The built-in wins: for ABS / INT / RND the function table is not even consulted. -/
theorem builtin_wins (σ : St F) (name : Str) (h : reserved name = true) :
    ∃ b, resolve σ name = .builtin b ∧ ∀ σ' : St F, resolve σ' name = .builtin b := by
  obtain ⟨b, hb⟩ := resolveIn_reserved σ.fns name h
  refine ⟨b, hb, fun σ' => ?_⟩
  obtain ⟨b', hb'⟩ := resolveIn_reserved σ'.fns name h
  have h0 := resolveIn_reserved ([] : List (Str × FnDef)) name h
  -- `resolveIn` on a reserved name does not look at the table
  unfold resolve
  unfold resolveIn at hb hb' ⊢
  by_cases h1 : (name == Extracted.builtinAbs.toList) = true
  · rw [if_pos h1] at hb ⊢; exact hb
  · rw [if_neg h1] at hb ⊢
    by_cases h2 : (name == Extracted.builtinInt.toList) = true
    · rw [if_pos h2] at hb ⊢; exact hb
    · rw [if_neg h2] at hb ⊢
      by_cases h3 : (name == Extracted.builtinRnd.toList) = true
      · rw [if_pos h3] at hb ⊢; exact hb
      · exfalso
        unfold reserved at h
        simp only [Bool.not_eq_true] at h1 h2 h3
        simp [h1, h2, h3] at h

omit [NumOps F] in
/-- `DEF ABS(X) = …` on a numbered line IS stored in the function table … -/
theorem def_builtin_stored (name : Str) (args : List Str) (σ : St F) (ln : Nat) (hl : σ.loc.line = some ln) :
    ∃ σ', defineFunction name args σ = .ok () σ' ∧
      alGet name σ'.fns = some { args := args, line := ln, idx := σ.loc.idx } := by
  refine ⟨{ σ with fns := alSet name { args := args, line := ln, idx := σ.loc.idx } σ.fns }, ?_, ?_⟩
  · simp only [defineFunction, bind, M.bindM, M.get, hl, M.set]
  · exact Proofs.XF.alGet_alSet_self _ _ _

/-- … but is never called: whatever the function table holds, `ABS ( …`,
    `INT ( …`, `RND ( …` run the built-in. -/
theorem def_builtin_never_called (ev : Evals F) (σ : St F) (pre rest : List (Token F)) (name : Str)
    (h : reserved name = true) (hAt : At σ pre (.symbol name :: .kw .LeftParen :: rest)) :
    ∃ b, term ev σ = builtinM ev b (mv σ 1 (σ.reads + 1 + 1)) := by
  obtain ⟨b, hb, _⟩ := builtin_wins σ name h
  exact ⟨b, by rw [term_resolution ev σ pre rest name hAt, hb]; rfl⟩

omit [NumOps F] in
/-- An array named like a defined function is unreachable while the function is
    defined: the term is a call. -/
theorem function_shadows_array (σ : St F) (name : Str) (d : FnDef)
    (hr : reserved name = false) (hd : alGet name σ.fns = some d) : resolve σ name = .call d := by
  unfold resolve
  rw [resolveIn_unreserved _ _ hr, hd]

omit [NumOps F] in
/-- a name that is neither built-in nor defined is an array element -/
theorem undefined_is_cell (σ : St F) (name : Str)
    (hr : reserved name = false) (hd : alGet name σ.fns = none) : resolve σ name = .cell := by
  unfold resolve
  rw [resolveIn_unreserved _ _ hr, hd]


/-! ## 3. warnings on -/

/-- The hypotheses of `eval_render2` without `warnings = false`. -/
structure ReadyW (σ : St F) (env : RefEnv F) (pre : List (Token F)) (e : Expr2 F) (rest : List (Token F))
    (k n : Nat) : Prop where
  toks : tokens σ = .ok (pre ++ render2 e ++ rest) σ
  idx : σ.loc.idx = pre.length
  envOf : EnvOf σ env
  arrays_ok : ∀ p ∈ σ.arrays, p.2.cellCount = Props.C16.prod p.2.dims
  rng_ok : σ.rng < 2 ^ 33
  stack : σ.stack.length ≤ Extracted.stackLimit
  specFuel : Extracted.stackLimit < k + σ.stack.length
  resolved : Resolved env.fns e
  bodies : ∀ name d, alGet name env.fns = some d → Resolved env.fns d.body
  nesting : σ.nesting + depth2 env.fns k e < Extracted.nestingLimit
  fuel : depth2 env.fns k e + 1 ≤ n
  follows : Follows rest

omit [NumOps F] in
theorem Ready2.readyW {σ : St F} {env : RefEnv F} {pre rest : List (Token F)} {e : Expr2 F} {k n : Nat}
    (h : Ready2 σ env pre e rest k n) : ReadyW σ env pre e rest k n :=
  ⟨h.toks, h.idx, h.envOf, h.arrays_ok, h.rng_ok, h.stack, h.specFuel, h.resolved, h.bodies, h.nesting, h.fuel,
   h.follows⟩

/-- the environment of the induction: `env` plus queue, flag, line and function table of `σ` -/
def wenvOf (σ : St F) (env : RefEnv F) : WEnv F :=
  { toRefEnv := env, out := σ.out, warn := σ.warnings, line := σ.loc.line, sfns := σ.fns }

omit [NumOps F] in
theorem ReadyW.at {σ : St F} {env : RefEnv F} {pre rest : List (Token F)} {e : Expr2 F} {k n : Nat}
    (h : ReadyW σ env pre e rest k n) : At σ pre (render2 e ++ rest) :=
  ⟨by rw [lineToks_of_tokens h.toks, List.append_assoc], h.idx⟩

omit [NumOps F] in
theorem ReadyW.rel {σ : St F} {env : RefEnv F} {pre rest : List (Token F)} {e : Expr2 F} {k n : Nat}
    (h : ReadyW σ env pre e rest k n) : ExprL3.Rel k σ (wenvOf σ env) where
  vars := h.envOf.vars
  frames := h.envOf.frames
  arrays := h.envOf.arrays
  rng := h.envOf.rng
  out := rfl
  warn := rfl
  line := rfl
  sfns := rfl
  fns := ⟨h.envOf.fns_undef, fun name d hd => by
    obtain ⟨fd, p, tail, h1, h2, h3, h4, h5⟩ := h.envOf.fns_def name d hd
    exact ⟨fd, p, tail, h1, h2, by rw [h3, List.append_assoc], h4, ends_of_follows h5⟩⟩
  cap := h.stack
  fuel := h.specFuel
  arrs_ok := fun name a ha => by
    have ha' : alGet name σ.arrays = some a := by rw [h.envOf.arrays]; exact ha
    exact h.arrays_ok (name, a) (Props.C16.alGet_mem _ _ _ ha')
  rng_ok := by
    show env.rng < Extracted.rngModulus
    rw [← h.envOf.rng, Props.C18.constants.1]; exact h.rng_ok
  bodies := h.bodies

omit [NumOps F] in
theorem envOf_of_rel3 {k : Nat} {σ : St F} {w : WEnv F} (h : ExprL3.Rel k σ w) : EnvOf σ w.toRefEnv where
  vars := h.vars
  frames := h.frames
  arrays := h.arrays
  rng := h.rng
  fns_undef := h.fns.undef
  fns_def := fun name d hd => by
    obtain ⟨fd, p, tail, h1, h2, h3, h4, h5⟩ := h.fns.defd name d hd
    exact ⟨fd, p, tail, h1, h2, by rw [h3, List.append_assoc], h4, follows_of_ends h5⟩

omit [NumOps F] in
theorem ReadyW.frames_le {σ : St F} {env : RefEnv F} {pre rest : List (Token F)} {e : Expr2 F} {k n : Nat}
    (h : ReadyW σ env pre e rest k n) :
    env.frames.length ≤ Extracted.stackLimit ∧ Extracted.stackLimit < k + env.frames.length := by
  have hl : env.frames.length = σ.stack.length := by rw [← h.envOf.frames, List.length_map]
  rw [hl]; exact ⟨h.stack, h.specFuel⟩

omit [NumOps F] in
theorem errLoc_of_keeps3 {σ σ' : St F} {te : TErr} {x : Err}
    (hg : x ≠ .outOfFuel ∧ x ≠ .dataTypeMismatch) (hx : te.err = x) (hk : ExprL3.Keeps σ te σ') : ErrLoc σ te := by
  rcases hk.2.2.2 with h | h | h
  · exact Or.inl h
  · rw [hx] at h; exact absurd h hg.2
  · exact Or.inr h

/-- **`eval_render2_warn`** — `eval_render2` whatever the warnings flag is.
    On a value of the spec: the evaluator returns that value in the state `σ`
    with the cursor after the rendering, more reads, the arrays and generator
    state of the new environment — and the output queue grown by exactly the
    records `warnsOf σ.warnings σ.fns k σ.loc.line env e` (oldest first; the
    queue is newest first, hence the `reverse`).  Nothing else changes.
    On an error of the spec: the same error, as in `eval_render2`. -/
theorem eval_render2_warn (e : Expr2 F) (k n : Nat) (σ : St F) (env : RefEnv F) (pre rest : List (Token F))
    (h : ReadyW σ env pre e rest k n) :
    (∀ v env', fold2 k env e = .ok (v, env') → ∃ r, σ.reads < r ∧
      orExpr (evalN n) σ =
        .ok v { σ with loc := { σ.loc with idx := pre.length + (render2 e).length }, reads := r, arrays := env'.arrays, rng := env'.rng, out := (warnsOf σ.warnings σ.fns k σ.loc.line env e).reverse ++ σ.out } ∧
      EnvOf ({ σ with loc := { σ.loc with idx := pre.length + (render2 e).length }, reads := r, arrays := env'.arrays, rng := env'.rng, out := (warnsOf σ.warnings σ.fns k σ.loc.line env e).reverse ++ σ.out } : St F) env') ∧
    (∀ x, fold2 k env e = .error x → ∃ te σ',
      orExpr (evalN n) σ = .err te σ' ∧ te.err = x ∧
      σ'.nesting = σ.nesting ∧ σ'.stack = σ.stack ∧ σ'.loc.line = σ.loc.line ∧ ErrLoc σ te) := by
  have hA := (ExprL3.main3 k e).1 n 6 σ (wenvOf σ env) pre rest (by have := h.fuel; exact Nat.le_of_succ_le this)
    (by have := h.nesting; exact Nat.le_of_lt this)
    (by have := prec2_bounds e; unfold lv2; omega) (Nat.le_refl _) (ends_of_follows h.follows) h.at
    h.rel h.resolved
  rw [tier_six, fold3_eq] at hA
  have hwe : (wenvOf σ env).toRefEnv = env := rfl
  rw [hwe] at hA
  constructor
  · intro v env' hv
    rw [hv] at hA
    obtain ⟨r, hr, hσ⟩ := hA
    have hstep : ExprL3.Step (wenvOf σ env)
        ((wenvOf σ env).put env' (warnsOf σ.warnings σ.fns k σ.loc.line env e)) :=
      ExprL3.step_put _ _ _ (fold2_step k e env env' v hv)
    have hrel := h.rel.upd hstep (render2 e).length r
    refine ⟨r, hr, ?_, ?_⟩
    · rw [hσ]
      show Res.ok v (ExprL3.upd σ _ r _) = _
      simp only [ExprL3.upd, h.idx]
      rfl
    · have := envOf_of_rel3 hrel
      simp only [ExprL3.upd, h.idx] at this
      exact this
  · intro x hx
    rw [hx] at hA
    obtain ⟨te, σ', h1, h2, hk⟩ := hA
    exact ⟨te, σ', h1, h2, hk.1, hk.2.1, hk.2.2.1,
      errLoc_of_keeps3 (fold2_good k e env x h.frames_le.1 h.frames_le.2 hx) h2 hk⟩

/-- With the flag ON, compared with the same state with the flag OFF: same value,
    same cursor, arrays, generator state (and every other field but the read
    counter and the queue), and the queue of the ON run is the queue of the OFF
    run plus exactly the warning records, in evaluation order. -/
theorem warn_on_vs_off (e : Expr2 F) (k n : Nat) (σ : St F) (env : RefEnv F) (pre rest : List (Token F))
    (h : ReadyW σ env pre e rest k n) (v : Value F) (env' : RefEnv F) (hv : fold2 k env e = .ok (v, env')) :
    ∃ r r₀,
      orExpr (evalN n) σ =
        .ok v { σ with loc := { σ.loc with idx := pre.length + (render2 e).length }, reads := r, arrays := env'.arrays, rng := env'.rng, out := (warnsOf σ.warnings σ.fns k σ.loc.line env e).reverse ++ σ.out } ∧
      orExpr (evalN n) { σ with warnings := false } =
        .ok v { σ with warnings := false, loc := { σ.loc with idx := pre.length + (render2 e).length }, reads := r₀, arrays := env'.arrays, rng := env'.rng } := by
  obtain ⟨r, _, hr, _⟩ := (eval_render2_warn e k n σ env pre rest h).1 v env' hv
  have h0 : Ready2 ({ σ with warnings := false } : St F) env pre e rest k n :=
    { toks := tokens_eq (σ := ({ σ with warnings := false } : St F))
        (show lineToks ({ σ with warnings := false } : St F) = _ from lineToks_of_tokens (σ := σ) h.toks)
      idx := h.idx
      envOf := ⟨h.envOf.vars, h.envOf.frames, h.envOf.arrays, h.envOf.rng, h.envOf.fns_undef, h.envOf.fns_def⟩
      warnings := rfl
      arrays_ok := h.arrays_ok
      rng_ok := h.rng_ok
      stack := h.stack
      specFuel := h.specFuel
      resolved := h.resolved
      bodies := h.bodies
      nesting := h.nesting
      fuel := h.fuel
      follows := h.follows }
  obtain ⟨r₀, _, hr₀, _⟩ := (eval_render2 e k n _ env pre rest h0).1 v env' hv
  exact ⟨r, r₀, hr, hr₀⟩


/-- with the flag off the queue is untouched: `eval_render2_warn` contains `eval_render2` -/
theorem warnsOf_flag_off (σ : St F) (k : Nat) (env : RefEnv F) (e : Expr2 F) (hw : σ.warnings = false) :
    (warnsOf σ.warnings σ.fns k σ.loc.line env e).reverse ++ σ.out = σ.out := by
  rw [hw, warnsOf_off]; rfl

/-- `eval_render2_warn` with the flag on, spelled out: the records are those of `warnsOf true`. -/
theorem eval_render2_warn_on (e : Expr2 F) (k n : Nat) (σ : St F) (env : RefEnv F) (pre rest : List (Token F))
    (h : ReadyW σ env pre e rest k n) (hw : σ.warnings = true) (v : Value F) (env' : RefEnv F)
    (hv : fold2 k env e = .ok (v, env')) :
    ∃ r, σ.reads < r ∧
      orExpr (evalN n) σ =
        .ok v { σ with loc := { σ.loc with idx := pre.length + (render2 e).length }, reads := r, arrays := env'.arrays, rng := env'.rng, out := (warnsOf true σ.fns k σ.loc.line env e).reverse ++ σ.out } := by
  obtain ⟨r, hr, hσ, _⟩ := (eval_render2_warn e k n σ env pre rest h).1 v env' hv
  have hws : warnsOf σ.warnings σ.fns k σ.loc.line env e = warnsOf true σ.fns k σ.loc.line env e := by rw [hw]
  rw [hws] at hσ
  exact ⟨r, hr, hσ⟩


/-! ## 2. without `Resolved` -/

omit [NumOps F] in
theorem alGet_normFns_some {fns : List (Str × FnDefSpec F)} {name : Str} {d : FnDefSpec F}
    (h : alGet name (normFns fns) = some d) :
    ∃ d0, alGet name fns = some d0 ∧ d.params = d0.params ∧ d.body = normalize fns d0.body := by
  rw [alGet_normFns] at h
  cases h0 : alGet name fns with
  | none => rw [h0] at h; cases h
  | some d0 =>
    rw [h0] at h
    simp only [Option.map_some, Option.some.injEq] at h
    exact ⟨d0, rfl, by rw [← h], by rw [← h]⟩

omit [NumOps F] in
theorem alGet_normFns_none {fns : List (Str × FnDefSpec F)} {name : Str} :
    alGet name (normFns fns) = none ↔ alGet name fns = none := by
  rw [alGet_normFns]
  cases alGet name fns <;> simp

omit [NumOps F] in
/-- a state that realises `env` realises `env` with the bodies normalized: the
    stored lines are the same token lists -/
theorem envOf_normEnv {σ : St F} {env : RefEnv F} (h : EnvOf σ env) : EnvOf σ (normEnv env) where
  vars := h.vars
  frames := h.frames
  arrays := h.arrays
  rng := h.rng
  fns_undef := fun name hn => h.fns_undef name (alGet_normFns_none.mp hn)
  fns_def := fun name d hd => by
    obtain ⟨d0, h0, hp, hb⟩ := alGet_normFns_some hd
    obtain ⟨fd, p, tail, h1, h2, h3, h4, h5⟩ := h.fns_def name d0 h0
    exact ⟨fd, p, tail, h1, by rw [hp]; exact h2, by rw [hb, render2_normalize]; exact h3, h4, h5⟩

/-- The hypotheses of `eval_render2_any`: those of `eval_render2` with, instead of
    `Resolved`, only `Arity1` (a node named ABS / INT / RND has exactly one
    argument — `ABS ( )` and `ABS ( 1 , 2 )` are syntax errors), for `e` and for the
    function bodies; nesting room and fuel are measured on the normalized tree
    (a `cell` node named like a defined function IS a call, with its body). -/
structure ReadyAny (σ : St F) (env : RefEnv F) (pre : List (Token F)) (e : Expr2 F) (rest : List (Token F))
    (k n : Nat) : Prop where
  toks : tokens σ = .ok (pre ++ render2 e ++ rest) σ
  idx : σ.loc.idx = pre.length
  envOf : EnvOf σ env
  arrays_ok : ∀ p ∈ σ.arrays, p.2.cellCount = Props.C16.prod p.2.dims
  rng_ok : σ.rng < 2 ^ 33
  stack : σ.stack.length ≤ Extracted.stackLimit
  specFuel : Extracted.stackLimit < k + σ.stack.length
  arity : Arity1 e
  bodies : ∀ name d, alGet name env.fns = some d → Arity1 d.body
  nesting : σ.nesting + depth2 (normFns env.fns) k (normalize env.fns e) < Extracted.nestingLimit
  fuel : depth2 (normFns env.fns) k (normalize env.fns e) + 1 ≤ n
  follows : Follows rest

omit [NumOps F] in
theorem ReadyAny.readyW {σ : St F} {env : RefEnv F} {pre rest : List (Token F)} {e : Expr2 F} {k n : Nat}
    (h : ReadyAny σ env pre e rest k n) : ReadyW σ (normEnv env) pre (normalize env.fns e) rest k n where
  toks := by rw [render2_normalize]; exact h.toks
  idx := h.idx
  envOf := envOf_normEnv h.envOf
  arrays_ok := h.arrays_ok
  rng_ok := h.rng_ok
  stack := h.stack
  specFuel := h.specFuel
  resolved := resolved_normalize (normFns env.fns) env.fns (fun _ hn => alGet_normFns_none.mpr hn) e h.arity
  bodies := fun name d hd => by
    obtain ⟨d0, h0, _, hb⟩ := alGet_normFns_some hd
    rw [hb]
    exact resolved_normalize (normFns env.fns) env.fns (fun _ hn => alGet_normFns_none.mpr hn) d0.body
      (h.bodies name d0 h0)
  nesting := h.nesting
  fuel := h.fuel
  follows := h.follows

omit [NumOps F] in
/-- a `Resolved` tree has the arity property -/
theorem arity1_of_resolved (fns : List (Str × FnDefSpec F)) (e : Expr2 F) (h : Resolved fns e) : Arity1 e := by
  suffices hm : ∀ m, (∀ e : Expr2 F, sizeOf e ≤ m → Resolved fns e → Arity1 e) ∧
      (∀ es : List (Expr2 F), sizeOf es ≤ m → ResolvedL fns es → Arity1L es) from (hm _).1 e (Nat.le_refl _) h
  intro m
  induction m with
  | zero =>
    constructor
    · intro e he; cases e <;> simp at he
    · intro es he; cases es <;> simp at he
  | succ m ih =>
    constructor
    · intro e he hr
      cases e with
      | num x => simp only [Arity1]
      | str s => simp only [Arity1]
      | var v => simp only [Arity1]
      | un op x =>
        simp only [Arity1, Resolved] at hr ⊢
        exact ih.1 x (by simp only [Expr2.un.sizeOf_spec] at he; omega) hr
      | bin op l r =>
        simp only [Arity1, Resolved] at hr ⊢
        exact ⟨ih.1 l (by simp only [Expr2.bin.sizeOf_spec] at he; omega) hr.1,
          ih.1 r (by simp only [Expr2.bin.sizeOf_spec] at he; omega) hr.2⟩
      | paren x =>
        simp only [Arity1, Resolved] at hr ⊢
        exact ih.1 x (by simp only [Expr2.paren.sizeOf_spec] at he; omega) hr
      | abs x =>
        simp only [Arity1, Resolved] at hr ⊢
        exact ih.1 x (by simp only [Expr2.abs.sizeOf_spec] at he; omega) hr
      | int x =>
        simp only [Arity1, Resolved] at hr ⊢
        exact ih.1 x (by simp only [Expr2.int.sizeOf_spec] at he; omega) hr
      | rnd x =>
        simp only [Arity1, Resolved] at hr ⊢
        exact ih.1 x (by simp only [Expr2.rnd.sizeOf_spec] at he; omega) hr
      | cell name idx =>
        simp only [Arity1, Resolved] at hr ⊢
        exact ⟨(fun ht => by rw [hr.1] at ht; cases ht),
          ih.2 idx (by simp only [Expr2.cell.sizeOf_spec] at he; omega) hr.2.2⟩
      | call g args =>
        simp only [Arity1, Resolved] at hr ⊢
        exact ⟨(fun ht => by rw [hr.1] at ht; cases ht),
          ih.2 args (by simp only [Expr2.call.sizeOf_spec] at he; omega) hr.2⟩
    · intro es he hr
      cases es with
      | nil => simp only [Arity1L]
      | cons x xs =>
        simp only [Arity1L, ResolvedL] at hr ⊢
        exact ⟨ih.1 x (by simp only [List.cons.sizeOf_spec] at he; omega) hr.1,
          ih.2 xs (by simp only [List.cons.sizeOf_spec] at he; omega) hr.2⟩

/-- **`eval_render2_any_partial`** — `eval_render2` without `Resolved`, whatever
    the warnings flag: for every tree in which the nodes named like a built-in
    have one argument (`Arity1`), whatever else its names collide with, the
    evaluator on `render2 e` returns `fold2` of the NORMALIZED tree (every
    `cell` / `call` node read as `resolve` says) in the environment with
    normalized function bodies — value, cursor, arrays, generator state — and the
    queue grows by the warning records of that evaluation.
    ("Partial": the trees excluded are those with `ABS ( )`, `ABS ( a , b )`, …,
    on which the evaluator reports a syntax error — `ABS ( 1 , 2 )`: EXPECTED `)` after
    the first argument — whereas the only trees with that rendering, `cell "ABS" [1, 2]`
    and `call "ABS" [1, 2]`, fold to an element of an array ABS.) -/
theorem eval_render2_any_warn_partial (e : Expr2 F) (k n : Nat) (σ : St F) (env : RefEnv F)
    (pre rest : List (Token F)) (h : ReadyAny σ env pre e rest k n) :
    (∀ v env', fold2 k (normEnv env) (normalize env.fns e) = .ok (v, env') → ∃ r, σ.reads < r ∧
      orExpr (evalN n) σ =
        .ok v { σ with loc := { σ.loc with idx := pre.length + (render2 e).length }, reads := r, arrays := env'.arrays, rng := env'.rng, out := (warnsOf σ.warnings σ.fns k σ.loc.line (normEnv env) (normalize env.fns e)).reverse ++ σ.out } ∧
      EnvOf ({ σ with loc := { σ.loc with idx := pre.length + (render2 e).length }, reads := r, arrays := env'.arrays, rng := env'.rng, out := (warnsOf σ.warnings σ.fns k σ.loc.line (normEnv env) (normalize env.fns e)).reverse ++ σ.out } : St F) env') ∧
    (∀ x, fold2 k (normEnv env) (normalize env.fns e) = .error x → ∃ te σ',
      orExpr (evalN n) σ = .err te σ' ∧ te.err = x ∧
      σ'.nesting = σ.nesting ∧ σ'.stack = σ.stack ∧ σ'.loc.line = σ.loc.line ∧ ErrLoc σ te) := by
  have := eval_render2_warn (normalize env.fns e) k n σ (normEnv env) pre rest h.readyW
  rw [render2_normalize] at this
  exact this

/-- **`eval_render2_any_partial`** — the same with warnings off (the statement of
    `eval_render2`, for the normalized tree, without `Resolved`). -/
theorem eval_render2_any_partial (e : Expr2 F) (k n : Nat) (σ : St F) (env : RefEnv F)
    (pre rest : List (Token F)) (h : ReadyAny σ env pre e rest k n) (hw : σ.warnings = false) :
    (∀ v env', fold2 k (normEnv env) (normalize env.fns e) = .ok (v, env') → ∃ r, σ.reads < r ∧
      orExpr (evalN n) σ =
        .ok v { σ with loc := { σ.loc with idx := pre.length + (render2 e).length }, reads := r, arrays := env'.arrays, rng := env'.rng } ∧
      EnvOf ({ σ with loc := { σ.loc with idx := pre.length + (render2 e).length }, reads := r, arrays := env'.arrays, rng := env'.rng } : St F) env') ∧
    (∀ x, fold2 k (normEnv env) (normalize env.fns e) = .error x → ∃ te σ',
      orExpr (evalN n) σ = .err te σ' ∧ te.err = x ∧
      σ'.nesting = σ.nesting ∧ σ'.stack = σ.stack ∧ σ'.loc.line = σ.loc.line ∧ ErrLoc σ te) := by
  have hW := h.readyW
  have h2 : Ready2 σ (normEnv env) pre (normalize env.fns e) rest k n :=
    ⟨hW.toks, hW.idx, hW.envOf, hw, hW.arrays_ok, hW.rng_ok, hW.stack, hW.specFuel, hW.resolved, hW.bodies,
     hW.nesting, hW.fuel, hW.follows⟩
  have := eval_render2 (normalize env.fns e) k n σ (normEnv env) pre rest h2
  rw [render2_normalize] at this
  exact this

/-- outcomes agree (forgetting the state and the error location) -/
theorem eval_render2_any_outcome (e : Expr2 F) (k n : Nat) (σ : St F) (env : RefEnv F)
    (pre rest : List (Token F)) (h : ReadyAny σ env pre e rest k n) :
    (outcome (orExpr (evalN n) σ)).mapError TErr.err =
      (fold2 k (normEnv env) (normalize env.fns e)).map Prod.fst := by
  obtain ⟨h1, h2⟩ := eval_render2_any_warn_partial e k n σ env pre rest h
  cases hev : fold2 k (normEnv env) (normalize env.fns e) with
  | ok p => obtain ⟨r, _, hr, _⟩ := h1 p.1 p.2 hev; rw [hr]; rfl
  | error x => obtain ⟨te, σ', hσ', hx, _⟩ := h2 x hev; rw [hσ', ← hx]; rfl

/-! ## non-vacuity -/
namespace DemoNames
section Examples
set_option linter.unusedSectionVars false
set_option linter.unusedSimpArgs false
open Demo2

/-- a fresh interpreter with the flag as given and `render2 e ++ rest` as the immediate line -/
theorem readyW_immediate (w : Bool) (e : Expr2 F) (rest : List (Token F)) (n : Nat)
    (hres : Resolved ([] : List (Str × FnDefSpec F)) e)
    (hd : depth2 ([] : List (Str × FnDefSpec F)) 33 e < Extracted.nestingLimit)
    (hn : depth2 ([] : List (Str × FnDefSpec F)) 33 e + 1 ≤ n) (hrest : Follows rest) :
    ReadyW ({ imm := [] ++ render2 e ++ rest, warnings := w } : St F) (emptyEnv F) [] e rest 33 n where
  toks := rfl
  idx := rfl
  envOf := ⟨rfl, rfl, rfl, rfl, fun _ _ => rfl, fun _ _ h => by cases h⟩
  arrays_ok := by intro p hp; cases hp
  rng_ok := by show (0 : Nat) < 2 ^ 33; decide
  stack := by show (0 : Nat) ≤ _; exact Nat.zero_le _
  specFuel := by show Extracted.stackLimit < 33 + 0; decide
  resolved := hres
  bodies := fun _ _ h => by cases h
  nesting := by show 0 + _ < _; rw [Nat.zero_add]; exact hd
  fuel := hn
  follows := hrest

/-- `X + A(x)` -/
def xPlusA (x : F) : Expr2 F := .bin .add (.var "X".toList) (.cell "A".toList [.num x])

theorem xPlusA_render (x : F) : render2 (xPlusA x) =
    [.symbol "X".toList, .kw .Plus, .symbol "A".toList, .kw .LeftParen, .num x, .kw .RightParen] := by
  simp [xPlusA, render2, renderAt2, renderArgs, Expr2.prec, BinOp.prec, BinOp.token]

theorem xPlusA_fold (x : F) (hx : NumOps.toI64 x = 3) :
    fold2 33 (emptyEnv F) (xPlusA x)
      = .ok (.num (NumOps.add NumOps.zero NumOps.zero), { emptyEnv F with arrays := arrA F }) := by
  simp [xPlusA, fold2, foldIdx, subscript, hx, readCell, emptyEnv, alGet, ArrayV.create, dimSizes,
    Extracted.defaultArraySize, Extracted.maxDimTotalElements, endsWithDollar, readAt, linearIndex, linearIndexAux,
    ArrayV.dims, alSet, arrA, RefEnv.lookup, lookupFrames, Value.defaultFor, BinOp.eval]

theorem xPlusA_warns (x : F) (hx : NumOps.toI64 x = 3) :
    warnsOf true [] 33 none (emptyEnv F) (xPlusA x)
      = [.warning (undeclVarMsg "X".toList) none, .warning (undeclArrMsg "A".toList) none] := by
  simp [xPlusA, warnsOf, warnsIdx, warnVar, warnCell, fold2, foldIdx, subscript, hx, emptyEnv, alGet, alHas,
    RefEnv.lookup, lookupFrames]

/-- `X + A(3)` on a fresh interpreter with warnings ON: value 0 + 0, the default
    array is created, and the queue holds the two warnings — variable first,
    array second (the queue is newest first). -/
example (x : F) (hx : NumOps.toI64 x = 3) :
    ∃ r, orExpr (evalN defaultFuel) ({ imm := [.symbol "X".toList, .kw .Plus, .symbol "A".toList, .kw .LeftParen, .num x, .kw .RightParen], warnings := true } : St F)
      = .ok (.num (NumOps.add NumOps.zero NumOps.zero))
          ({ imm := [.symbol "X".toList, .kw .Plus, .symbol "A".toList, .kw .LeftParen, .num x, .kw .RightParen],
             warnings := true, loc := { line := none, idx := 6 }, reads := r, arrays := arrA F,
             out := [.warning (undeclArrMsg "A".toList) none, .warning (undeclVarMsg "X".toList) none] } : St F) := by
  have hR := readyW_immediate (F := F) true (xPlusA x) [] defaultFuel
    (by simp only [xPlusA, Resolved, ResolvedL, alGet, and_true, true_and]; decide)
    (by simp [xPlusA, depth2, depthArgs, Expr2.prec, BinOp.prec, Extracted.nestingLimit])
    (by simp [xPlusA, depth2, depthArgs, Expr2.prec, BinOp.prec, defaultFuel, Extracted.nestingLimit]) follows_nil
  obtain ⟨r, _, hr⟩ := eval_render2_warn_on _ 33 defaultFuel _ _ [] [] hR rfl _ _ (xPlusA_fold x hx)
  refine ⟨r, ?_⟩
  have hw := xPlusA_warns x hx
  simp only at hr
  rw [hw, xPlusA_render] at hr
  exact hr


/-- `10 DEF ABS(X) = X` is stored … -/
def absTokens : List (Token F) :=
  [.kw .Def, .symbol "ABS".toList, .kw .LeftParen, .symbol "X".toList, .kw .RightParen, .kw .Equals, .symbol "X".toList]

def absState (a : F) : St F :=
  { lines := { map := [(10, absTokens)], sorted := [10] },
    fns := [("ABS".toList, { args := ["X".toList], line := 10, idx := 6 })],
    imm := [.symbol "ABS".toList, .kw .LeftParen, .num a, .kw .RightParen] }

def absEnv (F : Type) : RefEnv F :=
  { vars := [], frames := [], arrays := [], rng := 0,
    fns := [("ABS".toList, { params := ["X".toList], body := .var "X".toList })] }

theorem abs_norm (a : F) : normalize (absEnv F).fns (.call "ABS".toList [.num a]) = .abs (.num a) := by
  have h : ("ABS".toList == Extracted.builtinAbs.toList) = true := by decide
  rw [normalize, normalizeL, normalizeL, normalize]
  unfold resolveNode
  rw [if_pos h]

theorem abs_normFns : normFns (absEnv F).fns = (absEnv F).fns := by
  simp [normFns, absEnv, normalize]

theorem abs_ready (a : F) :
    ReadyAny (absState a) (absEnv F) [] (.call "ABS".toList [.num a]) [] 33 defaultFuel where
  toks := by
    have : render2 (.call "ABS".toList [.num a] : Expr2 F)
        = [.symbol "ABS".toList, .kw .LeftParen, .num a, .kw .RightParen] := by simp [render2, renderArgs]
    rw [this]; rfl
  idx := rfl
  envOf := {
    vars := rfl
    frames := rfl
    arrays := rfl
    rng := rfl
    fns_undef := by
      intro name h
      simp only [absEnv, absState, alGet] at h ⊢
      split at h
      · cases h
      · rename_i hk; simp only [hk]; rfl
    fns_def := by
      intro name d h
      obtain ⟨rfl, rfl⟩ := alGet_single _ _ _ _ h
      refine ⟨{ args := ["X".toList], line := 10, idx := 6 }, absTokens.take 6, [], ?_, rfl, ?_, rfl, follows_nil⟩
      · simp [absState, alGet]
      · have : render2 (.var "X".toList : Expr2 F) = [.symbol "X".toList] := by simp [render2]
        rw [this]; rfl }
  arrays_ok := by intro p hp; cases hp
  rng_ok := by show (0 : Nat) < 2 ^ 33; decide
  stack := by show (0 : Nat) ≤ _; exact Nat.zero_le _
  specFuel := by show Extracted.stackLimit < 33 + 0; decide
  arity := by simp [Arity1, Arity1L]
  bodies := by
    intro name d h
    obtain ⟨rfl, rfl⟩ := alGet_single _ _ _ _ h
    simp only [Arity1]
  nesting := by
    show 0 + _ < _
    rw [abs_norm]
    simp [depth2, Extracted.nestingLimit]
  fuel := by
    rw [abs_norm]
    simp [depth2, defaultFuel, Extracted.nestingLimit]
  follows := follows_nil

/-- … but `ABS(a)` is the built-in: the value is `|a|`, not `a`; no frame is
    pushed, the cursor never leaves the line. -/
example (a : F) : ∃ r, orExpr (evalN defaultFuel) (absState a)
    = .ok (.num (NumOps.abs a)) { absState a with loc := { line := none, idx := 4 }, reads := r } := by
  have hf : fold2 33 (normEnv (absEnv F)) (normalize (absEnv F).fns (.call "ABS".toList [.num a]))
      = .ok (.num (NumOps.abs a), normEnv (absEnv F)) := by
    rw [abs_norm]; simp [fold2]
  obtain ⟨r, _, hr, _⟩ := (eval_render2_any_partial _ 33 defaultFuel _ _ [] [] (abs_ready a) rfl).1 _ _ hf
  refine ⟨r, ?_⟩
  have : render2 (.call "ABS".toList [.num a] : Expr2 F)
      = [.symbol "ABS".toList, .kw .LeftParen, .num a, .kw .RightParen] := by simp [render2, renderArgs]
  rw [hr, this]
  rfl

end Examples
end DemoNames

end Abasic.Props.C02
