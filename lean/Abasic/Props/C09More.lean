import Abasic.Props.C09
import Abasic.Proofs.CostLift
/-
  C09, the work bound: the token-cursor reads (`St.reads`, the `verif-hooks`
  counter: incremented by `peek`, through which every cursor primitive goes, and
  by INPUT's rewind) made by one host call are bounded linearly by the length of
  the line the call starts on, when the program has defined no function.

  Formulation of "no user-defined function": `σ.fns = []` at the start of the
  turn.  This is what holds after RUN / NEW / any program edit until a DEF
  statement is executed (`resetRuntime`, `setNumberedLine` clear the table), and
  it is the formulation under which the evaluator provably never enters the
  call protocol (`userFunctionCall` answers `none` at once).  A DEF statement
  executed *during* the turn is covered: nothing is evaluated after it in the
  same turn.

  `len` is the length of the line the turn STARTS on (`tlen σ`): after a jump
  (GOTO, GOSUB, RETURN, NEXT, END, STOP) at most a constant number of reads
  happen on the destination line, so its length does not enter.

  The accounting (Abasic/Proofs/Cost.lean, CostLift.lean): every token the
  cursor passes pays for 11 reads (a lone variable in an expression is looked
  at 10 times: 3 on the way down, 1 for a following `(`, 6 tier loops on the
  way up); INPUT's rewind costs one read per token it steps back.
-/
namespace Abasic.Props.C09
open Abasic Abasic.Cost Abasic.Hoare

variable {F : Type} [NumOps F]

/-! ### (a) the cursor primitives

  `ECost c out m`: started with `c` credits on a line-internal cursor, `m` stays
  on the line, moves the cursor forward only, and ends with `out result`
  credits, where a read costs 1 and a token passed yields 11.  So `c ↦ c - 1`
  is "exactly one read, cursor unmoved", `c ↦ c - 1 + 11` "one read, one token". -/

omit [NumOps F] in
/-- every read goes through `peek`, which is exactly one read and moves nothing -/
theorem peek_cost (σ : St F) :
    (peek σ).final = { σ with reads := σ.reads + 1 } ∧
    ∀ t σ', peek σ = .ok t σ' → t = (toks σ)[σ.loc.idx]? := by
  rcases peek_spec σ with h | ⟨e, h⟩
  · rw [h]; exact ⟨rfl, fun t σ' h' => by simp only [Res.ok.injEq] at h'; exact h'.1.symm⟩
  · rw [h]; exact ⟨rfl, fun t σ' h' => by cases h'⟩

omit [NumOps F] in
/-- `next`: exactly one read; the cursor advances by one exactly when a token is returned,
    and then it was inside the line -/
theorem next_cost (σ : St F) :
    (next σ).final.reads = σ.reads + 1 ∧
    (∀ σ', next σ = .ok none σ' → σ' = { σ with reads := σ.reads + 1 }) ∧
    (∀ t σ', next σ = .ok (some t) σ' → σ.loc.idx < tlen σ ∧
      σ' = { σ with reads := σ.reads + 1, loc := { σ.loc with idx := σ.loc.idx + 1 } }) := by
  rcases next_spec σ with ⟨h, _⟩ | ⟨t, h, ht⟩ | ⟨e, h⟩
  · rw [h]
    refine ⟨rfl, ?_, ?_⟩
    · intro σ' h'
      simp only [Res.ok.injEq, true_and] at h'
      exact h'.symm
    · intro t σ' h'
      simp only [Res.ok.injEq] at h'
      cases h'.1
  · rw [h]
    refine ⟨rfl, ?_, ?_⟩
    · intro σ' h'
      simp only [Res.ok.injEq] at h'
      cases h'.1
    · intro t' σ' h'
      simp only [Res.ok.injEq] at h'
      exact ⟨lt_of_getElem?_some ht, h'.2.symm⟩
  · rw [h]
    refine ⟨rfl, ?_, ?_⟩
    · intro σ' h'; cases h'
    · intro t σ' h'; cases h'

omit [NumOps F] in
theorem hasNext_cost {c : Nat} (h : 1 ≤ c) : ECost c (fun _ => c - 1) (hasNext (F := F)) := Cost.hasNext_cost h
omit [NumOps F] in
theorem nextUnwrapped_cost {c : Nat} (h : 1 ≤ c) : ECost c (fun _ => c - 1 + 11) (nextUnwrapped (F := F)) :=
  Cost.nextUnwrapped_cost h
omit [NumOps F] in
theorem expect_cost {c : Nat} (k : Kw) (h : 1 ≤ c) : ECost c (fun _ => c - 1 + 11) (expect (F := F) k) :=
  Cost.expect_cost k h
omit [NumOps F] in
theorem accept_cost {c : Nat} (k : Kw) (h : 1 ≤ c) :
    ECost c (fun b => if b then c - 1 + 11 else c - 1) (accept (F := F) k) := Cost.accept_cost k h
omit [NumOps F] in
theorem peekIsKw_cost {c : Nat} (k : Kw) (h : 1 ≤ c) : ECost c (fun _ => c - 1) (peekIsKw (F := F) k) :=
  Cost.peekIsKw_cost k h
omit [NumOps F] in
theorem tryNext_cost {α : Type} {c : Nat} (f : Token F → Option α) (h : 1 ≤ c) :
    ECost c (fun o => if o.isSome then c - 1 + 11 else c - 1) (tryNext f) := Cost.tryNext_cost f h
omit [NumOps F] in
/-- no read; the cursor goes to the end of the line -/
theorem discardRemaining_cost {c : Nat} : ECost c (fun _ => c) (discardRemaining (F := F)) :=
  Cost.discardRemaining_cost
omit [NumOps F] in
/-- INPUT's rewind: at most `len` reads -/
theorem rewindBeforeInput_cost (σ : St F) (h : σ.loc.idx ≤ tlen σ) :
    (rewindBeforeInput σ).final.reads ≤ σ.reads + tlen σ := by
  rcases tokens_spec σ with hk | ⟨e, hk⟩
  · cases hf : findInputBefore (toks σ) σ.loc.idx with
    | none =>
      have : rewindBeforeInput σ = .err { err := .panic "rewind_before_token: token not found" } σ := by
        simp only [rewindBeforeInput, bind, M.bindM, hk, M.get, hf]; rfl
      rw [this]; show σ.reads ≤ _; omega
    | some i =>
      have : rewindBeforeInput σ = .ok () { σ with loc := { σ.loc with idx := i }, reads := σ.reads + (σ.loc.idx - i) } := by
        simp only [rewindBeforeInput, bind, M.bindM, hk, M.get, hf]; rfl
      rw [this]; show σ.reads + (σ.loc.idx - i) ≤ _; omega
  · have : rewindBeforeInput σ = .err e σ := by
      simp only [rewindBeforeInput, bind, M.bindM, hk]
    rw [this]; show σ.reads ≤ _; omega

/-! ### (b) the expression evaluator -/

/-- (b) Without user functions, an expression evaluation stays on its line, moves the cursor
    forward, and reads every token it passes fewer than 11 times on average; a failing one
    is bounded by the rest of the line. -/
theorem expr_cost (n : Nat) (σ : St F) (hf : σ.fns = []) (hi : σ.loc.idx ≤ tlen σ) :
    (∀ v σ', (evalN n).expr σ = .ok v σ' →
      toks σ' = toks σ ∧ σ'.fns = [] ∧ σ.loc.idx ≤ σ'.loc.idx ∧ σ'.loc.idx ≤ tlen σ ∧
      σ'.reads + 1 ≤ σ.reads + 11 * (σ'.loc.idx - σ.loc.idx)) ∧
    (∀ e σ', (evalN n).expr σ = .err e σ' → σ'.reads ≤ σ.reads + 11 * (tlen σ - σ.loc.idx) + 3) := by
  have h := (cost_evalN (F := F) n).1 3 (Nat.le_refl _) σ ⟨hf, hi⟩
  constructor
  · intro v σ' hv
    obtain ⟨hs, h1, h2, h3⟩ := h.1 v σ' hv
    dsimp only at h3
    exact ⟨hs.toks, hs.fns.trans hf, h1, h2, by omega⟩
  · intro e σ' he
    exact h.2 e σ' he

/-! ### (c) the statement evaluator -/

/-- (c) Without user functions, one statement activation (nested THEN / ELSE statements included,
    whatever line it ends on) makes at most 11 reads per remaining token of the line it starts on,
    plus the length of that line (INPUT's rewind), plus one. -/
theorem stmt_cost (n : Nat) (σ : St F) (hf : σ.fns = []) (hi : σ.loc.idx ≤ tlen σ) :
    ((evalN n).stmt σ).final.reads ≤ σ.reads + 11 * (tlen σ - σ.loc.idx) + tlen σ + 1 := by
  have h := (cost_evalN (F := F) n).2 1 (Nat.le_refl _) σ ⟨hf, hi⟩
  cases hr : (evalN n).stmt σ with
  | ok a s => have := h.1 a s hr; unfold SBound at this; simp only [Res.final]; omega
  | err e s => have := h.2 e s hr; unfold SBound at this; simp only [Res.final]; omega

/-! ### (d) one turn -/

omit [NumOps F] in
/-- line sequencing after the statement: one read, wherever the statement ended -/
theorem sequence_flat : Flat 1 (sequence (F := F)) := by
  unfold sequence
  refine flat_bind (b := 0) hasNext_flat (fun b => ?_)
  cases b
  · refine flat_of_rr ?_
    simp only [Bool.not_false, ↓reduceIte]
    refine respects_bind rr_nextLine (fun b' => ?_)
    cases b'
    · simp only [Bool.not_false, ↓reduceIte]
      exact respects_bind (rr_setImmediate _) (fun _ => rr_returnToIdle)
    · simp only [Bool.not_true, Bool.false_eq_true, ↓reduceIte]
      exact respects_pure _
  · simp only [Bool.not_true, Bool.false_eq_true, ↓reduceIte]
    exact flat_pure _ _

/-- a turn in the credit accounting: three credits suffice besides those of the line -/
theorem turn_scost (fuel : Nat) (c : Nat) (hc : 3 ≤ c) : SCost c (c - 3) (runNextStatement (F := F) fuel) := by
  rw [turn_anatomy]
  have hmod : Respects RK (M.modify fun s : St F => { s with state := .running }) := by
    apply respects_modify
    intro σ; exact ⟨rfl, rfl, rfl, rfl, rfl⟩
  refine scost_bind (ecost_of_rk' hmod) (fun _ => ?_)
  refine scost_bind_bool (Cost.hasNext_cost (by omega)) ?_ ?_
  · simp only [↓reduceIte]
    have hev := cost_evalN (F := F) fuel
    exact scost_bind_flat (k := 1) (cost_stmtBody _ hev.1 hev.2 (c - 1) (by omega)) (fun _ => sequence_flat) (by omega)
  · simp only [Bool.false_eq_true, ↓reduceIte]
    exact scost_of_flat sequence_flat (by omega)

/-- a turn whose cursor is already past the end of the line runs no statement: two reads -/
theorem turn_exhausted (fuel : Nat) (σ : St F) (h : tlen σ ≤ σ.loc.idx) :
    (runNextStatement fuel σ).final.reads ≤ σ.reads + 2 := by
  rw [turn_anatomy]
  let σ1 : St F := { σ with state := .running }
  have hnone : (toks σ1)[σ1.loc.idx]? = none := by
    apply List.getElem?_eq_none
    exact h
  show (M.bindM (M.modify fun s => { s with state := .running }) _ σ).final.reads ≤ _
  simp only [M.bindM, M.modify]
  show (M.bindM hasNext _ σ1).final.reads ≤ _
  rcases peek_spec σ1 with hk | ⟨e, hk⟩
  · have hh : hasNext σ1 = .ok false { σ1 with reads := σ1.reads + 1 } := by
      simp only [hasNext, bind, M.bindM, hk, hnone]; rfl
    simp only [M.bindM, hh, Bool.false_eq_true, ↓reduceIte]
    have := sequence_flat (F := F) { σ1 with reads := σ1.reads + 1 }
    have h1 : ({ σ1 with reads := σ1.reads + 1 } : St F).reads = σ.reads + 1 := rfl
    rw [h1] at this
    exact this
  · have hh : hasNext σ1 = .err e { σ1 with reads := σ1.reads + 1 } := by
      simp only [hasNext, bind, M.bindM, hk]
    simp only [M.bindM, hh]
    show σ.reads + 1 ≤ _
    omega

/-- (d) One turn (`run_next_statement`) of a program that has defined no function makes at most
    `11 * (tokens left on the line) + len + 3` reads, on the success and on the error path alike. -/
theorem turn_cost (fuel : Nat) (σ : St F) (hf : σ.fns = []) :
    (runNextStatement fuel σ).final.reads ≤ σ.reads + 11 * (tlen σ - σ.loc.idx) + tlen σ + 3 := by
  by_cases hi : σ.loc.idx ≤ tlen σ
  · have h := turn_scost (F := F) fuel 3 (Nat.le_refl _) σ ⟨hf, hi⟩
    cases hr : runNextStatement fuel σ with
    | ok a s => have := h.1 a s hr; unfold SBound at this; simp only [Res.final]; omega
    | err e s => have := h.2 e s hr; unfold SBound at this; simp only [Res.final]; omega
  · have := turn_exhausted fuel σ (by omega)
    omega

omit [NumOps F] in
theorem postprocess_reads {α : Type} (m : M F α) (σ : St F) : (postprocess m σ).final.reads = (m σ).final.reads := by
  unfold postprocess
  cases m σ <;> rfl

/-- **C09, work bound.**  With `K = 12`, `K' = 3`: one host call `continue_evaluating`, in any state
    whose function table is empty, makes at most `K * len + K'` token-cursor reads, where `len` is
    the number of tokens of the line the call starts on; on the success and on the error path. -/
theorem work_bound (fuel : Nat) (σ : St F) (hf : σ.fns = []) :
    (continueEvaluating fuel σ).final.reads - σ.reads ≤ 12 * tlen σ + 3 := by
  have key : (continueEvaluating fuel σ).final.reads ≤ σ.reads + 11 * (tlen σ - σ.loc.idx) + tlen σ + 3 := by
    unfold continueEvaluating
    simp only [bind, M.bindM, M.get]
    by_cases hs : (σ.state != .running) = true
    · rw [if_pos hs]; show σ.reads ≤ _; omega
    · rw [if_neg hs, postprocess_reads]; exact turn_cost fuel σ hf
  omega

/-- the same with the constants existentially packaged, as the property is phrased -/
theorem work_bound_exists : ∃ K K' : Nat, ∀ (fuel : Nat) (σ : St F), σ.fns = [] →
    (∀ u σ', continueEvaluating fuel σ = .ok u σ' → σ'.reads - σ.reads ≤ K * tlen σ + K') ∧
    (∀ e σ', continueEvaluating fuel σ = .err e σ' → σ'.reads - σ.reads ≤ K * tlen σ + K') := by
  refine ⟨12, 3, fun fuel σ hf => ?_⟩
  have h := work_bound fuel σ hf
  constructor
  · intro u σ' hr; rw [hr] at h; exact h
  · intro e σ' hr; rw [hr] at h; exact h

/-- the first turn of an immediate line (`start_evaluating` of a line that is neither a command
    nor numbered) is the same turn: the bound holds from the state `setImmediate ts` produces -/
theorem work_bound_run (fuel : Nat) (σ : St F) (hf : σ.fns = []) :
    (runNextStatement fuel σ).final.reads - σ.reads ≤ 12 * tlen σ + 3 := by
  have := turn_cost fuel σ hf
  omega

end Abasic.Props.C09
