import Abasic.Props.C13More
import Abasic.Props.C12More
/-
  C13, the last item: the text of a token's range re-tokenizes to that token.

  One-step lemma (`nextToken_exact`): if `nextToken cs = .tok t r'` then the
  consumed text `m` (`cs = m ++ r'`) satisfies `nextToken m = .tok t []`.
  Every matcher is "prefix-closed" in two senses:
    * exactness: a matcher that succeeds on `cs` leaving `r` succeeds on what it
      consumed leaving nothing, with the same result (`*_exact`);
    * anti-monotonicity of failure: a matcher that fails on `m ++ r` fails on
      `m` (`*_none_prefix`), so every earlier alternative of `nextToken` that
      was rejected in the line is rejected in the slice as well.
  This holds for ALL token kinds of the model, including REM (its range runs
  to the end of the line and includes the keyword), DATA (the range includes
  the keyword and stops before the terminating colon; the item parser's
  `finish` at end of text does what it does at the colon) and identifiers
  (every keyword test the identifier scan makes inside the slice it made in
  the line with a longer text, where it failed).
-/
namespace Abasic.Props.C13
open Abasic
open Abasic.Props.C12 (numLoop_blank numLoop_digit numLoop_other symLoop_blank symLoop_invalid
  symLoop_dollar symLoop_kw symLoop_more symValid nextToken_kw nextToken_op nextToken_quote
  nextToken_noquote nextToken_nil afterQuote tokenize_ok_iff tokLoop_succ_tok tokLoop_succ_nil)

variable {F : Type} [NumOps F]

/-! ### white space -/

theorem skipWs_append_cons (m : Str) (c : Char) (r0 r : Str) (h : skipWs m = c :: r0) :
    skipWs (m ++ r) = c :: (r0 ++ r) := by
  induction m with
  | nil => simp [skipWs] at h
  | cons x m ih =>
    simp only [skipWs, List.cons_append] at h ⊢
    by_cases hx : isBasicWs x = true
    · simp only [hx, if_true] at h ⊢
      exact ih h
    · simp only [hx, Bool.false_eq_true, if_false] at h ⊢
      injection h with h1 h2
      rw [h1, h2]

theorem skipWs_blanks (ws : Str) (hws : ∀ x ∈ ws, isBasicWs x = true) (c : Char)
    (hc : isBasicWs c = false) (r : Str) : skipWs (ws ++ c :: r) = c :: r := by
  induction ws with
  | nil => simp [skipWs, hc]
  | cons x ws ih =>
    have hx : isBasicWs x = true := hws x (by simp)
    simp only [List.cons_append, skipWs, hx, if_true]
    exact ih (fun y hy => hws y (List.mem_cons_of_mem _ hy))

/-- `skipWs cs = c :: r0`: `cs` is blanks, then `c`, then `r0`; and the same
    with any other tail. -/
theorem skipWs_split (cs : Str) (c : Char) (r0 : Str) (h : skipWs cs = c :: r0) :
    ∃ ws, cs = ws ++ c :: r0 ∧ ∀ r1, skipWs (ws ++ c :: r1) = c :: r1 := by
  obtain ⟨ws, hws, hb⟩ := skipWs_suffix cs
  rw [h] at hws
  exact ⟨ws, hws, fun r1 => skipWs_blanks ws hb c (skipWs_nonblank cs c r0 h) r1⟩

/-! ### keywords -/

theorem chompKeyword_append (ks m r1 r : Str) (h : chompKeyword ks m = some r1) :
    chompKeyword ks (m ++ r) = some (r1 ++ r) := by
  induction ks generalizing m with
  | nil =>
    simp only [chompKeyword, Option.some.injEq] at h ⊢
    rw [h]
  | cons k ks ih =>
    cases hs : skipWs m with
    | nil => simp [chompKeyword, hs] at h
    | cons c r0 =>
      simp only [chompKeyword, hs] at h
      simp only [chompKeyword, skipWs_append_cons m c r0 r hs]
      split at h
      · rename_i hc
        simp only [hc, if_true]
        exact ih r0 h
      · cases h

theorem chompKeyword_none_prefix (ks m r : Str) (h : chompKeyword ks (m ++ r) = none) :
    chompKeyword ks m = none := by
  cases hm : chompKeyword ks m with
  | none => rfl
  | some r1 => rw [chompKeyword_append ks m r1 r hm] at h; cases h

theorem chompKeyword_exact (ks cs r : Str) (h : chompKeyword ks cs = some r) :
    ∃ m, cs = m ++ r ∧ chompKeyword ks m = some [] := by
  induction ks generalizing cs with
  | nil =>
    simp only [chompKeyword, Option.some.injEq] at h
    exact ⟨[], by simp [h], rfl⟩
  | cons k ks ih =>
    cases hs : skipWs cs with
    | nil => simp [chompKeyword, hs] at h
    | cons c r0 =>
      obtain ⟨ws, hws, hsk⟩ := skipWs_split cs c r0 hs
      simp only [chompKeyword, hs] at h
      split at h
      · rename_i hc
        obtain ⟨m0, hm0, hk0⟩ := ih r0 h
        refine ⟨ws ++ c :: m0, by rw [hws, hm0]; simp, ?_⟩
        simp only [chompKeyword, hsk m0, hc, if_true]
        exact hk0
      · cases h

theorem chompKeywordTable_none_prefix (tbl : List (String × Kw)) (m r : Str)
    (h : chompKeywordTable tbl (m ++ r) = none) : chompKeywordTable tbl m = none := by
  induction tbl with
  | nil => rfl
  | cons p rest ih =>
    obtain ⟨w, k⟩ := p
    simp only [chompKeywordTable] at h ⊢
    cases hc : chompKeyword w.toList (m ++ r) with
    | some r1 => rw [hc] at h; cases h
    | none =>
      rw [hc] at h
      rw [chompKeyword_none_prefix w.toList m r hc]
      exact ih h

theorem chompKeywordTable_exact (tbl : List (String × Kw)) (cs : Str) (k : Kw) (r : Str)
    (h : chompKeywordTable tbl cs = some (k, r)) :
    ∃ m, cs = m ++ r ∧ chompKeywordTable tbl m = some (k, []) := by
  induction tbl with
  | nil => simp [chompKeywordTable] at h
  | cons p rest ih =>
    obtain ⟨w, k'⟩ := p
    simp only [chompKeywordTable] at h
    cases hc : chompKeyword w.toList cs with
    | some r1 =>
      rw [hc] at h
      simp only [Option.some.injEq, Prod.mk.injEq] at h
      obtain ⟨rfl, rfl⟩ := h
      obtain ⟨m, hm, hk⟩ := chompKeyword_exact w.toList cs r1 hc
      refine ⟨m, hm, ?_⟩
      simp only [chompKeywordTable, hk]
    | none =>
      rw [hc] at h
      obtain ⟨m, hm, hk⟩ := ih h
      refine ⟨m, hm, ?_⟩
      rw [hm] at hc
      simp only [chompKeywordTable, chompKeyword_none_prefix w.toList m r hc]
      exact hk

theorem chompAnyKeyword_none_prefix (m r : Str) (h : chompAnyKeyword (m ++ r) = none) :
    chompAnyKeyword m = none :=
  chompKeywordTable_none_prefix _ m r h

theorem chompAnyKeyword_exact (cs : Str) (k : Kw) (r : Str) (h : chompAnyKeyword cs = some (k, r)) :
    ∃ m, cs = m ++ r ∧ chompAnyKeyword m = some (k, []) :=
  chompKeywordTable_exact _ cs k r h

theorem chompAnyKeyword_nil : chompAnyKeyword [] = none := by decide

/-! ### one- and two-character operators -/

theorem chompOneOrTwo_none_prefix (m r : Str) (h : chompOneOrTwo (m ++ r) = none) :
    chompOneOrTwo m = none := by
  cases hs : skipWs m with
  | nil => unfold chompOneOrTwo; simp only [hs]
  | cons c r0 =>
    unfold chompOneOrTwo at h ⊢
    simp only [skipWs_append_cons m c r0 r hs] at h
    simp only [hs]
    cases hl : Extracted.oneChar.lookup c with
    | none => rfl
    | some k =>
      simp only [hl] at h
      split at h
      · cases h
      · split at h <;> cases h

theorem chompOneOrTwo_exact (cs : Str) (k : Kw) (r : Str) (h : chompOneOrTwo cs = some (k, r)) :
    ∃ m, cs = m ++ r ∧ chompOneOrTwo m = some (k, []) := by
  unfold chompOneOrTwo at h
  cases hs : skipWs cs with
  | nil => simp [hs] at h
  | cons c r0 =>
    obtain ⟨ws, hws, hsk⟩ := skipWs_split cs c r0 hs
    simp only [hs] at h
    cases hl : Extracted.oneChar.lookup c with
    | none => simp [hl] at h
    | some k1 =>
      simp only [hl] at h
      have hone : chompOneOrTwo (ws ++ [c]) = some (k1, []) := by
        unfold chompOneOrTwo
        simp only [hsk [], hl, skipWs]
      cases hs2 : skipWs r0 with
      | nil =>
        simp only [hs2, Option.some.injEq, Prod.mk.injEq] at h
        obtain ⟨rfl, rfl⟩ := h
        exact ⟨ws ++ [c], by rw [hws]; simp, hone⟩
      | cons c2 r2 =>
        obtain ⟨ws2, hws2, hsk2⟩ := skipWs_split r0 c2 r2 hs2
        simp only [hs2] at h
        cases hl2 : lookupTwo Extracted.twoChar k1 c2 with
        | none =>
          simp only [hl2, Option.some.injEq, Prod.mk.injEq] at h
          obtain ⟨rfl, rfl⟩ := h
          exact ⟨ws ++ [c], by rw [hws]; simp, hone⟩
        | some k2 =>
          simp only [hl2, Option.some.injEq, Prod.mk.injEq] at h
          obtain ⟨rfl, rfl⟩ := h
          refine ⟨ws ++ c :: (ws2 ++ [c2]), by rw [hws, hws2]; simp, ?_⟩
          unfold chompOneOrTwo
          simp only [hsk (ws2 ++ [c2]), hl, hsk2 [], hl2]

/-! ### string literals -/

theorem splitAtQuote_exact (q s r : Str) (h : splitAtQuote q = some (s, r)) (r2 : Str) :
    splitAtQuote (s ++ '"' :: r2) = some (s, r2) := by
  induction q generalizing s with
  | nil => simp [splitAtQuote] at h
  | cons c cs ih =>
    simp only [splitAtQuote] at h
    split at h
    · simp only [Option.some.injEq, Prod.mk.injEq] at h
      obtain ⟨rfl, rfl⟩ := h
      simp [splitAtQuote]
    · rename_i hc
      cases hq : splitAtQuote cs with
      | none => simp [hq] at h
      | some p =>
        obtain ⟨a, r1⟩ := p
        simp only [hq, Option.some.injEq, Prod.mk.injEq] at h
        obtain ⟨rfl, rfl⟩ := h
        simp only [List.cons_append, splitAtQuote, hc, ih a hq, Bool.false_eq_true, ↓reduceIte]

/-! ### numbers -/

theorem numLoop_nil_eq : numLoop [] = ([], []) := rfl

theorem numLoop_exact (cs d r : Str) (h : numLoop cs = (d, r)) (hd : d ≠ []) :
    ∃ m, cs = m ++ r ∧ numLoop m = (d, []) := by
  induction cs generalizing d r with
  | nil => simp [numLoop] at h; exact absurd h.1 hd
  | cons c cs ih =>
    by_cases hb : isBasicWs c = true
    · rw [numLoop_blank c hb] at h
      by_cases he : (numLoop cs).1.isEmpty = true
      · rw [if_pos he] at h
        injection h with h1 _
        exact absurd h1.symm hd
      · rw [if_neg he] at h
        obtain ⟨m, hm, hn⟩ := ih d r h hd
        refine ⟨c :: m, by rw [hm]; rfl, ?_⟩
        rw [numLoop_blank c hb, hn]
        have : ¬ d.isEmpty = true := by rw [h] at he; exact he
        rw [if_neg this]
    · by_cases hg : (isAsciiDigit c || c == '.') = true
      · rw [numLoop_digit c hb hg] at h
        injection h with h1 h2
        cases hd1 : (numLoop cs).1 with
        | nil =>
          have h3 := numLoop_nil cs hd1
          refine ⟨[c], by rw [← h2, h3]; rfl, ?_⟩
          rw [numLoop_digit c hb hg, numLoop_nil_eq, ← h1, hd1]
        | cons a as =>
          obtain ⟨m, hm, hn⟩ := ih (a :: as) r (by rw [← hd1, ← h2]) (by simp)
          refine ⟨c :: m, by rw [hm]; rfl, ?_⟩
          rw [numLoop_digit c hb hg, hn, ← h1, hd1]
      · rw [numLoop_other c hb hg] at h
        injection h with h1 _
        exact absurd h1.symm hd

theorem numLoop_nil_prefix (m r : Str) (h : (numLoop (m ++ r)).1 = []) : (numLoop m).1 = [] := by
  induction m with
  | nil => rfl
  | cons c m ih =>
    rw [List.cons_append] at h
    by_cases hb : isBasicWs c = true
    · rw [numLoop_blank c hb] at h ⊢
      by_cases he : (numLoop (m ++ r)).1.isEmpty = true
      · have : (numLoop m).1 = [] := ih (by simpa using he)
        rw [this]; rfl
      · rw [if_neg he] at h
        rw [h] at he
        exact absurd rfl he
    · by_cases hg : (isAsciiDigit c || c == '.') = true
      · rw [numLoop_digit c hb hg] at h; cases h
      · rw [numLoop_other c hb hg]

/-! ### identifiers -/

theorem symLoop_nil_eq (first : Bool) : symLoop first [] = ([], []) := rfl

theorem symLoop_exact (first : Bool) (cs d r : Str) (h : symLoop first cs = (d, r)) (hd : d ≠ []) :
    ∃ m, cs = m ++ r ∧ symLoop first m = (d, []) := by
  induction cs generalizing first d r with
  | nil => simp [symLoop] at h; exact absurd h.1 hd
  | cons c cs ih =>
    by_cases hb : isBasicWs c = true
    · rw [symLoop_blank first c hb] at h
      by_cases he : (symLoop first cs).1.isEmpty = true
      · rw [if_pos he] at h
        injection h with h1 _
        exact absurd h1.symm hd
      · rw [if_neg he] at h
        obtain ⟨m, hm, hn⟩ := ih first d r h hd
        refine ⟨c :: m, by rw [hm]; rfl, ?_⟩
        rw [symLoop_blank first c hb, hn]
        have : ¬ d.isEmpty = true := by rw [h] at he; exact he
        rw [if_neg this]
    · cases hv : symValid first c with
      | false =>
        rw [symLoop_invalid first c hb hv] at h
        injection h with h1 _
        exact absurd h1.symm hd
      | true =>
        by_cases hdl : (c == '$') = true
        · rw [symLoop_dollar first c hb hv hdl] at h
          injection h with h1 h2
          refine ⟨[c], by rw [← h2]; rfl, ?_⟩
          rw [symLoop_dollar first c hb hv hdl, h1]
        · have hknil : ¬ (chompAnyKeyword []).isSome = true := by
            rw [chompAnyKeyword_nil]; simp
          by_cases hk : (chompAnyKeyword cs).isSome = true
          · rw [symLoop_kw first c hb hv hdl cs hk] at h
            injection h with h1 h2
            refine ⟨[c], by rw [← h2]; rfl, ?_⟩
            rw [symLoop_more first c hb hv hdl [] hknil, symLoop_nil_eq, h1]
          · rw [symLoop_more first c hb hv hdl cs hk] at h
            injection h with h1 h2
            cases hd1 : (symLoop false cs).1 with
            | nil =>
              have h3 := symLoop_nil false cs hd1
              refine ⟨[c], by rw [← h2, h3]; rfl, ?_⟩
              rw [symLoop_more first c hb hv hdl [] hknil, symLoop_nil_eq, ← h1, hd1]
            | cons a as =>
              obtain ⟨m, hm, hn⟩ := ih false (a :: as) r (by rw [← hd1, ← h2]) (by simp)
              refine ⟨c :: m, by rw [hm]; rfl, ?_⟩
              have hk' : ¬ (chompAnyKeyword m).isSome = true := by
                have : chompAnyKeyword (m ++ r) = none := by
                  rw [← hm]
                  cases hq : chompAnyKeyword cs with
                  | none => rfl
                  | some p => rw [hq] at hk; exact absurd rfl hk
                rw [chompAnyKeyword_none_prefix m r this]; simp
              rw [symLoop_more first c hb hv hdl m hk', hn, ← h1, hd1]

/-! ### the DATA item parser -/

theorem pushCurrent_finished (p : DataParser F) : p.pushCurrent.finished = p.finished := rfl
theorem pushCurrent_chomped (p : DataParser F) : p.pushCurrent.chomped = p.chomped := rfl

theorem finish_chomped (p : DataParser F) : p.finish.chomped = p.chomped := by
  unfold DataParser.finish
  split
  · rfl
  · split
    · rfl
    · split <;> rfl

theorem finish_finished (p : DataParser F) : p.finish.finished = true := by
  unfold DataParser.finish
  split
  · assumption
  · rfl

theorem finish_of_finished (p : DataParser F) (h : p.finished = true) : p.finish = p := by
  unfold DataParser.finish
  rw [if_pos h]

/-- the first half of `parse_char`, before the byte count is advanced -/
def parseCore (p : DataParser F) (c : Char) : DataParser F :=
  if !p.inQuote then
    if c == ':' then p.finish
    else if c == ',' then
      if !(trim p.cur).isEmpty then p.pushCurrent else p
    else if c == '"' then
      if (trim p.cur).isEmpty then { p with cur := [], inQuote := true }
      else { p with cur := p.cur ++ [c] }
    else { p with cur := p.cur ++ [c] }
  else
    if c == '"' then { p.pushCurrent with inQuote := false }
    else { p with cur := p.cur ++ [c] }

theorem parseChar_eq (p : DataParser F) (c : Char) :
    p.parseChar c =
      if !(parseCore p c).finished then
        { parseCore p c with chomped := (parseCore p c).chomped + c.utf8Size }
      else parseCore p c := rfl

theorem parseCore_chomped (p : DataParser F) (c : Char) : (parseCore p c).chomped = p.chomped := by
  unfold parseCore
  split
  · split
    · exact finish_chomped p
    · split
      · split <;> rfl
      · split
        · split <;> rfl
        · rfl
  · split <;> rfl

/-- the only way `parse_char` finishes is the `finish` at an unquoted colon -/
theorem parseCore_finished (p : DataParser F) (c : Char) (hp : p.finished = false)
    (h : (parseCore p c).finished = true) : parseCore p c = p.finish := by
  unfold parseCore at h ⊢
  split at h
  · rename_i hq
    rw [if_pos hq]
    split at h
    · rename_i hc
      rw [if_pos hc]
    · exfalso
      split at h
      · split at h
        · rw [pushCurrent_finished, hp] at h; cases h
        · rw [hp] at h; cases h
      · split at h
        · split at h <;> (simp only [hp] at h; cases h)
        · simp only [hp] at h; cases h
  · exfalso
    split at h
    · simp only [pushCurrent_finished, hp] at h; cases h
    · simp only [hp] at h; cases h

theorem parseChar_not_finished (p : DataParser F) (c : Char) (h : (p.parseChar c).finished = false) :
    (p.parseChar c).chomped = p.chomped + c.utf8Size := by
  rw [parseChar_eq] at h ⊢
  by_cases hf : (parseCore p c).finished = true
  · simp only [hf, Bool.not_true, Bool.false_eq_true, if_false] at h
    cases h
  · have hf' : (parseCore p c).finished = false := by simpa using hf
    simp only [hf', Bool.not_false, if_true]
    rw [parseCore_chomped]

theorem parseChar_finished (p : DataParser F) (c : Char) (hp : p.finished = false)
    (h : (p.parseChar c).finished = true) : p.parseChar c = p.finish := by
  rw [parseChar_eq] at h ⊢
  by_cases hf : (parseCore p c).finished = true
  · simp only [hf, Bool.not_true, Bool.false_eq_true, if_false]
    exact parseCore_finished p c hp hf
  · have hf' : (parseCore p c).finished = false := by simpa using hf
    simp only [hf', Bool.not_false, if_true] at h
    cases h

theorem run_nil (p : DataParser F) : DataParser.run p [] = p := rfl

theorem run_cons (p : DataParser F) (c : Char) (cs : Str) :
    DataParser.run p (c :: cs) =
      if (p.parseChar c).finished then p.parseChar c else DataParser.run (p.parseChar c) cs := rfl

/-- The item parser reads a prefix `pre` of the text without finishing, and what
    it returns for the whole text is what `finish` makes of its state after `pre`
    (either `pre` is everything, or the next character is the terminating colon). -/
theorem run_split (s : Str) (p : DataParser F) (hp : p.finished = false) :
    ∃ pre post, s = pre ++ post ∧ (DataParser.run p pre).finished = false ∧
      (DataParser.run p pre).chomped = p.chomped + len8 pre ∧
      (DataParser.run p s).finish = (DataParser.run p pre).finish := by
  induction s generalizing p with
  | nil => exact ⟨[], [], rfl, hp, by simp [run_nil, len8], rfl⟩
  | cons c cs ih =>
    by_cases hf : (p.parseChar c).finished = true
    · refine ⟨[], c :: cs, rfl, hp, by simp [run_nil, len8], ?_⟩
      rw [run_cons, if_pos hf, run_nil, parseChar_finished p c hp hf]
      exact finish_of_finished _ (finish_finished p)
    · have hf' : (p.parseChar c).finished = false := by simpa using hf
      obtain ⟨pre, post, hs, h1, h2, h3⟩ := ih (p.parseChar c) hf'
      refine ⟨c :: pre, post, by rw [hs]; rfl, ?_, ?_, ?_⟩
      · rw [run_cons, if_neg hf]; exact h1
      · rw [run_cons, if_neg hf, h2, parseChar_not_finished p c hf']
        simp only [len8]; omega
      · rw [run_cons, if_neg hf, run_cons, if_neg hf]; exact h3

theorem parseData_eq (s : Str) :
    parseData (F := F) s =
      ((DataParser.run ({} : DataParser F) s).finish.elements,
       (DataParser.run ({} : DataParser F) s).finish.chomped) := rfl

theorem dropBytes_len8_append (pre post : Str) : dropBytes (len8 pre) (pre ++ post) = post := by
  induction pre with
  | nil => simp only [len8, List.nil_append]; cases post <;> rfl
  | cons c pre ih =>
    have hpos := Char.utf8Size_pos c
    simp only [len8, List.cons_append]
    obtain ⟨n, hn⟩ : ∃ n, c.utf8Size + len8 pre = n + 1 := ⟨c.utf8Size + len8 pre - 1, by omega⟩
    rw [hn, dropBytes]
    have : n + 1 - c.utf8Size = len8 pre := by omega
    rw [this]; exact ih

/-- `parse_data_until_colon` on the text it consumed gives the same items and
    consumes all of it. -/
theorem parseData_exact (r : Str) :
    ∃ pre, r = pre ++ dropBytes (parseData (F := F) r).2 r ∧
      parseData (F := F) pre = ((parseData (F := F) r).1, len8 pre) ∧
      (parseData (F := F) r).2 = len8 pre := by
  obtain ⟨pre, post, hs, h1, h2, h3⟩ := run_split (F := F) r {} rfl
  have hch : (parseData (F := F) r).2 = len8 pre := by
    rw [parseData_eq]
    simp only
    rw [h3, finish_chomped, h2]
    show 0 + len8 pre = len8 pre
    omega
  refine ⟨pre, ?_, ?_, hch⟩
  · rw [hch]
    conv => rhs; rw [hs, dropBytes_len8_append]
    exact hs
  · obtain ⟨pre2, post2, hs2, _, _, _⟩ := run_split (F := F) pre {} rfl
    rw [parseData_eq, parseData_eq]
    simp only
    rw [h3, finish_chomped, h2]
    show _ = (_, len8 pre)
    congr 1
    show 0 + len8 pre = len8 pre
    omega

/-! ### one `nextToken` -/

theorem afterQuote_nil : afterQuote (F := F) [] = .illegalChar := by
  unfold afterQuote; rfl

/-- numbers, REM, DATA, identifiers -/
theorem afterQuote_exact (cs : Str) (t : Token F) (r' : Str)
    (h : afterQuote (F := F) cs = .tok t r') :
    ∃ m, cs = m ++ r' ∧ afterQuote (F := F) m = .tok t [] := by
  unfold afterQuote at h
  split at h
  · -- a number
    rename_i c d r hn
    obtain ⟨m, hm, hnm⟩ := numLoop_exact cs (c :: d) r hn (by simp)
    split at h
    · rename_i x hx
      split at h
      · rename_i hfin
        injection h with h1 h2
        subst h1 h2
        refine ⟨m, hm, ?_⟩
        unfold afterQuote
        simp only [hnm, hx, hfin, if_true]
      · cases h
    · cases h
  · rename_i r0 hn
    have hn1 : (numLoop cs).1 = [] := by rw [hn]
    split at h
    · -- REM: everything to the end of the line
      rename_i r hr
      injection h with h1 h2
      subst h1 h2
      refine ⟨cs, by simp, ?_⟩
      unfold afterQuote
      simp only [hn, hr]
    · rename_i hrem
      split at h
      · -- DATA
        rename_i r hr
        obtain ⟨kwp, hkwp, hkw⟩ := chompKeyword_exact _ cs r hr
        obtain ⟨pre, hpre, hpd, hlen⟩ := parseData_exact (F := F) r
        cases hp : parseData (F := F) r with
        | mk items n =>
          rw [hp] at h hpre hpd hlen
          simp only at h hpre hpd hlen
          injection h with h1 h2
          subst h1 h2
          have hcs : cs = (kwp ++ pre) ++ dropBytes n r := by
            rw [List.append_assoc, ← hpre]; exact hkwp
          refine ⟨kwp ++ pre, hcs, ?_⟩
          have hnum : (numLoop (kwp ++ pre)).1 = [] :=
            numLoop_nil_prefix _ (dropBytes n r) (by rw [← hcs]; exact hn1)
          have hrem' : chompKeyword Extracted.remKeyword.toList (kwp ++ pre) = none :=
            chompKeyword_none_prefix _ _ (dropBytes n r) (by rw [← hcs]; exact hrem)
          have hdata' : chompKeyword Extracted.dataKeyword.toList (kwp ++ pre) = some pre := by
            have := chompKeyword_append _ kwp [] pre hkw
            simpa using this
          unfold afterQuote
          cases hnl : numLoop (kwp ++ pre) with
          | mk d1 r1 =>
            rw [hnl] at hnum
            simp only at hnum
            subst hnum
            simp only [hrem', hdata', hpd]
            have := dropBytes_len8_append pre []
            simp only [List.append_nil] at this
            rw [this]
      · rename_i hdata
        split at h
        · -- an identifier
          rename_i c d r hs
          injection h with h1 h2
          subst h1 h2
          obtain ⟨m, hm, hsm⟩ := symLoop_exact true cs (c :: d) r hs (by simp)
          refine ⟨m, hm, ?_⟩
          have hnum : (numLoop m).1 = [] :=
            numLoop_nil_prefix m r (by rw [← hm]; exact hn1)
          have hrem' : chompKeyword Extracted.remKeyword.toList m = none :=
            chompKeyword_none_prefix _ m r (by rw [← hm]; exact hrem)
          have hdata' : chompKeyword Extracted.dataKeyword.toList m = none :=
            chompKeyword_none_prefix _ m r (by rw [← hm]; exact hdata)
          unfold afterQuote
          cases hnl : numLoop m with
          | mk d1 r1 =>
            rw [hnl] at hnum
            simp only at hnum
            subst hnum
            simp only [hrem', hdata', hsm]
        · cases h

/-- The one-step lemma: the text consumed by a successful `nextToken`
    re-tokenizes, on its own, to the same token with nothing left over. -/
theorem nextToken_exact (cs : Str) (t : Token F) (r' : Str)
    (h : nextToken (F := F) cs = .tok t r') :
    ∃ m, cs = m ++ r' ∧ nextToken (F := F) m = .tok t [] := by
  cases hk : chompAnyKeyword cs with
  | some p =>
    obtain ⟨k, r⟩ := p
    rw [nextToken_kw cs k r hk] at h
    injection h with h1 h2
    subst h1 h2
    obtain ⟨m, hm, hkm⟩ := chompAnyKeyword_exact cs k r hk
    exact ⟨m, hm, nextToken_kw m k [] hkm⟩
  | none =>
    cases ho : chompOneOrTwo cs with
    | some p =>
      obtain ⟨k, r⟩ := p
      rw [nextToken_op cs k r hk ho] at h
      injection h with h1 h2
      subst h1 h2
      obtain ⟨m, hm, hom⟩ := chompOneOrTwo_exact cs k r ho
      have hkm : chompAnyKeyword m = none :=
        chompAnyKeyword_none_prefix m r (by rw [← hm]; exact hk)
      exact ⟨m, hm, nextToken_op m k [] hkm hom⟩
    | none =>
      cases cs with
      | nil => rw [nextToken_nil] at h; cases h
      | cons c tl =>
        by_cases hc : c = '"'
        · subst hc
          rw [nextToken_quote tl hk ho] at h
          cases hq : splitAtQuote tl with
          | none => rw [hq] at h; cases h
          | some p =>
            obtain ⟨s, r⟩ := p
            rw [hq] at h
            simp only at h
            injection h with h1 h2
            subst h1 h2
            have hcs : '"' :: tl = ('"' :: (s ++ ['"'])) ++ r := by
              rw [splitAtQuote_eq tl s r hq]; simp
            refine ⟨'"' :: (s ++ ['"']), hcs, ?_⟩
            have hkm := chompAnyKeyword_none_prefix _ r (by rw [← hcs]; exact hk)
            have hom := chompOneOrTwo_none_prefix _ r (by rw [← hcs]; exact ho)
            rw [nextToken_quote _ hkm hom, splitAtQuote_exact tl s r hq []]
        · rw [nextToken_noquote c tl hc hk ho] at h
          obtain ⟨m, hm, ham⟩ := afterQuote_exact (c :: tl) t r' h
          refine ⟨m, hm, ?_⟩
          cases m with
          | nil => rw [afterQuote_nil] at ham; cases ham
          | cons x m0 =>
            have hx : x = c := by
              rw [List.cons_append] at hm
              injection hm with h1 _
              exact h1.symm
            subst hx
            have hkm := chompAnyKeyword_none_prefix _ r' (by rw [← hm]; exact hk)
            have hom := chompOneOrTwo_none_prefix _ r' (by rw [← hm]; exact ho)
            rw [nextToken_noquote x m0 hc hkm hom]
            exact ham

/-- … in the form of the task: for *the* split `cs = m ++ r'`. -/
theorem nextToken_prefix (cs m : Str) (t : Token F) (r' : Str)
    (h : nextToken (F := F) cs = .tok t r') (hcs : cs = m ++ r') :
    nextToken (F := F) m = .tok t [] := by
  obtain ⟨m', hm', hn⟩ := nextToken_exact cs t r' h
  have : m = m' := List.append_cancel_right (by rw [← hcs, ← hm'])
  rw [this]; exact hn

/-! ### whole slices -/

/-- A text that starts on a non-blank and is consumed by one `nextToken`
    tokenizes to exactly that token. -/
theorem tokenize_single (c : Char) (m0 : Str) (t : Token F) (hc : isBasicWs c = false)
    (h : nextToken (F := F) (c :: m0) = .tok t []) : tokenize (F := F) (c :: m0) 0 = .ok [t] := by
  rw [tokenize_ok_iff]
  have hs : skipWs (c :: m0) = c :: m0 := by simp [skipWs, hc]
  obtain ⟨a, b, hab⟩ := tokLoop_succ_tok (F := F) (m0.length + 1) (c :: m0) 0 [] c m0 hs t [] h
  have hlen : (c :: m0).length + 1 = (m0.length + 1) + 1 := by simp
  rw [hlen, hab, tokLoop_succ_nil m0.length [] b [(t, a, b)] rfl]
  exact ⟨rfl, rfl⟩

omit [NumOps F] in
/-- a byte position determines the prefix of whole characters before it -/
theorem len8_split_unique (a b x y : Str) (h : a ++ x = b ++ y) (hl : len8 a = len8 b) :
    a = b ∧ x = y := by
  induction a generalizing b with
  | nil =>
    cases b with
    | nil => exact ⟨rfl, by simpa using h⟩
    | cons d b => have := len8_cons_pos d b; simp only [len8] at hl this; omega
  | cons c a ih =>
    cases b with
    | nil => have := len8_cons_pos c a; simp only [len8] at hl this; omega
    | cons d b =>
      simp only [List.cons_append, List.cons.injEq] at h
      obtain ⟨rfl, h2⟩ := h
      simp only [len8] at hl
      obtain ⟨h3, h4⟩ := ih b h2 (by omega)
      exact ⟨by rw [h3], h4⟩

/-- `m` is the run of whole characters of `whole` occupying bytes `[a, b)`. -/
def Slice (whole : Str) (a b : Nat) (m : Str) : Prop :=
  ∃ p s, whole = p ++ m ++ s ∧ len8 p = a ∧ a + len8 m = b

theorem Slice.unique {whole : Str} {a b : Nat} {m m' : Str}
    (h : Slice whole a b m) (h' : Slice whole a b m') : m = m' := by
  obtain ⟨p, s, hw, hp, hm⟩ := h
  obtain ⟨p', s', hw', hp', hm'⟩ := h'
  have e : p ++ (m ++ s) = p' ++ (m' ++ s') := by
    rw [← List.append_assoc, ← List.append_assoc, ← hw, ← hw']
  obtain ⟨_, e2⟩ := len8_split_unique p p' _ _ e (by omega)
  exact (len8_split_unique m m' s s' e2 (by omega)).1

omit [NumOps F] in
theorem RangeExact.slice {whole : Str} {t : Token F} {a b : Nat} (h : RangeExact whole t a b) :
    ∃ m, Slice whole a b m := by
  obtain ⟨p, m, s, hw, hp, hm, _⟩ := h
  exact ⟨m, p, s, hw, hp, hm⟩

/-- Invariant of the main loop (`whole = done ++ cs`, `idx = len8 done`): every
    token it appends comes with a slice of `whole` at its range that tokenizes
    to exactly that token. -/
theorem tokLoop_self (fuel : Nat) (cs : Str) (idx : Nat) (acc : List (RangedToken F))
    (whole done : Str) (hw : whole = done ++ cs) (hidx : len8 done = idx) :
    ∃ out, (tokLoop fuel cs idx acc).1 = acc.reverse ++ out ∧
      ∀ t a b, (t, a, b) ∈ out → ∃ m, Slice whole a b m ∧ tokenize (F := F) m 0 = .ok [t] := by
  induction fuel generalizing cs idx acc done with
  | zero => exact ⟨[], by simp [tokLoop], by simp⟩
  | succ fuel ih =>
    obtain ⟨ws, hws, _, hlen, _⟩ := skipWs_suffix' cs
    have hnb := skipWs_nonblank cs
    unfold tokLoop
    simp only
    generalize skipWs cs = r at hws hlen hnb ⊢
    cases r with
    | nil => exact ⟨[], by simp, by simp⟩
    | cons c r0 =>
      simp only
      have hc : isBasicWs c = false := hnb c r0 rfl
      cases hn : nextToken (F := F) (c :: r0) with
      | tok t rest =>
        simp only
        obtain ⟨pre, hcr, hself⟩ := nextToken_exact (c :: r0) t rest hn
        have hl : len8 (c :: r0) = len8 pre + len8 rest := by rw [hcr]; exact len8_append pre rest
        have hstart : idx + (len8 cs - len8 (c :: r0)) = idx + len8 ws := by omega
        have hstop : idx + (len8 cs - len8 (c :: r0)) + (len8 (c :: r0) - len8 rest) =
            idx + len8 ws + len8 pre := by omega
        rw [hstop, hstart]
        have hw' : whole = (done ++ ws ++ pre) ++ rest := by
          rw [hw, hws, hcr]; simp
        obtain ⟨out, hout, hall⟩ := ih rest (idx + len8 ws + len8 pre)
          ((t, idx + len8 ws, idx + len8 ws + len8 pre) :: acc) (done ++ ws ++ pre) hw'
          (by rw [len8_append, len8_append, hidx])
        refine ⟨(t, idx + len8 ws, idx + len8 ws + len8 pre) :: out, ?_, ?_⟩
        · rw [hout]; simp
        · intro t' a b hmem
          rcases List.mem_cons.mp hmem with heq | hmem
          · simp only [Prod.mk.injEq] at heq
            obtain ⟨rfl, rfl, rfl⟩ := heq
            refine ⟨pre, ⟨done ++ ws, rest, hw', by rw [len8_append, hidx], rfl⟩, ?_⟩
            cases pre with
            | nil => rw [nextToken_nil] at hself; cases hself
            | cons x m0 =>
              have hx : x = c := by
                rw [List.cons_append] at hcr
                injection hcr with h1 _
                exact h1.symm
              subst hx
              exact tokenize_single x m0 t' hc hself
          · exact hall t' a b hmem
      | illegalChar => exact ⟨[], by simp, by simp⟩
      | unterminated => exact ⟨[], by simp, by simp⟩
      | invalidNumber r'' => exact ⟨[], by simp, by simp⟩

/-- **C13, self-tokenisation.**  For every line and every token `t` reported
    with range `[a, b)` — of EVERY kind: keyword, operator, string, number,
    identifier, REM, DATA — the run `m` of whole characters of the line that
    occupies bytes `[a, b)` tokenizes to exactly `[t]`.  (Also for the tokens
    reported before a tokenization error.) -/
theorem self_tokenise (line : Str) (t : Token F) (a b : Nat)
    (hmem : (t, a, b) ∈ (tokenizeRanges (F := F) line 0).1)
    (m : Str) (hm : Slice line a b m) : tokenize (F := F) m 0 = .ok [t] := by
  unfold tokenizeRanges at hmem
  simp only [dropBytes] at hmem
  obtain ⟨out, hout, hall⟩ := tokLoop_self (F := F) line.length.succ line 0 [] line [] rfl rfl
  rw [hout] at hmem
  obtain ⟨m', hs', ht⟩ := hall t a b (by simpa using hmem)
  rw [hm.unique hs']; exact ht

/-- the same with the decomposition written out -/
theorem self_tokenise' (line : Str) (t : Token F) (a b : Nat)
    (hmem : (t, a, b) ∈ (tokenizeRanges (F := F) line 0).1)
    (p m s : Str) (hline : line = p ++ m ++ s) (hp : len8 p = a) (hb : a + len8 m = b) :
    tokenize (F := F) m 0 = .ok [t] :=
  self_tokenise line t a b hmem m ⟨p, s, hline, hp, hb⟩

/-- … and such a slice exists; it is the one `RangeExact` speaks about. -/
theorem self_tokenise_exists (line : Str) (t : Token F) (a b : Nat)
    (hmem : (t, a, b) ∈ (tokenizeRanges (F := F) line 0).1) :
    ∃ m, Slice line a b m ∧ tokenize (F := F) m 0 = .ok [t] := by
  obtain ⟨m, hm⟩ := (ranges_exact_zero line t a b hmem).slice
  exact ⟨m, hm, self_tokenise line t a b hmem m hm⟩

/-- The same for a tokenizer started at a byte offset on a character boundary. -/
theorem self_tokenise_skip (line : Str) (skip : Nat)
    (hskip : ∃ pre, line = pre ++ dropBytes skip line ∧ len8 pre = skip)
    (t : Token F) (a b : Nat)
    (hmem : (t, a, b) ∈ (tokenizeRanges (F := F) line skip).1)
    (m : Str) (hm : Slice line a b m) : tokenize (F := F) m 0 = .ok [t] := by
  obtain ⟨pre, hline, hpre⟩ := hskip
  unfold tokenizeRanges at hmem
  simp only at hmem
  obtain ⟨out, hout, hall⟩ := tokLoop_self (F := F) (dropBytes skip line).length.succ
    (dropBytes skip line) skip [] line pre hline hpre
  rw [hout] at hmem
  obtain ⟨m', hs', ht⟩ := hall t a b (by simpa using hmem)
  rw [hm.unique hs']; exact ht

/-! ### checked instances

No token kind had to be excluded, so there is no counterexample to record;
instead, the three candidates for failure are checked on a concrete line
(`F := Unit`, whose `parse` accepts nothing, so DATA items are all text):
an identifier cut where a keyword starts (`X` before `TO`), a DATA token (its
range includes the keyword and the blank before the colon, not the colon) and
a REM token (keyword to end of line). -/

example : tokenizeRanges (F := Unit) "XTO DATA 1,b :REM a".toList 0 =
    ([(.symbol ['X'], 0, 1), (.kw .To, 1, 3), (.data [.str ['1'], .str ['b']], 4, 13),
      (.kw .Colon, 13, 14), (.remark [' ', 'a'], 14, 19)], none) := by rfl

example : tokenize (F := Unit) "X".toList 0 = .ok [.symbol ['X']] := by rfl
example : tokenize (F := Unit) "DATA 1,b ".toList 0 = .ok [.data [.str ['1'], .str ['b']]] := by rfl
example : tokenize (F := Unit) "REM a".toList 0 = .ok [.remark [' ', 'a']] := by rfl

/-- non-vacuity of `self_tokenise`: the DATA instance above obtained from the theorem -/
example : tokenize (F := Unit) "DATA 1,b ".toList 0 = .ok [.data [.str ['1'], .str ['b']]] := by
  have h : tokenizeRanges (F := Unit) "XTO DATA 1,b :REM a".toList 0 =
      ([(.symbol ['X'], 0, 1), (.kw .To, 1, 3), (.data [.str ['1'], .str ['b']], 4, 13),
        (.kw .Colon, 13, 14), (.remark [' ', 'a'], 14, 19)], none) := by rfl
  refine self_tokenise "XTO DATA 1,b :REM a".toList _ 4 13 ?_ "DATA 1,b ".toList
    ⟨"XTO ".toList, ":REM a".toList, by decide, by decide, by decide⟩
  rw [h]
  exact .tail _ (.tail _ (.head _))

end Abasic.Props.C13
