import Abasic.Interp
/-
  C18 — RND is a pure, in-range function of the seed.

  The generator state is a natural number; the theorems are about the model's
  `rngNew`, `rngStep`, `rnd` (Arrays.lean, transliterating random.rs) and hold
  for every number carrier `F`.  That `n / 2^33` is computed exactly in IEEE
  doubles for `n < 2^33` is a `NumOps` fact about the carrier (trusted base,
  tested against Rust on every run), so "in range" is stated on the numerator.
-/
namespace Abasic.Props.C18
open Abasic

variable {F : Type} [NumOps F]

/-- The constants read from random.rs are the documented ones. -/
theorem constants :
    Extracted.rngModulus = 2 ^ 33 ∧ Extracted.rngMultiplier = 1664525 ∧
    Extracted.rngIncrement = 1013904223 := by decide

/-- The documented recurrence. -/
def lcg (s : Nat) : Nat := (1664525 * s + 1013904223) % 2 ^ 33

theorem step_is_lcg (s : Nat) : rngStep s = lcg s := by
  simp [rngStep, lcg, Extracted.rngModulus, Extracted.rngMultiplier, Extracted.rngIncrement]

theorem lcg_lt (s : Nat) : lcg s < 2 ^ 33 := by
  unfold lcg; omega

/-- `randomize(seed)` stores the seed reduced modulo 2^33 … -/
theorem seed_reduced (seed : Nat) : rngNew seed = seed % 2 ^ 33 ∧ rngNew seed < 2 ^ 33 := by
  simp [rngNew, Extracted.rngModulus]
  omega

/-- … so seeds congruent modulo 2^33 are the same seed. -/
theorem seed_congruence (a b : Nat) (h : a % 2 ^ 33 = b % 2 ^ 33) : rngNew a = rngNew b := by
  simp [rngNew, Extracted.rngModulus] at *
  exact h

/-- In-range: every state the generator produces is below the modulus, i.e. the
    value `state / 2^33` lies in `[0, 1)`. -/
theorem step_in_range (s : Nat) : rngStep s < 2 ^ 33 := by
  simp [rngStep, Extracted.rngModulus]
  omega

/-- The 64-bit product the Rust code forms cannot overflow from a reduced state. -/
theorem no_overflow (s : Nat) (h : s < 2 ^ 33) :
    Extracted.rngMultiplier * s + Extracted.rngIncrement < 2 ^ 64 := by
  simp [Extracted.rngMultiplier, Extracted.rngIncrement]
  omega

/-- RND with a negative argument is an error and does not advance. -/
theorem rnd_negative (x : F) (s : St F) (hx : NumOps.lt x NumOps.zero = true) :
    rnd x s = .err { err := .unimplemented } s := by
  simp [rnd, hx, M.fail, M.get, bind, M.bindM]

/-- RND(0) repeats the previous value without advancing. -/
theorem rnd_zero (x : F) (s : St F) (hneg : NumOps.lt x NumOps.zero = false)
    (hz : NumOps.eq x NumOps.zero = true) :
    rnd x s = .ok (rngValue s.rng) s := by
  simp [rnd, hneg, hz, M.get, bind, M.bindM, pure, M.pureM]

/-- RND with a positive argument advances the state by exactly one step of the
    documented recurrence and returns the new state scaled by 2^33. -/
theorem rnd_positive (x : F) (s : St F) (hs : s.rng < 2 ^ 33)
    (hneg : NumOps.lt x NumOps.zero = false) (hz : NumOps.eq x NumOps.zero = false) :
    rnd x s = .ok (rngValue (lcg s.rng)) { s with rng := lcg s.rng } := by
  have hno := no_overflow s.rng hs
  have hge : ¬ (Extracted.rngMultiplier * s.rng + Extracted.rngIncrement ≥ 2 ^ 64) := by omega
  have hstep := step_is_lcg s.rng
  simp only [rngStep] at hstep
  simp [rnd, hneg, hz, hge, M.get, M.set, bind, M.bindM, pure, M.pureM, hstep]

/-- Whatever the argument, RND never panics from a reduced state, and the state
    stays reduced: the invariant `rng < 2^33` is inductive. -/
theorem rnd_safe (x : F) (s : St F) (hs : s.rng < 2 ^ 33) :
    (∃ v s', rnd x s = .ok v s' ∧ s'.rng < 2 ^ 33) ∨
    (rnd x s = .err { err := .unimplemented } s) := by
  cases hneg : NumOps.lt x (NumOps.zero : F)
  · cases hz : NumOps.eq x (NumOps.zero : F)
    · left
      exact ⟨_, _, rnd_positive x s hs hneg hz, lcg_lt s.rng⟩
    · left
      exact ⟨_, _, rnd_zero x s hneg hz, hs⟩
  · right
    exact rnd_negative x s hneg

/-- `k`-fold iterate of a step function (kept generic so that unfolding it never
    makes the type checker evaluate the recurrence on large literals). -/
def iterate (f : Nat → Nat) : Nat → Nat → Nat
  | 0, s => s
  | k + 1, s => iterate f k (f s)

/-- values returned by `k` successive positive calls from state `s` -/
def stepValues (F : Type) [NumOps F] (f : Nat → Nat) : Nat → Nat → List F
  | 0, _ => []
  | k + 1, s => rngValue (f s) :: stepValues F f k (f s)

def positiveCalls : Nat → F → St F → Option (List F × St F)
  | 0, _, s => some ([], s)
  | k + 1, x, s =>
    match rnd x s with
    | .ok v s' => (positiveCalls k x s').map fun (vs, s'') => (v :: vs, s'')
    | .err _ _ => none

/-- The k-th positive call after `randomize(seed)` returns the k-fold iterate of the
    documented recurrence on `seed % 2^33`, scaled: the sequence is a pure function of the seed. -/
theorem lcg_sequence (k : Nat) (x : F) (s : St F) (hs : s.rng < 2 ^ 33)
    (hneg : NumOps.lt x NumOps.zero = false) (hz : NumOps.eq x NumOps.zero = false) :
    ∃ s', positiveCalls k x s = some (stepValues F lcg k s.rng, s') ∧ s'.rng = iterate lcg k s.rng := by
  induction k generalizing s with
  | zero => exact ⟨s, rfl, rfl⟩
  | succ k ih =>
    obtain ⟨s', h1, h2⟩ := ih { s with rng := lcg s.rng } (lcg_lt s.rng)
    refine ⟨s', ?_, ?_⟩
    · simp only [positiveCalls, rnd_positive x s hs hneg hz, h1, stepValues, Option.map]
    · rw [h2, iterate]

/-- Two interpreters given the same seed (or congruent seeds) produce the same sequence. -/
theorem same_seed_same_sequence (k : Nat) (x : F) (s₁ s₂ : St F) (a b : Nat)
    (h : a % 2 ^ 33 = b % 2 ^ 33)
    (hneg : NumOps.lt x NumOps.zero = false) (hz : NumOps.eq x NumOps.zero = false) :
    (positiveCalls k x { s₁ with rng := rngNew a }).map (·.1) =
    (positiveCalls k x { s₂ with rng := rngNew b }).map (·.1) := by
  have hab := seed_congruence a b h
  obtain ⟨t₁, e₁, _⟩ := lcg_sequence k x { s₁ with rng := rngNew a } (seed_reduced a).2 hneg hz
  obtain ⟨t₂, e₂, _⟩ := lcg_sequence k x { s₂ with rng := rngNew b } (seed_reduced b).2 hneg hz
  rw [e₁, e₂]
  simp [hab]

/-- Non-vacuity: a concrete reduced state and the first value of the sequence from seed 0. -/
example : rngNew (2 ^ 64 - 1) = 2 ^ 33 - 1 ∧ lcg 0 = 1013904223 := by decide

end Abasic.Props.C18
