import Abasic.Proofs.RngFrame
import Abasic.Proofs.RngRun
import Abasic.Props.C01More
/-
  C18 at host level — RND is a pure function of the seed.

  * `randomize_sets_seed` : `Interpreter::randomize` (the call `Call.seed`) stores
    `seed % 2^33` in `rng` and changes nothing else;
  * the orbit invariant (`rng_orbit_*`): EVERY computation of the evaluator — the
    expression and statement evaluators at every fuel, `runNextStatement`,
    `startEvaluating`, `continueEvaluating`, `provideInput`,
    `breakAtCurrentLocation`, `take_output` — moves the generator only along the
    orbit of the documented recurrence `lcg`, on the success and on the error
    path, from every state; the frame induction is Proofs/RngFrame.lean;
  * `rng_orbit_reachable` : along any call sequence without a re-seeding call the
    generator state is `lcg^[k] (seed % 2^33)` for some `k`;
  * `same_seed_same_transcript`, `seed_mod` : after the same (or a congruent)
    seed, two interpreters that differed only in `rng` are equal, and stay equal;
  * `rnd_error_and_zero_do_not_advance` & co.: the three kinds of argument, for a
    whole immediate line run through `startEvaluating`.
-/
namespace Abasic.Props.C18
open Abasic Abasic.Hoare Abasic.Rng Abasic.Props.C01

variable {F : Type} [NumOps F]

/-! ### 1. the seeding call -/

/-- `Interpreter::randomize(seed)`: `rng := seed % 2^33`, nothing else changes — in every state. -/
theorem randomize_sets_seed (seed : Nat) (σ : St F) :
    randomize seed σ = .ok () { σ with rng := seed % 2 ^ 33 } := by
  have h := (seed_reduced seed).1
  unfold randomize M.modify
  rw [h]

/-- the same for the host call `Call.seed` of the call model (C01More) -/
theorem call_seed_sets_seed (fuel seed : Nat) (σ : St F) :
    (Call.seed seed).run fuel σ = .ok () { σ with rng := seed % 2 ^ 33 } ∧
    applyCall fuel (.seed seed) σ = { σ with rng := seed % 2 ^ 33 } := by
  have h : (Call.seed seed).run fuel σ = .ok () { σ with rng := seed % 2 ^ 33 } :=
    randomize_sets_seed seed σ
  refine ⟨h, ?_⟩
  unfold applyCall
  rw [h]; rfl

theorem seeded_reduced (fuel seed : Nat) (σ : St F) : (applyCall fuel (.seed seed) σ).rng < 2 ^ 33 := by
  rw [(call_seed_sets_seed fuel seed σ).2]
  show seed % 2 ^ 33 < 2 ^ 33
  omega

/-! ### 2. the orbit invariant -/

/-- every run of `m`, successful or failing, leaves the generator on the forward orbit
    of where it was, and reduced if it was reduced -/
def AlongOrbit {α : Type} (m : M F α) : Prop :=
  ∀ σ : St F,
    (∀ a σ', m σ = .ok a σ' → Orbit σ.rng σ'.rng ∧ (σ.rng < 2 ^ 33 → σ'.rng < 2 ^ 33)) ∧
    (∀ e σ', m σ = .err e σ' → Orbit σ.rng σ'.rng ∧ (σ.rng < 2 ^ 33 → σ'.rng < 2 ^ 33))

omit [NumOps F] in
theorem alongOrbit_of_respects {α : Type} {m : M F α} (h : Respects RO m) : AlongOrbit m :=
  fun σ => h.at σ

/-- the expression evaluator, at every fuel -/
theorem rng_orbit_expr (fuel : Nat) : AlongOrbit (evalN (F := F) fuel).expr :=
  alongOrbit_of_respects (Lift.ro_evalN fuel).1

/-- the statement evaluator, at every fuel -/
theorem rng_orbit_stmt (fuel : Nat) : AlongOrbit (evalN (F := F) fuel).stmt :=
  alongOrbit_of_respects (Lift.ro_evalN fuel).2

theorem rng_orbit_runNextStatement (fuel : Nat) : AlongOrbit (runNextStatement (F := F) fuel) :=
  alongOrbit_of_respects (Lift.ro_runNextStatement fuel)

theorem rng_orbit_startEvaluating (fuel : Nat) (line : Str) :
    AlongOrbit (startEvaluating (F := F) fuel line) :=
  alongOrbit_of_respects (Lift.ro_startEvaluating fuel line)

theorem rng_orbit_continueEvaluating (fuel : Nat) : AlongOrbit (continueEvaluating (F := F) fuel) :=
  alongOrbit_of_respects (Lift.ro_continueEvaluating fuel)

omit [NumOps F] in
theorem rng_orbit_provideInput (text : Str) : AlongOrbit (provideInput (F := F) text) :=
  alongOrbit_of_respects (Lift.ro_provideInput text)

omit [NumOps F] in
theorem rng_orbit_breakAtCurrentLocation : AlongOrbit (breakAtCurrentLocation (F := F)) :=
  alongOrbit_of_respects Lift.ro_breakAtCurrentLocation

/-- the one-step reading of the invariant: a single `RND(x)` makes zero steps or one step -/
theorem rnd_zero_or_one_step (x : F) (σ : St F) :
    (rnd x σ).final.rng = σ.rng ∨ (rnd x σ).final.rng = lcg σ.rng := by
  rcases Lift.rnd_cases x σ with ⟨e, h⟩ | ⟨v, h⟩ | ⟨v, h⟩ <;> rw [h]
  · exact .inl rfl
  · exact .inl rfl
  · exact .inr rfl

/-- is this the re-seeding call? -/
def Call.isSeed : Call → Bool
  | .seed _ => true
  | _ => false

/-- every host call other than the re-seeding one keeps the generator on its orbit -/
theorem call_orbit (fuel : Nat) (c : Call) (hc : Call.isSeed c = false) :
    Respects RO (c.run (F := F) fuel) := by
  cases c with
  | start text => exact Lift.ro_startEvaluating fuel text
  | cont => exact Lift.ro_continueEvaluating fuel
  | reply text => exact Lift.ro_provideInput text
  | brk => exact Lift.ro_breakAtCurrentLocation
  | seed n => cases hc
  | output => exact respects_modify (fun σ => ro_same rfl)

theorem applyCall_orbit (fuel : Nat) (c : Call) (hc : Call.isSeed c = false) (σ : St F) :
    Orbit σ.rng (applyCall fuel c σ).rng ∧ (σ.rng < 2 ^ 33 → (applyCall fuel c σ).rng < 2 ^ 33) :=
  (call_orbit fuel c hc).final σ

theorem applyCalls_orbit (fuel : Nat) (cs : List Call) (hcs : ∀ c ∈ cs, Call.isSeed c = false) (σ : St F) :
    Orbit σ.rng (applyCalls fuel cs σ).rng ∧ (σ.rng < 2 ^ 33 → (applyCalls fuel cs σ).rng < 2 ^ 33) := by
  induction cs generalizing σ with
  | nil => exact ⟨Orbit.refl _, fun h => h⟩
  | cons c cs ih =>
    have h1 := applyCall_orbit fuel c (hcs c (List.mem_cons_self ..)) σ
    have h2 := ih (fun c' hc' => hcs c' (List.mem_cons_of_mem _ hc')) (applyCall fuel c σ)
    exact ⟨h1.1.trans h2.1, fun h => h2.2 (h1.2 h)⟩

/-- **The generator state is a function of the seed and of a step count only.**  After
    `randomize(seed)`, along ANY sequence of host calls that does not re-seed (in any
    state, any order, succeeding or failing), the generator state is the `k`-fold
    iterate of the documented recurrence on `seed % 2^33` for some `k`, and it is
    reduced.  (Each successful `RND` of a positive argument returns
    `rngValue (lcg rng)` and makes exactly one step — `rnd_positive` —, everything else
    makes none: so the `k`-th value a program sees is `rngValue (lcg^[k] (seed % 2^33))`.) -/
theorem rng_orbit_reachable (fuel seed : Nat) (cs : List Call)
    (hcs : ∀ c ∈ cs, Call.isSeed c = false) (σ : St F) :
    (∃ k, (applyCalls fuel cs (applyCall fuel (.seed seed) σ)).rng = iterate lcg k (seed % 2 ^ 33)) ∧
    (applyCalls fuel cs (applyCall fuel (.seed seed) σ)).rng < 2 ^ 33 := by
  have h := applyCalls_orbit fuel cs hcs (applyCall fuel (.seed seed) σ)
  have hr : (applyCall fuel (.seed seed) σ).rng = seed % 2 ^ 33 := by
    rw [(call_seed_sets_seed fuel seed σ).2]
  refine ⟨?_, h.2 (seeded_reduced fuel seed σ)⟩
  obtain ⟨k, hk⟩ := h.1
  exact ⟨k, by rw [hk, hr]⟩

/-- the same from the host's point of view: in every state a host can reach from a new
    interpreter (which starts with the seed 0), the generator is reduced and on the orbit
    of the last seed given (of 0 if none was) -/
theorem rng_reduced_of_reachable (fuel : Nat) (σ : St F) (h : Reachable fuel σ) : σ.rng < 2 ^ 33 := by
  induction h with
  | init => show (0 : Nat) < 2 ^ 33; omega
  | @step σ c _ ih =>
    cases hc : Call.isSeed c with
    | false => exact (applyCall_orbit fuel c hc σ).2 ih
    | true =>
      cases c with
      | seed n => exact seeded_reduced fuel n σ
      | _ => cases hc

/-! ### 4. same seed, same future -/

/-- Two interpreters that differ ONLY in the generator state are equal after the same
    seeding call — hence after every later call sequence, and every later call returns the
    same result in both. -/
theorem same_seed_same_transcript (fuel seed : Nat) (σ₁ σ₂ : St F) (r : Nat)
    (h : σ₂ = { σ₁ with rng := r }) :
    applyCall fuel (.seed seed) σ₁ = applyCall fuel (.seed seed) σ₂ ∧
    (∀ cs, applyCalls fuel cs (applyCall fuel (.seed seed) σ₁) =
           applyCalls fuel cs (applyCall fuel (.seed seed) σ₂)) ∧
    (∀ cs (c : Call), c.run fuel (applyCalls fuel cs (applyCall fuel (.seed seed) σ₁)) =
           c.run fuel (applyCalls fuel cs (applyCall fuel (.seed seed) σ₂))) := by
  have h0 : applyCall fuel (.seed seed) σ₁ = applyCall fuel (.seed seed) σ₂ := by
    rw [(call_seed_sets_seed fuel seed σ₁).2, (call_seed_sets_seed fuel seed σ₂).2, h]
  exact ⟨h0, fun cs => by rw [h0], fun cs c => by rw [h0]⟩

/-- Seeds congruent modulo 2^33 give the same future. -/
theorem seed_mod (fuel a b : Nat) (hab : a % 2 ^ 33 = b % 2 ^ 33) (σ : St F) :
    applyCall fuel (.seed a) σ = applyCall fuel (.seed b) σ ∧
    (∀ cs, applyCalls fuel cs (applyCall fuel (.seed a) σ) =
           applyCalls fuel cs (applyCall fuel (.seed b) σ)) := by
  have h0 : applyCall fuel (.seed a) σ = applyCall fuel (.seed b) σ := by
    rw [(call_seed_sets_seed fuel a σ).2, (call_seed_sets_seed fuel b σ).2, hab]
  exact ⟨h0, fun cs => by rw [h0]⟩

/-- both at once: different histories of the generator, congruent seeds -/
theorem same_seed_same_transcript_mod (fuel a b : Nat) (hab : a % 2 ^ 33 = b % 2 ^ 33)
    (σ₁ σ₂ : St F) (r : Nat) (h : σ₂ = { σ₁ with rng := r }) (cs : List Call) :
    applyCalls fuel cs (applyCall fuel (.seed a) σ₁) = applyCalls fuel cs (applyCall fuel (.seed b) σ₂) := by
  rw [(same_seed_same_transcript fuel a σ₁ σ₂ r h).2.1 cs, (seed_mod fuel a b hab σ₂).2 cs]

/-! ### 3. the three kinds of argument, for a whole line at host level

  The number carrier is abstract, so what the tokenizer makes of the digits `0` and `1`
  and how those numbers compare with zero are hypotheses about `NumOps` (they hold for
  IEEE doubles; `RInt` below is a small carrier where they are checked by evaluation).
  The interpreter state is arbitrary except: idle, with room for two nesting levels
  (the counter is 0 in every reachable state, C01), and — for a step — reduced (`rng < 2^33`,
  which holds in every reachable state: `rng_reduced_of_reachable`). -/

open Abasic.ExprL Abasic.Rng.Run

theorem cmd_rnd0 : (commandWord "PRINT RND(0)".toList).bind Command.ofWord = none := by decide
theorem cmd_rnd1 : (commandWord "PRINT RND(1)".toList).bind Command.ofWord = none := by decide
theorem cmd_rndm1 : (commandWord "PRINT RND(-1)".toList).bind Command.ofWord = none := by decide

/-- what may follow the argument: the closing parenthesis -/
theorem ends_close (rest : List (Token F)) : Ends 6 (.kw .RightParen :: rest) := ends_rparen 6 rest

omit [NumOps F] in
theorem ends_nil : Ends 6 ([] : List (Token F)) := fun _ h => by simp at h

theorem start_ok_of_run {fuel : Nat} {line : Str} {σ s0 σ' : St F}
    (hev : evaluateImpl fuel line σ = runNextStatement fuel s0)
    (hrun : runNextStatement fuel s0 = .ok () σ') : startEvaluating fuel line σ = .ok () σ' := by
  unfold startEvaluating postprocess
  rw [hev, hrun]

theorem start_err_of_run {fuel : Nat} {line : Str} {σ s0 σ' : St F} {te : TErr}
    (hev : evaluateImpl fuel line σ = runNextStatement fuel s0)
    (hrun : runNextStatement fuel s0 = .err te σ') :
    startEvaluating fuel line σ = .err (σ'.populate te) { σ' with state := .idle } := by
  unfold startEvaluating postprocess
  rw [hev, hrun]

/-- `PRINT RND(0)`: the generator does not move, and the line printed is the rendering of the
    value of the CURRENT generator state (the previous value returned). -/
theorem print_rnd_zero (fuel : Nat) (σ : St F) (z : F)
    (hp : NumOps.parse (F := F) ['0'] = some z) (hfin : NumOps.isFinite z = true)
    (hneg : NumOps.lt z NumOps.zero = false) (hz : NumOps.eq z NumOps.zero = true)
    (hidle : σ.state = .idle) (hn : σ.nesting + 2 ≤ Extracted.nestingLimit) :
    ∃ σ', startEvaluating (fuel + 2) "PRINT RND(0)".toList σ = .ok () σ' ∧ σ'.rng = σ.rng ∧
      σ'.out = .print (NumOps.render (rngValue (F := F) σ.rng) ++ ['\n']) :: σ.out ∧ σ'.state = .idle := by
  have hev := evaluateImpl_immediate (fuel + 2) _ _ σ hidle cmd_rnd0 (by decide) (tokenize_rnd0 z hp hfin)
  obtain ⟨σ', hrun, h1, h2, h3⟩ := run_print_ok (fuel + 2) ((σ.setImmediate []).setImmediate _)
    Extracted.builtinRnd.toList [.kw .LeftParen, .num z, .kw .RightParen]
    (rngValue (F := F) σ.rng) σ.rng (at_immediate σ _) rfl
    (fun s hAt hg _ hnest =>
      expr_rnd_ok (fuel + 1) s [.kw .Print] [.num z] [] z _ σ.rng
        (by rw [hnest]; show σ.nesting < _; omega) ends_nil hAt
        (fun s' hn' hAt' => expr_num fuel s' _ _ z (by rw [hn', hnest]; show σ.nesting + 1 < _; omega)
          (ends_close _) hAt')
        (fun s' hg' => by
          have hr : s'.rng = σ.rng := hg'.trans hg
          have e : ({ s' with rng := σ.rng } : St F) = s' := by rw [← hr]
          rw [e, rnd_zero z s' hneg hz, hr]))
  exact ⟨σ', start_ok_of_run hev hrun, h1, h2, h3⟩

/-- `PRINT RND(1)` (any argument the carrier calls positive): the generator makes exactly one
    step of the documented recurrence and the line printed is the rendering of the NEW state's
    value `rngValue (lcg σ.rng)` (the model's own scaling `rngValue` and the carrier's `render`). -/
theorem print_rnd_positive (fuel : Nat) (σ : St F) (u : F)
    (hp : NumOps.parse (F := F) ['1'] = some u) (hfin : NumOps.isFinite u = true)
    (hneg : NumOps.lt u NumOps.zero = false) (hz : NumOps.eq u NumOps.zero = false)
    (hidle : σ.state = .idle) (hn : σ.nesting + 2 ≤ Extracted.nestingLimit) (hs : σ.rng < 2 ^ 33) :
    ∃ σ', startEvaluating (fuel + 2) "PRINT RND(1)".toList σ = .ok () σ' ∧ σ'.rng = lcg σ.rng ∧
      σ'.out = .print (NumOps.render (rngValue (F := F) (lcg σ.rng)) ++ ['\n']) :: σ.out ∧
      σ'.state = .idle := by
  have hev := evaluateImpl_immediate (fuel + 2) _ _ σ hidle cmd_rnd1 (by decide) (tokenize_rnd1 u hp hfin)
  obtain ⟨σ', hrun, h1, h2, h3⟩ := run_print_ok (fuel + 2) ((σ.setImmediate []).setImmediate _)
    Extracted.builtinRnd.toList [.kw .LeftParen, .num u, .kw .RightParen]
    (rngValue (F := F) (lcg σ.rng)) (lcg σ.rng) (at_immediate σ _) rfl
    (fun s hAt hg _ hnest =>
      expr_rnd_ok (fuel + 1) s [.kw .Print] [.num u] [] u _ (lcg σ.rng)
        (by rw [hnest]; show σ.nesting < _; omega) ends_nil hAt
        (fun s' hn' hAt' => expr_num fuel s' _ _ u (by rw [hn', hnest]; show σ.nesting + 1 < _; omega)
          (ends_close _) hAt')
        (fun s' hg' => by
          have hr : s'.rng = σ.rng := hg'.trans hg
          rw [rnd_positive u s' (by rw [hr]; exact hs) hneg hz, hr]))
  exact ⟨σ', start_ok_of_run hev hrun, h1, h2, h3⟩

/-- `PRINT RND(-1)` (any argument the carrier calls negative): the call fails with the
    UNIMPLEMENTED error, nothing is printed and the generator does not move. -/
theorem print_rnd_negative (fuel : Nat) (σ : St F) (u : F)
    (hp : NumOps.parse (F := F) ['1'] = some u) (hfin : NumOps.isFinite u = true)
    (hneg : NumOps.lt (NumOps.neg u) NumOps.zero = true)
    (hidle : σ.state = .idle) (hn : σ.nesting + 2 ≤ Extracted.nestingLimit) :
    ∃ te σ', startEvaluating (fuel + 2) "PRINT RND(-1)".toList σ = .err te σ' ∧
      te.err = .unimplemented ∧ σ'.rng = σ.rng ∧ σ'.out = σ.out ∧ σ'.state = .idle := by
  have hev := evaluateImpl_immediate (fuel + 2) _ _ σ hidle cmd_rndm1 (by decide) (tokenize_rndm1 u hp hfin)
  obtain ⟨σ', hrun, h1, h2⟩ := run_print_err (fuel + 2) ((σ.setImmediate []).setImmediate _)
    Extracted.builtinRnd.toList [.kw .LeftParen, .kw .Minus, .num u, .kw .RightParen]
    { err := .unimplemented } (at_immediate σ _) rfl
    (fun s hAt _ _ hnest =>
      expr_rnd_err (fuel + 1) s [.kw .Print] [.kw .Minus, .num u] [] (NumOps.neg u) _
        (by rw [hnest]; show σ.nesting < _; omega) hAt
        (fun s' hn' hAt' => expr_neg_num fuel s' _ _ u (by rw [hn', hnest]; show σ.nesting + 1 < _; omega)
          (ends_close _) hAt')
        (fun s' => rnd_negative (NumOps.neg u) s' hneg))
  exact ⟨_, _, start_err_of_run hev hrun, rfl, h1, h2, rfl⟩

/-- **Item 3 in one statement**: an error and `RND(0)` do not advance the generator, a positive
    argument advances it by exactly one step. -/
theorem rnd_error_and_zero_do_not_advance (fuel : Nat) (σ : St F) (z u : F)
    (hp0 : NumOps.parse (F := F) ['0'] = some z) (hf0 : NumOps.isFinite z = true)
    (hp1 : NumOps.parse (F := F) ['1'] = some u) (hf1 : NumOps.isFinite u = true)
    (hz0 : NumOps.lt z NumOps.zero = false) (hz1 : NumOps.eq z NumOps.zero = true)
    (hu0 : NumOps.lt u NumOps.zero = false) (hu1 : NumOps.eq u NumOps.zero = false)
    (hm : NumOps.lt (NumOps.neg u) NumOps.zero = true)
    (hidle : σ.state = .idle) (hn : σ.nesting + 2 ≤ Extracted.nestingLimit) (hs : σ.rng < 2 ^ 33) :
    (∃ σ', startEvaluating (fuel + 2) "PRINT RND(0)".toList σ = .ok () σ' ∧ σ'.rng = σ.rng ∧
      σ'.out = .print (NumOps.render (rngValue (F := F) σ.rng) ++ ['\n']) :: σ.out) ∧
    (∃ te σ', startEvaluating (fuel + 2) "PRINT RND(-1)".toList σ = .err te σ' ∧
      te.err = .unimplemented ∧ σ'.rng = σ.rng ∧ σ'.out = σ.out) ∧
    (∃ σ', startEvaluating (fuel + 2) "PRINT RND(1)".toList σ = .ok () σ' ∧ σ'.rng = lcg σ.rng ∧
      σ'.out = .print (NumOps.render (rngValue (F := F) (lcg σ.rng)) ++ ['\n']) :: σ.out) := by
  obtain ⟨a, ha1, ha2, ha3, _⟩ := print_rnd_zero fuel σ z hp0 hf0 hz0 hz1 hidle hn
  obtain ⟨te, b, hb1, hb2, hb3, hb4, _⟩ := print_rnd_negative fuel σ u hp1 hf1 hm hidle hn
  obtain ⟨c, hc1, hc2, hc3, _⟩ := print_rnd_positive fuel σ u hp1 hf1 hu0 hu1 hidle hn hs
  exact ⟨⟨a, ha1, ha2, ha3⟩, ⟨te, b, hb1, hb2, hb3, hb4⟩, ⟨c, hc1, hc2, hc3⟩⟩

/-! ### 5. non-vacuity -/

/-- a small number carrier for the checked examples (the degenerate `Unit` carrier has no
    numerals): integers, numerals are digit strings -/
def RInt := Int

def rintDigits : List Char → Nat → Option Nat
  | [], acc => some acc
  | c :: cs, acc => if isAsciiDigit c then rintDigits cs (acc * 10 + (c.toNat - '0'.toNat)) else none

instance : NumOps RInt where
  zero := (0 : Int)
  one := (1 : Int)
  add := fun (a b : Int) => a + b
  sub := fun (a b : Int) => a - b
  mul := fun (a b : Int) => a * b
  div := fun (a b : Int) => a / b
  pow := fun (a b : Int) => a ^ b.toNat
  neg := fun (a : Int) => -a
  abs := fun (a : Int) => (a.natAbs : Int)
  floor := fun a => a
  lt := fun (a b : Int) => decide (a < b)
  le := fun (a b : Int) => decide (a ≤ b)
  eq := fun (a b : Int) => decide (a = b)
  toI64 := fun (a : Int) => a
  toU64 := fun (a : Int) => a.toNat
  ofNat := fun n => (n : Int)
  parse := fun cs => if cs.isEmpty then none else (rintDigits cs 0).map fun n => (n : Int)
  render := fun (a : Int) => if a < 0 then '-' :: Nat.toDigits 10 a.natAbs else Nat.toDigits 10 a.toNat
  isFinite := fun _ => true

/-- the hypotheses of item 3 about the carrier are satisfiable, and so are those about the state:
    a new interpreter seeded with 5.  One step from 5 is `lcg 5 = 1022226848`. -/
example :
    let σ : St RInt := applyCall 2 (.seed 5) {}
    (∃ σ', startEvaluating 2 "PRINT RND(0)".toList σ = .ok () σ' ∧ σ'.rng = 5 ∧
      σ'.out = [.print (NumOps.render (rngValue (F := RInt) 5) ++ ['\n'])]) ∧
    (∃ te σ', startEvaluating 2 "PRINT RND(-1)".toList σ = .err te σ' ∧
      te.err = .unimplemented ∧ σ'.rng = 5 ∧ σ'.out = []) ∧
    (∃ σ', startEvaluating 2 "PRINT RND(1)".toList σ = .ok () σ' ∧ σ'.rng = 1022226848 ∧
      σ'.out = [.print (NumOps.render (rngValue (F := RInt) 1022226848) ++ ['\n'])]) := by
  intro σ
  have hσ : σ = { rng := 5 } := (call_seed_sets_seed 2 5 ({} : St RInt)).2
  have hl : lcg 5 = 1022226848 := by decide
  have h := rnd_error_and_zero_do_not_advance (F := RInt) 0 σ (0 : Int) (1 : Int) rfl rfl rfl rfl
    (by decide) (by decide) (by decide) (by decide) (by decide)
    (by rw [hσ]) (by rw [hσ]; decide) (by rw [hσ]; decide)
  rw [hσ] at h ⊢
  rw [← hl]
  exact h

/-- the orbit theorem on a concrete session: seed 7, a program with a loop that calls RND,
    a break, a continuation, an error — the generator is some iterate of `lcg` on 7 -/
example : ∃ k, (applyCalls (F := RInt) 60
      [.start "10 FOR I = 1 TO 3".toList, .start "20 PRINT RND(1) + RND(0)".toList,
       .start "30 NEXT I".toList, .start "RUN".toList, .brk, .cont, .start "PRINT RND(-1)".toList, .output]
      (applyCall 60 (.seed 7) {})).rng = iterate lcg k 7 :=
  (rng_orbit_reachable 60 7 _ (by decide) {}).1

/-- … and evaluated: `PRINT RND(1)` twice from seed 7 is two steps, `PRINT RND(0)` none -/
example : (applyCalls (F := RInt) 4
      [.seed 7, .start "PRINT RND(1)".toList, .start "PRINT RND(0)".toList, .start "PRINT RND(1)".toList] {}).rng
      = lcg (lcg 7) := by
  decide +kernel

/-- same seed, same future: two interpreters with different histories of the generator -/
example (cs : List Call) :
    applyCalls (F := RInt) 60 cs (applyCall 60 (.seed 3) { rng := 11 }) =
    applyCalls (F := RInt) 60 cs (applyCall 60 (.seed (2 ^ 33 + 3)) { rng := 12 }) :=
  same_seed_same_transcript_mod 60 3 (2 ^ 33 + 3) (by decide) _ _ 12 rfl cs

example : (2 ^ 33 + 3) % 2 ^ 33 = 3 % 2 ^ 33 ∧ Orbit 7 (lcg (lcg 7)) :=
  ⟨by decide, (Orbit.step 7).trans (Orbit.step _)⟩

end Abasic.Props.C18
