import Abasic.Props.C20
import Abasic.Props.C13More
import Abasic.Props.C05
/-
  C20, continued — the semantic tokens and diagnostics the language server
  publishes are in bounds and ordered.

  1. `decode` inverts the LSP delta encoding; `delta_decodes_ordered`: whenever
     the encoder succeeds on per-line token lists that are strictly ordered
     chains of non-empty ranges on character boundaries (`LinesOk`), the decoded
     absolute tokens are strictly ordered by (line, column), do not overlap,
     have positive length, lie inside the UTF-16 length of their line and carry
     a type index inside the advertised legend.
  2. `semantic_tokens_ok`: for every document the analysis' token lists are
     `lineToks` of the document's lines (`lspAnalyze_lineTokens`), these satisfy
     `LinesOk` (`lineToks_chain`), the encoder never fails, and its output is
     well formed in the sense of 1.
  3. `diags_in_bounds`: for every document the diagnostics conversion never
     fails and every diagnostic is on an existing line with
     `startCol ≤ endCol ≤ utf16Len line`.
-/
namespace Abasic.Props.C20
open Abasic

variable {F : Type} [NumOps F]

/-! ### 1. decoding the delta encoding -/

/-- an absolute token: line, start column, length, type index -/
abbrev Dec := Nat × Nat × Nat × Nat

/-- the LSP client's decoder, started at an absolute position -/
def decodeFrom : Nat → Nat → List SemTok → List Dec
  | _, _, [] => []
  | line, col, t :: ts =>
    (line + t.deltaLine, (if t.deltaLine = 0 then col + t.deltaStart else t.deltaStart), t.length, t.tokenType) ::
      decodeFrom (line + t.deltaLine) (if t.deltaLine = 0 then col + t.deltaStart else t.deltaStart) ts

/-- absolute (line, start column, length, type) of a delta-encoded token list -/
def decode (ts : List SemTok) : List Dec := decodeFrom 0 0 ts

/-- what one line's tokens should decode to -/
def lineAbs (text : Str) (n : Nat) (lt : List (TokenType × Nat × Nat)) : List Dec :=
  lt.map fun p => (n, utf16Col text p.2.1, utf16Col text p.2.2 - utf16Col text p.2.1, Extracted.lspIndex p.1)

/-- what a document's tokens should decode to (first line has number `n`) -/
def absToks : List Str → List (List (TokenType × Nat × Nat)) → Nat → List Dec
  | text :: texts, lt :: lts, n => lineAbs text n lt ++ absToks texts lts (n + 1)
  | _, _, _ => []

/-- Decoding what `semTokLine` emitted gives back the line's tokens at their
    absolute positions; the decoder state `(pl, C)` agrees with the encoder state
    `(pl, ps)` (when still on an earlier line the encoder's `ps` is 0). -/
theorem decode_line (text : Str) (lineNo : Nat) (lt : List (TokenType × Nat × Nat)) (pl ps C : Nat)
    (toks : List SemTok) (pl' : Nat) (more : List SemTok)
    (h : semTokLine text lineNo lt pl ps = some (toks, pl'))
    (hpl : pl ≤ lineNo) (hC : pl = lineNo → C = ps) (hps : pl < lineNo → ps = 0) :
    ∃ C', decodeFrom pl C (toks ++ more) = lineAbs text lineNo lt ++ decodeFrom pl' C' more ∧ pl' ≤ lineNo := by
  induction lt generalizing pl ps C toks with
  | nil =>
    simp only [semTokLine, Option.some.injEq, Prod.mk.injEq] at h
    obtain ⟨rfl, rfl⟩ := h
    exact ⟨C, by simp [lineAbs], hpl⟩
  | cons e rest ih =>
    obtain ⟨tt, a, b⟩ := e
    simp only [semTokLine] at h
    by_cases hc : (decide (lineNo < pl) || decide (utf16Col text a < ps) || decide (utf16Col text b < utf16Col text a)) = true
    · simp [hc] at h
    · simp only [hc, Bool.false_eq_true, if_false] at h
      simp only [Bool.or_eq_true, decide_eq_true_eq, not_or, Nat.not_lt] at hc
      obtain ⟨⟨_, hs⟩, he⟩ := hc
      cases hr : semTokLine text lineNo rest lineNo (utf16Col text a) with
      | none => simp [hr] at h
      | some p =>
        obtain ⟨toks', pl''⟩ := p
        simp only [hr, Option.some.injEq, Prod.mk.injEq] at h
        obtain ⟨rfl, rfl⟩ := h
        obtain ⟨C', hdec, hle⟩ := ih lineNo (utf16Col text a) (utf16Col text a) toks' hr (Nat.le_refl _)
          (fun _ => rfl) (fun hlt => absurd hlt (Nat.lt_irrefl _))
        refine ⟨C', ?_, hle⟩
        have hline : pl + (lineNo - pl) = lineNo := by omega
        have hcol : (if lineNo - pl = 0 then C + (utf16Col text a - ps) else utf16Col text a - ps) = utf16Col text a := by
          by_cases hz : lineNo - pl = 0
          · have : pl = lineNo := by omega
            have := hC this
            simp only [hz, if_true]; omega
          · have : ps = 0 := hps (by omega)
            simp only [hz, if_false]; omega
        simp only [List.cons_append, decodeFrom, hline, hcol, hdec, lineAbs, List.map_cons]

/-- Decoding what `semTokLines` emitted gives back `absToks`. -/
theorem decode_lines (lines : List Str) (toks : List (List (TokenType × Nat × Nat))) (lineNo pl C : Nat)
    (out : List SemTok) (h : semTokLines lines toks lineNo pl = some out)
    (hpl : pl ≤ lineNo) (hC : pl = lineNo → C = 0) :
    decodeFrom pl C out = absToks lines toks lineNo := by
  induction toks generalizing lines lineNo pl C out with
  | nil =>
    cases lines <;> simp only [semTokLines, Option.some.injEq] at h <;> subst h <;> simp [decodeFrom, absToks]
  | cons lt lts ih =>
    cases lines with
    | nil => simp [semTokLines] at h
    | cons text texts =>
      simp only [semTokLines] at h
      cases h1 : semTokLine text lineNo lt pl 0 with
      | none => simp [h1] at h
      | some p =>
        obtain ⟨ts, pl'⟩ := p
        simp only [h1] at h
        cases h2 : semTokLines texts lts (lineNo + 1) pl' with
        | none => simp [h2] at h
        | some more =>
          simp only [h2, Option.some.injEq] at h
          subst h
          obtain ⟨C', hdec, hle⟩ := decode_line text lineNo lt pl 0 C ts pl' more h1 hpl hC (fun _ => rfl)
          rw [hdec, ih texts (lineNo + 1) pl' C' more h2 (by omega) (fun hEq => by omega)]
          simp [absToks]

/-- The decoder inverts the encoder. -/
theorem decode_semTokLines (lines : List Str) (toks : List (List (TokenType × Nat × Nat))) (out : List SemTok)
    (h : semTokLines lines toks 0 0 = some out) : decode out = absToks lines toks 0 :=
  decode_lines lines toks 0 0 0 out h (Nat.le_refl _) (fun _ => rfl)

/-! ### character boundaries and columns -/

/-- byte offset `a` is the UTF-8 length of a prefix of whole characters of `text` -/
def Boundary (text : Str) (a : Nat) : Prop := ∃ p s, text = p ++ s ∧ len8 p = a

theorem utf16Len_append (a b : Str) : utf16Len (a ++ b) = utf16Len a + utf16Len b := by
  simp [utf16Len]

theorem utf16Len_pos {a : Str} (h : a ≠ []) : 0 < utf16Len a := by
  cases a with
  | nil => exact absurd rfl h
  | cons c a =>
    simp only [utf16Len, List.map_cons, List.sum_cons, utf16Units]
    split <;> omega

/-- Between two character boundaries the column grows strictly. -/
theorem col_strict (text : Str) (a b : Nat) (ha : Boundary text a) (hb : Boundary text b) (h : a < b) :
    utf16Col text a < utf16Col text b := by
  obtain ⟨p1, s1, h1, rfl⟩ := ha
  obtain ⟨p2, s2, h2, rfl⟩ := hb
  have heq : p1 ++ s1 = p2 ++ s2 := by rw [← h1, ← h2]
  rcases List.append_eq_append_iff.mp heq with ⟨m, hm, _⟩ | ⟨m, hm, _⟩
  · have hne : m ≠ [] := by
      intro hnil; subst hnil; simp only [List.append_nil] at hm; subst hm; omega
    have c1 : utf16Col text (len8 p1) = utf16Len p1 := by rw [h1]; exact col_of_prefix p1 s1
    have c2 : utf16Col text (len8 p2) = utf16Len p2 := by rw [h2]; exact col_of_prefix p2 s2
    rw [c1, c2, hm, utf16Len_append]
    have := utf16Len_pos hne
    omega
  · rw [hm, C13.len8_append] at h; omega

/-- `lo ≤ a₁ < b₁ ≤ a₂ < b₂ ≤ …`, every `aᵢ`, `bᵢ` on a character boundary of `text`:
    the per-line hypothesis of `delta_decodes_ordered` (it is what `C13.ranges_chain`
    and `C13.ranges_exact` give for a tokenized line, see `chain_of_exact`). -/
def LineChain (text : Str) : Nat → List (TokenType × Nat × Nat) → Prop
  | _, [] => True
  | lo, (_, a, b) :: rest => lo ≤ a ∧ a < b ∧ Boundary text a ∧ Boundary text b ∧ LineChain text b rest

/-- every line's token list is such a chain -/
def LinesOk (lines : List Str) (toks : List (List (TokenType × Nat × Nat))) : Prop :=
  ∀ (i : Nat) (text : Str) (lt : List (TokenType × Nat × Nat)), lines[i]? = some text → toks[i]? = some lt → LineChain text 0 lt

theorem LinesOk.head {t : Str} {ts : List Str} {l : List (TokenType × Nat × Nat)}
    {ls : List (List (TokenType × Nat × Nat))} (h : LinesOk (t :: ts) (l :: ls)) : LineChain t 0 l := h 0 t l rfl rfl

theorem LinesOk.tail {t : Str} {ts : List Str} {l : List (TokenType × Nat × Nat)}
    {ls : List (List (TokenType × Nat × Nat))} (h : LinesOk (t :: ts) (l :: ls)) : LinesOk ts ls :=
  fun i text lt h1 h2 => h (i + 1) text lt (by simpa using h1) (by simpa using h2)

/-! ### well-formed decoded token lists -/

/-- `x` comes strictly before `y` in (line, column) order and does not reach into it -/
def Before (x y : Dec) : Prop :=
  x.1 < y.1 ∨ (x.1 = y.1 ∧ x.2.1 < y.2.1 ∧ x.2.1 + x.2.2.1 ≤ y.2.1)

/-- positive length, inside its (existing) line, type inside the legend -/
def TokOk (lines : List Str) (d : Dec) : Prop :=
  0 < d.2.2.1 ∧ d.2.2.2 < Extracted.lspLegend.length ∧
    ∃ text, lines[d.1]? = some text ∧ d.2.1 + d.2.2.1 ≤ utf16Len text

/-- strictly ordered by (line, column), pairwise non-overlapping, every token `TokOk` -/
def WellFormed (lines : List Str) (ds : List Dec) : Prop :=
  ds.Pairwise Before ∧ ∀ d ∈ ds, TokOk lines d

/-- one line: all tokens on line `n`, at or after column `utf16Col text lo`, ordered, in bounds -/
theorem lineAbs_ok (text : Str) (n lo : Nat) (lt : List (TokenType × Nat × Nat)) (h : LineChain text lo lt) :
    (lineAbs text n lt).Pairwise Before ∧
    ∀ d ∈ lineAbs text n lt, d.1 = n ∧ utf16Col text lo ≤ d.2.1 ∧ 0 < d.2.2.1 ∧
      d.2.2.2 < Extracted.lspLegend.length ∧ d.2.1 + d.2.2.1 ≤ utf16Len text := by
  induction lt generalizing lo with
  | nil => simp [lineAbs]
  | cons e rest ih =>
    obtain ⟨tt, a, b⟩ := e
    obtain ⟨hlo, hab, hba, hbb, hrest⟩ := h
    obtain ⟨ihp, iha⟩ := ih b hrest
    have hs := col_strict text a b hba hbb hab
    have hm := col_monotone text lo a hlo
    have hbd := col_in_bounds text b
    simp only [lineAbs, List.map_cons] at ihp iha ⊢
    refine ⟨List.pairwise_cons.mpr ⟨?_, ihp⟩, ?_⟩
    · intro d hd
      obtain ⟨h1, h2, _⟩ := iha d hd
      refine .inr ⟨h1.symm, ?_, ?_⟩ <;> simp only <;> omega
    · intro d hd
      rcases List.mem_cons.mp hd with rfl | hd
      · exact ⟨rfl, hm, by simp only; omega, type_in_legend tt, by simp only; omega⟩
      · obtain ⟨h1, h2, h3⟩ := iha d hd
        exact ⟨h1, by omega, h3⟩

theorem absToks_ok (texts : List Str) (lts : List (List (TokenType × Nat × Nat))) (n : Nat)
    (h : LinesOk texts lts) :
    (absToks texts lts n).Pairwise Before ∧
    ∀ d ∈ absToks texts lts n, n ≤ d.1 ∧ 0 < d.2.2.1 ∧ d.2.2.2 < Extracted.lspLegend.length ∧
      ∃ text, texts[d.1 - n]? = some text ∧ d.2.1 + d.2.2.1 ≤ utf16Len text := by
  induction texts generalizing lts n with
  | nil => simp [absToks]
  | cons text texts ih =>
    cases lts with
    | nil => simp [absToks]
    | cons lt lts =>
      obtain ⟨hp1, ha1⟩ := lineAbs_ok text n 0 lt h.head
      obtain ⟨hp2, ha2⟩ := ih lts (n + 1) h.tail
      simp only [absToks]
      refine ⟨List.pairwise_append.mpr ⟨hp1, hp2, ?_⟩, ?_⟩
      · intro x hx y hy
        have := (ha1 x hx).1
        have := (ha2 y hy).1
        exact .inl (by omega)
      · intro d hd
        rcases List.mem_append.mp hd with hd | hd
        · obtain ⟨h1, _, h3, h4, h5⟩ := ha1 d hd
          exact ⟨by omega, h3, h4, text, by simp [h1], h5⟩
        · obtain ⟨h1, h3, h4, t, ht, h5⟩ := ha2 d hd
          refine ⟨by omega, h3, h4, t, ?_, h5⟩
          have : d.1 - n = (d.1 - (n + 1)) + 1 := by omega
          rw [this]; simpa using ht

/-- **Item 1.**  When the encoder succeeds on token lists that are, per line, strictly
    ordered chains of non-empty ranges on character boundaries, the client's decoding
    of its output is exactly the tokens at their absolute positions (`absToks`), and
    these are strictly ordered by (line, column), never overlap (`start + length ≤`
    the next start on the same line), have positive length, end within the UTF-16
    length of their (existing) line, and have a type index inside the legend. -/
theorem delta_decodes_ordered (lines : List Str) (toks : List (List (TokenType × Nat × Nat))) (out : List SemTok)
    (h : semTokLines lines toks 0 0 = some out) (hok : LinesOk lines toks) :
    decode out = absToks lines toks 0 ∧ WellFormed lines (decode out) := by
  have hd := decode_semTokLines lines toks out h
  obtain ⟨hp, ha⟩ := absToks_ok lines toks 0 hok
  refine ⟨hd, ?_, ?_⟩
  · rw [hd]; exact hp
  · rw [hd]
    intro d hdm
    obtain ⟨_, h2, h3, t, ht, h5⟩ := ha d hdm
    exact ⟨h2, h3, t, by simpa using ht, h5⟩

/-- the same, spelled out on adjacent and arbitrary pairs of decoded tokens -/
theorem delta_decodes_ordered' (lines : List Str) (toks : List (List (TokenType × Nat × Nat))) (out : List SemTok)
    (h : semTokLines lines toks 0 0 = some out) (hok : LinesOk lines toks) :
    (∀ i j (hi : i < j) (hj : j < (decode out).length),
      let x := (decode out)[i]'(Nat.lt_trans hi hj); let y := (decode out)[j]
      x.1 < y.1 ∨ (x.1 = y.1 ∧ x.2.1 < y.2.1 ∧ x.2.1 + x.2.2.1 ≤ y.2.1)) ∧
    (∀ d ∈ decode out, 0 < d.2.2.1 ∧ d.2.2.2 < Extracted.lspLegend.length ∧
      ∃ text, lines[d.1]? = some text ∧ d.2.1 + d.2.2.1 ≤ utf16Len text) := by
  obtain ⟨_, hp, ha⟩ := delta_decodes_ordered lines toks out h hok
  refine ⟨?_, ha⟩
  intro i j hi hj
  exact (List.pairwise_iff_getElem.mp hp) i j (Nat.lt_trans hi hj) hj hi

/-! ### 2. the token lists of a real analysis -/

theorem utf8Size_of_le {c : Char} (h : c.toNat ≤ 127) : c.utf8Size = 1 := by
  have : c.val.toNat ≤ 127 := h
  simp only [Char.utf8Size]
  have h' : c.val ≤ 127 := by
    rw [UInt32.le_iff_toNat_le]; exact this
  simp [h']

theorem utf8Size_digit {c : Char} (h : isAsciiDigit c = true) : c.utf8Size = 1 := by
  apply utf8Size_of_le
  simp only [isAsciiDigit, Bool.and_eq_true, decide_eq_true_eq] at h
  have := h.2
  rw [Char.le_def] at this
  have h9 : ('9' : Char).val.toNat = 57 := by decide
  have : c.val.toNat ≤ 57 := by rw [← h9]; exact UInt32.le_iff_toNat_le.mp this
  show c.val.toNat ≤ 127
  omega

theorem utf8Size_asciiWs {c : Char} (h : isAsciiWs c = true) : c.utf8Size = 1 := by
  simp only [isAsciiWs, Bool.or_eq_true, beq_iff_eq] at h
  rcases h with (((rfl | rfl) | rfl) | rfl) | rfl <;> decide

theorem takeDigits_spec (cs : Str) :
    cs = (takeDigits cs).1 ++ (takeDigits cs).2 ∧ len8 (takeDigits cs).1 = (takeDigits cs).1.length := by
  induction cs with
  | nil => simp [takeDigits, len8]
  | cons c cs ih =>
    simp only [takeDigits]
    split
    · rename_i hd
      obtain ⟨h1, h2⟩ := ih
      refine ⟨by simp only [List.cons_append]; rw [← h1], ?_⟩
      simp only [len8, List.length_cons, h2, utf8Size_digit hd]; omega
    · simp [len8]

/-- The line-number token `0..lnEnd` ends on a character boundary after at least one character. -/
theorem parseLineNumberAux_boundary (s : Str) (k n e : Nat) (h : parseLineNumberAux s k = some (n, e)) :
    ∃ pre suf, s = pre ++ suf ∧ k + len8 pre = e ∧ pre ≠ [] := by
  induction s generalizing k with
  | nil => simp [parseLineNumberAux] at h
  | cons c cs ih =>
    simp only [parseLineNumberAux] at h
    by_cases hd : isAsciiDigit c = true
    · simp only [hd, if_true] at h
      obtain ⟨h1, h2⟩ := takeDigits_spec (c :: cs)
      have hne : (takeDigits (c :: cs)).1 ≠ [] := by simp [takeDigits, hd]
      split at h
      · simp only [Option.some.injEq, Prod.mk.injEq] at h
        exact ⟨_, _, h1, by rw [h2]; exact h.2, hne⟩
      · cases h
    · simp only [hd, Bool.false_eq_true, if_false] at h
      by_cases hw : isAsciiWs c = true
      · simp only [hw, if_true] at h
        obtain ⟨pre, suf, h1, h2, _⟩ := ih (k + 1) h
        refine ⟨c :: pre, suf, by rw [h1]; rfl, ?_, by simp⟩
        simp only [len8, utf8Size_asciiWs hw]; omega
      · simp [hw] at h

theorem parseLineNumber_boundary (s : Str) (n e : Nat) (h : parseLineNumber s = some (n, e)) :
    ∃ pre suf, s = pre ++ suf ∧ len8 pre = e ∧ pre ≠ [] := by
  obtain ⟨pre, suf, h1, h2, h3⟩ := parseLineNumberAux_boundary s 0 n e h
  exact ⟨pre, suf, h1, by omega, h3⟩

theorem dropBytes_prefix (pre suf : Str) : dropBytes (len8 pre) (pre ++ suf) = suf := by
  induction pre with
  | nil => simp [len8, dropBytes]
  | cons c cs ih =>
    have hpos : 0 < c.utf8Size := Char.utf8Size_pos c
    have : c.utf8Size + len8 cs = (c.utf8Size + len8 cs - 1) + 1 := by omega
    simp only [List.cons_append, len8]
    rw [this, dropBytes]
    have h2 : c.utf8Size + len8 cs - 1 + 1 - c.utf8Size = len8 cs := by omega
    rw [h2, ih]

/-- the semantic-token list `analyzeLine` records for one file line -/
def lineToks (F : Type) [NumOps F] (line : Str) : List (TokenType × Nat × Nat) :=
  if line.isEmpty then []
  else
    match parseLineNumber line with
    | none => []
    | some (_, lnEnd) =>
      match tokenizeRanges (F := F) line lnEnd with
      | (toks, none) => (Extracted.numberType, 0, lnEnd) :: toks.map fun p => (p.1.tokenType, p.2.1, p.2.2)
      | (_, some _) => [(Extracted.numberType, 0, lnEnd)]

omit [NumOps F] in
/-- `C13.Chain` + `C13.RangeExact` for every token (the conclusions of `ranges_chain`
    and `ranges_exact`) give `LineChain`. -/
theorem chain_of_exact (line : Str) (lo : Nat) (toks : List (RangedToken F))
    (hc : C13.Chain lo toks) (hx : ∀ t a b, (t, a, b) ∈ toks → C13.RangeExact line t a b) :
    LineChain line lo (toks.map fun p => (p.1.tokenType, p.2.1, p.2.2)) := by
  induction toks generalizing lo with
  | nil => trivial
  | cons e rest ih =>
    obtain ⟨t, a, b⟩ := e
    obtain ⟨h1, _, h3⟩ := hc
    have hex := hx t a b (List.mem_cons_self ..)
    have hb := hex.bounds
    obtain ⟨p, m, s, hw, hp, hm, _, _⟩ := hex
    refine ⟨h1, hb.1, ⟨p, m ++ s, by rw [hw]; simp, hp⟩, ⟨p ++ m, s, hw, ?_⟩, ?_⟩
    · show len8 (p ++ m) = b
      rw [C13.len8_append]; omega
    · exact ih b h3 (fun t' a' b' hmem => hx t' a' b' (List.mem_cons_of_mem _ hmem))

/-- The token list of every line is a strictly ordered chain of non-empty
    ranges on character boundaries. -/
theorem lineToks_chain (line : Str) : LineChain line 0 (lineToks F line) := by
  unfold lineToks
  split
  · trivial
  · cases hp : parseLineNumber line with
    | none => trivial
    | some q =>
      obtain ⟨n, lnEnd⟩ := q
      obtain ⟨pre, suf, hline, hlen, hne⟩ := parseLineNumber_boundary line n lnEnd hp
      have hpos : 0 < lnEnd := by rw [← hlen]; exact C13.len8_pos_of_ne_nil hne
      have hb0 : Boundary line 0 := ⟨[], line, rfl, rfl⟩
      have hbe : Boundary line lnEnd := ⟨pre, suf, hline, hlen⟩
      have hskip : ∃ pre, line = pre ++ dropBytes lnEnd line ∧ len8 pre = lnEnd := by
        refine ⟨pre, ?_, hlen⟩
        rw [← hlen]
        conv => rhs; rhs; rw [hline]
        rw [dropBytes_prefix]; exact hline
      simp only
      cases ht : tokenizeRanges (F := F) line lnEnd with
      | mk toks err =>
        have hch := C13.ranges_chain (F := F) line lnEnd
        have hex := C13.ranges_exact (F := F) line lnEnd hskip
        rw [ht] at hch hex
        cases err with
        | none => exact ⟨Nat.le_refl _, hpos, hb0, hbe, chain_of_exact line lnEnd toks hch hex⟩
        | some e => exact ⟨Nat.le_refl _, hpos, hb0, hbe, trivial⟩

theorem linesOk_map (lines : List Str) : LinesOk lines (lines.map (lineToks F)) := by
  intro i text lt h1 h2
  simp only [List.getElem?_map, h1, Option.map_some, Option.some.injEq] at h2
  subst h2
  exact lineToks_chain text

/-- with in-bounds chains for every line and no more token lists than lines, the encoder succeeds -/
theorem semTokLine_some (text : Str) (lineNo lo : Nat) (lt : List (TokenType × Nat × Nat)) (pl ps : Nat)
    (h : LineChain text lo lt) (hpl : pl ≤ lineNo) (hps : ps ≤ utf16Col text lo) :
    ∃ toks pl', semTokLine text lineNo lt pl ps = some (toks, pl') ∧ pl' ≤ lineNo := by
  induction lt generalizing lo pl ps with
  | nil => exact ⟨[], pl, rfl, hpl⟩
  | cons e rest ih =>
    obtain ⟨tt, a, b⟩ := e
    obtain ⟨hlo, hab, _, _, hrest⟩ := h
    have h1 := col_monotone text lo a hlo
    have h2 := col_monotone text a b (Nat.le_of_lt hab)
    obtain ⟨toks, pl', hr, hle⟩ := ih b lineNo (utf16Col text a) hrest (Nat.le_refl _) h2
    have hc : (decide (lineNo < pl) || decide (utf16Col text a < ps) || decide (utf16Col text b < utf16Col text a)) = false := by
      simp only [Bool.or_eq_false_iff, decide_eq_false_iff_not, Nat.not_lt]
      omega
    simp only [semTokLine, hc, Bool.false_eq_true, if_false, hr]
    exact ⟨_, _, rfl, hle⟩

theorem semTokLines_some (lines : List Str) (toks : List (List (TokenType × Nat × Nat))) (lineNo pl : Nat)
    (hok : LinesOk lines toks) (hlen : toks.length ≤ lines.length) (hpl : pl ≤ lineNo) :
    ∃ out, semTokLines lines toks lineNo pl = some out := by
  induction toks generalizing lines lineNo pl with
  | nil => cases lines <;> exact ⟨[], by simp [semTokLines]⟩
  | cons lt lts ih =>
    cases lines with
    | nil => simp at hlen
    | cons text texts =>
      obtain ⟨ts, pl', h1, hle⟩ := semTokLine_some text lineNo 0 lt pl 0 hok.head hpl (Nat.zero_le _)
      obtain ⟨more, h2⟩ := ih texts (lineNo + 1) pl' hok.tail (by simpa using hlen) (by omega)
      exact ⟨ts ++ more, by simp only [semTokLines, h1, h2]⟩

/-! ### what `analyzeFile` leaves in the analysis -/

/-- the range record `analyzeLine` appends for one file line -/
def lineRanges (F : Type) [NumOps F] (line : Str) : LineRanges :=
  if line.isEmpty then {}
  else
    match parseLineNumber line with
    | none => {}
    | some (_, lnEnd) =>
      match tokenizeRanges (F := F) line lnEnd with
      | (toks, none) => { lineNumberEnd := lnEnd, tokenRanges := some (toks.map fun p => (p.2.1, p.2.2)) }
      | (_, some e) => { lineNumberEnd := lnEnd, tokErrRange := some (e.range line) }

/-- the file line a diagnostic is attached to -/
def fileLine : Diag → Nat
  | .warning f _ _ => f
  | .error f _ => f

/-- **The link between `analyzeLine` and `tokenizeRanges`**: one line appends exactly
    `lineToks line` / `lineRanges line`, keeps the line texts, and only adds
    diagnostics attached to the line's own index. -/
theorem analyzeLine_spec (a : Analysis F) (i : Nat) (line : Str) :
    (analyzeLine a i line).lines = a.lines ∧
    (analyzeLine a i line).lineTokens = a.lineTokens ++ [lineToks F line] ∧
    (analyzeLine a i line).map.ranges = a.map.ranges ++ [lineRanges F line] ∧
    ∀ d ∈ (analyzeLine a i line).messages, d ∈ a.messages ∨ fileLine d = i := by
  have fin : ∀ (msgs : List Diag), (∀ d ∈ msgs, d ∈ a.messages ∨ d = .warning i none "Redefinition of pre-existing BASIC line.".toList ∨ fileLine d = i) →
      ∀ d ∈ msgs, d ∈ a.messages ∨ fileLine d = i := by
    intro msgs h d hd
    rcases h d hd with h | rfl | h
    · exact .inl h
    · exact .inr rfl
    · exact .inr h
  by_cases he : line.isEmpty = true
  · simp only [analyzeLine, lineToks, lineRanges, he, if_true]
    exact ⟨trivial, trivial, trivial, fun d hd => .inl hd⟩
  · cases hp : parseLineNumber line with
    | none =>
      simp only [analyzeLine, lineToks, lineRanges, he, hp, warnLine, Bool.false_eq_true, if_false]
      refine ⟨trivial, trivial, trivial, fin _ ?_⟩
      intro d hd
      simp only [List.mem_append, List.mem_singleton] at hd
      rcases hd with hd | rfl
      · exact .inl hd
      · exact .inr (.inr rfl)
    | some q =>
      obtain ⟨n, lnEnd⟩ := q
      cases ht : tokenizeRanges (F := F) line lnEnd with
      | mk toks err =>
        cases err with
        | none =>
          by_cases hh : a.st.lines.has n = true <;> by_cases hemp : toks.isEmpty = true <;>
            simp only [analyzeLine, lineToks, lineRanges, he, hp, ht, hh, hemp, warnLine, Bool.false_eq_true, if_false, if_true] <;>
            refine ⟨trivial, trivial, trivial, fin _ ?_⟩ <;> intro d hd <;>
            (try simp only [List.mem_append, List.mem_singleton] at hd)
          · rcases hd with (hd | rfl) | rfl
            · exact .inl hd
            · exact .inr (.inl rfl)
            · exact .inr (.inr rfl)
          · rcases hd with hd | rfl
            · exact .inl hd
            · exact .inr (.inl rfl)
          · rcases hd with hd | rfl
            · exact .inl hd
            · exact .inr (.inr rfl)
          · exact .inl hd
        | some e =>
          by_cases hh : a.st.lines.has n = true <;>
            simp only [analyzeLine, lineToks, lineRanges, he, hp, ht, hh, warnLine, Bool.false_eq_true, if_false, if_true] <;>
            refine ⟨trivial, trivial, trivial, fin _ ?_⟩ <;> intro d hd <;>
            (try simp only [List.mem_append, List.mem_singleton] at hd)
          · rcases hd with (hd | rfl) | rfl
            · exact .inl hd
            · exact .inr (.inl rfl)
            · exact .inr (.inr rfl)
          · rcases hd with hd | rfl
            · exact .inl hd
            · exact .inr (.inr rfl)

theorem analyzeLines_spec (a : Analysis F) (i : Nat) (ls : List Str) :
    (analyzeLines a i ls).lines = a.lines ∧
    (analyzeLines a i ls).lineTokens = a.lineTokens ++ ls.map (lineToks F) ∧
    (analyzeLines a i ls).map.ranges = a.map.ranges ++ ls.map (lineRanges F) ∧
    ∀ d ∈ (analyzeLines a i ls).messages, d ∈ a.messages ∨ (i ≤ fileLine d ∧ fileLine d < i + ls.length) := by
  induction ls generalizing a i with
  | nil => simp only [analyzeLines, List.map_nil, List.append_nil]; exact ⟨trivial, trivial, trivial, fun d hd => .inl hd⟩
  | cons l ls ih =>
    obtain ⟨h1, h2, h3, h4⟩ := analyzeLine_spec a i l
    obtain ⟨g1, g2, g3, g4⟩ := ih (analyzeLine a i l) (i + 1)
    simp only [analyzeLines]
    refine ⟨by rw [g1, h1], by rw [g2, h2]; simp, by rw [g3, h3]; simp, ?_⟩
    intro d hd
    rcases g4 d hd with hd | hd
    · rcases h4 d hd with hd | hd
      · exact .inl hd
      · exact .inr (by simp only [List.length_cons]; omega)
    · exact .inr (by simp only [List.length_cons]; omega)

/-- `a` differs from `a0` only in interpreter state, panic flag and extra diagnostics,
    each attached to an existing file line -/
def Keeps (a0 a : Analysis F) : Prop :=
  a.lines = a0.lines ∧ a.lineTokens = a0.lineTokens ∧ a.map = a0.map ∧
    ∀ d ∈ a.messages, d ∈ a0.messages ∨ fileLine d < a0.map.ranges.length

omit [NumOps F] in
theorem Keeps.refl (a : Analysis F) : Keeps a a := ⟨rfl, rfl, rfl, fun _ hd => .inl hd⟩

omit [NumOps F] in
theorem Keeps.trans {a0 a1 a2 : Analysis F} (h1 : Keeps a0 a1) (h2 : Keeps a1 a2) : Keeps a0 a2 := by
  obtain ⟨p1, p2, p3, p4⟩ := h1
  obtain ⟨q1, q2, q3, q4⟩ := h2
  refine ⟨by rw [q1, p1], by rw [q2, p2], by rw [q3, p3], ?_⟩
  intro d hd
  rcases q4 d hd with hd | hd
  · exact p4 d hd
  · exact .inr (by rw [p3] at hd; exact hd)

omit [NumOps F] in
/-- any update of `st`, `panicked` only -/
theorem Keeps.same {a0 a : Analysis F} (h1 : a.lines = a0.lines) (h2 : a.lineTokens = a0.lineTokens)
    (h3 : a.map = a0.map) (h4 : a.messages = a0.messages) : Keeps a0 a :=
  ⟨h1, h2, h3, fun d hd => .inl (by rw [← h4]; exact hd)⟩

omit [NumOps F] in
theorem Keeps.addMsg {a0 a : Analysis F} (d0 : Diag) (h1 : a.lines = a0.lines) (h2 : a.lineTokens = a0.lineTokens)
    (h3 : a.map = a0.map) (h4 : a.messages = a0.messages ++ [d0]) (h5 : fileLine d0 < a0.map.ranges.length) :
    Keeps a0 a := by
  refine ⟨h1, h2, h3, ?_⟩
  intro d hd
  rw [h4] at hd
  rcases List.mem_append.mp hd with hd | hd
  · exact .inl hd
  · simp only [List.mem_singleton] at hd; subst hd; exact .inr h5

theorem analyzeStatements_keeps (fuel n : Nat) (a : Analysis F) : Keeps a (analyzeStatements fuel n a) := by
  induction n generalizing a with
  | zero => exact Keeps.same rfl rfl rfl rfl
  | succ n ih =>
    unfold analyzeStatements
    cases hasNext a.st with
    | err e s => exact Keeps.same rfl rfl rfl rfl
    | ok b st =>
      cases b with
      | false => exact Keeps.same rfl rfl rfl rfl
      | true =>
        simp only
        cases aStmtBody (aEvalN fuel) st with
        | ok u st' => exact Keeps.trans (Keeps.same rfl rfl rfl rfl) (ih _)
        | err e st' =>
          simp only
          split
          · exact Keeps.same rfl rfl rfl rfl
          · split
            · rename_i f x y hm
              refine Keeps.addMsg (.error f (st'.populate e)) rfl rfl rfl rfl ?_
              cases hl : (st'.populate e).loc with
              | none => simp [hl] at hm
              | some loc =>
                simp only [hl, Option.bind_some] at hm
                exact C05.mapLoc_line_exists a.map loc f x y hm
            · exact Keeps.same rfl rfl rfl rfl

theorem analyzeProgram_step (fuel n : Nat) (ih : ∀ a : Analysis F, Keeps a (analyzeProgram fuel n a))
    (a a1 : Analysis F) (hk : Keeps a a1) :
    Keeps a (if a1.panicked.isSome then a1
      else
        match nextLine a1.st with
        | .ok true st => analyzeProgram fuel n { a1 with st := st }
        | .ok false st => { a1 with st := st }
        | .err e _ => { a1 with panicked := some (toString (repr e.err)) }) := by
  split
  · exact hk
  · cases nextLine a1.st with
    | err e s => exact Keeps.trans hk (Keeps.same rfl rfl rfl rfl)
    | ok b st =>
      cases b with
      | false => exact Keeps.trans hk (Keeps.same rfl rfl rfl rfl)
      | true => exact Keeps.trans hk (Keeps.trans (Keeps.same rfl rfl rfl rfl) (ih _))

theorem analyzeProgram_keeps (fuel n : Nat) (a : Analysis F) : Keeps a (analyzeProgram fuel n a) := by
  induction n generalizing a with
  | zero => exact Keeps.same rfl rfl rfl rfl
  | succ n ih =>
    unfold analyzeProgram
    split
    · exact Keeps.refl a
    · exact analyzeProgram_step fuel n ih a _ (analyzeStatements_keeps fuel _ a)

omit [NumOps F] in
theorem foldl_keeps {β : Type} (f : Analysis F → β → Analysis F) (hf : ∀ a b, Keeps a (f a b))
    (l : List β) (a : Analysis F) : Keeps a (l.foldl f a) := by
  induction l generalizing a with
  | nil => exact Keeps.refl a
  | cons b l ih => exact Keeps.trans (hf a b) (ih _)

omit [NumOps F] in
theorem symbolWarnings_keeps (a : Analysis F) : Keeps a (symbolWarnings a) := by
  unfold symbolWarnings
  simp only
  apply foldl_keeps
  intro a1 sym
  have emit : ∀ (locs : List (Str × Nat × Nat × Access)) (text : Str) (a2 : Analysis F),
      Keeps a2 (locs.foldl (fun a (x : Str × Nat × Nat × Access) =>
        match x with
        | (_, n, i, _) =>
          match a.map.mapLoc { line := some n, idx := i } with
          | some (f, _, _) => { a with messages := a.messages ++ [.warning f (some (n, i)) text] }
          | none => { a with panicked := some "symbol warning: unwrap on None" }) a2) := by
    intro locs text a2
    apply foldl_keeps
    intro a3 x
    obtain ⟨s, n, i, k⟩ := x
    simp only
    split
    · rename_i f x y hm
      exact Keeps.addMsg (.warning f (some (n, i)) text) rfl rfl rfl rfl
        (C05.mapLoc_line_exists a3.map _ f x y hm)
    · exact Keeps.same rfl rfl rfl rfl
  split
  · exact emit _ _ _
  · split
    · exact emit _ _ _
    · exact Keeps.refl _

theorem analyzeFile_keeps (fuel : Nat) (lines : List Str) :
    Keeps (analyzeLines ({ lines := lines } : Analysis F) 0 lines) (analyzeFile fuel lines) := by
  unfold analyzeFile
  simp only
  have h1 : Keeps (analyzeLines ({ lines := lines } : Analysis F) 0 lines)
      { analyzeLines ({ lines := lines } : Analysis F) 0 lines with
        st := (analyzeLines ({ lines := lines } : Analysis F) 0 lines).st.runFromFirst } :=
    Keeps.same rfl rfl rfl rfl
  have h2 := Keeps.trans h1 (analyzeProgram_keeps fuel (lines.length + 2) _)
  split
  · exact h2
  · exact Keeps.trans h2 (symbolWarnings_keeps _)

/-- What the whole analysis of a file leaves for the front ends: the line texts,
    one `lineToks` token list and one `lineRanges` record per line, and
    diagnostics attached to existing file lines only. -/
theorem analyzeFile_spec (fuel : Nat) (lines : List Str) :
    (analyzeFile (F := F) fuel lines).lines = lines ∧
    (analyzeFile (F := F) fuel lines).lineTokens = lines.map (lineToks F) ∧
    (analyzeFile (F := F) fuel lines).map.ranges = lines.map (lineRanges F) ∧
    ∀ d ∈ (analyzeFile (F := F) fuel lines).messages, fileLine d < lines.length := by
  obtain ⟨k1, k2, k3, k4⟩ := analyzeFile_keeps (F := F) fuel lines
  obtain ⟨s1, s2, s3, s4⟩ := analyzeLines_spec ({ lines := lines } : Analysis F) 0 lines
  refine ⟨by rw [k1, s1], by rw [k2, s2]; rfl, by rw [k3, s3]; rfl, ?_⟩
  intro d hd
  rcases k4 d hd with hd | hd
  · rcases s4 d hd with hd | hd
    · simp at hd
    · omega
  · rw [s3] at hd; simpa using hd

/-- the token lists of an analysed document come from `tokenizeRanges` of its lines -/
theorem lspAnalyze_lineTokens (fuel : Nat) (doc : Str) :
    (lspAnalyze (F := F) fuel doc).lines = splitDocumentLines doc ∧
    (lspAnalyze (F := F) fuel doc).lineTokens = (splitDocumentLines doc).map (lineToks F) := by
  obtain ⟨h1, h2, _, _⟩ := analyzeFile_spec (F := F) fuel (splitDocumentLines doc)
  exact ⟨h1, h2⟩

/-- the hypothesis of `delta_decodes_ordered` holds for every analysed document -/
theorem lspAnalyze_linesOk (fuel : Nat) (doc : Str) :
    LinesOk (lspAnalyze (F := F) fuel doc).lines (lspAnalyze (F := F) fuel doc).lineTokens := by
  obtain ⟨h1, h2⟩ := lspAnalyze_lineTokens (F := F) fuel doc
  rw [h1, h2]
  exact linesOk_map _

/-- **Item 2** (`lsp_total`, semantic-token half, and well-formedness).  For every
    document, computing the semantic tokens never fails, and what the client decodes
    from them is exactly the tokens at their absolute positions, strictly ordered by
    (line, column), non-overlapping, of positive length, inside their lines (in UTF-16
    units) and with types from the advertised legend. -/
theorem semantic_tokens_ok (fuel : Nat) (doc : Str) :
    ∃ out, semanticTokens (lspAnalyze (F := F) fuel doc) = some out ∧
      decode out = absToks (lspAnalyze (F := F) fuel doc).lines (lspAnalyze (F := F) fuel doc).lineTokens 0 ∧
      WellFormed (lspAnalyze (F := F) fuel doc).lines (decode out) := by
  have hok := lspAnalyze_linesOk (F := F) fuel doc
  obtain ⟨h1, h2⟩ := lspAnalyze_lineTokens (F := F) fuel doc
  have hlen : (lspAnalyze (F := F) fuel doc).lineTokens.length ≤ (lspAnalyze (F := F) fuel doc).lines.length := by
    rw [h1, h2]; simp
  obtain ⟨out, hout⟩ := semTokLines_some _ _ 0 0 hok hlen (Nat.le_refl _)
  exact ⟨out, hout, delta_decodes_ordered _ _ out hout hok⟩

theorem semantic_tokens_total (fuel : Nat) (doc : Str) :
    semanticTokens (lspAnalyze (F := F) fuel doc) ≠ none := by
  obtain ⟨out, h, _⟩ := semantic_tokens_ok (F := F) fuel doc
  rw [h]; simp

/-! ### 3. diagnostics -/

/-- an unterminated-string error starts inside the text being tokenized -/
theorem tokLoop_unterminated_bound (fuel : Nat) (cs : Str) (idx total : Nat) (acc : List (RangedToken F)) (i : Nat)
    (hinv : idx + len8 cs ≤ total) (h : (tokLoop fuel cs idx acc).2 = some (.unterminated i)) : i ≤ total := by
  induction fuel generalizing cs idx acc with
  | zero => simp [tokLoop] at h
  | succ fuel ih =>
    obtain ⟨ws, _, _, hlen, _⟩ := C13.skipWs_suffix' cs
    unfold tokLoop at h
    simp only at h
    generalize skipWs cs = r at hlen h
    cases r with
    | nil => simp at h
    | cons c r0 =>
      simp only at h
      cases hn : nextToken (F := F) (c :: r0) with
      | tok t rest =>
        rw [hn] at h
        obtain ⟨pre, hpre, hcr⟩ := C13.nextToken_cases_consumes (c :: r0) t rest hn
        have hl : len8 (c :: r0) = len8 pre + len8 rest := by rw [hcr]; exact C13.len8_append pre rest
        exact ih _ _ _ (by omega) h
      | illegalChar => rw [hn] at h; simp at h
      | unterminated => rw [hn] at h; simp at h; subst h; omega
      | invalidNumber r'' => rw [hn] at h; simp at h

theorem tokenize_unterminated_bound (line : Str) (skip i : Nat)
    (h : (tokenizeRanges (F := F) line skip).2 = some (.unterminated i)) : i ≤ len8 line := by
  unfold tokenizeRanges at h
  simp only at h
  rcases C13.dropBytes_len8 skip line with hd | hd
  · rw [hd] at h; simp [tokLoop, skipWs] at h
  · exact tokLoop_unterminated_bound _ _ _ _ _ _ hd h

/-- every byte range in a range record is ordered -/
def RecOk (r : LineRanges) : Prop :=
  (∀ trs, r.tokenRanges = some trs → ∀ p ∈ trs, p.1 ≤ p.2) ∧ (∀ p, r.tokErrRange = some p → p.1 ≤ p.2)

def RangesOk (m : FileMap) : Prop := ∀ r ∈ m.ranges, RecOk r

theorem recOk_default : RecOk {} := ⟨fun trs h => (by cases h), fun p h => (by cases h)⟩

theorem lineRanges_ok (line : Str) : RecOk (lineRanges F line) := by
  unfold lineRanges
  split
  · exact recOk_default
  · cases hp : parseLineNumber line with
    | none => exact recOk_default
    | some q =>
      obtain ⟨n, lnEnd⟩ := q
      simp only
      cases ht : tokenizeRanges (F := F) line lnEnd with
      | mk toks err =>
        cases err with
        | none =>
          refine ⟨?_, fun p h => by cases h⟩
          intro trs h p hp
          simp only [Option.some.injEq] at h
          subst h
          obtain ⟨q, hq, rfl⟩ := List.mem_map.mp hp
          obtain ⟨t, a, b⟩ := q
          have := C13.ranges_in_bounds_strict (F := F) line lnEnd t a b (by rw [ht]; exact hq)
          simp only; omega
        | some e =>
          refine ⟨fun trs h => (by cases h), ?_⟩
          intro p h
          simp only [Option.some.injEq] at h
          subst h
          cases e with
          | illegalChar i => simp only [TokErr.range]; split <;> simp only <;> omega
          | unterminated i =>
            have := tokenize_unterminated_bound (F := F) line lnEnd i (by rw [ht])
            simpa [TokErr.range] using this
          | invalidNumber x y =>
            have := C13.error_after_skip (F := F) line lnEnd (.invalidNumber x y) (by rw [ht])
            simp only [C13.ErrPosOk] at this
            simpa [TokErr.range] using this.2
          | outOfFuel => simp [TokErr.range]

/-- a mapped location is one of the recorded token ranges of its file line -/
theorem mapLoc_mem (m : FileMap) (loc : Loc) (f x y : Nat) (h : m.mapLoc loc = some (f, x, y)) :
    ∃ r trs, m.ranges[f]? = some r ∧ r.tokenRanges = some trs ∧ (x, y) ∈ trs := by
  unfold FileMap.mapLoc at h
  split at h
  · simp at h
  · split at h
    · simp at h
    · rename_i n f' hf
      split at h
      · simp at h
      · rename_i r hr
        split at h
        · simp at h
        · rename_i trs htrs
          simp only [Option.map_eq_some_iff] at h
          obtain ⟨p, hp1, hp⟩ := h
          obtain ⟨x', y'⟩ := p
          simp only [Prod.mk.injEq] at hp
          obtain ⟨rfl, rfl, rfl⟩ := hp
          exact ⟨r, trs, hr, htrs, List.mem_of_getElem? hp1⟩

theorem mapLoc_ordered (m : FileMap) (hr : RangesOk m) (loc : Loc) (f x y : Nat)
    (h : m.mapLoc loc = some (f, x, y)) : x ≤ y := by
  obtain ⟨r, trs, h1, h2, h3⟩ := mapLoc_mem m loc f x y h
  exact (hr r (List.mem_of_getElem? h1)).1 trs h2 (x, y) h3

/-- whatever `map_to_source` returns is an ordered byte range on an existing file line -/
theorem mapDiag_range (m : FileMap) (d : Diag) (f x y : Nat) (h : m.mapDiag d = some (some (f, x, y))) :
    f < m.ranges.length ∧ (RangesOk m → x ≤ y) := by
  cases d with
  | warning fl loc msg =>
    cases loc with
    | none =>
      simp only [FileMap.mapDiag] at h
      cases hr : m.ranges[fl]? with
      | none => simp [hr] at h
      | some r =>
        simp only [hr, Option.some.injEq, Prod.mk.injEq] at h
        obtain ⟨rfl, rfl, _⟩ := h
        exact ⟨(List.getElem?_eq_some_iff.mp hr).1, fun _ => Nat.zero_le _⟩
    | some p =>
      obtain ⟨n, i⟩ := p
      simp only [FileMap.mapDiag, Option.some.injEq] at h
      exact ⟨C05.mapLoc_line_exists m _ f x y h, fun hr => mapLoc_ordered m hr _ f x y h⟩
  | error fl e =>
    simp only [FileMap.mapDiag] at h
    split at h
    · cases hr : m.ranges[fl]? with
      | none => simp [hr] at h
      | some r =>
        simp only [hr, Option.some.injEq, Option.map_eq_some_iff] at h
        obtain ⟨p, hp1, hp⟩ := h
        obtain ⟨x', y'⟩ := p
        simp only [Prod.mk.injEq] at hp
        obtain ⟨rfl, rfl, rfl⟩ := hp
        exact ⟨(List.getElem?_eq_some_iff.mp hr).1, fun hok => (hok r (List.mem_of_getElem? hr)).2 _ hp1⟩
    · split at h
      · simp only [Option.some.injEq] at h
        exact ⟨C05.mapLoc_line_exists m _ f x y h, fun hr => mapLoc_ordered m hr _ f x y h⟩
      · simp at h

/-- `map_to_source` does not hit its index panic for a diagnostic on an existing file line -/
theorem mapDiag_some (m : FileMap) (d : Diag) (hf : fileLine d < m.ranges.length) :
    ∃ r, m.mapDiag d = some r := by
  cases d with
  | warning fl loc msg =>
    cases loc with
    | none =>
      simp only [fileLine] at hf
      simp only [FileMap.mapDiag, List.getElem?_eq_getElem hf]
      exact ⟨_, rfl⟩
    | some p => exact ⟨_, rfl⟩
  | error fl e =>
    simp only [fileLine] at hf
    simp only [FileMap.mapDiag, List.getElem?_eq_getElem hf]
    split
    · exact ⟨_, rfl⟩
    · split <;> exact ⟨_, rfl⟩

/-- one step of the fold in `lspDiagnostics` -/
def diagStep (a : Analysis F) (acc : Option (List LspDiag)) (d : Diag) : Option (List LspDiag) :=
  match acc with
  | none => none
  | some ds =>
    match a.map.mapDiag d with
    | none => none
    | some none => some ds
    | some (some (f, x, y)) =>
      match a.lines[f]? with
      | none => none
      | some text =>
        let (isErr, msg) : Bool × Str := match d with
          | .warning _ _ m => (false, m)
          | .error _ e => (true, errText e)
        some (ds ++ [{ line := f, startCol := utf16Col text x, endCol := utf16Col text y, isError := isErr, text := msg }])

omit [NumOps F] in
theorem lspDiagnostics_eq (a : Analysis F) : lspDiagnostics a = a.messages.foldl (diagStep a) (some []) := rfl

/-- a published diagnostic is on an existing line, `startCol ≤ endCol ≤` the line's UTF-16 length -/
def DiagOk (lines : List Str) (d : LspDiag) : Prop :=
  d.line < lines.length ∧ ∃ text, lines[d.line]? = some text ∧ d.startCol ≤ d.endCol ∧ d.endCol ≤ utf16Len text

/-- without the ordering of the recorded byte ranges: both columns are still inside the line -/
def DiagIn (lines : List Str) (d : LspDiag) : Prop :=
  d.line < lines.length ∧ ∃ text, lines[d.line]? = some text ∧ d.startCol ≤ utf16Len text ∧ d.endCol ≤ utf16Len text

omit [NumOps F] in
theorem diagStep_some (a : Analysis F) (ds ds' : List LspDiag) (d : Diag) (h : diagStep a (some ds) d = some ds') :
    ds' = ds ∨ ∃ f x y text isErr msg, a.map.mapDiag d = some (some (f, x, y)) ∧ a.lines[f]? = some text ∧
      ds' = ds ++ [{ line := f, startCol := utf16Col text x, endCol := utf16Col text y, isError := isErr, text := msg }] := by
  unfold diagStep at h
  simp only at h
  cases hm : a.map.mapDiag d with
  | none => simp [hm] at h
  | some r =>
    cases r with
    | none => simp only [hm, Option.some.injEq] at h; exact .inl h.symm
    | some p =>
      obtain ⟨f, x, y⟩ := p
      simp only [hm] at h
      cases hl : a.lines[f]? with
      | none => simp [hl] at h
      | some text =>
        simp only [hl] at h
        cases d <;> simp only [Option.some.injEq] at h <;> exact .inr ⟨f, x, y, text, _, _, rfl, hl, h.symm⟩

omit [NumOps F] in
theorem diagStep_none (a : Analysis F) (d : Diag) : diagStep a none d = none := rfl

omit [NumOps F] in
theorem diagFold_none (a : Analysis F) (msgs : List Diag) : msgs.foldl (diagStep a) none = none := by
  induction msgs with
  | nil => rfl
  | cons d msgs ih => simpa [List.foldl_cons, diagStep_none] using ih

omit [NumOps F] in
theorem diagFold_some (a : Analysis F) (P : LspDiag → Prop)
    (hP : ∀ d f x y text isErr msg, a.map.mapDiag d = some (some (f, x, y)) → a.lines[f]? = some text →
      P { line := f, startCol := utf16Col text x, endCol := utf16Col text y, isError := isErr, text := msg })
    (msgs : List Diag) (ds ds' : List LspDiag) (hds : ∀ x ∈ ds, P x)
    (h : msgs.foldl (diagStep a) (some ds) = some ds') : ∀ x ∈ ds', P x := by
  induction msgs generalizing ds with
  | nil => simp only [List.foldl_nil, Option.some.injEq] at h; subst h; exact hds
  | cons d msgs ih =>
    simp only [List.foldl_cons] at h
    cases hs : diagStep a (some ds) d with
    | none => rw [hs, diagFold_none] at h; cases h
    | some ds1 =>
      rw [hs] at h
      refine ih ds1 ?_ h
      rcases diagStep_some a ds ds1 d hs with rfl | ⟨f, x, y, text, isErr, msg, h1, h2, rfl⟩
      · exact hds
      · intro z hz
        rcases List.mem_append.mp hz with hz | hz
        · exact hds z hz
        · simp only [List.mem_singleton] at hz; subst hz; exact hP d f x y text isErr msg h1 h2

omit [NumOps F] in
/-- **Item 3, first half** (any analysis).  Whatever `lspDiagnostics` returns: every
    diagnostic is on an existing line with both columns inside that line … -/
theorem diags_in_line (a : Analysis F) (ds : List LspDiag) (h : lspDiagnostics a = some ds) :
    ∀ d ∈ ds, DiagIn a.lines d := by
  rw [lspDiagnostics_eq] at h
  refine diagFold_some a (DiagIn a.lines) ?_ a.messages [] ds (by simp) h
  intro d f x y text isErr msg _ hl
  exact ⟨(List.getElem?_eq_some_iff.mp hl).1, text, hl, col_in_bounds text x, col_in_bounds text y⟩

omit [NumOps F] in
/-- … and `startCol ≤ endCol` as soon as the byte ranges recorded in the file map are ordered. -/
theorem diags_in_bounds_of (a : Analysis F) (hr : RangesOk a.map) (ds : List LspDiag)
    (h : lspDiagnostics a = some ds) : ∀ d ∈ ds, DiagOk a.lines d := by
  rw [lspDiagnostics_eq] at h
  refine diagFold_some a (DiagOk a.lines) ?_ a.messages [] ds (by simp) h
  intro d f x y text isErr msg hm hl
  exact ⟨(List.getElem?_eq_some_iff.mp hl).1, text, hl,
    col_monotone text x y ((mapDiag_range a.map d f x y hm).2 hr), col_in_bounds text y⟩

omit [NumOps F] in
theorem diagFold_total (a : Analysis F) (hlen : a.map.ranges.length = a.lines.length)
    (msgs : List Diag) (hm : ∀ d ∈ msgs, fileLine d < a.map.ranges.length) (ds : List LspDiag) :
    ∃ ds', msgs.foldl (diagStep a) (some ds) = some ds' := by
  induction msgs generalizing ds with
  | nil => exact ⟨ds, rfl⟩
  | cons d msgs ih =>
    simp only [List.foldl_cons]
    have hstep : ∃ ds1, diagStep a (some ds) d = some ds1 := by
      obtain ⟨r, hr⟩ := mapDiag_some a.map d (hm d (List.mem_cons_self ..))
      unfold diagStep
      simp only [hr]
      cases r with
      | none => exact ⟨ds, rfl⟩
      | some p =>
        obtain ⟨f, x, y⟩ := p
        have hf := (mapDiag_range a.map d f x y hr).1
        rw [hlen] at hf
        simp only [List.getElem?_eq_getElem hf]
        cases d <;> exact ⟨_, rfl⟩
    obtain ⟨ds1, h1⟩ := hstep
    rw [h1]
    exact ih (fun d' hd' => hm d' (List.mem_cons_of_mem _ hd')) ds1

omit [NumOps F] in
/-- **Item 3, second half** (any analysis): no index panic when there is one range record
    per line and every diagnostic is attached to an existing file line. -/
theorem diags_total_of (a : Analysis F) (hlen : a.map.ranges.length = a.lines.length)
    (hm : ∀ d ∈ a.messages, fileLine d < a.map.ranges.length) : lspDiagnostics a ≠ none := by
  obtain ⟨ds, h⟩ := diagFold_total a hlen a.messages hm []
  rw [lspDiagnostics_eq, h]; simp

/-- the byte ranges recorded for an analysed file are ordered -/
theorem analyzeFile_rangesOk (fuel : Nat) (lines : List Str) : RangesOk (analyzeFile (F := F) fuel lines).map := by
  obtain ⟨_, _, h3, _⟩ := analyzeFile_spec (F := F) fuel lines
  intro r hr
  rw [h3] at hr
  obtain ⟨l, _, rfl⟩ := List.mem_map.mp hr
  exact lineRanges_ok l

/-- **Item 3** for every document: converting the diagnostics never fails, and every
    published diagnostic is on an existing line with `startCol ≤ endCol ≤ utf16Len line`. -/
theorem diags_in_bounds (fuel : Nat) (doc : Str) :
    ∃ ds, lspDiagnostics (lspAnalyze (F := F) fuel doc) = some ds ∧
      ∀ d ∈ ds, d.line < (lspAnalyze (F := F) fuel doc).lines.length ∧
        ∃ text, (lspAnalyze (F := F) fuel doc).lines[d.line]? = some text ∧
          d.startCol ≤ d.endCol ∧ d.endCol ≤ utf16Len text := by
  obtain ⟨h1, _, h3, h4⟩ := analyzeFile_spec (F := F) fuel (splitDocumentLines doc)
  have hlen : (lspAnalyze (F := F) fuel doc).map.ranges.length = (lspAnalyze (F := F) fuel doc).lines.length := by
    unfold lspAnalyze; rw [h1, h3]; simp
  have hm : ∀ d ∈ (lspAnalyze (F := F) fuel doc).messages,
      fileLine d < (lspAnalyze (F := F) fuel doc).map.ranges.length := by
    intro d hd
    have := h4 d hd
    unfold lspAnalyze; rw [h3]; simpa using this
  cases h : lspDiagnostics (lspAnalyze (F := F) fuel doc) with
  | none => exact absurd h (diags_total_of _ hlen hm)
  | some ds => exact ⟨ds, rfl, diags_in_bounds_of _ (analyzeFile_rangesOk fuel _) ds h⟩

theorem diags_total (fuel : Nat) (doc : Str) : lspDiagnostics (lspAnalyze (F := F) fuel doc) ≠ none := by
  obtain ⟨ds, h, _⟩ := diags_in_bounds (F := F) fuel doc
  rw [h]; simp

/-! ### non-vacuity -/

/-- decoding: two tokens on line 0, one on line 2 -/
example : decode [⟨0, 0, 2, 2⟩, ⟨0, 3, 5, 5⟩, ⟨2, 1, 4, 0⟩] = [(0, 0, 2, 2), (0, 3, 5, 5), (2, 1, 4, 0)] := by
  decide

/-- the encoder: an empty line in between, a non-BMP character is two UTF-16 units -/
example : semTokLines ["10 PRINT".toList, [], "😀 ".toList]
    [[(.Number, 0, 2), (.Keyword, 3, 8)], [], [(.Symbol, 0, 4)]] 0 0 =
      some [⟨0, 0, 2, 2⟩, ⟨0, 3, 5, 5⟩, ⟨2, 0, 2, 0⟩] := by
  decide

/-- an analysis value that `analyzeFile` never produces: a reversed recorded range -/
def reversedRange : Analysis Unit :=
  { lines := ["ABCDEF".toList], messages := [.error 0 { err := .syntax (.tokenization .outOfFuel) }], map := { ranges := [{ tokErrRange := some (5, 2) }] } }

/-- why `diags_in_bounds_of` needs `RangesOk`: for an arbitrary analysis value
    `lspDiagnostics` can return a diagnostic with `endCol < startCol`. -/
example : (lspDiagnostics reversedRange).map (fun ds => ds.map fun d => (d.line, d.startCol, d.endCol)) = some [(0, 5, 2)] := by
  decide

end Abasic.Props.C20
