import Abasic.Props.C09More
import Abasic.Props.C17Trace
import Abasic.Props.C03Full
import Abasic.Proofs.ActCount
/-
  C09 (leftovers).

  3. `trace_count` — how many `Out.trace` records one host call adds.  The
     number of NESTED statement activations of a turn is made a definition by
     instrumenting the evaluator (`Count.evalG`, Proofs/ActCount.lean: a mark is
     appended to the — otherwise unread — analyzer log whenever the statement
     evaluator is entered through its recursive entry point `ev.stmt`, i.e.
     under THEN / ELSE); `instrumented_turn` shows the instrumented turn is the
     real turn plus `nestedActivations` marks.  Then, with tracing on, a turn
     that starts a statement on numbered line `ln` adds exactly
     `1 + nestedActivations` records, all `Out.trace ln`; that number is at most
     `nestingLimit + 1 - nesting`; it is 1 unless the statement starts with IF;
     a turn that starts no statement, a turn on the immediate line, and every
     turn with tracing off add none.
  4. `one_statement_per_call` — (a) for ALL programs, at the level of the model:
     a turn calls the statement evaluator exactly once iff a token is left on
     the line (`turn_is_turnWith`, `turn_one_statement`, `turn_no_statement`);
     the statement evaluator re-enters itself only through `nested ev.stmt` in
     `statementOrGoto`, i.e. under THEN / ELSE, and never for a statement that
     does not start with IF (`reentry_only_under_if`, Proofs/StmtIndep.lean);
     a call makes at most `1 + nestingLimit` activations
     (`activations_per_call`).  (b) for the programs covered by the reference
     machines of C03: the statement count of a turn (`stmtCount`: 1 on a
     statement, 0 on a colon) is the number of reference steps the turn
     realises (`one_statement_per_call`, `one_statement_per_call2`).
-/
namespace Abasic.Props.C09
open Abasic Abasic.Hoare Abasic.Trace Abasic.Count

variable {F : Type} [NumOps F]

/-! ## 3. trace records per call -/

/-- the anatomy of a turn (`turn_anatomy`), with the evaluator as a parameter -/
def turnWith (ev : Evals F) : M F Unit := do
  M.modify fun s => { s with state := .running }
  if ← hasNext then stmtBody ev
  sequence

/-- `run_next_statement` with the instrumented evaluator: the same definition,
    `evalG` for `evalN` -/
def runNextStatementG (fuel : Nat) : M F Unit := turnWith (evalG fuel)

/-- **the number of nested THEN / ELSE statement activations of a turn**: the
    marks the instrumented turn leaves in the log beyond what the real turn leaves -/
def nestedActivations (fuel : Nat) (σ : St F) : Nat :=
  (runNextStatementG fuel σ).final.accesses.length - (runNextStatement fuel σ).final.accesses.length

omit [NumOps F] in
theorem addMarks_length (c : Nat) (s : St F) : (addMarks c s).accesses.length = s.accesses.length + c := by
  simp [addMarks]

omit [NumOps F] in
theorem marks_unique {α : Type} {r rG : Res F α} {c : Nat} (h : rG = Acc.mapRes (addMarks c) r) :
    rG.final.accesses.length - r.final.accesses.length = c := by
  rw [h, final_mapRes, addMarks_length]
  omega

/-- a statement that does not start with IF never reaches `ev.stmt`: the
    activation is the same whatever `ev.stmt` is -/
theorem stmtBody_notIf_congr {ev ev' : Evals F} (h : ev.expr = ev'.expr) (σ : St F)
    (hc : curTok σ ≠ some (.kw .If)) : stmtBody ev σ = stmtBody ev' σ := by
  have er : ∀ x : Evals F, stmtBody x σ = dispatch x { σ with out := (here σ).map Out.trace ++ σ.out } := by
    intro x
    unfold stmtBody
    simp only [bind, M.bindM, traceHere_eq]
  rw [er ev, er ev', Indep.dispatch_eq, Indep.dispatch_eq]
  show M.bindM next (Indep.dispatchK ev) _ = M.bindM next (Indep.dispatchK ev') _
  unfold M.bindM
  cases hn : next ({ σ with out := (here σ).map Out.trace ++ σ.out } : St F) with
  | err e s => rfl
  | ok t s =>
    have ht : t = curTok ({ σ with out := (here σ).map Out.trace ++ σ.out } : St F) := next_tok hn
    have ht : t = curTok σ := ht
    exact congrFun (Indep.dispatchK_congr h t (by rw [ht]; exact hc)) s

/-- **The instrumented turn against the real turn.**  From every state within
    the nesting cap there is `c` — at most the room under the cap — such that
    the instrumented turn is the real turn plus `c` marks, the real turn keeps
    the tracing flag and the program, and adds `c + 1` copies of the trace block
    when it starts a statement, none otherwise; `c = 0` when it starts no
    statement or the statement does not start with IF. -/
theorem sim_turn (fuel : Nat) (σ : St F) (hn : σ.nesting ≤ Extracted.nestingLimit) :
    ∃ c, c + σ.nesting ≤ Extracted.nestingLimit ∧
      runNextStatementG fuel σ = Acc.mapRes (addMarks c) (runNextStatement fuel σ) ∧
      (runNextStatement fuel σ).final.tracing = σ.tracing ∧
      (runNextStatement fuel σ).final.lines = σ.lines ∧
      traces (runNextStatement fuel σ).final.out =
        rep (if (curTok σ).isSome then c + 1 else 0) (here σ) ++ traces σ.out ∧
      (curTok σ ≠ some (.kw .If) → c = 0) := by
  have key : ∀ ev : Evals F, turnWith ev σ =
      M.bindM hasNext (fun b => if b = true then (stmtBody ev >>= fun _ => sequence) else sequence)
        ({ σ with state := .running } : St F) := fun ev => rfl
  rw [show runNextStatement fuel = turnWith (evalN fuel) from turn_anatomy fuel,
    show runNextStatementG fuel = turnWith (evalG (F := F) fuel) from rfl, key, key]
  generalize hσr : ({ σ with state := .running } : St F) = σr
  have hcur : curTok σr = curTok σ := by rw [← hσr]; rfl
  have hhere : here σr = here σ := by rw [← hσr]; rfl
  have hnr : σr.nesting ≤ Extracted.nestingLimit := by rw [← hσr]; exact hn
  have htr : σr.tracing = σ.tracing := by rw [← hσr]
  have hli : σr.lines = σ.lines := by rw [← hσr]
  have hout : σr.out = σ.out := by rw [← hσr]
  have hnest : σr.nesting = σ.nesting := by rw [← hσr]
  rw [← hcur, ← hhere, ← htr, ← hli, ← hout, ← hnest]
  clear key hcur hhere htr hli hout hnest hσr hn σ
  unfold M.bindM
  rw [hasNext_lineOf]
  unfold curTok
  cases hl : lineOf σr with
  | none =>
    exact ⟨0, by omega, (mapRes_zero _).symm, rfl, rfl, rfl, fun _ => rfl⟩
  | some ts =>
    simp only [Option.bind_some]
    generalize hσ2 : ({ σr with reads := σr.reads + 1 } : St F) = σ2
    have hhere2 : here σ2 = here σr := by rw [← hσ2]; rfl
    have hn2 : σ2.nesting ≤ Extracted.nestingLimit := by rw [← hσ2]; exact hnr
    have hc2 : curTok σ2 = ts[σr.loc.idx]? := by
      rw [← hσ2]; show (lineOf σr).bind _ = _; rw [hl]; rfl
    have htr2 : σ2.tracing = σr.tracing := by rw [← hσ2]
    have hli2 : σ2.lines = σr.lines := by rw [← hσ2]
    have hout2 : σ2.out = σr.out := by rw [← hσ2]
    have hnest2 : σ2.nesting = σr.nesting := by rw [← hσ2]
    by_cases hb : (ts[σr.loc.idx]?).isSome = true
    case neg =>
      have hb' : (ts[σr.loc.idx]?).isSome = false := by simpa using hb
      simp only [hb', Bool.false_eq_true, ↓reduceIte]
      have hs := (C17.nt_sequence (F := F)).final σ2
      refine ⟨0, by omega, (mapRes_zero _).symm, ?_, ?_, ?_, fun _ => rfl⟩
      · exact hs.1.trans htr2
      · exact hs.2.1.trans hli2
      · rw [rep_zero]; show traces (sequence σ2).final.out = traces σr.out
        rw [hs.2.2, hout2]
    case pos =>
      simp only [hb, ↓reduceIte]
      have hseqC : ∀ d, Acc.Comm d (sequence (F := F)) := by
        intro d
        unfold sequence returnToIdle
        exact Acc.Comm.bind Acc.comm_hasNext (fun b => by
          cases b
          · exact Acc.Comm.bind Acc.comm_nextLine (fun b' => by
              cases b'
              · exact Acc.Comm.bind (Acc.comm_setImmediate _) (fun _ => Acc.Comm.modify (fun _ => rfl))
              · exact Acc.Comm.pure _)
          · exact Acc.Comm.pure _)
      have hcg := cg_bind_post (g := fun _ : Unit => sequence (F := F)) (sim_stmtBody_top fuel (here σ2))
        (fun _ => C17.nt_sequence) (fun _ d => hseqC d)
      obtain ⟨c, hc, e1, e2, e3, e4⟩ := hcg σ2 rfl hn2
      refine ⟨c, by omega, e1, e2.trans htr2, e3.trans hli2, ?_, fun hne => ?_⟩
      · rw [← hhere2, ← hout2]; exact e4
      · -- not IF: the instrumented activation IS the real one
        have hsame : stmtBody (evalG fuel) σ2 = stmtBody (evalN fuel) σ2 :=
          stmtBody_notIf_congr (evalG_expr fuel) σ2 (by rw [hc2]; exact hne)
        have e1' : (stmtBody (evalG fuel) >>= fun _ => sequence) σ2 =
            Acc.mapRes (addMarks c) ((stmtBody (evalN fuel) >>= fun _ => sequence) σ2) := e1
        have e0 : (stmtBody (evalG fuel) >>= fun _ => sequence) σ2 =
            (stmtBody (evalN fuel) >>= fun _ => sequence (F := F)) σ2 := by
          show M.bindM _ _ σ2 = M.bindM _ _ σ2
          unfold M.bindM
          rw [hsame]
        rw [e0] at e1'
        have := marks_unique e1'
        omega

/-- **instrumented_turn.**  The instrumented turn is the real turn plus
    `nestedActivations fuel σ` marks in the log: same outcome, same state
    otherwise.  (So `nestedActivations` does count what the instrumentation
    marks — the entries of the statement evaluator through `ev.stmt` — and the
    instrumentation does not disturb the run.) -/
theorem instrumented_turn (fuel : Nat) (σ : St F) (hn : σ.nesting ≤ Extracted.nestingLimit) :
    runNextStatementG fuel σ = Acc.mapRes (addMarks (nestedActivations fuel σ)) (runNextStatement fuel σ) := by
  obtain ⟨c, _, e1, _⟩ := sim_turn fuel σ hn
  unfold nestedActivations
  rw [marks_unique e1]
  exact e1

/-- **trace_count** (tracing on).  One `run_next_statement`, from a state whose
    nesting counter is within the cap (it is 0 at every turn boundary,
    `C01.nesting_preserved_*`): the trace records grow by `1 + N` copies of the
    line the turn's statement starts on (`C17.startLine σ`: `[ln]` when a
    statement starts on numbered line `ln`, `[]` when the line is exhausted or
    immediate), where `N = nestedActivations fuel σ` is the number of nested
    THEN / ELSE statement activations of the turn; `N` is at most the room under
    the nesting cap, and `N = 0` unless the statement starts with IF. -/
theorem trace_count (fuel : Nat) (σ : St F) (ht : σ.tracing = true) (hn : σ.nesting ≤ Extracted.nestingLimit) :
    traces (runNextStatement fuel σ).final.out =
      rep (1 + nestedActivations fuel σ) (C17.startLine σ) ++ traces σ.out ∧
    nestedActivations fuel σ + σ.nesting ≤ Extracted.nestingLimit ∧
    (curTok σ ≠ some (.kw .If) → nestedActivations fuel σ = 0) := by
  obtain ⟨c, hc, e1, _, _, e4, e5⟩ := sim_turn fuel σ hn
  have hN : nestedActivations fuel σ = c := marks_unique e1
  rw [hN]
  refine ⟨?_, hc, e5⟩
  rw [e4]
  unfold C17.startLine
  by_cases hs : (curTok σ).isSome = true
  · rw [if_pos hs, if_pos hs, C17.here_of_tracing σ ht, Nat.add_comm]
  · rw [if_neg hs, if_neg hs, rep_zero, rep_nil]

/-- … as a count, for a turn that starts a statement on the numbered line `ln`:
    exactly `1 + N` records are added, all `Out.trace ln`, and `1 + N` is at most
    `nestingLimit + 1` (= 49). -/
theorem trace_count_numbered (fuel : Nat) (σ : St F) (ln : Nat) (ht : σ.tracing = true)
    (hn : σ.nesting ≤ Extracted.nestingLimit)
    (hl : σ.loc.line = some ln) (hs : (curTok σ).isSome = true) :
    traces (runNextStatement fuel σ).final.out =
      List.replicate (1 + nestedActivations fuel σ) ln ++ traces σ.out ∧
    (traces (runNextStatement fuel σ).final.out).length =
      (traces σ.out).length + (1 + nestedActivations fuel σ) ∧
    1 + nestedActivations fuel σ ≤ Extracted.nestingLimit + 1 := by
  obtain ⟨h1, h2, _⟩ := trace_count fuel σ ht hn
  have hsl : C17.startLine σ = [ln] := by
    unfold C17.startLine; rw [if_pos hs, hl]; rfl
  rw [hsl, rep_singleton] at h1
  refine ⟨h1, ?_, by omega⟩
  rw [h1, List.length_append, List.length_replicate]
  omega

/-- a turn that starts no statement on a numbered line (the line is exhausted,
    or it is the immediate line) adds no trace record -/
theorem trace_count_none (fuel : Nat) (σ : St F) (ht : σ.tracing = true) (hn : σ.nesting ≤ Extracted.nestingLimit)
    (h : (curTok σ).isSome = false ∨ σ.loc.line = none) :
    traces (runNextStatement fuel σ).final.out = traces σ.out := by
  obtain ⟨h1, _, _⟩ := trace_count fuel σ ht hn
  have hsl : C17.startLine σ = [] := by
    unfold C17.startLine
    rcases h with h | h
    · rw [h]; rfl
    · rw [h]; split <;> rfl
  rw [h1, hsl, rep_nil]
  rfl

/-- **trace_count** (tracing off): no trace record is added, whatever the turn does. -/
theorem trace_count_off (fuel : Nat) (σ : St F) (ht : σ.tracing = false) (hn : σ.nesting ≤ Extracted.nestingLimit) :
    traces (runNextStatement fuel σ).final.out = traces σ.out := by
  obtain ⟨c, _, _, _, _, e4, _⟩ := sim_turn fuel σ hn
  have hh : here σ = [] := by unfold here; rw [ht]
  rw [e4, hh, rep_nil]
  rfl

omit [NumOps F] in
theorem postprocess_out {α : Type} (m : M F α) (σ : St F) :
    (postprocess m σ).final.out = (m σ).final.out := by
  unfold postprocess
  cases m σ <;> rfl

/-- **trace_count for the host call** `continue_evaluating` (a running
    interpreter): with tracing on it adds `1 + N` records `Out.trace ln` when the
    call starts a statement on numbered line `ln` — at most `nestingLimit + 1` —
    and with tracing off it adds none. -/
theorem trace_count_call (fuel : Nat) (σ : St F) (hrun : σ.state = .running)
    (hn : σ.nesting ≤ Extracted.nestingLimit) :
    (σ.tracing = true → ∀ ln, σ.loc.line = some ln → (curTok σ).isSome = true →
      traces (continueEvaluating fuel σ).final.out =
        List.replicate (1 + nestedActivations fuel σ) ln ++ traces σ.out ∧
      1 + nestedActivations fuel σ ≤ Extracted.nestingLimit + 1 ∧
      (curTok σ ≠ some (.kw .If) → nestedActivations fuel σ = 0)) ∧
    (σ.tracing = false → traces (continueEvaluating fuel σ).final.out = traces σ.out) := by
  rw [continue_is_one_turn fuel σ hrun, postprocess_out]
  refine ⟨fun ht ln hl hs => ?_, fun ht => trace_count_off fuel σ ht hn⟩
  obtain ⟨h1, _, h3⟩ := trace_count_numbered fuel σ ln ht hn hl hs
  exact ⟨h1, h3, (trace_count fuel σ ht hn).2.2⟩

/-- The bound is attained by the cap, not by the fuel: at the cap the nested
    activation is refused (`nested_statement_costs_a_level`), so the chain of
    nested activations — each one level deeper than its parent — has at most
    `nestingLimit - nesting` links. -/
example : Extracted.nestingLimit + 1 = 49 := by decide

/-- Non-vacuity: `10 IF "A" THEN IF "A" THEN PRINT` with tracing on — two nested
    activations, three records. -/
example :
    let σ : St Unit := { tracing := true, state := .running, loc := { line := some 10, idx := 0 },
                         lines := { map := [(10, [.kw .If, .str ['A'], .kw .Then, .kw .If, .str ['A'], .kw .Then,
                                                  .kw .Print])],
                                    sorted := [10] } }
    nestedActivations 5 σ = 2 ∧ traces (runNextStatement 5 σ).final.out = [10, 10, 10] := by
  decide +kernel

/-! ## 4. one statement per call -/

/-! ### (a) the model, for ALL programs

  `run_next_statement` contains exactly one call of the statement evaluator
  (`turn_anatomy`; `turnWith` makes the evaluator a parameter: it occurs once,
  as `stmtBody ev`), and that call happens iff a token is left on the line.
  The statement evaluator re-enters itself only through its recursive entry
  point `ev.stmt`, which it reaches only as `nested ev.stmt` in
  `statementOrGoto` — under THEN, or at the ELSE found by the ELSE search — and
  never when the statement does not start with IF.  Each such re-entry costs a
  nesting level, so a call makes at most `1 + nestingLimit` activations. -/

/-- `run_next_statement` is `turnWith` at the evaluator: ONE call `stmtBody ev` -/
theorem turn_is_turnWith (fuel : Nat) : runNextStatement (F := F) fuel = turnWith (evalN fuel) :=
  turn_anatomy fuel

/-- with no token left on the line (or the line missing) a turn evaluates no
    statement: it does not depend on the evaluator at all -/
theorem turn_no_statement (ev ev' : Evals F) (σ : St F) (h : curTok σ = none) :
    turnWith ev σ = turnWith ev' σ := by
  have key : ∀ x : Evals F, turnWith x σ =
      M.bindM hasNext (fun b => if b = true then (stmtBody x >>= fun _ => sequence) else sequence)
        ({ σ with state := .running } : St F) := fun x => rfl
  rw [key, key]
  unfold M.bindM
  rw [hasNext_lineOf]
  have hc : curTok ({ σ with state := .running } : St F) = none := h
  unfold curTok at hc
  cases hl : lineOf ({ σ with state := .running } : St F) with
  | none => rfl
  | some ts =>
    rw [hl] at hc
    simp only [Option.bind_some] at hc
    simp only [hc, Option.isSome_none, Bool.false_eq_true, ↓reduceIte]

/-- with a token under the cursor a turn is: ONE statement activation, from the
    state marked running with the token looked at once, then line sequencing -/
theorem turn_one_statement (ev : Evals F) (σ : St F) (t : Token F) (h : curTok σ = some t) :
    turnWith ev σ =
      (stmtBody ev >>= fun _ => sequence) { σ with state := .running, reads := σ.reads + 1 } := by
  have key : turnWith ev σ =
      M.bindM hasNext (fun b => if b = true then (stmtBody ev >>= fun _ => sequence) else sequence)
        ({ σ with state := .running } : St F) := rfl
  rw [key]
  unfold M.bindM
  rw [hasNext_lineOf]
  have hc : curTok ({ σ with state := .running } : St F) = some t := h
  unfold curTok at hc
  cases hl : lineOf ({ σ with state := .running } : St F) with
  | none => rw [hl] at hc; cases hc
  | some ts =>
    rw [hl] at hc
    simp only [Option.bind_some] at hc
    simp only [hc, Option.isSome_some, ↓reduceIte]

/-- **The statement evaluator re-enters itself only through THEN / ELSE.**
    (1) `stmtBody ev` depends on `ev.stmt` only through `statementOrGoto ev`;
    (2) `statementOrGoto ev` is: a line number → GOTO, anything else → the nested
        activation `nested ev.stmt`; it occurs only in `ifStatement` (after THEN)
        and `ifSkipLoop` (at ELSE);
    (3) an activation on a statement that does not start with IF is the same
        whatever `ev.stmt` is: it never re-enters;
    (4) the nested activation IS a statement activation, one fuel level down. -/
theorem reentry_only_under_if :
    (∀ ev ev' : Evals F, ev.expr = ev'.expr → statementOrGoto ev = statementOrGoto ev' →
      stmtBody ev = stmtBody ev') ∧
    (∀ ev : Evals F, statementOrGoto ev = (do
      match ← peek with
      | some (.num _) => gotoStatement
      | _ => nested ev.stmt)) ∧
    (∀ (ev ev' : Evals F) (σ : St F), ev.expr = ev'.expr → curTok σ ≠ some (.kw .If) →
      stmtBody ev σ = stmtBody ev' σ) ∧
    (∀ n, (evalN (F := F) (n + 1)).stmt = stmtBody (evalN n)) :=
  ⟨fun _ _ h hs => Indep.stmtBody_congr h hs, fun _ => rfl,
   fun _ _ σ h hc => stmtBody_notIf_congr h σ hc, fun _ => rfl⟩

/-- **activations per call**: one host call makes at most `1 + nestingLimit`
    (= 49) statement activations — its own, and a chain of nested ones, each one
    nesting level deeper than its parent and refused at the cap
    (`nested_statement_costs_a_level`). -/
theorem activations_per_call (fuel : Nat) (σ : St F) (hn : σ.nesting ≤ Extracted.nestingLimit) :
    1 + nestedActivations fuel σ ≤ Extracted.nestingLimit + 1 - σ.nesting := by
  obtain ⟨c, hc, e1, _⟩ := sim_turn fuel σ hn
  have hN : nestedActivations fuel σ = c := marks_unique e1
  omega

/-- a call whose statement does not start with IF makes exactly one activation -/
theorem one_activation_unless_if (fuel : Nat) (σ : St F) (hn : σ.nesting ≤ Extracted.nestingLimit)
    (h : curTok σ ≠ some (.kw .If)) : nestedActivations fuel σ = 0 := by
  obtain ⟨c, _, e1, _, _, _, e5⟩ := sim_turn fuel σ hn
  have hN : nestedActivations fuel σ = c := marks_unique e1
  rw [hN]
  exact e5 h

/-! ### (b) covered programs: the statement count of a turn is the number of reference steps

  For the programs covered by the reference machines of C03 a turn is either
  exactly ONE reference step `RStep` — one statement; an IF together with the
  statement it selects is one statement of the reference syntax — or, when the
  cursor stands on the colon in front of a statement, none. -/

section covered
open Abasic.Ref Abasic.ProgL

/-- the number of statements (reference steps) the next turn executes: 1 when
    the cursor is on the first token of the statement at the program counter,
    0 when it is on the colon in front of it (or the program has ended) -/
def stmtCount (p : RProgram F) (r : RState F) (σ : St F) : Nat :=
  match r.pc with
  | none => 0
  | some (n, j) =>
    match p.line n with
    | none => 0
    | some ss => if σ.loc.idx = (preToks ss j).length then 1 else 0

/-- `c ≤ 1` reference steps -/
def refSteps (p : RProgram F) : Nat → RState F → RState F ⊕ (Err × Nat)
  | 0, r => .inl r
  | _ + 1, r => RStep p r

theorem stmtCount_le_one (p : RProgram F) (r : RState F) (σ : St F) : stmtCount p r σ ≤ 1 := by
  unfold stmtCount
  split
  · omega
  · split
    · omega
    · split <;> omega

/-- **one_statement_per_call** (first reference machine: LET, PRINT, GOTO, END,
    IF … THEN … [ELSE …]).  In a state related to the reference state `r` with
    the program running, the host call `continue_evaluating` executes
    `stmtCount p r σ ≤ 1` statements: its outcome is that of `stmtCount`
    reference steps — one `RStep` (same variables, same PRINT records, next
    position; or the same error on the same line), or none (the turn only
    steps over a colon). -/
theorem one_statement_per_call {p : RProgram F} {fuel : Nat} (hfit : Fits p fuel) {r : RState F} {σ : St F}
    (h : C03.Sim p r σ) {n j : Nat} (hpc : r.pc = some (n, j)) :
    stmtCount p r σ ≤ 1 ∧
    C03.TurnStep p r (continueEvaluating fuel σ) (refSteps p (stmtCount p r σ) r) := by
  refine ⟨stmtCount_le_one p r σ, ?_⟩
  have hpos := h.pos
  rw [hpc] at hpos
  obtain ⟨_, _, ss, hl, _, hcur⟩ := hpos
  have hsc : stmtCount p r σ = if σ.loc.idx = (preToks ss j).length then 1 else 0 := by
    unfold stmtCount
    rw [hpc]
    simp only [hl]
  rw [hsc]
  rcases hcur with hc | ⟨_, hc⟩
  · rw [if_pos hc]
    exact C03.turn_refines hfit h hpc hl hc
  · have hne : σ.loc.idx ≠ (preToks ss j).length := by omega
    rw [if_neg hne]
    obtain ⟨σ', h1, h2, _⟩ := C03.turn_colon (fuel := fuel) h hpc hl hc
    exact ⟨σ', h1, h2⟩

open Abasic.Prog2L in
/-- the same count for the second reference machine (FOR / NEXT, GOSUB / RETURN,
    READ / DATA / RESTORE, DIM, array assignment besides the above) -/
def stmtCount2 (p : RProgram2 F) (r : RState2 F) (σ : St F) : Nat :=
  match r.pc with
  | none => 0
  | some (n, j) =>
    match p.line n with
    | none => 0
    | some ss => if σ.loc.idx = (preToks2 ss j).length then 1 else 0

def refSteps2 (p : RProgram2 F) : Nat → RState2 F → RState2 F ⊕ (Err × Nat)
  | 0, r => .inl r
  | _ + 1, r => RStep2 p r

theorem stmtCount2_le_one (p : RProgram2 F) (r : RState2 F) (σ : St F) : stmtCount2 p r σ ≤ 1 := by
  unfold stmtCount2
  split
  · omega
  · split
    · omega
    · split <;> omega

open Abasic.Prog2L in
/-- **one_statement_per_call** (second reference machine).  A GOSUB, a RETURN,
    a FOR or a NEXT is one statement: the call that executes it makes exactly
    one reference step `RStep2`. -/
theorem one_statement_per_call2 {p : RProgram2 F} {fuel : Nat} (hfit : C03.Fits2 p fuel) {r : RState2 F} {σ : St F}
    (h : C03.Sim2 p r σ) {n j : Nat} (hpc : r.pc = some (n, j)) :
    stmtCount2 p r σ ≤ 1 ∧
    C03.TurnStep2 p r (continueEvaluating fuel σ) (refSteps2 p (stmtCount2 p r σ) r) := by
  refine ⟨stmtCount2_le_one p r σ, ?_⟩
  have h' := h
  unfold C03.Sim2 at h'
  rw [hpc] at h'
  obtain ⟨_, _, _, ss, hl, _, hcur⟩ := h'
  have hsc : stmtCount2 p r σ = if σ.loc.idx = (preToks2 ss j).length then 1 else 0 := by
    unfold stmtCount2
    rw [hpc]
    simp only [hl]
  rw [hsc]
  rcases hcur with hc | ⟨_, hc⟩
  · rw [if_pos hc]
    exact C03.turn2_refines hfit h hpc hl hc
  · have hne : σ.loc.idx ≠ (preToks2 ss j).length := by omega
    rw [if_neg hne]
    obtain ⟨σ', h1, h2, _⟩ := C03.turn2_colon (fuel := fuel) h hpc hl hc
    exact ⟨σ', h1, h2⟩

end covered

end Abasic.Props.C09
