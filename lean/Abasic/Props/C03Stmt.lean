import Abasic.Props.C03
import Abasic.Props.C02More
import Abasic.Proofs.StmtLemmas
/-
  C03, statement level: the statement evaluator of Stmt.lean refines the
  reference semantics of Abasic/Ref/Stmt.lean.

  For a statement tree `s` (LET, PRINT, GOTO, END, IF … THEN … [ELSE …]) whose
  rendering `renderS s` stands on the current line at the cursor, one activation
  `stmtBody (evalN n)` of the real statement evaluator does what the reference
  step `RStmt.exec σ.vars s` says: the same variables afterwards, the same PRINT
  records appended to the output queue, and the control outcome

    next      cursor just behind the statement
    skipLine  cursor at the end of the line
    jump m    cursor at the start of line m (breakpoint cleared), or
              UNDEFINED STATEMENT when there is no line m
    stop      immediate line emptied, cursor on it (what END does)
    error x   the run fails with x (no location attached)

  and nothing else in the state changes except the read counter (`Refines`,
  Abasic/Proofs/StmtLemmas.lean).

  Hypotheses (`SReady`; they document what this layer does not cover): the line
  is `pre ++ renderS s ++ rest` with the cursor at `|pre|`; `rest` is empty or
  begins with `:` (after a statement that is not an IF it may also begin with
  ELSE); no GOSUB / function frames and warnings off (a variable is read from
  `vars`); tracing off; `sdepth s` levels of room under the nesting cap and in
  the fuel; the statement is `Covered` (see Ref/Stmt.lean: separated PRINT
  lists, GOTO targets that survive `ofNat`/`toU64`, and IF trees whose rendering
  has a single reading — `dangling_else` below shows the restriction is needed).
  IF needs in addition that no stored line begins with ELSE (`NoElseLine`),
  because after `THEN GOTO m` the evaluator looks for an ELSE at the new cursor.
-/
namespace Abasic.Props.C03
open Abasic Abasic.Ref Abasic.ExprL Abasic.StmtL

variable {F : Type} [NumOps F]

/-- The hypotheses of the statement refinement theorems. -/
structure SReady (σ : St F) (pre : List (Token F)) (s : RStmt F) (rest : List (Token F)) (n : Nat) : Prop where
  toks : tokens σ = .ok (pre ++ renderS s ++ rest) σ
  idx : σ.loc.idx = pre.length
  stack : σ.stack = []
  warnings : σ.warnings = false
  tracing : σ.tracing = false
  nesting : σ.nesting + sdepth s ≤ Extracted.nestingLimit
  fuel : sdepth s ≤ n
  covered : s.Covered
  ends : EndFor s rest

theorem SReady.at {σ : St F} {pre rest : List (Token F)} {s : RStmt F} {n : Nat}
    (h : SReady σ pre s rest n) : At σ pre (renderS s ++ rest) :=
  ⟨by rw [C02.lineToks_of_tokens h.toks, List.append_assoc], h.idx⟩

theorem SReady.quiet {σ : St F} {pre rest : List (Token F)} {s : RStmt F} {n : Nat}
    (h : SReady σ pre s rest n) : Quiet σ := ⟨h.stack, h.warnings⟩

/-! ### every covered statement -/

/-- **Statement refinement.**  One activation of the statement evaluator on the
    rendering of a covered statement realises the reference step. -/
theorem stmt_refines (s : RStmt F) (n : Nat) (σ : St F) (pre rest : List (Token F))
    (h : SReady σ pre s rest n) (hNE : NoElseLine σ) :
    Refines (stmtBody (evalN n) σ) σ (pre.length + (renderS s).length)
      (pre ++ (renderS s ++ rest)).length (RStmt.exec σ.vars s) :=
  stmt_run s n σ pre rest h.at h.quiet h.tracing hNE h.fuel h.nesting h.covered h.ends

/-! ### LET -/

/-- LET in the uniform form (no side condition on the stored lines). -/
theorem let_refines_exec (x : Str) (e : Expr F) (n : Nat) (σ : St F) (pre rest : List (Token F)) (eol : Nat)
    (h : SReady σ pre (.letS x e) rest n) :
    Refines (stmtBody (evalN n) σ) σ (pre.length + (renderS (.letS x e)).length) eol
      (RStmt.exec σ.vars (.letS x e)) :=
  let_run x e n σ pre rest eol h.at h.quiet h.tracing h.fuel h.nesting (ends_of_stmtEnd h.ends.stmtEnd 6)

/-- **LET.**  With `foldE` the value of the right-hand side under the current
    variables: a value of the kind the name asks for is stored with `alSet` and
    the cursor ends just behind the statement; a value of the other kind is a
    TYPE MISMATCH; an error of the expression is the error of the statement. -/
theorem let_refines (x : Str) (e : Expr F) (n : Nat) (σ : St F) (pre rest : List (Token F))
    (h : SReady σ pre (.letS x e) rest n) :
    (∀ v, foldE (envOf σ.vars) e = .ok v → v.matchesName x = true → ∃ k, σ.reads < k ∧
      stmtBody (evalN n) σ = .ok ()
        { σ with vars := alSet x v σ.vars,
                 loc := { σ.loc with idx := pre.length + (renderS (.letS x e)).length }, reads := k }) ∧
    (∀ v, foldE (envOf σ.vars) e = .ok v → v.matchesName x = false → ∃ σ',
      stmtBody (evalN n) σ = .err { err := .typeMismatch } σ' ∧ σ'.nesting = σ.nesting) ∧
    (∀ err, foldE (envOf σ.vars) e = .error err → ∃ σ',
      stmtBody (evalN n) σ = .err { err := err } σ' ∧ σ'.nesting = σ.nesting) := by
  have hR := let_refines_exec x e n σ pre rest 0 h
  refine ⟨fun v hv hm => ?_, fun v hv hm => ?_, fun err hv => ?_⟩
  · have hr : RStmt.exec σ.vars (.letS x e) = { vars := alSet x v σ.vars, out := [], ctl := .next } := by
      simp only [RStmt.exec, hv, hm, ↓reduceIte]
    rw [hr] at hR
    exact hR
  · have hr : RStmt.exec σ.vars (.letS x e) = { vars := σ.vars, out := [], ctl := .error .typeMismatch } := by
      simp only [RStmt.exec, hv, hm, Bool.false_eq_true, ↓reduceIte]
    rw [hr] at hR
    exact hR
  · have hr : RStmt.exec σ.vars (.letS x e) = { vars := σ.vars, out := [], ctl := .error err } := by
      simp only [RStmt.exec, hv]
    rw [hr] at hR
    exact hR

/-! ### PRINT -/

theorem print_refines_exec (items : List (PItem F)) (n : Nat) (σ : St F) (pre rest : List (Token F)) (eol : Nat)
    (h : SReady σ pre (.printS items) rest n) :
    Refines (stmtBody (evalN n) σ) σ (pre.length + (renderS (.printS items)).length) eol
      (RStmt.exec σ.vars (.printS items)) :=
  print_run items n σ pre rest eol h.at h.quiet h.tracing h.fuel h.nesting h.covered h.ends.stmtEnd

/-- **PRINT.**  The output queue gains exactly one record, the reference text
    `printText` of the list; or the statement fails with the error of the first
    failing expression (and then nothing is printed: the run is an `.err`). -/
theorem print_refines (items : List (PItem F)) (n : Nat) (σ : St F) (pre rest : List (Token F))
    (h : SReady σ pre (.printS items) rest n) :
    (∀ text, printText (envOf σ.vars) items false [] = .ok text → ∃ k, σ.reads < k ∧
      stmtBody (evalN n) σ = .ok ()
        { σ with out := .print text :: σ.out,
                 loc := { σ.loc with idx := pre.length + (renderS (.printS items)).length }, reads := k }) ∧
    (∀ err, printText (envOf σ.vars) items false [] = .error err → ∃ σ',
      stmtBody (evalN n) σ = .err { err := err } σ' ∧ σ'.nesting = σ.nesting) := by
  have hR := print_refines_exec items n σ pre rest 0 h
  refine ⟨fun text hp => ?_, fun err hp => ?_⟩
  · have hr : RStmt.exec σ.vars (.printS items) = { vars := σ.vars, out := [text], ctl := .next } := by
      simp only [RStmt.exec, hp]
    rw [hr] at hR
    exact hR
  · have hr : RStmt.exec σ.vars (.printS items) = { vars := σ.vars, out := [], ctl := .error err } := by
      simp only [RStmt.exec, hp]
    rw [hr] at hR
    exact hR

/-! ### GOTO, END -/

/-- **GOTO.**  The cursor moves to the start of line `m` and the breakpoint is
    cleared; without a line `m` the statement fails with UNDEFINED STATEMENT. -/
theorem goto_refines (m : Nat) (n : Nat) (σ : St F) (pre rest : List (Token F))
    (h : SReady σ pre (.gotoS m) rest n) :
    (σ.lines.has m = true → ∃ k, σ.reads < k ∧
      stmtBody (evalN n) σ = .ok ()
        { σ with bp := none, loc := { line := some m, idx := 0 }, reads := k }) ∧
    (σ.lines.has m = false → ∃ σ',
      stmtBody (evalN n) σ = .err { err := .undefinedStatement } σ' ∧ σ'.nesting = σ.nesting) :=
  goto_run m n σ pre rest 0 0 h.at h.tracing h.covered

/-- **END.**  The immediate line is emptied and the cursor put on it. -/
theorem end_refines (n : Nat) (σ : St F) (pre rest : List (Token F))
    (h : SReady σ pre .endS rest n) :
    ∃ k, σ.reads < k ∧ stmtBody (evalN n) σ = .ok () { σ with imm := [], loc := {}, reads := k } :=
  end_run n σ pre rest 0 0 h.at h.tracing h.stack

/-! ### IF -/

/-- what the reference step of IF is: the condition by `foldE`, its truth by
    `Value.toBool`, then the selected branch -/
theorem exec_if_error (vars : List (Str × Value F)) (c : Expr F) (t : RStmt F) (el : Option (RStmt F)) (x : Err)
    (hc : foldE (envOf vars) c = .error x) :
    RStmt.exec vars (.ifS c t el) = { vars := vars, out := [], ctl := .error x } := by
  cases el <;> simp only [RStmt.exec, hc]

theorem exec_if_true_else (vars : List (Str × Value F)) (c : Expr F) (t e : RStmt F) (v : Value F)
    (hc : foldE (envOf vars) c = .ok v) (hb : v.toBool = true) :
    RStmt.exec vars (.ifS c t (some e)) = (RStmt.exec vars t).closeLine := by
  simp only [RStmt.exec, hc, hb, ↓reduceIte]

theorem exec_if_false_else (vars : List (Str × Value F)) (c : Expr F) (t e : RStmt F) (v : Value F)
    (hc : foldE (envOf vars) c = .ok v) (hb : v.toBool = false) :
    RStmt.exec vars (.ifS c t (some e)) = RStmt.exec vars e := by
  simp only [RStmt.exec, hc, hb, Bool.false_eq_true, ↓reduceIte]

theorem exec_if_true (vars : List (Str × Value F)) (c : Expr F) (t : RStmt F) (v : Value F)
    (hc : foldE (envOf vars) c = .ok v) (hb : v.toBool = true) :
    RStmt.exec vars (.ifS c t none) = RStmt.exec vars t := by
  simp only [RStmt.exec, hc, hb, ↓reduceIte]

theorem exec_if_false (vars : List (Str × Value F)) (c : Expr F) (t : RStmt F) (v : Value F)
    (hc : foldE (envOf vars) c = .ok v) (hb : v.toBool = false) :
    RStmt.exec vars (.ifS c t none) = { vars := vars, out := [], ctl := .skipLine } := by
  simp only [RStmt.exec, hc, hb, Bool.false_eq_true, ↓reduceIte]

/-- **IF** (partial: the `Covered` trees — under IF without ELSE the THEN branch
    contains no ELSE, under IF with ELSE the THEN branch is not an IF; see
    `dangling_else`).  The model evaluates the condition, takes its truth value
    and behaves as the reference step of the selected branch; in front of an
    ELSE a completed THEN branch abandons the rest of the line, and a false
    condition without ELSE abandons the line as well. -/
theorem if_refines_partial (c : Expr F) (t : RStmt F) (el : Option (RStmt F)) (n : Nat) (σ : St F)
    (pre rest : List (Token F)) (h : SReady σ pre (.ifS c t el) rest n) (hNE : NoElseLine σ) :
    Refines (stmtBody (evalN n) σ) σ (pre.length + (renderS (.ifS c t el)).length)
      (pre ++ (renderS (.ifS c t el) ++ rest)).length (RStmt.exec σ.vars (.ifS c t el)) :=
  stmt_refines _ n σ pre rest h hNE


/-! ### non-vacuity -/

/-- the hypotheses hold on an immediate line holding the statement (followed by `rest`),
    with any variables -/
theorem sready_immediate (s : RStmt F) (rest : List (Token F)) (vars : List (Str × Value F)) (n : Nat)
    (hd : sdepth s ≤ Extracted.nestingLimit) (hn : sdepth s ≤ n) (hcov : s.Covered) (hrest : EndFor s rest) :
    SReady ({ imm := [] ++ renderS s ++ rest, vars := vars } : St F) [] s rest n where
  toks := rfl
  idx := rfl
  stack := rfl
  warnings := rfl
  tracing := rfl
  nesting := by show 0 + sdepth s ≤ _; omega
  fuel := hn
  covered := hcov
  ends := hrest

omit [NumOps F] in
/-- a state without stored lines has no line beginning with ELSE -/
theorem noElseLine_of_no_lines (σ : St F) (h : σ.lines.map = []) : NoElseLine σ := by
  intro n ts hg
  simp [Lines.get, h, Lines.getMap] at hg

/-- `IF "A" THEN PRINT "X"; ELSE LET A$ = "B"` -/
def demoStmt : RStmt F :=
  .ifS (.str ['A']) (.printS [.expr (.str ['X']), .semi]) (some (.letS ['A', '$'] (.str ['B'])))

/-- `IF "A" THEN PRINT "X"; ELSE LET A$ = "B" : END` -/
def demoLine : List (Token F) :=
  [.kw .If, .str ['A'], .kw .Then, .kw .Print, .str ['X'], .kw .Semicolon, .kw .Else,
   .kw .Let, .symbol ['A', '$'], .kw .Equals, .str ['B'], .kw .Colon, .kw .End]

theorem demoStmt_render : renderS (demoStmt : RStmt F) =
    [.kw .If, .str ['A'], .kw .Then, .kw .Print, .str ['X'], .kw .Semicolon, .kw .Else,
     .kw .Let, .symbol ['A', '$'], .kw .Equals, .str ['B']] := by
  simp [demoStmt, renderS, renderItems, PItem.render, render_str]

theorem demoLine_eq : (demoLine : List (Token F)) = [] ++ renderS demoStmt ++ [.kw .Colon, .kw .End] := by
  simp [demoLine, demoStmt_render]

/-- End to end on the real statement evaluator with the default fuel: on the
    immediate line `IF "A" THEN PRINT "X"; ELSE LET A$ = "B" : END` one activation
    prints `X` (no newline), leaves the variables alone and abandons the rest of
    the line (cursor at 13 = end of line), as the reference step says. -/
example : ∃ k, stmtBody (evalN defaultFuel) ({ imm := demoLine } : St F) =
    .ok () { imm := demoLine, out := [.print ['X']], loc := { idx := 13 }, reads := k } := by
  have hS : SReady ({ imm := [] ++ renderS demoStmt ++ [.kw .Colon, .kw .End], vars := [] } : St F) []
      demoStmt [.kw .Colon, .kw .End] defaultFuel :=
    sready_immediate demoStmt _ [] defaultFuel
      (by simp [demoStmt, sdepth, itemsDepth, depth, Extracted.nestingLimit])
      (by simp [demoStmt, sdepth, itemsDepth, depth, defaultFuel, Extracted.nestingLimit])
      (by simp [demoStmt, RStmt.Covered, RStmt.simple, separated])
      (Or.inl (fun t ht => by simp at ht; exact ht.symm))
  have h := stmt_refines demoStmt defaultFuel _ [] _ hS (noElseLine_of_no_lines _ rfl)
  have hr : RStmt.exec ([] : List (Str × Value F)) demoStmt = { vars := [], out := [['X']], ctl := .skipLine } := by
    simp [demoStmt, RStmt.exec, foldE, Value.toBool, printText, valueText, RResult.closeLine]
  rw [show ({ imm := [] ++ renderS demoStmt ++ [.kw .Colon, .kw .End], vars := [] } : St F).vars = [] from rfl,
    hr] at h
  obtain ⟨k, _, hk⟩ := h
  rw [← demoLine_eq] at hk
  refine ⟨k, ?_⟩
  rw [hk]
  simp [outRecs, demoStmt_render]

/-- LET, end to end: `LET A$ = "B"` on a fresh interpreter stores the value. -/
example : ∃ k, stmtBody (evalN defaultFuel)
      ({ imm := [.kw .Let, .symbol ['A', '$'], .kw .Equals, .str ['B']] } : St F) =
    .ok () { imm := [.kw .Let, .symbol ['A', '$'], .kw .Equals, .str ['B']],
             vars := [(['A', '$'], .str ['B'])], loc := { idx := 4 }, reads := k } := by
  have hS : SReady ({ imm := [] ++ renderS (.letS ['A', '$'] (.str ['B'])) ++ [], vars := [] } : St F) []
      (.letS ['A', '$'] (.str ['B'])) [] defaultFuel :=
    sready_immediate _ _ [] defaultFuel
      (by simp [sdepth, depth, Extracted.nestingLimit])
      (by simp [sdepth, depth, defaultFuel, Extracted.nestingLimit])
      (by simp [RStmt.Covered])
      (Or.inl (fun t ht => by simp at ht))
  obtain ⟨k, _, hk⟩ := (let_refines _ _ _ _ _ _ hS).1 (.str ['B']) (by simp [foldE])
    (by simp [Value.matchesName, endsWithDollar])
  refine ⟨k, ?_⟩
  have hl : ([] ++ renderS (.letS ['A', '$'] (.str ['B'] : Expr F)) ++ [] : List (Token F)) =
      [.kw .Let, .symbol ['A', '$'], .kw .Equals, .str ['B']] := by
    simp [renderS, render_str]
  rw [hl] at hk
  rw [hk]
  simp [alSet, renderS, render_str]

/-! ### the restriction on IF trees is needed -/

/-- `IF "" THEN IF "A" THEN PRINT "X" ELSE PRINT "Y"` read as
    `IF "" THEN (IF "A" THEN PRINT "X" ELSE PRINT "Y")` — not `Covered`. -/
def danglingTree : RStmt F :=
  .ifS (.str []) (.ifS (.str ['A']) (.printS [.expr (.str ['X'])]) (some (.printS [.expr (.str ['Y'])]))) none

/-- what a run printed -/
def printed {α : Type} : Res F α → List Out
  | .ok _ s => s.out
  | .err _ s => s.out

/-- **Counterexample to the unrestricted IF statement (the dangling ELSE).**
    For the tree above the reference step prints nothing (the outer condition is
    false), while the statement evaluator, run on its rendering, prints `Y`:
    a false condition skips to the first ELSE on the line, whichever IF it was
    written for.  Hence `if_refines_partial` cannot hold for all trees. -/
theorem dangling_else :
    (RStmt.exec ([] : List (Str × Value Unit)) danglingTree).out = [] ∧
    renderS (danglingTree : RStmt Unit) =
      [.kw .If, .str [], .kw .Then, .kw .If, .str ['A'], .kw .Then, .kw .Print, .str ['X'],
       .kw .Else, .kw .Print, .str ['Y']] ∧
    printed (stmtBody (evalN defaultFuel)
      ({ imm := [.kw .If, .str [], .kw .Then, .kw .If, .str ['A'], .kw .Then, .kw .Print, .str ['X'],
                 .kw .Else, .kw .Print, .str ['Y']] } : St Unit)) = [.print ['Y', '\n']] := by
  refine ⟨?_, ?_, ?_⟩
  · simp [danglingTree, RStmt.exec, foldE, Value.toBool]
  · simp [danglingTree, renderS, renderItems, PItem.render, render_str]
  · decide +kernel

end Abasic.Props.C03
