import Abasic.Proofs.Analyzer2
import Abasic.Proofs.Typing2Fold
import Abasic.Props.C02Full
import Abasic.Proofs.Stmt3Def
import Abasic.Proofs.Typing3
/-
  C06 for the FULL expression language: array cells, RND and calls of
  user-defined functions inside expressions.

  1. `typeOf2 sig e` (Abasic/Proofs/Typing2.lean) — the spec's static typing of an
     `Expr2` tree relative to the signatures `sig` of the functions whose DEF the
     analyzer has seen; `sigOf σ.fns` — the signatures recorded in a state.
  2. `analyze_render2` — for every tree `e`, the analyzer's expression pass
     (`aOrExpr (aEvalN n)`) run on `render2 e` returns `typeOf2 (sigOf σ.fns) e`,
     having consumed exactly `render2 e` and logged exactly `accs2 … e`; or fails
     with the error of `typeOf2` (TYPE MISMATCH, or the syntax error of a call
     with too few / too many arguments or of an empty subscript list).
  3. `fold2_typed` (Abasic/Proofs/Typing2Fold.lean) — in an environment whose
     variables, frames, arrays AND function table agree with the signatures
     (`EnvTyped sig env`, in particular `FnsTyped`: the functions defined at run
     time are exactly those of `sig`, with parameters of the recorded kinds and
     bodies that are themselves typed), a typed tree evaluates to a value of its
     static kind, or fails with a `RunErr2` error: never `.syntax _`,
     `.typeMismatch`, `.undefinedStatement`.
  4. `sound_expr2` — analyzer accepts the rendering ⇒ the EVALUATOR on the same
     tokens (from any `C02.Ready2` state realising a typed environment) does not
     fail with one of the three kinds, and its value has the kind the analyzer
     computed.  The hypothesis `EnvTyped (sigOf σa.fns) env` is the property's
     side condition "function definitions are each unique and executed before
     any use", stated dynamically: at the moment of the evaluation the run-time
     function table holds exactly THE definitions the analyzer had seen when it
     checked this expression.  `Abasic/Props/C06FullEx.lean` shows that it
     cannot be dropped.
  5. DEF FN in the analyzer's statement pass: `adef_run` / `adef_stmt_run` — on the
     rendering of `DEF f(ps) = body` the analyzer records the signature FIRST
     and then checks the body against the new signatures; its verdict is
     `typeOfS3 (sigOf σ.fns) le (.defS f ps body)` and it leaves the signatures
     `sigAfterS …` (Abasic/Proofs/Typing3.lean).
  6. Examples: `ex_run` (the hypotheses of `analyze_render2` are satisfiable, on a
     call with a cell among its arguments), wrong arity / wrong kind / call
     before the DEF.

  Statement and program level (Abasic/Proofs/Typing3.lean, same namespace):
  `typeOfS3` / `Typed3` / `typeOfS3_ok_iff` (static check of `RStmt3`, IF branches
  included), `exec3_typed` (one checked statement on the reference semantics),
  `typeOfP3`, `DefsAgree` (the dynamic side condition: at every statement reached,
  the run-time function table is typed w.r.t. the signatures the analyzer has at
  that statement), `rsteps3_typed`, `sound_program3` (transfer to the interpreter
  through `C03.run3_refines`).
-/
set_option linter.unusedSectionVars false

namespace Abasic.Props.C06
open Abasic Abasic.Ref Abasic.ExprL Abasic.ExprL2 Abasic.AnaL M

variable {F : Type} [NumOps F]

/-! ### 2. `analyze_render2` -/

/-- The hypotheses of `analyze_render2` (as `AReady`): the cursor of `σ` stands on
    the numbered line `ln`, whose tokens are `pre ++ render2 e ++ rest`, at index
    `|pre|`; names are used consistently with the function table of `σ`
    (`Resolved2`); there is room for the nested `evaluate_expression` levels of
    the rendering (parentheses, built-in arguments, subscripts, arguments — the
    analyzer does not enter function bodies) below the nesting cap and in the fuel. -/
structure AReady2 (σ : St F) (ln : Nat) (pre : List (Token F)) (e : Expr2 F) (rest : List (Token F))
    (n : Nat) : Prop where
  line : σ.loc.line = some ln
  toks : tokens σ = .ok (pre ++ render2 e ++ rest) σ
  idx : σ.loc.idx = pre.length
  resolved : Resolved2 (sigOf σ.fns) e
  nesting : σ.nesting + adepth e < Extracted.nestingLimit
  fuel : adepth e + 1 ≤ n
  follows : C02.Follows rest

theorem AReady2.at {σ : St F} {ln : Nat} {pre rest : List (Token F)} {e : Expr2 F} {n : Nat}
    (h : AReady2 σ ln pre e rest n) : At σ pre (render2 e ++ rest) :=
  ⟨by rw [C02.lineToks_of_tokens h.toks, List.append_assoc], h.idx⟩

/-- **The analyzer on a rendering of the full expression language.**  For every
    tree `e`, the six analyzer tiers run on `render2 e` return
    `typeOf2 (sigOf σ.fns) e`, having consumed exactly `render2 e`, logged
    exactly `accs2 (sigOf σ.fns) ln |pre| e`, and changed nothing else; if
    `typeOf2` is an error the run fails with that error, the nesting counter
    restored. -/
theorem analyze_render2 (e : Expr2 F) (n ln : Nat) (σ : St F) (pre rest : List (Token F))
    (h : AReady2 σ ln pre e rest n) :
    (∀ t, typeOf2 (sigOf σ.fns) e = .ok t → ∃ r, σ.reads < r ∧
      aOrExpr (aEvalN n) σ =
        .ok t { σ with loc := { σ.loc with idx := pre.length + (render2 e).length }, reads := r,
                       accesses := σ.accesses ++ accs2 (sigOf σ.fns) ln pre.length e }) ∧
    (∀ x, typeOf2 (sigOf σ.fns) e = .error x → ∃ σ',
      aOrExpr (aEvalN n) σ = .err { err := x } σ' ∧ σ'.nesting = σ.nesting) := by
  have hA := (amain2 (sigOf σ.fns) e).1 n 6 ln σ pre rest (by have := h.fuel; omega)
    (by have := h.nesting; omega)
    (by have := prec2_bounds e; unfold lv2; omega) (Nat.le_refl _) (C02.ends_of_follows h.follows) h.at h.line
    rfl h.resolved
  rw [atier_six] at hA
  constructor
  · intro t ht
    rw [ht] at hA
    obtain ⟨r, hr, hσ⟩ := hA
    exact ⟨r, hr, by rw [hσ]; show Res.ok t (lg (mv σ _ r) _) = _; rw [fin_eq h.idx]⟩
  · intro x hx
    rw [hx] at hA
    exact hA

/-- the same for the recursive entry `aExprBody` = `(aEvalN (n+1)).expr` (one
    nesting level deeper, restored on exit), the entry used by statements -/
theorem analyze_render2_body (e : Expr2 F) (n ln : Nat) (σ : St F) (pre rest : List (Token F))
    (h : AReady2 σ ln pre e rest n) :
    (∀ t, typeOf2 (sigOf σ.fns) e = .ok t → ∃ r, σ.reads < r ∧
      aExprBody (aEvalN n) σ =
        .ok t { σ with loc := { σ.loc with idx := pre.length + (render2 e).length }, reads := r,
                       accesses := σ.accesses ++ accs2 (sigOf σ.fns) ln pre.length e }) ∧
    (∀ x, typeOf2 (sigOf σ.fns) e = .error x → ∃ σ',
      aExprBody (aEvalN n) σ = .err { err := x } σ' ∧ σ'.nesting = σ.nesting) := by
  have hA := aexpr_eq2 (sigOf σ.fns) e (amain2 _ e).1 (n + 1) ln σ pre rest (by have := h.fuel; omega)
    (by have := h.nesting; omega) (C02.ends_of_follows h.follows) h.at h.line rfl h.resolved
  have hb : (aEvalN (F := F) (n + 1)).expr = aExprBody (aEvalN n) := rfl
  rw [hb] at hA
  constructor
  · intro t ht
    rw [ht] at hA
    obtain ⟨r, hr, hσ⟩ := hA
    exact ⟨r, hr, by rw [hσ]; show Res.ok t (lg (mv σ _ r) _) = _; rw [fin_eq h.idx]⟩
  · intro x hx
    rw [hx] at hA
    exact hA

/-- the analyzer's verdict on a rendering is `typeOf2` -/
theorem analyze_render2_outcome (e : Expr2 F) (n ln : Nat) (σ : St F) (pre rest : List (Token F))
    (h : AReady2 σ ln pre e rest n) :
    C02.outcome (aOrExpr (aEvalN n) σ) =
      (match typeOf2 (sigOf σ.fns) e with
       | .ok t => .ok t
       | .error x => .error { err := x }) := by
  obtain ⟨h1, h2⟩ := analyze_render2 e n ln σ pre rest h
  cases hev : typeOf2 (sigOf σ.fns) e with
  | ok t => obtain ⟨r, _, hr⟩ := h1 t hev; rw [hr]; rfl
  | error x => obtain ⟨σ', hσ', _⟩ := h2 x hev; rw [hσ']; rfl

/-- accepted by the analyzer ⇔ typed by the spec -/
theorem analyzer_accepts_iff2 (e : Expr2 F) (n ln : Nat) (σ : St F) (pre rest : List (Token F))
    (h : AReady2 σ ln pre e rest n) (t : VT) :
    (∃ σ', aOrExpr (aEvalN n) σ = .ok t σ') ↔ typeOf2 (sigOf σ.fns) e = .ok t := by
  obtain ⟨h1, h2⟩ := analyze_render2 e n ln σ pre rest h
  constructor
  · rintro ⟨σ', hσ'⟩
    cases hev : typeOf2 (sigOf σ.fns) e with
    | ok t' =>
      obtain ⟨r, _, hr⟩ := h1 t' hev
      rw [hr] at hσ'
      simp only [Res.ok.injEq] at hσ'
      rw [hσ'.1]
    | error x =>
      obtain ⟨σ'', hσ'', _⟩ := h2 x hev
      rw [hσ''] at hσ'
      cases hσ'
  · intro ht
    obtain ⟨r, _, hr⟩ := h1 t ht
    exact ⟨_, hr⟩

/-- the errors of the analyzer's expression pass on a rendering: TYPE MISMATCH or a syntax error -/
theorem analyzer_rejects2 (e : Expr2 F) (n ln : Nat) (σ σ' : St F) (pre rest : List (Token F)) (te : TErr)
    (h : AReady2 σ ln pre e rest n) (hrej : aOrExpr (aEvalN n) σ = .err te σ') :
    ∃ x, typeOf2 (sigOf σ.fns) e = .error x ∧ te = { err := x } ∧ (x = .typeMismatch ∨ ∃ s, x = .syntax s) := by
  obtain ⟨h1, h2⟩ := analyze_render2 e n ln σ pre rest h
  cases hev : typeOf2 (sigOf σ.fns) e with
  | ok t =>
    obtain ⟨r, _, hr⟩ := h1 t hev
    rw [hr] at hrej
    cases hrej
  | error x =>
    obtain ⟨σ'', hσ'', _⟩ := h2 x hev
    rw [hσ''] at hrej
    simp only [Res.err.injEq] at hrej
    exact ⟨x, rfl, hrej.1.symm, typeOf2_error _ e x hev⟩

/-! ### 4. soundness for expressions of the full language -/

/-- **C06 for expressions with cells, RND and user-function calls.**  If the
    analyzer accepts the rendering of `e` with type `t` (run from a state `σa`
    standing on it, on a numbered line), then the evaluator run on the same
    tokens — from any state `σ` standing on a rendering of `e` (C02's `Ready2`,
    realising the environment `env`) in which variables, frames, arrays and the
    FUNCTION TABLE agree with the signatures the analyzer had
    (`EnvTyped (sigOf σa.fns) env`) — never fails with TYPE MISMATCH, a syntax
    error or UNDEF'D STATEMENT (only with a `RunErr2` error: DIVISION BY ZERO,
    BAD SUBSCRIPT, ILLEGAL QUANTITY, OUT OF MEMORY, …), any value it returns has
    kind `t`, and the environment it leaves is typed again. -/
theorem sound_expr2 (e : Expr2 F) (t : VT)
    (na ln : Nat) (σa σa' : St F) (prea resta : List (Token F))
    (ha : AReady2 σa ln prea e resta na) (hacc : aOrExpr (aEvalN na) σa = .ok t σa')
    (k n : Nat) (σ : St F) (env : RefEnv F) (pre rest : List (Token F))
    (hr : C02.Ready2 σ env pre e rest k n) (hty : EnvTyped (sigOf σa.fns) env) :
    typeOf2 (sigOf σa.fns) e = .ok t ∧
    (∀ te σ', orExpr (evalN n) σ = .err te σ' →
      RunErr2 te.err ∧ te.err ≠ .typeMismatch ∧ (∀ s, te.err ≠ .syntax s) ∧ te.err ≠ .undefinedStatement) ∧
    (∀ v σ', orExpr (evalN n) σ = .ok v σ' →
      kindOf v = t ∧ ∃ env', C02.EnvOf σ' env' ∧ EnvTyped (sigOf σa.fns) env') := by
  have htyp : typeOf2 (sigOf σa.fns) e = .ok t :=
    (analyzer_accepts_iff2 e na ln σa prea resta ha t).1 ⟨σa', hacc⟩
  refine ⟨htyp, ?_⟩
  obtain ⟨h1, h2⟩ := C02.eval_render2 e k n σ env pre rest hr
  obtain ⟨f1, f2⟩ := fold2_typed (sigOf σa.fns) k e env t hty htyp
  cases hf : fold2 k env e with
  | ok p =>
    obtain ⟨v, env'⟩ := p
    obtain ⟨r, _, hrun, henv'⟩ := h1 v env' hf
    obtain ⟨hk, hty'⟩ := f1 v env' hf
    rw [hrun]
    refine ⟨fun te σ' h => (by cases h), fun w σ' h => ?_⟩
    simp only [Res.ok.injEq] at h
    rw [← h.1, ← h.2]
    exact ⟨hk, env', henv', hty'⟩
  | error x =>
    obtain ⟨te, σ'', hrun, hx, _⟩ := h2 x hf
    have hx2 := f2 x hf
    rw [hrun]
    refine ⟨fun te' σ' h => ?_, fun w σ' h => by cases h⟩
    simp only [Res.err.injEq] at h
    rw [← h.1, hx]
    exact ⟨hx2, hx2.not_static⟩

/-! ### 5. DEF FN in the analyzer's statement pass -/

theorem aStmtBody_def {ev : AEvals F} {σ : St F} {pre post : List (Token F)}
    (h : At σ pre (.kw .Def :: post)) :
    aStmtBody ev σ = aDef ev (mv σ 1 (σ.reads + 1)) := by
  unfold aStmtBody
  rw [bind_ok (next_eq h)]

/-- the signatures after `DEF f(ps) = …` on line `ln`, body at token `i` -/
def fnsAfterDef (fns : List (Str × FnDef)) (f : Str) (ps : List Str) (ln i : Nat) : List (Str × FnDef) :=
  alSet f { args := ps, line := ln, idx := i } fns

theorem sigOf_fnsAfterDef (fns : List (Str × FnDef)) (f : Str) (ps : List Str) (ln i : Nat) (g : Str) :
    sigOf (fnsAfterDef fns f ps ln i) g =
      if g = f then some (ps.map VT.ofName, VT.ofName f) else sigOf fns g := by
  unfold sigOf fnsAfterDef
  rw [Stmt2L.alGet_alSet_cases]
  by_cases h : g = f
  · subst h; simp only [↓reduceIte]
  · simp only [h, ↓reduceIte]

/-- the static check of a DEF: the body, typed with the function itself already
    recorded, has the kind of the function's name -/
def defCheck (sig : Sig) (f : Str) (body : Expr2 F) : Except Err Unit :=
  match typeOf2 sig body with
  | .error x => .error x
  | .ok t => if t = VT.ofName f then .ok () else .error .typeMismatch

/-- **DEF FN in the analyzer.**  `aDef` on `f ( p₁ , … , pₖ ) = body` (the tokens
    after `DEF`) on the numbered line `ln`: it logs a write of `f`, records
    `f ↦ (p₁ … pₖ, ln, index of the body)` in the function table, THEN runs the
    expression pass on the body — so that its verdict is
    `defCheck (signatures after the DEF) f body` (recursive calls of `f` are
    checked against the new signature) — and leaves everything else alone. -/
theorem adef_run (f : Str) (ps : List Str) (body : Expr2 F) (hps : ps ≠ []) (n ln i : Nat) (σ : St F)
    (pre rest : List (Token F))
    (hAt : At σ pre (.symbol f :: .kw .LeftParen ::
      (renderTargets ps ++ .kw .RightParen :: .kw .Equals :: (render2 body ++ rest))))
    (hl : σ.loc.line = some ln) (hi : i = pre.length + (renderTargets (F := F) ps).length + 4)
    (hE : Ends 6 rest) (hres : Resolved2 (sigOf (fnsAfterDef σ.fns f ps ln i)) body)
    (hd : adepth body + 1 ≤ n) (hn : σ.nesting + (adepth body + 1) ≤ Extracted.nestingLimit) :
    match defCheck (sigOf (fnsAfterDef σ.fns f ps ln i)) f body with
    | .ok _ => ∃ σ', aDef (aEvalN n) σ = .ok () σ' ∧
        σ'.fns = fnsAfterDef σ.fns f ps ln i ∧
        σ'.loc = { σ.loc with idx := i + (render2 body).length } ∧
        σ'.accesses = σ.accesses ++ (f, ln, pre.length, Access.write) ::
          accs2 (sigOf (fnsAfterDef σ.fns f ps ln i)) ln i body ∧
        σ'.lines = σ.lines ∧ σ'.nesting = σ.nesting ∧ σ'.imm = σ.imm
    | .error x => ∃ σ', aDef (aEvalN n) σ = .err { err := x } σ' ∧ σ'.nesting = σ.nesting := by
  have hAt1 := at_lg (at_mv1 hAt (σ.reads + 1)) [(f, ln, pre.length, Access.write)]
  have hAt2 := at_mv1 hAt1 (σ.reads + 1 + 1)
  have hAt2' : At (mv (lg (mv σ 1 (σ.reads + 1)) [(f, ln, pre.length, Access.write)]) 1 (σ.reads + 1 + 1))
      (pre ++ [Token.symbol f] ++ [Token.kw Kw.LeftParen])
      ((renderTargets ps ++ [.kw .RightParen]) ++ (.kw .Equals :: (render2 body ++ rest))) := by
    simpa only [List.append_assoc, List.cons_append, List.nil_append] using hAt2
  have htl := Stmt3L.targets_length (F := F) ps
  obtain ⟨c, hc⟩ := Stmt3L.defArgsLoop_run ps hps
    ((pre ++ [Token.symbol f] ++ [Token.kw Kw.LeftParen] ++
      (renderTargets ps ++ Token.kw Kw.RightParen :: Token.kw Kw.Equals :: (render2 body ++ rest))).length + 1)
    _ _ _ [] hAt2 (by simp only [List.length_append, List.length_cons]; omega)
  have hAt3 := at_mv hAt2' c
  have hlen : (renderTargets (F := F) ps ++ [Token.kw Kw.RightParen]).length = (renderTargets (F := F) ps).length + 1 := by
    simp only [List.length_append, List.length_cons, List.length_nil]
  rw [hlen] at hAt3
  have hAt4 := at_mv1 hAt3 (c + 1)
  -- the state after `defineFunction`
  let σ5 : St F := { mv (mv (mv (lg (mv σ 1 (σ.reads + 1)) [(f, ln, pre.length, Access.write)]) 1 (σ.reads + 1 + 1))
      ((renderTargets (F := F) ps).length + 1) c) 1 (c + 1) with fns := fnsAfterDef σ.fns f ps ln i }
  have hidx : (mv (mv (mv (lg (mv σ 1 (σ.reads + 1)) [(f, ln, pre.length, Access.write)]) 1 (σ.reads + 1 + 1))
      ((renderTargets (F := F) ps).length + 1) c) 1 (c + 1)).loc.idx = i := by
    simp only [mv_idx, lg_idx, hAt.2]; omega
  have hdef : defineFunction f ps (mv (mv (mv (lg (mv σ 1 (σ.reads + 1)) [(f, ln, pre.length, Access.write)]) 1
      (σ.reads + 1 + 1)) ((renderTargets (F := F) ps).length + 1) c) 1 (c + 1)) = .ok () σ5 := by
    unfold defineFunction
    simp only [bind, M.bindM, M.get, mv_line, lg_line, hl, M.set, hidx]
    rfl
  have hAt5 : At σ5 (pre ++ [Token.symbol f] ++ [Token.kw Kw.LeftParen] ++
      (renderTargets ps ++ [Token.kw Kw.RightParen]) ++ [Token.kw Kw.Equals]) (render2 body ++ rest) :=
    ⟨hAt4.1, hAt4.2⟩
  have hX := aexpr_eq2 (sigOf (fnsAfterDef σ.fns f ps ln i)) body (amain2 _ body).1 n ln σ5 _ rest hd hn hE hAt5
    hl rfl hres
  have hrun : aDef (aEvalN n) σ = ((aEvalN n).expr >>= fun t => VT.check (F := F) t (VT.ofName f) >>= fun _ =>
      pure ()) σ5 := by
    unfold aDef
    rw [bind_ok (next_eq hAt)]
    simp only
    rw [bind_ok (prevLoc_eq (ln := ln) (i := pre.length) (by rw [mv_line]; exact hl) (by rw [mv_idx, hAt.2]))]
    rw [bind_ok (logAccess_eq _ _ _ _ _), bind_ok (expect_eq hAt1 rfl)]
    simp only [lg_reads, mv_reads]
    rw [bind_ok (lineBudget_eq hAt2.1), bind_ok hc]
    simp only [List.nil_append]
    rw [bind_ok (expect_eq hAt3 rfl)]
    simp only [mv_reads]
    rw [bind_ok hdef]
  rw [hrun]
  unfold defCheck
  cases hev : typeOf2 (sigOf (fnsAfterDef σ.fns f ps ln i)) body with
  | error x =>
    rw [hev] at hX
    obtain ⟨σ', hσ', hn'⟩ := hX
    exact ⟨σ', bind_err hσ', hn'⟩
  | ok t =>
    rw [hev] at hX
    obtain ⟨r, _, hσ'⟩ := hX
    simp only at hσ'
    rw [bind_ok hσ']
    by_cases ht : t = VT.ofName f
    · subst ht
      simp only [↓reduceIte]
      rw [bind_ok (check_same _ _)]
      refine ⟨_, rfl, rfl, ?_, ?_, rfl, rfl, rfl⟩
      · have hidx' : σ.loc.idx + 1 + 1 + ((renderTargets (F := F) ps).length + 1) + 1 = i := by
          rw [hAt.2, hi]; omega
        show ({ σ.loc with idx := σ.loc.idx + 1 + 1 + ((renderTargets (F := F) ps).length + 1) + 1 +
            (render2 body).length } : Loc) = _
        rw [hidx']
      · show σ.accesses ++ [(f, ln, pre.length, Access.write)] ++ _ = _
        rw [List.append_assoc, List.singleton_append]
        congr 2
        apply accs2_congr
        simp only [List.length_append, List.length_cons, List.length_nil]
        rw [hi]; omega
    · simp only [ht, ↓reduceIte]
      exact ⟨_, bind_err (check_diff ht _), rfl⟩

/-- `adef_run` against the statement-level check of Abasic/Proofs/Typing3.lean: the verdict of the
    analyzer on `DEF f(ps) = body` is `typeOfS3 (sigOf σ.fns) le (.defS f ps body)`, and the signatures
    of the state it leaves are `sigAfterS (sigOf σ.fns) (.defS f ps body)` -/
theorem defCheck_eq_typeOfS3 (fns : List (Str × FnDef)) (f : Str) (ps : List Str) (body : Expr2 F) (ln i : Nat)
    (le : Nat → Bool) :
    defCheck (sigOf (fnsAfterDef fns f ps ln i)) f body = typeOfS3 (sigOf fns) le (.defS f ps body) ∧
    sigOf (fnsAfterDef fns f ps ln i) = sigAfterS (sigOf fns) (.defS f ps body : RStmt3 F) := by
  have hs : sigOf (fnsAfterDef fns f ps ln i)
      = fun g => if g = f then some (ps.map VT.ofName, VT.ofName f) else sigOf fns g :=
    funext (sigOf_fnsAfterDef fns f ps ln i)
  refine ⟨?_, by rw [hs]; rfl⟩
  rw [hs]
  rfl

/-- **DEF FN, statement level.**  The analyzer's statement pass on the rendering of `DEF f(ps) = body`
    (a covered DEF has at least one parameter) returns `typeOfS3 (sigOf σ.fns) le (DEF …)`; when it
    accepts, the signatures of the state it leaves are `sigAfterS (sigOf σ.fns) (DEF …)`, the cursor
    stands after the statement and nothing but the function table and the access log has changed. -/
theorem adef_stmt_run (f : Str) (ps : List Str) (body : Expr2 F) (hps : ps ≠ []) (n ln : Nat) (le : Nat → Bool)
    (σ : St F) (pre rest : List (Token F))
    (hAt : At σ pre (renderS3 (.defS f ps body) ++ rest)) (hl : σ.loc.line = some ln) (hE : Ends 6 rest)
    (hres : Resolved2 (sigAfterS (sigOf σ.fns) (.defS f ps body : RStmt3 F)) body)
    (hd : adepth body + 1 ≤ n) (hn : σ.nesting + (adepth body + 1) ≤ Extracted.nestingLimit) :
    match typeOfS3 (sigOf σ.fns) le (.defS f ps body) with
    | .ok _ => ∃ σ', aStmtBody (aEvalN n) σ = .ok () σ' ∧
        sigOf σ'.fns = sigAfterS (sigOf σ.fns) (.defS f ps body : RStmt3 F) ∧
        σ'.loc = { σ.loc with idx := pre.length + (renderS3 (.defS f ps body)).length } ∧
        σ'.lines = σ.lines ∧ σ'.nesting = σ.nesting ∧ σ'.imm = σ.imm
    | .error x => ∃ σ', aStmtBody (aEvalN n) σ = .err { err := x } σ' ∧ σ'.nesting = σ.nesting := by
  have hAt0 : At σ pre (.kw .Def :: (.symbol f :: .kw .LeftParen ::
      (renderTargets ps ++ .kw .RightParen :: .kw .Equals :: (render2 body ++ rest)))) := by
    simpa only [renderS3, List.cons_append, List.append_assoc] using hAt
  have hAt1 := at_mv1 hAt0 (σ.reads + 1)
  obtain ⟨hchk, hsig⟩ := defCheck_eq_typeOfS3 σ.fns f ps body ln
    ((pre ++ [Token.kw Kw.Def]).length + (renderTargets (F := F) ps).length + 4) le
  have h := adef_run f ps body hps n ln _ (mv σ 1 (σ.reads + 1)) _ rest hAt1 hl rfl hE
    (by rw [show (mv σ 1 (σ.reads + 1)).fns = σ.fns from rfl, hsig]; exact hres) hd hn
  rw [show (mv σ 1 (σ.reads + 1)).fns = σ.fns from rfl, hchk] at h
  rw [aStmtBody_def hAt0]
  cases hty : typeOfS3 (sigOf σ.fns) le (.defS f ps body) with
  | error x => rw [hty] at h; exact h
  | ok u =>
    rw [hty] at h
    obtain ⟨σ', hrun, hfns, hloc, _, hlines, hnest, himm⟩ := h
    refine ⟨σ', hrun, by rw [hfns, hsig], ?_, hlines, hnest, himm⟩
    have hlen : (pre ++ [Token.kw Kw.Def]).length + (renderTargets (F := F) ps).length + 4 + (render2 body).length
        = pre.length + (renderS3 (.defS f ps body)).length := by
      simp only [renderS3, List.length_append, List.length_cons, List.length_nil]
      omega
    rw [hloc, hlen]
    rfl

/-! ### 6. examples -/

/-- `FNA(B(I), "S")` -/
def exE : Expr2 F := .call "FNA".toList [.cell ['B'] [.var ['I']], .str ['S']]

def exToks : List (Token F) :=
  [.symbol "FNA".toList, .kw .LeftParen, .symbol ['B'], .kw .LeftParen, .symbol ['I'], .kw .RightParen,
   .kw .Comma, .str ['S'], .kw .RightParen]

def exFns : List (Str × FnDef) := [("FNA".toList, { args := [['X'], ['Y', '$']], line := 5, idx := 0 })]

def exState : St F := { lineState 10 exToks [] with fns := exFns }

theorem ex_render : render2 (exE : Expr2 F) = exToks := by
  simp [exE, exToks, render2_call, render2_cell, renderArgs_cons, renderArgs_one, render2_var, render2_str]

theorem ex_depth : adepth (exE : Expr2 F) = 2 := by
  simp [exE, depthArgs, adepth, depth2]

theorem ex_type : typeOf2 (sigOf exFns) (exE : Expr2 F) = .ok .num := by
  simp [exE, typeOf2, typeIdx, typeArgs, sigOf, exFns, alGet, VT.ofName, endsWithDollar]

theorem ex_ready : AReady2 (exState : St F) 10 [] exE [] defaultFuel where
  line := rfl
  toks := by
    rw [ex_render]
    simp [tokens, tokensForLine, exState, lineState, Lines.get, Lines.getMap]
  idx := rfl
  resolved := by
    simp [exE, Resolved2, Resolved2L, reserved, sigOf, exState, exFns, alGet]
    decide
  nesting := by
    rw [ex_depth]
    show 0 + 2 < Extracted.nestingLimit
    decide
  fuel := by rw [ex_depth]; unfold defaultFuel; omega
  follows := C02.follows_nil

/-- Non-vacuity of `analyze_render2`, end to end: on line 10 holding `FNA ( B ( I ) , "S" )`, with
    `DEF FNA(X, Y$)` recorded, the analyzer answers "number", logs the read of `FNA` (token 0) before its
    arguments, of `I` (token 4), and of the array `B` (token 2) after its subscript. -/
theorem ex_run : ∃ r, aOrExpr (aEvalN defaultFuel) (exState : St F) =
    .ok .num { (exState : St F) with loc := { line := some 10, idx := 9 }, reads := r, accesses := [("FNA".toList, 10, 0, .read), (['I'], 10, 4, .read), (['B'], 10, 2, .read)] } := by
  obtain ⟨r, _, hr⟩ := (analyze_render2 (exE : Expr2 F) defaultFuel 10 exState [] [] ex_ready).1 .num ex_type
  refine ⟨r, ?_⟩
  rw [hr, ex_render]
  simp [exE, exToks, accs2, accsArgs, sigOf, exState, exFns, alGet, lineState]

/-- … and with one argument too few, `FNA ( B ( I ) )`, the verdict is the syntax error of the missing comma -/
theorem ex_too_few : typeOf2 (sigOf exFns) (.call "FNA".toList [.cell ['B'] [.var ['I']]] : Expr2 F)
    = .error (.syntax (.expectedToken .Comma)) := by
  simp [typeOf2, typeIdx, typeArgs, sigOf, exFns, alGet, VT.ofName, endsWithDollar]

/-- … with a number for `Y$`, TYPE MISMATCH -/
theorem ex_bad_kind : typeOf2 (sigOf exFns) (.call "FNA".toList [.var ['I'], .var ['J']] : Expr2 F)
    = .error .typeMismatch := by
  simp [typeOf2, typeArgs, sigOf, exFns, alGet, VT.ofName, endsWithDollar]

/-- … and before the DEF has been seen, `FNA ( B ( I ) , "S" )` is an array cell with a string subscript -/
theorem ex_undefined : typeOf2 (sigOf []) (exE : Expr2 F) = .error .typeMismatch := by
  simp [exE, typeOf2, typeIdx, sigOf, alGet, VT.ofName, endsWithDollar]


end Abasic.Props.C06
