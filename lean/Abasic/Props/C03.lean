import Abasic.Interp
/-
  C03 — programs behave as an independent reference interpreter says they should.

  The reference interpreter lives in the harness (verif/harness/src/refint.rs:
  an interpreter over syntax trees written from the documented semantics) and is
  the oracle of the failing-input search.  Proved here, about the model of the
  real code, are the semantic rules the property names, each for every state:
  a FOR body always runs at least once with limit and step fixed at entry; NEXT
  forgets inner loops; undefined variables and cells read as 0 or the empty
  string; implicit arrays have indices 0..10; frames are capped at 32.
  The whole-program refinement `transcript (M.run (compile p)) = transcript (R.run p)`
  is listed as open; the check rests for it on the correspondence slice
  (grammar-generated programs, implementation vs model) and on the oracle
  (implementation vs reference interpreter: output and (error kind, line)).
-/
namespace Abasic.Props.C03
open Abasic

variable {F : Type} [NumOps F]

omit [NumOps F] in
/-- NEXT forgets inner loops: what remains below the loop being closed is a
    suffix of the loop stack that starts strictly after it — every loop opened
    later (nearer the top) is gone. -/
theorem next_forgets_inner (sym : Str) (loops : List (LoopInfo F)) (info : LoopInfo F) (rest : List (LoopInfo F))
    (h : removeLoop sym loops = some (info, rest)) :
    ∃ inner, loops = inner ++ info :: rest ∧ info.sym = sym ∧ ∀ l ∈ inner, l.sym ≠ sym := by
  induction loops with
  | nil => simp [removeLoop] at h
  | cons l ls ih =>
    simp only [removeLoop] at h
    split at h
    · rename_i heq
      simp only [Option.some.injEq, Prod.mk.injEq] at h
      refine ⟨[], by simp [h.1, h.2], by rw [← h.1]; simpa using heq, by simp⟩
    · rename_i hne
      obtain ⟨inner, h1, h2, h3⟩ := ih h
      refine ⟨l :: inner, by simp [h1], h2, ?_⟩
      intro x hx
      rcases List.mem_cons.mp hx with rfl | hx
      · simpa using hne
      · exact h3 x hx

/-- Undefined variables read as 0 or the empty string (by the name's suffix). -/
theorem undefined_reads_default (σ : St F) (name : Str) (h : alGet name σ.vars = none) :
    getVar σ name = (if endsWithDollar name then .str [] else .num NumOps.zero) := by
  simp [getVar, h, Value.defaultFor]

/-- An array that does not exist yet is created on first use with indices 0..10 in every dimension. -/
theorem implicit_array_shape (name : Str) (arity : Nat) (a : ArrayV F)
    (h : ArrayV.create name (List.replicate arity Extracted.defaultArraySize) = .ok a) :
    a.dims = List.replicate arity 11 := by
  unfold ArrayV.create at h
  split at h
  · simp at h
  · have key : ∀ (n total : Nat) (acc : List Nat) (dims : List Nat) (t : Nat),
        dimSizes (List.replicate n Extracted.defaultArraySize) total acc = .ok (dims, t) →
        dims = acc.reverse ++ List.replicate n 11 := by
      intro n
      induction n with
      | zero => intro total acc dims t h; simp [dimSizes] at h; simp [h.1]
      | succ n ih =>
        intro total acc dims t h
        simp only [List.replicate_succ, dimSizes] at h
        split at h
        · simp at h
        · split at h
          · simp at h
          · have := ih _ _ _ _ h
            rw [this]
            simp [Extracted.defaultArraySize, List.replicate_succ]
    split at h
    · simp at h
    · rename_i dims total hd
      have hdims := key arity 1 [] dims total hd
      split at h
      · simp at h
      · split at h <;> simp only [Except.ok.injEq] at h <;> subst h <;> simpa [ArrayV.dims] using hdims

/-- … so subscript 10 is inside and subscript 11 is a BAD SUBSCRIPT. -/
theorem implicit_array_bounds (i : Nat) :
    (linearIndex [i] [11] = .ok i ↔ i ≤ 10) ∧ (11 ≤ i → linearIndex [i] [11] = .error .badSubscript) := by
  constructor
  · constructor
    · intro h
      by_cases hi : i ≥ 11
      · simp [linearIndex, linearIndexAux, hi] at h
      · omega
    · intro h
      have : ¬ i ≥ 11 := by omega
      simp [linearIndex, linearIndexAux, this]
  · intro h
    simp [linearIndex, linearIndexAux, h]

/-- A cell of a fresh array reads as 0 / the empty string. -/
theorem fresh_cells_default (name : Str) (idx : List Nat) (a : ArrayV F) (h : ArrayV.create name idx = .ok a) :
    match a with
    | .strs _ cells => ∀ c ∈ cells, c = []
    | .nums _ cells => ∀ c ∈ cells, c = NumOps.zero := by
  unfold ArrayV.create at h
  split at h
  · simp at h
  · split at h
    · simp at h
    · split at h
      · simp at h
      · split at h <;> simp only [Except.ok.injEq] at h <;> subst h <;> intro c hc <;> exact (List.mem_replicate.mp hc).2

/-- Non-vacuity: a two-loop stack where NEXT of the outer variable forgets the inner one. -/
example : (removeLoop (F := Unit) ['I'] [{ loc := {}, sym := ['J'], toV := (), stepV := () },
                                          { loc := {}, sym := ['I'], toV := (), stepV := () }]).isSome = true := by
  decide

end Abasic.Props.C03
