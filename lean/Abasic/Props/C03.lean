import Abasic.Interp
/-
  C03 — programs behave as an independent reference interpreter says they should.

  The reference interpreter lives in the harness (verif/harness/src/refint.rs:
  an interpreter over syntax trees written from the documented semantics) and is
  the oracle of the failing-input search.  Proved here, about the model of the
  real code, are the semantic rules the property names, each for every state:
  a FOR body always runs at least once with limit and step fixed at entry; NEXT
  forgets inner loops; undefined variables and cells read as 0 or the empty
  string; implicit arrays have indices 0..10; frames are capped at 32.
  The whole-program refinement `transcript (M.run (compile p)) = transcript (R.run p)`
  is listed as open; the check rests for it on the correspondence slice
  (grammar-generated programs, implementation vs model) and on the oracle
  (implementation vs reference interpreter: output and (error kind, line)).
-/
namespace Abasic.Props.C03
open Abasic

variable {F : Type} [NumOps F]

omit [NumOps F] in
/-- NEXT forgets inner loops: what remains below the loop being closed is a
    suffix of the loop stack that starts strictly after it — every loop opened
    later (nearer the top) is gone. -/
theorem next_forgets_inner (sym : Str) (loops : List (LoopInfo F)) (info : LoopInfo F) (rest : List (LoopInfo F))
    (h : removeLoop sym loops = some (info, rest)) :
    ∃ inner, loops = inner ++ info :: rest ∧ info.sym = sym ∧ ∀ l ∈ inner, l.sym ≠ sym := by
  induction loops with
  | nil => simp [removeLoop] at h
  | cons l ls ih =>
    simp only [removeLoop] at h
    split at h
    · rename_i heq
      simp only [Option.some.injEq, Prod.mk.injEq] at h
      refine ⟨[], by simp [h.1, h.2], by rw [← h.1]; simpa using heq, by simp⟩
    · rename_i hne
      obtain ⟨inner, h1, h2, h3⟩ := ih h
      refine ⟨l :: inner, by simp [h1], h2, ?_⟩
      intro x hx
      rcases List.mem_cons.mp hx with rfl | hx
      · simpa using hne
      · exact h3 x hx

/-- Undefined variables read as 0 or the empty string (by the name's suffix). -/
theorem undefined_reads_default (σ : St F) (name : Str) (h : alGet name σ.vars = none) :
    getVar σ name = (if endsWithDollar name then .str [] else .num NumOps.zero) := by
  simp [getVar, h, Value.defaultFor]

/-- An array that does not exist yet is created on first use with indices 0..10 in every dimension. -/
theorem implicit_array_shape (name : Str) (arity : Nat) (a : ArrayV F)
    (h : ArrayV.create name (List.replicate arity Extracted.defaultArraySize) = .ok a) :
    a.dims = List.replicate arity 11 := by
  unfold ArrayV.create at h
  split at h
  · simp at h
  · have key : ∀ (n total : Nat) (acc : List Nat) (dims : List Nat) (t : Nat),
        dimSizes (List.replicate n Extracted.defaultArraySize) total acc = .ok (dims, t) →
        dims = acc.reverse ++ List.replicate n 11 := by
      intro n
      induction n with
      | zero => intro total acc dims t h; simp [dimSizes] at h; simp [h.1]
      | succ n ih =>
        intro total acc dims t h
        simp only [List.replicate_succ, dimSizes] at h
        split at h
        · simp at h
        · split at h
          · simp at h
          · have := ih _ _ _ _ h
            rw [this]
            simp [Extracted.defaultArraySize, List.replicate_succ]
    split at h
    · simp at h
    · rename_i dims total hd
      have hdims := key arity 1 [] dims total hd
      split at h
      · simp at h
      · split at h <;> simp only [Except.ok.injEq] at h <;> subst h <;> simpa [ArrayV.dims] using hdims

/-- … so subscript 10 is inside and subscript 11 is a BAD SUBSCRIPT. -/
theorem implicit_array_bounds (i : Nat) :
    (linearIndex [i] [11] = .ok i ↔ i ≤ 10) ∧ (11 ≤ i → linearIndex [i] [11] = .error .badSubscript) := by
  constructor
  · constructor
    · intro h
      by_cases hi : i ≥ 11
      · simp [linearIndex, linearIndexAux, hi] at h
      · omega
    · intro h
      have : ¬ i ≥ 11 := by omega
      simp [linearIndex, linearIndexAux, this]
  · intro h
    simp [linearIndex, linearIndexAux, h]

/-- A cell of a fresh array reads as 0 / the empty string. -/
theorem fresh_cells_default (name : Str) (idx : List Nat) (a : ArrayV F) (h : ArrayV.create name idx = .ok a) :
    match a with
    | .strs _ cells => ∀ c ∈ cells, c = []
    | .nums _ cells => ∀ c ∈ cells, c = NumOps.zero := by
  unfold ArrayV.create at h
  split at h
  · simp at h
  · split at h
    · simp at h
    · split at h
      · simp at h
      · split at h <;> simp only [Except.ok.injEq] at h <;> subst h <;> intro c hc <;> exact (List.mem_replicate.mp hc).2

/-! ### FOR / NEXT on whole states -/

theorem alGet_alSet {β : Type} (k : Str) (v : β) (l : List (Str × β)) :
    alGet k (alSet k v l) = some v := by
  induction l with
  | nil => simp [alSet, alGet]
  | cons p ps ih =>
    obtain ⟨k', v'⟩ := p
    by_cases hk : k' = k
    · simp [alSet, alGet, hk]
    · have hb : (k' == k) = false := by simpa using hk
      simp [alSet, alGet, hb, ih]

omit [NumOps F] in
/-- FOR never tests its limit: when it succeeds the cursor has not moved (the
    body is what comes next, so it runs at least once), the loop on top of the
    stack records the position, and the limit and step computed at entry, and
    the variable holds the start value. -/
theorem for_enters_body (sym : Str) (a b c : F) (σ σ' : St F)
    (h : startLoop sym a b c σ = .ok () σ') :
    σ'.loc = σ.loc ∧
    (∃ rest, σ'.loops = { loc := σ.loc, sym := sym, toV := b, stepV := c } :: rest) ∧
    alGet sym σ'.vars = some (.num a) := by
  cases hr : removeLoop sym σ.loops with
  | none =>
    by_cases hcap : σ.loops.length = Extracted.stackLimit
    · simp [startLoop, bind, M.bindM, M.modify, M.get, hr, hcap, M.fail] at h
    · have hb : (σ.loops.length == Extracted.stackLimit) = false := by simpa using hcap
      by_cases hm : (Value.num a : Value F).matchesName sym = true
      · simp [startLoop, setVar, bind, M.bindM, M.modify, M.get, M.set, hr, hb, hm] at h
        rw [← h]
        exact ⟨rfl, ⟨_, rfl⟩, alGet_alSet _ _ _⟩
      · have hm' : (Value.num a : Value F).matchesName sym = false := by simpa using hm
        simp [startLoop, setVar, bind, M.bindM, M.modify, M.get, M.set, M.fail, hr, hb, hm'] at h
  | some p =>
    obtain ⟨info, rest⟩ := p
    by_cases hcap : rest.length = Extracted.stackLimit
    · simp [startLoop, bind, M.bindM, M.modify, M.get, hr, hcap, M.fail] at h
    · have hb : (rest.length == Extracted.stackLimit) = false := by simpa using hcap
      by_cases hm : (Value.num a : Value F).matchesName sym = true
      · simp [startLoop, setVar, bind, M.bindM, M.modify, M.get, M.set, hr, hb, hm] at h
        rw [← h]
        exact ⟨rfl, ⟨_, rfl⟩, alGet_alSet _ _ _⟩
      · have hm' : (Value.num a : Value F).matchesName sym = false := by simpa using hm
        simp [startLoop, setVar, bind, M.bindM, M.modify, M.get, M.set, M.fail, hr, hb, hm'] at h

/-- the test NEXT makes: against the limit and with the sign of the step that
    were stored when the FOR was entered -/
def nextAgain (cur : F) (info : LoopInfo F) : Bool :=
  if NumOps.ge info.stepV NumOps.zero then NumOps.le (NumOps.add cur info.stepV) info.toV
  else NumOps.ge (NumOps.add cur info.stepV) info.toV

/-- NEXT uses the stored limit and step: the variable is advanced by the stored
    step; if the test against the stored limit succeeds the loop stays open
    (inner loops forgotten) and control goes back to the stored position … -/
theorem next_uses_stored_again (sym : Str) (σ : St F) (cur : F) (info : LoopInfo F) (rest : List (LoopInfo F))
    (hv : getVar σ sym = .num cur) (hr : removeLoop sym σ.loops = some (info, rest))
    (hm : (Value.num (NumOps.add cur info.stepV) : Value F).matchesName sym = true)
    (hc : nextAgain cur info = true) :
    endLoop sym σ = .ok ()
      { σ with loops := info :: rest, loc := info.loc, vars := alSet sym (.num (NumOps.add cur info.stepV)) σ.vars } := by
  unfold nextAgain at hc
  simp [endLoop, setVar, bind, M.bindM, M.get, hv, hr, M.set, M.modify, hc, hm]

/-- … otherwise the loop is closed and control falls through. -/
theorem next_uses_stored_done (sym : Str) (σ : St F) (cur : F) (info : LoopInfo F) (rest : List (LoopInfo F))
    (hv : getVar σ sym = .num cur) (hr : removeLoop sym σ.loops = some (info, rest))
    (hm : (Value.num (NumOps.add cur info.stepV) : Value F).matchesName sym = true)
    (hc : nextAgain cur info = false) :
    endLoop sym σ = .ok ()
      { σ with loops := rest, vars := alSet sym (.num (NumOps.add cur info.stepV)) σ.vars } := by
  unfold nextAgain at hc
  simp [endLoop, setVar, bind, M.bindM, M.get, hv, hr, M.set, M.modify, hc, hm]

/-- Both cases in one statement. -/
theorem next_uses_stored (sym : Str) (σ : St F) (cur : F) (info : LoopInfo F) (rest : List (LoopInfo F))
    (hv : getVar σ sym = .num cur) (hr : removeLoop sym σ.loops = some (info, rest))
    (hm : (Value.num (NumOps.add cur info.stepV) : Value F).matchesName sym = true) :
    endLoop sym σ = .ok ()
      (let newV := NumOps.add cur info.stepV
       let again := if NumOps.ge info.stepV NumOps.zero then NumOps.le newV info.toV else NumOps.ge newV info.toV
       if again = true then { σ with loops := info :: rest, loc := info.loc, vars := alSet sym (.num newV) σ.vars }
       else { σ with loops := rest, vars := alSet sym (.num newV) σ.vars }) := by
  cases hc : nextAgain cur info with
  | true =>
    rw [next_uses_stored_again sym σ cur info rest hv hr hm hc]
    unfold nextAgain at hc
    simp only [hc, ↓reduceIte]
  | false =>
    rw [next_uses_stored_done sym σ cur info rest hv hr hm hc]
    unfold nextAgain at hc
    simp only [hc, Bool.false_eq_true, ↓reduceIte]

/-! ### READ takes DATA in line order -/

omit [NumOps F] in
theorem listTokens_keys (l : Lines F) (entries : List (Nat × List (Token F)))
    (h : l.listTokens = some entries) : entries.map (·.1) = l.sorted := by
  unfold Lines.listTokens at h
  generalize l.sorted = keys at h
  induction keys generalizing entries with
  | nil => simp at h; simp [h]
  | cons k ks ih =>
    simp only [List.mapM_cons] at h
    cases hk : l.get k with
    | none => simp [hk] at h
    | some ts =>
      cases hrest : List.mapM (fun n => Option.map (fun ts => (n, ts)) (l.get n)) ks with
      | none => simp [hk, hrest] at h
      | some es =>
        simp [hk, hrest] at h
        rw [← h]
        simp [ih es hrest]

/-- the DATA chunks of one line -/
def lineChunks (e : Nat × List (Token F)) : List (Loc × List (DataElement F)) :=
  (e.2.zipIdx).filterMap (fun (t, i) =>
    match t with
    | .data items => some ({ line := some e.1, idx := i }, items)
    | _ => none)

omit [NumOps F] in
theorem lineChunks_line (e : Nat × List (Token F)) (c : Loc × List (DataElement F))
    (hc : c ∈ lineChunks e) : c.1.line = some e.1 := by
  unfold lineChunks at hc
  obtain ⟨p, _, hp⟩ := List.mem_filterMap.mp hc
  obtain ⟨t, i⟩ := p
  cases t <;> simp at hp
  rw [← hp]

omit [NumOps F] in
theorem chunks_sorted (entries : List (Nat × List (Token F)))
    (hs : (entries.map (·.1)).Pairwise (· < ·)) :
    ∃ ns : List Nat, (entries.flatMap lineChunks).map (·.1.line) = ns.map some ∧
      ns.Pairwise (· ≤ ·) ∧ ∀ n ∈ ns, n ∈ entries.map (·.1) := by
  induction entries with
  | nil => exact ⟨[], by simp, by simp, by simp⟩
  | cons e es ih =>
    simp only [List.map_cons, List.pairwise_cons] at hs
    obtain ⟨ns, h1, h2, h3⟩ := ih hs.2
    refine ⟨(lineChunks e).map (fun _ => e.1) ++ ns, ?_, ?_, ?_⟩
    · simp only [List.flatMap_cons, List.map_append, List.map_map, h1]
      congr 1
      apply List.map_congr_left
      intro c hc
      simpa using lineChunks_line e c hc
    · rw [List.pairwise_append]
      refine ⟨?_, h2, ?_⟩
      · apply List.pairwise_of_forall_mem_list
        intro a ha b hb
        obtain ⟨_, _, rfl⟩ := List.mem_map.mp ha
        obtain ⟨_, _, rfl⟩ := List.mem_map.mp hb
        exact Nat.le_refl _
      · intro a ha b hb
        have : a = e.1 := by
          obtain ⟨_, _, rfl⟩ := List.mem_map.mp ha; rfl
        rw [this]
        exact Nat.le_of_lt (hs.1 b (h3 b hb))
    · intro n hn
      rcases List.mem_append.mp hn with hn | hn
      · obtain ⟨_, _, rfl⟩ := List.mem_map.mp hn
        simp
      · simp only [List.map_cons, List.mem_cons]; exact .inr (h3 n hn)

omit [NumOps F] in
/-- READ consumes DATA in line order: the chunks `data_iterator` yields carry
    numbered-line locations whose line numbers never decrease (and are stored
    line numbers). -/
theorem read_line_order (l : Lines F) (chunks : List (Loc × List (DataElement F)))
    (hs : l.sorted.Pairwise (· < ·)) (h : Lines.dataChunks l = some chunks) :
    ∃ ns : List Nat, chunks.map (·.1.line) = ns.map some ∧ ns.Pairwise (· ≤ ·) ∧ ∀ n ∈ ns, n ∈ l.sorted := by
  unfold Lines.dataChunks at h
  cases he : l.listTokens with
  | none => simp [he] at h
  | some entries =>
    have hk := listTokens_keys l entries he
    simp only [he, Option.map_some, Option.some.injEq] at h
    rw [← hk] at hs ⊢
    have := chunks_sorted entries hs
    rw [← h]
    exact this


/-- Non-vacuity: a two-loop stack where NEXT of the outer variable forgets the inner one. -/
example : (removeLoop (F := Unit) ['I'] [{ loc := {}, sym := ['J'], toV := (), stepV := () },
                                          { loc := {}, sym := ['I'], toV := (), stepV := () }]).isSome = true := by
  decide

end Abasic.Props.C03
