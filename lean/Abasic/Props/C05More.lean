import Abasic.Props.C05
import Abasic.Props.C13More
/-
  C05, continued — the analysis of every file is well formed.

  For every file (list of lines) and every fuel:
  * `lineTokens_ranges`: the semantic tokens of file line `i` are `lineTokensOf`
    of that line (line-number token, then `(type, start, end)` of
    `tokenizeRanges line lnEnd`); they form a strictly ordered chain of non-empty
    byte ranges of whole characters inside the line (`TokensWF`);
  * `analyzeProgram_ext`, `symbolWarnings_ext`, `analyzeFile_ext`: the statement
    pass and the symbol pass leave the file map, the lines and the semantic
    tokens alone and only append diagnostics; hence `analyzeFile_mapOk`,
    `analyzeFile_ranges` (one range record per line, computed from that line);
  * `diag_maps`: every diagnostic maps (no index panic) and what it maps to is a
    span of whole characters of an existing file line; `diag_located`;
  * `analyze_total_partial`: the line pass and the symbol pass are free of
    panics (the latter given that recorded accesses map), no diagnostic carries
    a panic.
  New tokenizer facts used: the line number ends on a character boundary
  (`parseLineNumber_boundary`), the range of a tokenization error is a span of
  the line (`tokenizeRanges_error_exact`, `errRange_span`).
  Continued in C05Eval.lean (the statement pass under the evaluator invariant).
-/
namespace Abasic.Props.C05
open Abasic
open Abasic.Props.C13

variable {F : Type} [NumOps F]

/-! ### byte spans of whole characters -/

/-- `[s, e)` is the byte range of a run `m` of whole characters of `line`:
    `s` and `e` are the UTF-8 lengths of the whole-character prefixes `p` and
    `p ++ m` of the line. -/
def Span (line : Str) (s e : Nat) : Prop :=
  ∃ p m t, line = p ++ m ++ t ∧ len8 p = s ∧ s + len8 m = e

theorem Span.bounds {line : Str} {s e : Nat} (h : Span line s e) : s ≤ e ∧ e ≤ len8 line := by
  obtain ⟨p, m, t, hl, hp, hm⟩ := h
  have : len8 line = len8 p + len8 m + len8 t := by rw [hl, len8_append, len8_append]
  omega

/-- both ends are lengths of whole-character prefixes of the line -/
theorem Span.prefixes {line : Str} {s e : Nat} (h : Span line s e) :
    (∃ p t, line = p ++ t ∧ len8 p = s) ∧ (∃ p t, line = p ++ t ∧ len8 p = e) := by
  obtain ⟨p, m, t, hl, hp, hm⟩ := h
  refine ⟨⟨p, m ++ t, by rw [hl]; simp, hp⟩, ⟨p ++ m, t, hl, ?_⟩⟩
  rw [len8_append]; omega

omit [NumOps F] in
theorem RangeExact.span {whole : Str} {t : Token F} {a b : Nat} (h : RangeExact whole t a b) :
    Span whole a b := by
  obtain ⟨p, m, s, hw, hp, hm, _, _⟩ := h
  exact ⟨p, m, s, hw, hp, hm⟩

/-! ### the line number ends on a character boundary -/

theorem utf8Size_of_le {c : Char} (h : c.val ≤ 127) : c.utf8Size = 1 := by
  unfold Char.utf8Size
  have : c.val ≤ 0x7f := h
  simp [this]

theorem utf8Size_digit {c : Char} (h : isAsciiDigit c = true) : c.utf8Size = 1 := by
  apply utf8Size_of_le
  simp only [isAsciiDigit, Bool.and_eq_true, decide_eq_true_eq] at h
  have h2 : c.val ≤ '9'.val := h.2
  have : '9'.val = 57 := by decide
  rw [this] at h2
  exact Nat.le_trans (show c.val.toNat ≤ 57 from h2) (by decide)


theorem utf8Size_ws {c : Char} (h : isAsciiWs c = true) : c.utf8Size = 1 := by
  simp only [isAsciiWs, Bool.or_eq_true, beq_iff_eq] at h
  rcases h with (((h | h) | h) | h) | h <;> subst h <;> decide

theorem takeDigits_spec (cs : Str) :
    cs = (takeDigits cs).1 ++ (takeDigits cs).2 ∧ ∀ c ∈ (takeDigits cs).1, c.utf8Size = 1 := by
  induction cs with
  | nil => simp [takeDigits]
  | cons c cs ih =>
    simp only [takeDigits]
    split
    · rename_i hc
      refine ⟨by simp only [List.cons_append]; rw [← ih.1], ?_⟩
      intro x hx
      rcases List.mem_cons.mp hx with rfl | hx
      · exact utf8Size_digit hc
      · exact ih.2 x hx
    · simp

/-- texts of one-byte characters: `len8` is the length, `dropBytes` drops characters -/
theorem len8_ascii (pre : Str) (h : ∀ c ∈ pre, c.utf8Size = 1) : len8 pre = pre.length := by
  induction pre with
  | nil => rfl
  | cons c pre ih =>
    simp only [len8, List.length_cons]
    rw [h c (by simp), ih (fun x hx => h x (List.mem_cons_of_mem _ hx))]
    omega

theorem dropBytes_ascii (pre rest : Str) (h : ∀ c ∈ pre, c.utf8Size = 1) :
    dropBytes pre.length (pre ++ rest) = rest := by
  induction pre with
  | nil => cases rest <;> rfl
  | cons c pre ih =>
    simp only [List.length_cons, List.cons_append, dropBytes]
    rw [h c (by simp)]
    simpa using ih (fun x hx => h x (List.mem_cons_of_mem _ hx))

theorem parseLineNumberAux_spec (cs : Str) (skipped n k : Nat)
    (h : parseLineNumberAux cs skipped = some (n, k)) :
    ∃ pre rest, pre ≠ [] ∧ cs = pre ++ rest ∧ (∀ c ∈ pre, c.utf8Size = 1) ∧ k = skipped + pre.length := by
  induction cs generalizing skipped with
  | nil => simp [parseLineNumberAux] at h
  | cons c cs ih =>
    simp only [parseLineNumberAux] at h
    split at h
    · rename_i hc
      split at h
      · simp only [Option.some.injEq, Prod.mk.injEq] at h
        obtain ⟨_, rfl⟩ := h
        have hs := takeDigits_spec (c :: cs)
        refine ⟨(takeDigits (c :: cs)).1, (takeDigits (c :: cs)).2, ?_, hs.1, hs.2, rfl⟩
        simp [takeDigits, hc]
      · cases h
    · split at h
      · rename_i hw
        obtain ⟨pre, rest, _, hcs, hall, hk⟩ := ih (skipped + 1) h
        refine ⟨c :: pre, rest, by simp, by rw [hcs]; simp, ?_, by simp only [List.length_cons]; omega⟩
        intro x hx
        rcases List.mem_cons.mp hx with rfl | hx
        · exact utf8Size_ws hw
        · exact hall x hx
      · cases h

/-- The line number of a line ends on a character boundary after at least one
    byte: the line is `pre ++ rest` with `len8 pre = lnEnd > 0`, and skipping
    `lnEnd` bytes leaves `rest`. -/
theorem parseLineNumber_boundary (line : Str) (n lnEnd : Nat) (h : parseLineNumber line = some (n, lnEnd)) :
    ∃ pre, pre ≠ [] ∧ line = pre ++ dropBytes lnEnd line ∧ len8 pre = lnEnd := by
  obtain ⟨pre, rest, hne, hl, hall, hk⟩ := parseLineNumberAux_spec line 0 n lnEnd h
  have hk' : lnEnd = pre.length := by omega
  refine ⟨pre, hne, ?_, ?_⟩
  · rw [hk']
    conv => rhs; rw [hl, dropBytes_ascii pre rest hall]
    exact hl
  · rw [hk', len8_ascii pre hall]

theorem parseLineNumber_span (line : Str) (n lnEnd : Nat) (h : parseLineNumber line = some (n, lnEnd)) :
    Span line 0 lnEnd ∧ 0 < lnEnd := by
  obtain ⟨pre, hne, hl, hlen⟩ := parseLineNumber_boundary line n lnEnd h
  refine ⟨⟨[], pre, dropBytes lnEnd line, by simpa using hl, rfl, by omega⟩, ?_⟩
  have := len8_pos_of_ne_nil hne
  omega


/-! ### the range reported for a tokenization error is a span of the line -/

theorem nextToken_invalid_suffix (cs r : Str) (h : nextToken (F := F) cs = .invalidNumber r) :
    ∃ pre, cs = pre ++ r := by
  unfold nextToken at h
  split at h
  · cases h
  · split at h
    · cases h
    · split at h
      · split at h <;> cases h
      · split at h
        · rename_i c d r0 hn
          obtain ⟨pre, _, hp⟩ := numLoop_consumes cs (c :: d) r0 hn (by simp)
          split at h
          · split at h
            · cases h
            · injection h with h; subst h; exact ⟨pre, hp⟩
          · injection h with h; subst h; exact ⟨pre, hp⟩
        · split at h
          · cases h
          · split at h
            · simp only at h; cases h
            · split at h <;> cases h

theorem charAtByte_at (p : Str) (c : Char) (s : Str) : charAtByte (len8 p) (p ++ c :: s) = some c := by
  induction p with
  | nil => rfl
  | cons x p ih =>
    have hpos := Char.utf8Size_pos x
    obtain ⟨n, hn⟩ : ∃ n, len8 (x :: p) = n + 1 := ⟨x.utf8Size + len8 p - 1, by simp only [len8]; omega⟩
    rw [hn]
    simp only [List.cons_append, charAtByte]
    simp only [len8] at hn
    have h1 : ¬ (n + 1 < x.utf8Size) := by omega
    have h2 : n + 1 - x.utf8Size = len8 p := by omega
    rw [if_neg h1, h2]
    exact ih

/-- the range `TokErr.range` reports for an error position inside `whole` -/
def ErrExact (whole : Str) : TokErr → Prop
  | .illegalChar i => ∃ p c s, whole = p ++ c :: s ∧ len8 p = i
  | .unterminated i => ∃ p s, whole = p ++ s ∧ len8 p = i
  | .invalidNumber a b => Span whole a b
  | .outOfFuel => True

theorem tokLoop_error_exact (fuel : Nat) (cs : Str) (idx : Nat) (acc : List (RangedToken F))
    (whole done : Str) (hw : whole = done ++ cs) (hidx : len8 done = idx) (e : TokErr)
    (h : (tokLoop fuel cs idx acc).2 = some e) : ErrExact whole e := by
  induction fuel generalizing cs idx acc done with
  | zero =>
    simp [tokLoop] at h
    subst h
    trivial
  | succ fuel ih =>
    obtain ⟨ws, hws, _, hlen, _⟩ := skipWs_suffix' cs
    unfold tokLoop at h
    simp only at h
    generalize skipWs cs = r at hws hlen h
    cases r with
    | nil => simp at h
    | cons c r0 =>
      simp only at h
      have hstart : idx + (len8 cs - len8 (c :: r0)) = len8 (done ++ ws) := by
        rw [len8_append, hidx]; omega
      have hwhole : whole = (done ++ ws) ++ c :: r0 := by rw [hw, hws]; simp
      cases hn : nextToken (F := F) (c :: r0) with
      | tok t rest =>
        rw [hn] at h
        simp only at h
        obtain ⟨pre, hpre, hcr⟩ := nextToken_cases_consumes (c :: r0) t rest hn
        have hl : len8 (c :: r0) = len8 pre + len8 rest := by rw [hcr]; exact len8_append pre rest
        refine ih rest _ _ (done ++ ws ++ pre) ?_ ?_ h
        · rw [hwhole, hcr]; simp
        · rw [len8_append, ← hstart]; omega
      | illegalChar =>
        rw [hn] at h; simp only [Option.some.injEq] at h; subst h
        exact ⟨done ++ ws, c, r0, hwhole, hstart.symm⟩
      | unterminated =>
        rw [hn] at h; simp only [Option.some.injEq] at h; subst h
        exact ⟨done ++ ws, c :: r0, hwhole, hstart.symm⟩
      | invalidNumber r'' =>
        rw [hn] at h; simp only [Option.some.injEq] at h; subst h
        obtain ⟨pre, hp⟩ := nextToken_invalid_suffix (F := F) (c :: r0) r'' hn
        have hl : len8 (c :: r0) = len8 pre + len8 r'' := by rw [hp]; exact len8_append pre r''
        refine ⟨done ++ ws, pre, r'', by rw [hwhole, hp]; simp, hstart.symm, ?_⟩
        omega

theorem tokenizeRanges_error_exact (line : Str) (skip : Nat)
    (hskip : ∃ pre, line = pre ++ dropBytes skip line ∧ len8 pre = skip) (e : TokErr)
    (h : (tokenizeRanges (F := F) line skip).2 = some e) : ErrExact line e := by
  obtain ⟨pre, hline, hpre⟩ := hskip
  unfold tokenizeRanges at h
  exact tokLoop_error_exact _ _ _ _ line pre hline hpre e h

/-- The range reported for a tokenization error is the byte range of a run of
    whole characters of the line. -/
theorem errRange_span (line : Str) (e : TokErr) (h : ErrExact line e) :
    Span line (e.range line).1 (e.range line).2 := by
  cases e with
  | illegalChar i =>
    obtain ⟨p, c, s, hl, hp⟩ := h
    have hc : charAtByte i line = some c := by rw [← hp, hl]; exact charAtByte_at p c s
    simp only [TokErr.range, hc]
    exact ⟨p, [c], s, by rw [hl]; simp, hp, by simp [len8]⟩
  | unterminated i =>
    obtain ⟨p, s, hl, hp⟩ := h
    simp only [TokErr.range]
    refine ⟨p, s, [], by rw [hl]; simp, hp, ?_⟩
    rw [hl, len8_append]; omega
  | invalidNumber a b => exact h
  | outOfFuel => exact ⟨[], [], line, by simp, rfl, rfl⟩


/-! ### what the line pass records for one line -/

/-- The semantic tokens the analyzer records for one file line, exactly as
    `analyzeLine` computes them: nothing for an empty line or a line without a
    line number; otherwise the line-number token `0..lnEnd` followed by
    `(type, start, end)` of `tokenizeRanges line lnEnd` (only the line-number
    token if the rest does not tokenize). -/
def lineTokensOf (F : Type) [NumOps F] (line : Str) : List (TokenType × Nat × Nat) :=
  if line.isEmpty then []
  else
    match parseLineNumber line with
    | none => []
    | some (_, lnEnd) =>
      match tokenizeRanges (F := F) line lnEnd with
      | (toks, none) => (Extracted.numberType, 0, lnEnd) :: toks.map fun (t, x, y) => (t.tokenType, x, y)
      | (_, some _) => [(Extracted.numberType, 0, lnEnd)]

/-- The range record the analyzer keeps for one file line. -/
def lineRangesOf (F : Type) [NumOps F] (line : Str) : LineRanges :=
  if line.isEmpty then {}
  else
    match parseLineNumber line with
    | none => {}
    | some (_, lnEnd) =>
      match tokenizeRanges (F := F) line lnEnd with
      | (toks, none) => { lineNumberEnd := lnEnd, tokenRanges := some (toks.map fun (_, x, y) => (x, y)) }
      | (_, some e) => { lineNumberEnd := lnEnd, tokErrRange := some (e.range line) }

theorem analyzeLine_records (a : Analysis F) (i : Nat) (line : Str) :
    (analyzeLine a i line).lineTokens = a.lineTokens ++ [lineTokensOf F line] ∧
    (analyzeLine a i line).map.ranges = a.map.ranges ++ [lineRangesOf F line] ∧
    (analyzeLine a i line).lines = a.lines ∧
    (analyzeLine a i line).panicked = a.panicked := by
  unfold analyzeLine lineTokensOf lineRangesOf
  by_cases he : line.isEmpty = true
  · rw [if_pos he, if_pos he, if_pos he]
    exact ⟨rfl, rfl, rfl, rfl⟩
  · rw [if_neg he, if_neg he, if_neg he]
    cases hp : parseLineNumber line with
    | none => exact ⟨rfl, rfl, rfl, rfl⟩
    | some p =>
      obtain ⟨n, lnEnd⟩ := p
      simp only
      cases ht : tokenizeRanges (F := F) line lnEnd with
      | mk toks oe =>
        cases oe with
        | none =>
          simp only
          split <;> split <;> exact ⟨rfl, rfl, rfl, rfl⟩
        | some e =>
          simp only
          split <;> exact ⟨rfl, rfl, rfl, rfl⟩

theorem analyzeLines_records (a : Analysis F) (i : Nat) (lines : List Str) :
    (analyzeLines a i lines).lineTokens = a.lineTokens ++ lines.map (lineTokensOf F) ∧
    (analyzeLines a i lines).map.ranges = a.map.ranges ++ lines.map (lineRangesOf F) ∧
    (analyzeLines a i lines).lines = a.lines ∧
    (analyzeLines a i lines).panicked = a.panicked := by
  induction lines generalizing a i with
  | nil => simp [analyzeLines]
  | cons l ls ih =>
    obtain ⟨h1, h2, h3, h4⟩ := analyzeLine_records a i l
    obtain ⟨k1, k2, k3, k4⟩ := ih (analyzeLine a i l) (i + 1)
    simp only [analyzeLines, List.map_cons]
    refine ⟨by rw [k1, h1]; simp, by rw [k2, h2]; simp, by rw [k3, h3], by rw [k4, h4]⟩


/-! ### the later passes only append diagnostics -/

/-- `a'` is `a` with possibly another interpreter state / panic flag and with
    further diagnostics, all satisfying `P`, appended. -/
structure Ext (P : Diag → Prop) (a a' : Analysis F) : Prop where
  map : a'.map = a.map
  lines : a'.lines = a.lines
  lineTokens : a'.lineTokens = a.lineTokens
  msgs : ∃ extra, a'.messages = a.messages ++ extra ∧ ∀ d ∈ extra, P d

omit [NumOps F] in
theorem Ext.refl (P : Diag → Prop) (a : Analysis F) : Ext P a a :=
  ⟨rfl, rfl, rfl, [], by simp, by simp⟩

omit [NumOps F] in
theorem Ext.trans {P : Diag → Prop} {a b c : Analysis F} (h1 : Ext P a b) (h2 : Ext P b c) : Ext P a c := by
  obtain ⟨m1, l1, t1, e1, he1, hp1⟩ := h1
  obtain ⟨m2, l2, t2, e2, he2, hp2⟩ := h2
  refine ⟨m2.trans m1, l2.trans l1, t2.trans t1, e1 ++ e2, by rw [he2, he1]; simp, ?_⟩
  intro d hd
  rcases List.mem_append.mp hd with hd | hd
  · exact hp1 d hd
  · exact hp2 d hd

omit [NumOps F] in
theorem Ext.mono {P Q : Diag → Prop} {a b : Analysis F} (h : Ext P a b) (hpq : ∀ d, P d → Q d) : Ext Q a b := by
  obtain ⟨m1, l1, t1, e1, he1, hp1⟩ := h
  exact ⟨m1, l1, t1, e1, he1, fun d hd => hpq d (hp1 d hd)⟩

omit [NumOps F] in
theorem Ext.of_eq {P : Diag → Prop} {a b : Analysis F} (hm : b.map = a.map) (hl : b.lines = a.lines)
    (ht : b.lineTokens = a.lineTokens) (hmsg : b.messages = a.messages) : Ext P a b :=
  ⟨hm, hl, ht, [], by simp [hmsg], by simp⟩

omit [NumOps F] in
theorem Ext.of_one {P : Diag → Prop} {a b : Analysis F} (d : Diag) (hm : b.map = a.map) (hl : b.lines = a.lines)
    (ht : b.lineTokens = a.lineTokens) (hmsg : b.messages = a.messages ++ [d]) (hd : P d) : Ext P a b :=
  ⟨hm, hl, ht, [d], hmsg, by simpa using hd⟩

omit [NumOps F] in
theorem Ext.foldl {β : Type} (P : Diag → Prop) (m : FileMap) (f : Analysis F → β → Analysis F)
    (h : ∀ a b, a.map = m → Ext P a (f a b)) (l : List β) (a : Analysis F) (hm : a.map = m) :
    Ext P a (l.foldl f a) := by
  induction l generalizing a with
  | nil => exact Ext.refl P a
  | cons b l ih =>
    have h1 := h a b hm
    exact h1.trans (ih (f a b) (h1.map.trans hm))

/-- a diagnostic of the statement pass: a non-panic error whose location maps
    to the file line it is reported on -/
def StmtDiag (m : FileMap) (d : Diag) : Prop :=
  ∃ f e loc x y, d = .error f e ∧ e.err.isPanic = false ∧ e.loc = some loc ∧ m.mapLoc loc = some (f, x, y)

theorem analyzeStatements_ext (fuel n : Nat) (a : Analysis F) :
    Ext (StmtDiag a.map) a (analyzeStatements fuel n a) := by
  induction n generalizing a with
  | zero => exact Ext.of_eq rfl rfl rfl rfl
  | succ n ih =>
    unfold analyzeStatements
    cases hasNext a.st with
    | err e st => exact Ext.of_eq rfl rfl rfl rfl
    | ok b st =>
      cases b with
      | false => exact Ext.of_eq rfl rfl rfl rfl
      | true =>
        simp only
        cases aStmtBody (aEvalN fuel) st with
        | ok u st' =>
          exact (Ext.of_eq (a := a) (b := { a with st := st' }) rfl rfl rfl rfl).trans (ih { a with st := st' })
        | err e st' =>
          simp only
          cases hpe : (st'.populate e).err with
          | panic site => exact Ext.of_eq rfl rfl rfl rfl
          | _ =>
            simp only
            cases hb : (st'.populate e).loc.bind a.map.mapLoc with
            | none => exact Ext.of_eq rfl rfl rfl rfl
            | some p =>
              obtain ⟨f, x, y⟩ := p
              simp only
              cases hl : (st'.populate e).loc with
              | none => rw [hl] at hb; simp at hb
              | some loc =>
                rw [hl] at hb
                simp only [Option.bind_some] at hb
                refine Ext.of_one (.error f (st'.populate e)) rfl rfl rfl rfl ⟨f, _, loc, x, y, rfl, ?_, hl, hb⟩
                rw [hpe]; rfl

theorem analyzeProgram_tail (fuel n budget : Nat) (a : Analysis F)
    (ih : ∀ a : Analysis F, Ext (StmtDiag a.map) a (analyzeProgram fuel n a)) :
    Ext (StmtDiag a.map) a
      (if (analyzeStatements fuel budget a).panicked.isSome then analyzeStatements fuel budget a
       else
        match nextLine (analyzeStatements fuel budget a).st with
        | .ok true st => analyzeProgram fuel n { analyzeStatements fuel budget a with st := st }
        | .ok false st => { analyzeStatements fuel budget a with st := st }
        | .err e _ => { analyzeStatements fuel budget a with panicked := some (toString (repr e.err)) }) := by
  have h1 := analyzeStatements_ext fuel budget a
  generalize analyzeStatements fuel budget a = a1 at h1
  by_cases hp : a1.panicked.isSome = true
  · rw [if_pos hp]; exact h1
  · rw [if_neg hp]
    cases nextLine a1.st with
    | err e st => exact h1.trans (Ext.of_eq rfl rfl rfl rfl)
    | ok b st =>
      cases b with
      | false => exact h1.trans (Ext.of_eq rfl rfl rfl rfl)
      | true =>
        simp only
        have hm : a1.map = a.map := h1.map
        have h2 : Ext (StmtDiag a.map) { a1 with st := st } (analyzeProgram fuel n { a1 with st := st }) :=
          (ih { a1 with st := st }).mono fun d hd => (congrArg (fun m => StmtDiag m d) hm).mp hd
        exact h1.trans ((Ext.of_eq (a := a1) (b := { a1 with st := st }) rfl rfl rfl rfl).trans h2)

theorem analyzeProgram_ext (fuel n : Nat) (a : Analysis F) :
    Ext (StmtDiag a.map) a (analyzeProgram fuel n a) := by
  induction n generalizing a with
  | zero => exact Ext.of_eq rfl rfl rfl rfl
  | succ n ih =>
    unfold analyzeProgram
    by_cases hp : a.panicked.isSome = true
    · rw [if_pos hp]; exact Ext.refl _ a
    · rw [if_neg hp]
      cases tokens a.st with
      | ok ts st => exact analyzeProgram_tail fuel n _ a ih
      | err e st => exact analyzeProgram_tail fuel n _ a ih

/-- a diagnostic of the symbol pass: a warning at a location that maps to the
    file line it is reported on -/
def SymDiag (m : FileMap) (d : Diag) : Prop :=
  ∃ f n i msg x y, d = .warning f (some (n, i)) msg ∧ m.mapLoc { line := some n, idx := i } = some (f, x, y)

omit [NumOps F] in
theorem symbolWarnings_ext (a : Analysis F) : Ext (SymDiag a.map) a (symbolWarnings a) := by
  have emit : ∀ (text : Str) (locs : List (Str × Nat × Nat × Access)) (b : Analysis F), b.map = a.map →
      Ext (SymDiag a.map) b
        (locs.foldl (fun a (x : Str × Nat × Nat × Access) =>
          match a.map.mapLoc { line := some x.2.1, idx := x.2.2.1 } with
          | some (f, _, _) => { a with messages := a.messages ++ [.warning f (some (x.2.1, x.2.2.1)) text] }
          | none => { a with panicked := some "symbol warning: unwrap on None" }) b) := by
    intro text locs b hb
    refine Ext.foldl _ a.map _ ?_ locs b hb
    intro c x hc
    obtain ⟨sym, n, i, k⟩ := x
    simp only
    cases hm : c.map.mapLoc { line := some n, idx := i } with
    | none => exact Ext.of_eq rfl rfl rfl rfl
    | some p =>
      obtain ⟨f, x, y⟩ := p
      exact Ext.of_one _ rfl rfl rfl rfl ⟨f, n, i, text, x, y, rfl, by rw [← hc]; exact hm⟩
  unfold symbolWarnings
  refine Ext.foldl _ a.map _ ?_ _ a rfl
  intro b sym hb
  simp only
  split
  · exact emit _ _ b hb
  · split
    · exact emit _ _ b hb
    · exact Ext.refl _ b


/-! ### item 1: the semantic tokens of every line -/

theorem lineRangesOf_of_ok {line : Str} {n lnEnd : Nat} {toks : List (RangedToken F)}
    (he : ¬ line.isEmpty = true) (hp : parseLineNumber line = some (n, lnEnd))
    (ht : tokenizeRanges (F := F) line lnEnd = (toks, none)) :
    lineRangesOf F line = { lineNumberEnd := lnEnd, tokenRanges := some (toks.map fun (_, x, y) => (x, y)) } := by
  unfold lineRangesOf
  rw [if_neg he, hp]
  simp only [ht]

theorem lineRangesOf_of_err {line : Str} {n lnEnd : Nat} {toks : List (RangedToken F)} {e : TokErr}
    (he : ¬ line.isEmpty = true) (hp : parseLineNumber line = some (n, lnEnd))
    (ht : tokenizeRanges (F := F) line lnEnd = (toks, some e)) :
    lineRangesOf F line = { lineNumberEnd := lnEnd, tokErrRange := some (e.range line) } := by
  unfold lineRangesOf
  rw [if_neg he, hp]
  simp only [ht]

/-- a strictly ordered chain of non-empty ranges: `lo ≤ s₁ < e₁ ≤ s₂ < e₂ ≤ …` -/
def SChain : Nat → List (TokenType × Nat × Nat) → Prop
  | _, [] => True
  | lo, (_, a, b) :: rest => lo ≤ a ∧ a < b ∧ SChain b rest

omit [NumOps F] in
theorem schain_of_chain (lo : Nat) (l : List (RangedToken F)) (hc : Chain lo l)
    (hs : ∀ t a b, (t, a, b) ∈ l → a < b) :
    SChain lo (l.map fun (t, x, y) => (t.tokenType, x, y)) := by
  induction l generalizing lo with
  | nil => trivial
  | cons p l ih =>
    obtain ⟨t, a, b⟩ := p
    obtain ⟨h1, _, h3⟩ := hc
    exact ⟨h1, hs t a b (by simp), ih b h3 (fun t' a' b' h => hs t' a' b' (List.mem_cons_of_mem _ h))⟩

/-- Well-formedness of the token list of one line: a strictly ordered chain of
    non-empty ranges starting at byte 0, each the byte range of a run of whole
    characters of the line (hence ending within `len8 line`). -/
def TokensWF (line : Str) (l : List (TokenType × Nat × Nat)) : Prop :=
  SChain 0 l ∧ ∀ ty a b, (ty, a, b) ∈ l → Span line a b

theorem lineTokensOf_wf (line : Str) : TokensWF line (lineTokensOf F line) := by
  unfold lineTokensOf
  by_cases he : line.isEmpty = true
  · rw [if_pos he]; exact ⟨trivial, by simp⟩
  · rw [if_neg he]
    cases hp : parseLineNumber line with
    | none => exact ⟨trivial, by simp⟩
    | some p =>
      obtain ⟨n, lnEnd⟩ := p
      simp only
      obtain ⟨hspan, hpos⟩ := parseLineNumber_span line n lnEnd hp
      obtain ⟨pre, _, hpre, hlen⟩ := parseLineNumber_boundary line n lnEnd hp
      cases ht : tokenizeRanges (F := F) line lnEnd with
      | mk toks oe =>
        have hchain := ranges_chain (F := F) line lnEnd
        have hstrict := ranges_in_bounds_strict (F := F) line lnEnd
        have hexact := ranges_exact (F := F) line lnEnd ⟨pre, hpre, hlen⟩
        rw [ht] at hchain hstrict hexact
        simp only at hchain hstrict hexact
        cases oe with
        | none =>
          simp only
          refine ⟨⟨Nat.le_refl 0, hpos, schain_of_chain lnEnd toks hchain (fun t a b h => (hstrict t a b h).2.1)⟩, ?_⟩
          intro ty a b hmem
          rcases List.mem_cons.mp hmem with heq | hmem
          · simp only [Prod.mk.injEq] at heq
            obtain ⟨_, rfl, rfl⟩ := heq
            exact hspan
          · obtain ⟨q, hq, hqe⟩ := List.mem_map.mp hmem
            obtain ⟨t, x, y⟩ := q
            simp only [Prod.mk.injEq] at hqe
            obtain ⟨_, rfl, rfl⟩ := hqe
            exact RangeExact.span (hexact t x y hq)
        | some e =>
          simp only
          refine ⟨⟨Nat.le_refl 0, hpos, trivial⟩, ?_⟩
          intro ty a b hmem
          simp only [List.mem_singleton, Prod.mk.injEq] at hmem
          obtain ⟨_, rfl, rfl⟩ := hmem
          exact hspan

/-- the well-formedness spelled out -/
theorem TokensWF.bounds {line : Str} {l : List (TokenType × Nat × Nat)} (h : TokensWF line l) :
    ∀ ty a b, (ty, a, b) ∈ l → a < b ∧ b ≤ len8 line := by
  intro ty a b hmem
  refine ⟨?_, (h.2 ty a b hmem).bounds.2⟩
  have : ∀ lo (l : List (TokenType × Nat × Nat)), SChain lo l → (ty, a, b) ∈ l → a < b := by
    intro lo l
    induction l generalizing lo with
    | nil => intro _ hm; simp at hm
    | cons p l ih =>
      obtain ⟨t', a', b'⟩ := p
      intro hc hm
      rcases List.mem_cons.mp hm with heq | hm
      · simp only [Prod.mk.injEq] at heq
        obtain ⟨_, rfl, rfl⟩ := heq
        exact hc.2.1
      · exact ih b' hc.2.2 hm
  exact this 0 l h.1 hmem

/-- what the line pass leaves in the analysis of a whole file -/
theorem analyzeLines_file (lines : List Str) :
    (analyzeLines ({ lines := lines } : Analysis F) 0 lines).lineTokens = lines.map (lineTokensOf F) ∧
    (analyzeLines ({ lines := lines } : Analysis F) 0 lines).map.ranges = lines.map (lineRangesOf F) ∧
    (analyzeLines ({ lines := lines } : Analysis F) 0 lines).lines = lines ∧
    (analyzeLines ({ lines := lines } : Analysis F) 0 lines).panicked = none := by
  obtain ⟨h1, h2, h3, h4⟩ := analyzeLines_records ({ lines := lines } : Analysis F) 0 lines
  exact ⟨by simpa using h1, by simpa using h2, h3, h4⟩

/-- a diagnostic of the later passes -/
def LateDiag (m : FileMap) (d : Diag) : Prop := StmtDiag m d ∨ SymDiag m d

/-- The statement pass and the symbol pass leave the file map, the lines and
    the semantic tokens alone and only append diagnostics (item 2). -/
theorem analyzeFile_ext (fuel : Nat) (lines : List Str) :
    Ext (LateDiag (analyzeLines ({ lines := lines } : Analysis F) 0 lines).map)
      (analyzeLines ({ lines := lines } : Analysis F) 0 lines) (analyzeFile fuel lines) := by
  unfold analyzeFile
  simp only
  generalize analyzeLines ({ lines := lines } : Analysis F) 0 lines = a0
  have h1 : Ext (LateDiag a0.map) a0 { a0 with st := a0.st.runFromFirst } := Ext.of_eq rfl rfl rfl rfl
  have h2 : Ext (LateDiag a0.map) { a0 with st := a0.st.runFromFirst }
      (analyzeProgram fuel (lines.length + 2) { a0 with st := a0.st.runFromFirst }) :=
    (analyzeProgram_ext fuel (lines.length + 2) { a0 with st := a0.st.runFromFirst }).mono fun d hd => .inl hd
  generalize analyzeProgram fuel (lines.length + 2) { a0 with st := a0.st.runFromFirst } = a2 at h2
  have h12 := h1.trans h2
  split
  · exact h12
  · have hm : a2.map = a0.map := h12.map
    exact h12.trans ((symbolWarnings_ext a2).mono fun d hd => .inr ((congrArg (fun m => SymDiag m d) hm).mp hd))

/-- Item 2, per pass: `MapOk` is preserved by the statement pass … -/
theorem analyzeProgram_mapOk (fuel n : Nat) (a : Analysis F) (h : MapOk a.map) :
    MapOk (analyzeProgram fuel n a).map := by
  rw [(analyzeProgram_ext fuel n a).map]; exact h

omit [NumOps F] in
/-- … and by the symbol pass. -/
theorem symbolWarnings_mapOk (a : Analysis F) (h : MapOk a.map) : MapOk (symbolWarnings a).map := by
  rw [(symbolWarnings_ext a).map]; exact h

theorem analyzeFile_map (fuel : Nat) (lines : List Str) :
    (analyzeFile (F := F) fuel lines).map = (analyzeLines ({ lines := lines } : Analysis F) 0 lines).map :=
  (analyzeFile_ext fuel lines).map

/-- Item 2: the map invariant `MapOk` holds of the analysis of every file. -/
theorem analyzeFile_mapOk (fuel : Nat) (lines : List Str) : MapOk (analyzeFile (F := F) fuel lines).map := by
  rw [analyzeFile_map]
  exact analyzeLines_mapOk _ 0 lines mapOk_empty

/-- one range record per file line, computed from that line alone -/
theorem analyzeFile_ranges (fuel : Nat) (lines : List Str) :
    (analyzeFile (F := F) fuel lines).map.ranges = lines.map (lineRangesOf F) := by
  rw [analyzeFile_map]; exact (analyzeLines_file lines).2.1

theorem analyzeFile_lineTokens (fuel : Nat) (lines : List Str) :
    (analyzeFile (F := F) fuel lines).lineTokens = lines.map (lineTokensOf F) := by
  rw [(analyzeFile_ext fuel lines).lineTokens]; exact (analyzeLines_file lines).1

theorem analyzeFile_lines (fuel : Nat) (lines : List Str) :
    (analyzeFile (F := F) fuel lines).lines = lines := by
  rw [(analyzeFile_ext fuel lines).lines]; exact (analyzeLines_file lines).2.2.1

/-- Item 1: for every file and every file line index `i`, the semantic tokens
    recorded for line `i` are `lineTokensOf` of that line — the line-number token
    followed by `(type, start, end)` of `tokenizeRanges line lnEnd`, or nothing
    for a line the analyzer ignores — and they form a strictly ordered chain of
    non-empty byte ranges of whole characters inside the line. -/
theorem lineTokens_ranges (fuel : Nat) (lines : List Str) (i : Nat) (line : Str) (hi : lines[i]? = some line) :
    (analyzeFile (F := F) fuel lines).lineTokens[i]? = some (lineTokensOf F line) ∧
    TokensWF line (lineTokensOf F line) ∧
    ∀ ty a b, (ty, a, b) ∈ lineTokensOf F line → a < b ∧ b ≤ len8 line := by
  refine ⟨?_, lineTokensOf_wf line, (lineTokensOf_wf line).bounds⟩
  rw [analyzeFile_lineTokens, List.getElem?_map, hi]; rfl


/-! ### item 3: every diagnostic maps to a span of an existing file line -/

/-- every range the analyzer records for a line is a span of that line -/
theorem lineRangesOf_spans (line : Str) :
    Span line 0 (lineRangesOf F line).lineNumberEnd ∧
    (∀ trs, (lineRangesOf F line).tokenRanges = some trs → ∀ p ∈ trs, Span line p.1 p.2) ∧
    (∀ x y, (lineRangesOf F line).tokErrRange = some (x, y) → Span line x y) := by
  have h0 : Span line 0 0 := ⟨[], [], line, by simp, rfl, rfl⟩
  by_cases he : line.isEmpty = true
  · have : lineRangesOf F line = {} := by unfold lineRangesOf; rw [if_pos he]
    rw [this]; exact ⟨h0, by simp, by simp⟩
  · cases hp : parseLineNumber line with
    | none =>
      have : lineRangesOf F line = {} := by unfold lineRangesOf; rw [if_neg he, hp]
      rw [this]; exact ⟨h0, by simp, by simp⟩
    | some p =>
      obtain ⟨n, lnEnd⟩ := p
      obtain ⟨hspan, _⟩ := parseLineNumber_span line n lnEnd hp
      obtain ⟨pre, _, hpre, hlen⟩ := parseLineNumber_boundary line n lnEnd hp
      cases ht : tokenizeRanges (F := F) line lnEnd with
      | mk toks oe =>
        cases oe with
        | none =>
          rw [lineRangesOf_of_ok he hp ht]
          refine ⟨hspan, ?_, by simp⟩
          intro trs htrs q hq
          simp only [Option.some.injEq] at htrs
          subst htrs
          obtain ⟨r, hr, hre⟩ := List.mem_map.mp hq
          obtain ⟨t, x, y⟩ := r
          subst hre
          have hexact := ranges_exact (F := F) line lnEnd ⟨pre, hpre, hlen⟩ t x y (by rw [ht]; exact hr)
          exact RangeExact.span hexact
        | some e =>
          rw [lineRangesOf_of_err he hp ht]
          refine ⟨hspan, by simp, ?_⟩
          intro x y hxy
          simp only [Option.some.injEq] at hxy
          have hex := tokenizeRanges_error_exact (F := F) line lnEnd ⟨pre, hpre, hlen⟩ e (by rw [ht])
          have := errRange_span line e hex
          rw [hxy] at this
          exact this

/-- a location that maps, maps to one of the token ranges recorded for that file line -/
theorem mapLoc_range (m : FileMap) (loc : Loc) (f a b : Nat) (h : m.mapLoc loc = some (f, a, b)) :
    ∃ r trs, m.ranges[f]? = some r ∧ r.tokenRanges = some trs ∧ (a, b) ∈ trs := by
  unfold FileMap.mapLoc at h
  split at h
  · simp at h
  · split at h
    · simp at h
    · rename_i n f' hf
      split at h
      · simp at h
      · rename_i r hr
        split at h
        · simp at h
        · rename_i trs htrs
          simp only [Option.map_eq_some_iff] at h
          obtain ⟨p, hp1, hp⟩ := h
          obtain ⟨x, y⟩ := p
          simp only [Prod.mk.injEq] at hp
          obtain ⟨rfl, rfl, rfl⟩ := hp
          exact ⟨r, trs, hr, htrs, List.mem_of_getElem? hp1⟩

theorem mapDiag_error_tok (m : FileMap) (f : Nat) (e : TErr) (t : TokErr) (h : e.err = .syntax (.tokenization t)) :
    m.mapDiag (.error f e) =
      match m.ranges[f]? with
      | none => none
      | some r => some (r.tokErrRange.map fun (a, b) => (f, a, b)) := by
  simp only [FileMap.mapDiag, h]
  cases m.ranges[f]? <;> rfl

theorem mapDiag_error_other (m : FileMap) (f : Nat) (e : TErr) (h : ∀ t, e.err ≠ .syntax (.tokenization t)) :
    m.mapDiag (.error f e) =
      match e.loc with
      | some loc => some (m.mapLoc loc)
      | none => some none := by
  cases hl : e.loc <;> simp only [FileMap.mapDiag, hl] <;> split <;>
    first | (rename_i t ht; exact absurd ht (h t)) | rfl

/-- a diagnostic of the line pass, relative to the range records made so far -/
def LineDiag (ranges : List LineRanges) (d : Diag) : Prop :=
  (∃ f msg, d = .warning f none msg ∧ f < ranges.length) ∨
  (∃ f t r x y, d = .error f { err := .syntax (.tokenization t) } ∧ ranges[f]? = some r ∧ r.tokErrRange = some (x, y))

theorem LineDiag.append {ranges : List LineRanges} {d : Diag} (h : LineDiag ranges d) (more : List LineRanges) :
    LineDiag (ranges ++ more) d := by
  rcases h with ⟨f, msg, rfl, hf⟩ | ⟨f, t, r, x, y, rfl, hr, hxy⟩
  · exact .inl ⟨f, msg, rfl, by simp only [List.length_append]; omega⟩
  · refine .inr ⟨f, t, r, x, y, rfl, ?_, hxy⟩
    rw [List.getElem?_append_left (List.getElem?_eq_some_iff.mp hr).1]; exact hr

theorem analyzeLine_msgs (a : Analysis F) (i : Nat) (line : Str) (d : Diag)
    (hd : d ∈ (analyzeLine a i line).messages) :
    d ∈ a.messages ∨ (∃ msg, d = .warning i none msg) ∨
      (∃ t x y, d = .error i { err := .syntax (.tokenization t) } ∧ (lineRangesOf F line).tokErrRange = some (x, y)) := by
  unfold analyzeLine at hd
  by_cases he : line.isEmpty = true
  · rw [if_pos he] at hd; exact .inl hd
  · rw [if_neg he] at hd
    cases hp : parseLineNumber line with
    | none =>
      rw [hp] at hd
      simp only [warnLine, List.mem_append, List.mem_singleton] at hd
      rcases hd with hd | hd
      · exact .inl hd
      · exact .inr (.inl ⟨_, hd⟩)
    | some p =>
      obtain ⟨n, lnEnd⟩ := p
      rw [hp] at hd
      simp only at hd
      cases ht : tokenizeRanges (F := F) line lnEnd with
      | mk toks oe =>
        rw [ht] at hd
        cases oe with
        | none =>
          simp only at hd
          split at hd <;> split at hd <;>
            simp only [warnLine, List.mem_append, List.mem_singleton] at hd
          · rcases hd with (hd | hd) | hd
            · exact .inl hd
            · exact .inr (.inl ⟨_, hd⟩)
            · exact .inr (.inl ⟨_, hd⟩)
          · rcases hd with hd | hd
            · exact .inl hd
            · exact .inr (.inl ⟨_, hd⟩)
          · rcases hd with hd | hd
            · exact .inl hd
            · exact .inr (.inl ⟨_, hd⟩)
          · exact .inl hd
        | some e =>
          simp only at hd
          rw [lineRangesOf_of_err he hp ht]
          split at hd <;> simp only [warnLine, List.mem_append, List.mem_singleton] at hd
          · rcases hd with (hd | hd) | hd
            · exact .inl hd
            · exact .inr (.inl ⟨_, hd⟩)
            · exact .inr (.inr ⟨e, _, _, hd, rfl⟩)
          · rcases hd with hd | hd
            · exact .inl hd
            · exact .inr (.inr ⟨e, _, _, hd, rfl⟩)

theorem analyzeLines_msgs (a : Analysis F) (i : Nat) (lines : List Str) (hi : i = a.map.ranges.length)
    (h : ∀ d ∈ a.messages, LineDiag a.map.ranges d) :
    ∀ d ∈ (analyzeLines a i lines).messages, LineDiag (analyzeLines a i lines).map.ranges d := by
  induction lines generalizing a i with
  | nil => exact h
  | cons l ls ih =>
    simp only [analyzeLines]
    obtain ⟨_, hr, _, _⟩ := analyzeLine_records a i l
    apply ih (analyzeLine a i l) (i + 1)
    · rw [hr, hi]; simp
    · intro d hd
      rw [hr]
      have hget : (a.map.ranges ++ [lineRangesOf F l])[i]? = some (lineRangesOf F l) := by
        rw [hi]; simp
      rcases analyzeLine_msgs a i l d hd with hd | ⟨msg, rfl⟩ | ⟨t, x, y, rfl, hxy⟩
      · exact (h d hd).append _
      · exact .inl ⟨i, msg, rfl, by rw [hi]; simp⟩
      · exact .inr ⟨i, t, _, x, y, rfl, hget, hxy⟩

/-- Every diagnostic of the analysis of a file is of one of three kinds. -/
theorem analyzeFile_diags (fuel : Nat) (lines : List Str) (d : Diag)
    (hd : d ∈ (analyzeFile (F := F) fuel lines).messages) :
    LineDiag (analyzeFile (F := F) fuel lines).map.ranges d ∨
    StmtDiag (analyzeFile (F := F) fuel lines).map d ∨ SymDiag (analyzeFile (F := F) fuel lines).map d := by
  obtain ⟨hm, _, _, extra, hext, hP⟩ := analyzeFile_ext (F := F) fuel lines
  rw [hm]
  rw [hext] at hd
  rcases List.mem_append.mp hd with hd | hd
  · refine .inl (analyzeLines_msgs ({ lines := lines } : Analysis F) 0 lines rfl ?_ d hd)
    intro d hd; simp at hd
  · exact .inr (hP d hd)

/-- Item 3: every diagnostic of the analysis of a file maps (no index panic),
    and when it maps to a position `(fileLine, s, e)`, that file line exists and
    `[s, e)` is the byte range of a run of whole characters of it
    (`Span`: `s ≤ e ≤ len8 line`, both lengths of whole-character prefixes). -/
theorem diag_maps (fuel : Nat) (lines : List Str) (d : Diag)
    (hd : d ∈ (analyzeFile (F := F) fuel lines).messages) :
    (analyzeFile (F := F) fuel lines).map.mapDiag d ≠ none ∧
    ∀ f s e, (analyzeFile (F := F) fuel lines).map.mapDiag d = some (some (f, s, e)) →
      ∃ line, lines[f]? = some line ∧ Span line s e := by
  have hranges := analyzeFile_ranges (F := F) fuel lines
  have hkinds := analyzeFile_diags fuel lines d hd
  generalize (analyzeFile (F := F) fuel lines).map = m at hranges hkinds
  -- a range record of the map is the record of an existing line
  have hrec : ∀ (f : Nat) r, m.ranges[f]? = some r → ∃ line, lines[f]? = some line ∧ r = lineRangesOf F line := by
    intro f r hr
    rw [hranges, List.getElem?_map] at hr
    cases hl : lines[f]? with
    | none => rw [hl] at hr; simp at hr
    | some line => rw [hl] at hr; simp only [Option.map_some, Option.some.injEq] at hr; exact ⟨line, rfl, hr.symm⟩
  have hloc : ∀ loc (f s e : Nat), m.mapLoc loc = some (f, s, e) → ∃ line, lines[f]? = some line ∧ Span line s e := by
    intro loc f s e h
    obtain ⟨r, trs, hr, htrs, hmem⟩ := mapLoc_range m loc f s e h
    obtain ⟨line, hline, rfl⟩ := hrec f r hr
    exact ⟨line, hline, (lineRangesOf_spans (F := F) line).2.1 trs htrs (s, e) hmem⟩
  have htok : ∀ (f : Nat) (e : TErr) t, e.err = .syntax (.tokenization t) → f < m.ranges.length →
      m.mapDiag (.error f e) ≠ none ∧
      ∀ f' s e', m.mapDiag (.error f e) = some (some (f', s, e')) → ∃ line, lines[f']? = some line ∧ Span line s e' := by
    intro f e t het hf
    rw [mapDiag_error_tok m f e t het]
    obtain ⟨r, hr⟩ : ∃ r, m.ranges[f]? = some r := ⟨m.ranges[f], List.getElem?_eq_getElem hf⟩
    rw [hr]
    refine ⟨by simp, ?_⟩
    intro f' s e' h
    simp only [Option.some.injEq, Option.map_eq_some_iff] at h
    obtain ⟨p, hp, hpe⟩ := h
    obtain ⟨x, y⟩ := p
    simp only [Prod.mk.injEq] at hpe
    obtain ⟨rfl, rfl, rfl⟩ := hpe
    obtain ⟨line, hline, rfl⟩ := hrec f r hr
    exact ⟨line, hline, (lineRangesOf_spans (F := F) line).2.2 x y hp⟩
  rcases hkinds with (⟨f, msg, rfl, hf⟩ | ⟨f, t, r, x, y, rfl, hr, hxy⟩) | ⟨f, e, loc, x, y, rfl, _, hl, hmap⟩ |
      ⟨f, n, i, msg, x, y, rfl, hmap⟩
  · -- a line warning
    obtain ⟨r, hr⟩ : ∃ r, m.ranges[f]? = some r := ⟨m.ranges[f], List.getElem?_eq_getElem hf⟩
    simp only [FileMap.mapDiag, hr]
    refine ⟨by simp, ?_⟩
    intro f' s e h
    simp only [Option.some.injEq, Prod.mk.injEq] at h
    obtain ⟨rfl, rfl, rfl⟩ := h
    obtain ⟨line, hline, rfl⟩ := hrec f r hr
    exact ⟨line, hline, (lineRangesOf_spans (F := F) line).1⟩
  · -- a tokenization error of the line pass
    exact htok f _ t rfl (List.getElem?_eq_some_iff.mp hr).1
  · -- an error of the statement pass
    by_cases htk : ∃ t, e.err = .syntax (.tokenization t)
    · obtain ⟨t, ht⟩ := htk
      exact htok f e t ht (mapLoc_line_exists m loc f x y hmap)
    · have hno : ∀ t, e.err ≠ .syntax (.tokenization t) := fun t ht => htk ⟨t, ht⟩
      rw [mapDiag_error_other m f e hno, hl]
      simp only [hmap]
      refine ⟨by simp, ?_⟩
      intro f' s e' h
      simp only [Option.some.injEq, Prod.mk.injEq] at h
      obtain ⟨rfl, rfl, rfl⟩ := h
      exact hloc loc f x y hmap
  · -- a symbol warning
    simp only [FileMap.mapDiag, hmap]
    refine ⟨by simp, ?_⟩
    intro f' s e h
    simp only [Option.some.injEq, Prod.mk.injEq] at h
    obtain ⟨rfl, rfl, rfl⟩ := h
    exact hloc _ f x y hmap


/-- Every diagnostic of the line pass and of the symbol pass, and every
    non-tokenization error of the statement pass, has a source position.
    (That the analyzer's evaluator never reports a tokenization error is not
    proved here; such a diagnostic would still map, by `diag_maps`.) -/
theorem diag_located (fuel : Nat) (lines : List Str) (d : Diag)
    (hd : d ∈ (analyzeFile (F := F) fuel lines).messages) :
    (∃ f s e, (analyzeFile (F := F) fuel lines).map.mapDiag d = some (some (f, s, e))) ∨
    (∃ f e t, d = .error f e ∧ e.err = .syntax (.tokenization t) ∧ e.loc.isSome) := by
  have hkinds := analyzeFile_diags fuel lines d hd
  generalize (analyzeFile (F := F) fuel lines).map = m at hkinds
  rcases hkinds with (⟨f, msg, rfl, hf⟩ | ⟨f, t, r, x, y, rfl, hr, hxy⟩) | ⟨f, e, loc, x, y, rfl, _, hl, hmap⟩ |
      ⟨f, n, i, msg, x, y, rfl, hmap⟩
  · obtain ⟨r, hr⟩ : ∃ r, m.ranges[f]? = some r := ⟨m.ranges[f], List.getElem?_eq_getElem hf⟩
    exact .inl ⟨f, 0, r.lineNumberEnd, by simp only [FileMap.mapDiag, hr]⟩
  · refine .inl ⟨f, x, y, ?_⟩
    rw [mapDiag_error_tok m f _ t rfl, hr]
    simp only [hxy, Option.map_some]
  · by_cases htk : ∃ t, e.err = .syntax (.tokenization t)
    · obtain ⟨t, ht⟩ := htk
      exact .inr ⟨f, e, t, rfl, ht, by rw [hl]; rfl⟩
    · have hno : ∀ t, e.err ≠ .syntax (.tokenization t) := fun t ht => htk ⟨t, ht⟩
      refine .inl ⟨f, x, y, ?_⟩
      rw [mapDiag_error_other m f e hno, hl]
      simp only [hmap]
  · exact .inl ⟨f, x, y, by simp only [FileMap.mapDiag, hmap]⟩

/-! ### item 4: where a panic can and cannot come from -/

/-- No diagnostic of any file carries a panic: panics of the evaluator are
    diverted to `Analysis.panicked` by the statement pass. -/
theorem no_panic_diag (fuel : Nat) (lines : List Str) (f : Nat) (e : TErr)
    (hd : .error f e ∈ (analyzeFile (F := F) fuel lines).messages) : e.err.isPanic = false := by
  rcases analyzeFile_diags fuel lines _ hd with (⟨_, _, h, _⟩ | ⟨_, t, _, _, _, h, _, _⟩) |
      ⟨_, e', _, _, _, h, hp, _, _⟩ | ⟨_, _, _, _, _, _, h, _⟩
  · cases h
  · injection h with _ h2; subst h2; rfl
  · injection h with _ h2; subst h2; exact hp
  · cases h

/-- The line pass is total: it never sets the panic flag and every diagnostic
    it produces is a line warning or a tokenization error (never a panic). -/
theorem analyzeLines_total (lines : List Str) :
    (analyzeLines ({ lines := lines } : Analysis F) 0 lines).panicked = none ∧
    ∀ d ∈ (analyzeLines ({ lines := lines } : Analysis F) 0 lines).messages,
      (∃ f msg, d = .warning f none msg) ∨ (∃ f t, d = .error f { err := .syntax (.tokenization t) }) := by
  refine ⟨(analyzeLines_file lines).2.2.2, ?_⟩
  intro d hd
  have := analyzeLines_msgs ({ lines := lines } : Analysis F) 0 lines rfl (by intro d hd; simp at hd) d hd
  rcases this with ⟨f, msg, rfl, _⟩ | ⟨f, t, _, _, _, rfl, _, _⟩
  · exact .inl ⟨f, msg, rfl⟩
  · exact .inr ⟨f, t, rfl⟩

omit [NumOps F] in
theorem foldl_inv {β : Type} (I : Analysis F → Prop) (Q : β → Prop) (f : Analysis F → β → Analysis F)
    (h : ∀ a b, I a → Q b → I (f a b)) (l : List β) (hl : ∀ b ∈ l, Q b) (a : Analysis F) (ha : I a) :
    I (l.foldl f a) := by
  induction l generalizing a with
  | nil => exact ha
  | cons b l ih =>
    exact ih (fun x hx => hl x (List.mem_cons_of_mem _ hx)) (f a b) (h a b ha (hl b (by simp)))

/-- every recorded symbol access is at a location that maps -/
def AccessesMap (a : Analysis F) : Prop :=
  ∀ x ∈ a.st.accesses, (a.map.mapLoc { line := some x.2.1, idx := x.2.2.1 }).isSome = true

omit [NumOps F] in
/-- The symbol pass produces warnings only, and leaves the panic flag alone
    provided every recorded access is at a location that maps. -/
theorem symbolWarnings_total (a : Analysis F) :
    (∃ extra, (symbolWarnings a).messages = a.messages ++ extra ∧
      ∀ d ∈ extra, ∃ f n i msg, d = .warning f (some (n, i)) msg) ∧
    (AccessesMap a → (symbolWarnings a).panicked = a.panicked) := by
  constructor
  · obtain ⟨_, _, _, extra, hext, hP⟩ := symbolWarnings_ext a
    refine ⟨extra, hext, ?_⟩
    intro d hd
    obtain ⟨f, n, i, msg, _, _, rfl, _⟩ := hP d hd
    exact ⟨f, n, i, msg, rfl⟩
  · intro hacc
    have emit : ∀ (text : Str) (locs : List (Str × Nat × Nat × Access)),
        (∀ x ∈ locs, x ∈ a.st.accesses) → ∀ (b : Analysis F), (b.map = a.map ∧ b.panicked = a.panicked) →
        ((locs.foldl (fun a (x : Str × Nat × Nat × Access) =>
          match a.map.mapLoc { line := some x.2.1, idx := x.2.2.1 } with
          | some (f, _, _) => { a with messages := a.messages ++ [.warning f (some (x.2.1, x.2.2.1)) text] }
          | none => { a with panicked := some "symbol warning: unwrap on None" }) b).map = a.map ∧
         (locs.foldl (fun a (x : Str × Nat × Nat × Access) =>
          match a.map.mapLoc { line := some x.2.1, idx := x.2.2.1 } with
          | some (f, _, _) => { a with messages := a.messages ++ [.warning f (some (x.2.1, x.2.2.1)) text] }
          | none => { a with panicked := some "symbol warning: unwrap on None" }) b).panicked = a.panicked) := by
      intro text locs hlocs b hb
      refine foldl_inv (fun b => b.map = a.map ∧ b.panicked = a.panicked) (fun x => x ∈ a.st.accesses) _ ?_
        locs hlocs b hb
      intro c x hc hx
      have := hacc x hx
      rw [← hc.1] at this
      cases hm : c.map.mapLoc { line := some x.2.1, idx := x.2.2.1 } with
      | none => rw [hm] at this; simp at this
      | some p => obtain ⟨f, u, v⟩ := p; exact hc
    have := foldl_inv (F := F) (fun b => b.map = a.map ∧ b.panicked = a.panicked) (fun _ : Str => True)
      (fun a' sym =>
        if (a.st.accesses.filter fun (s, _, _, k) => s == sym && k == .read).isEmpty &&
            !(a.st.accesses.filter fun (s, _, _, k) => s == sym && k == .write).isEmpty then
          (a.st.accesses.filter fun (s, _, _, k) => s == sym && k == .write).foldl
            (fun a (x : Str × Nat × Nat × Access) =>
              match a.map.mapLoc { line := some x.2.1, idx := x.2.2.1 } with
              | some (f, _, _) => { a with messages := a.messages ++
                  [.warning f (some (x.2.1, x.2.2.1)) (['\''] ++ sym ++ "' is never used.".toList)] }
              | none => { a with panicked := some "symbol warning: unwrap on None" }) a'
        else if (a.st.accesses.filter fun (s, _, _, k) => s == sym && k == .write).isEmpty &&
            !(a.st.accesses.filter fun (s, _, _, k) => s == sym && k == .read).isEmpty then
          (a.st.accesses.filter fun (s, _, _, k) => s == sym && k == .read).foldl
            (fun a (x : Str × Nat × Nat × Access) =>
              match a.map.mapLoc { line := some x.2.1, idx := x.2.2.1 } with
              | some (f, _, _) => { a with messages := a.messages ++
                  [.warning f (some (x.2.1, x.2.2.1)) (['\''] ++ sym ++ "' is never defined.".toList)] }
              | none => { a with panicked := some "symbol warning: unwrap on None" }) a'
        else a')
      (by
        intro b sym hb _
        simp only
        split
        · exact emit _ _ (fun x hx => (List.mem_filter.mp hx).1) b hb
        · split
          · exact emit _ _ (fun x hx => (List.mem_filter.mp hx).1) b hb
          · exact hb)
      (accessSymbols a.st.accesses) (fun _ _ => trivial) a ⟨rfl, rfl⟩
    exact this.2

/-- The hypothesis of `symbolWarnings_total` is needed: on an analysis whose
    recorded accesses do not map, the symbol pass sets the panic flag. -/
example : (symbolWarnings (F := Unit)
    { st := { accesses := [("X".toList, 10, 0, .read)] } }).panicked = some "symbol warning: unwrap on None" := by
  decide


/-- Item 4 (partial totality).  In the model a Rust panic of the analyzer is
    either the flag `Analysis.panicked` or an `Err.panic` inside an `.error`
    diagnostic.  For every file:
    (1) the line pass leaves the flag clear and emits only line warnings and
        tokenization errors;
    (2) no diagnostic of the finished analysis carries `Err.panic`;
    (3) the symbol pass emits warnings only and — when every recorded access is
        at a location that maps — leaves the flag as the statement pass left it.
    Not covered: the flag after the statement pass (`analyzeProgram`), see
    C05Eval.lean. -/
theorem analyze_total_partial (fuel : Nat) (lines : List Str) :
    ((analyzeLines ({ lines := lines } : Analysis F) 0 lines).panicked = none ∧
      ∀ d ∈ (analyzeLines ({ lines := lines } : Analysis F) 0 lines).messages,
        (∃ f msg, d = .warning f none msg) ∨ (∃ f t, d = .error f { err := .syntax (.tokenization t) })) ∧
    (∀ f e, .error f e ∈ (analyzeFile (F := F) fuel lines).messages → e.err.isPanic = false) ∧
    (∀ a : Analysis F,
      (∃ extra, (symbolWarnings a).messages = a.messages ++ extra ∧
        ∀ d ∈ extra, ∃ f n i msg, d = .warning f (some (n, i)) msg) ∧
      (AccessesMap a → (symbolWarnings a).panicked = a.panicked)) :=
  ⟨analyzeLines_total lines, fun f e h => no_panic_diag fuel lines f e h, symbolWarnings_total⟩

/-- Non-vacuity: a file with a redefinition, a line without statements, a line
    without number, a tokenization error and an unused variable. -/
example :
    let a := analyzeFile (F := Unit) 10 ["10 X = 1".toList, "10".toList, "REM".toList, "20 \"".toList, "30 Y = 2".toList]
    a.panicked = none ∧ a.messages.length = 5 ∧ a.lineTokens.length = 5 ∧
      a.messages.all (fun d => (a.map.mapDiag d).isSome) = true := by
  decide

end Abasic.Props.C05
