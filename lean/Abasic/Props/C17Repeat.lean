import Abasic.Props.C09Count
/-
  C17 (leftover) — a closed form for the number of trace records per turn.

  The model emits one trace record per entry of `evaluate_statement`
  (`stmtBody`), and the statement evaluator re-enters itself only for the
  statement under THEN / ELSE (`C09.reentry_only_under_if`).  So far the number
  of repeats was known as: `≥ 1`, `= 1` unless the statement starts with IF
  (`turn_traces`), and `1 + N` with `N` the marks of an INSTRUMENTED evaluator
  (`C09.trace_count`).  Here the number is a DEFINITION that follows the IF
  chain of the statement itself:

    activations fuel σ = 1 + (the number of THEN / ELSE clauses entered)

  A clause is ENTERED when
    * the statement under the cursor starts with IF, its condition evaluates
      (by the model's own expression evaluator, in the state at hand — the
      condition may call functions, draw random numbers, create arrays) and THEN
      follows (`ifHeader`),
    * the condition is true (the THEN clause), or it is false and the ELSE
      search — skip tokens up to the first `:` (give up) or ELSE — finds an ELSE
      (`skipToElse`, characterised on the token list by `findElse` below),
    * the clause is a statement, not a bare line number (`THEN 100` is a GOTO
      and adds none), and the nesting cap allows one more level (`clauseEntry`);
  the clause then is a statement activation of its own, one nesting level (and
  one fuel unit) deeper, and counts in the same way.

  `trace_repeat_exact`: with tracing on, one turn that starts a statement on
  numbered line `ln` emits exactly `activations` records, all `Out.trace ln`.
  `trace_count` is the corollary `nestedActivations_closed_form`:
  the marks of the instrumented evaluator are `activations - 1`.
-/
set_option linter.unusedSectionVars false

namespace Abasic.Props.C17
open Abasic Abasic.Hoare Abasic.Trace Abasic.Trace.Lift M

variable {F : Type} [NumOps F]

/-! ### the definition -/

/-- the ELSE search of an IF whose condition is false (`ifSkipLoop` without its
    last step): `true` when it stops behind an ELSE, `false` when it meets a
    colon first (the rest of the line is discarded) or the line ends -/
def skipToElse : Nat → M F Bool
  | 0 => fail .outOfFuel
  | n + 1 => do
    match ← next with
    | none => pure false
    | some t =>
      if t.isKw .Colon then do
        discardRemaining
        skipToElse n
      else if t.isKw .Else then pure true
      else skipToElse n

/-- the token is the keyword IF -/
def isIf : Option (Token F) → Bool
  | some t => t.isKw .If
  | none => false

/-- what follows the keyword IF up to the clause: the condition, THEN, and for
    a false condition the ELSE search; `true`: a clause starts under the cursor -/
def ifTail (ev : Evals F) : M F Bool := do
  let c ← ev.expr
  expect .Then
  if c.toBool then pure true
  else do
    let b ← lineBudget
    skipToElse b

/-- the head of a statement: is a THEN / ELSE clause reached? -/
def ifHeader (ev : Evals F) : M F Bool := do
  let t ← next
  if isIf t then ifTail ev else pure false

/-- the state in which the clause under the cursor starts its own statement
    activation — `none` when it is a bare line number (a GOTO), or the nesting
    cap refuses one more level (or the line is missing) -/
def clauseEntry (σc : St F) : Option (St F) :=
  match peek σc with
  | .ok (some (.num _)) _ => none
  | .ok _ σ' => if σ'.nesting == Extracted.nestingLimit then none else some { σ' with nesting := σ'.nesting + 1 }
  | .err _ _ => none

/-- the activations below one activation: those of the clause it enters, if any -/
def actStep (ev : Evals F) (rec : St F → Nat) (σ : St F) : Nat :=
  match (traceHere >>= fun _ => ifHeader ev) σ with
  | .ok true σc =>
    (match clauseEntry σc with
     | some σ' => rec σ'
     | none => 0)
  | _ => 0

/-- **activations**: the statement activations of `stmtBody (evalN fuel)` started
    in `σ` (the statement tokens are those under the cursor of `σ`):
    1 + the number of THEN / ELSE clauses entered. -/
def activations : Nat → St F → Nat
  | 0, σ => 1 + actStep (evalN 0) (fun _ => 0) σ
  | k + 1, σ => 1 + actStep (evalN (k + 1)) (activations k) σ

/-! ### the model's IF is header + clause -/

theorem isIf_iff (t : Option (Token F)) : isIf t = true ↔ t = some (.kw .If) := by
  cases t with
  | none => simp [isIf]
  | some tok =>
    cases tok with
    | kw k =>
      constructor
      · intro h
        have : k = .If := by
          have h' : (Kw.If == k) = true := h
          exact (eq_of_beq h').symm
        rw [this]
      · intro h
        cases h
        rfl
    | _ =>
      constructor
      · intro h; cases h
      · intro h; cases h

theorem ifSkipLoop_eq (ev : Evals F) (n : Nat) :
    ifSkipLoop ev n = (skipToElse n >>= fun b => if b then statementOrGoto ev else pure ()) := by
  induction n with
  | zero => rfl
  | succ n ih =>
    funext σ
    unfold ifSkipLoop skipToElse
    rw [ih]
    simp only [bind, M.bindM]
    cases next σ with
    | err e s => rfl
    | ok t s =>
      cases t with
      | none => rfl
      | some t =>
        dsimp only
        by_cases hc : t.isKw .Colon = true
        · simp only [hc, if_true, M.bindM]
          cases discardRemaining s with
          | err e s' => rfl
          | ok u s' => rfl
        · simp only [hc, Bool.false_eq_true, if_false]
          by_cases he : t.isKw .Else = true
          · simp only [he, if_true]
            rfl
          · simp only [he, Bool.false_eq_true, if_false]
            rfl

theorem rx_skipToElse (n : Nat) : Respects RX (skipToElse (F := F) n) := by
  induction n with
  | zero => unfold skipToElse; exact respects_fail _
  | succ n ih =>
    unfold skipToElse
    have := rx_next (F := F)
    have := rx_discardRemaining (F := F)
    respects_tac

theorem rx_ifTail (ev : Evals F) (he : Respects RX ev.expr) : Respects RX (ifTail ev) := by
  unfold ifTail
  have := rx_expect (F := F)
  have := rx_lineBudget (F := F)
  have := rx_skipToElse (F := F)
  respects_tac

/-! ### counting the trace records -/

/-- the activations of the clause under the cursor -/
def clauseActs (rec : St F → Nat) (σc : St F) : Nat :=
  match clauseEntry σc with
  | some σ' => rec σ'
  | none => 0

theorem actStep_eq (ev : Evals F) (rec : St F → Nat) (σ : St F) :
    actStep ev rec σ =
      match (traceHere >>= fun _ => ifHeader ev) σ with
      | .ok true σc => clauseActs rec σc
      | _ => 0 := rfl

/-- a suffix that adds no trace record -/
theorem traces_bind_nt {α β : Type} (m : M F α) (g : α → M F β) (hg : ∀ a, Respects NT (g a)) (σ : St F) :
    traces ((m >>= g) σ).final.out = traces (m σ).final.out := by
  rw [final_bind]
  cases m σ with
  | ok a s => exact ((hg a).final s).2.2
  | err e s => rfl

/-- the queue after a nested activation: refused at the cap, else what the
    activation leaves one level deeper -/
theorem nested_out (m : M F Unit) (s : St F) :
    (nested m s).final.out =
      if (s.nesting == Extracted.nestingLimit) = true then s.out
      else (m { s with nesting := s.nesting + 1 }).final.out := by
  by_cases hcap : s.nesting = Extracted.nestingLimit
  · have hb : (s.nesting == Extracted.nestingLimit) = true := by simpa using hcap
    rw [if_pos hb]
    have e : nested m s = .err { err := .oomStack } s := by
      simp [nested, bind, M.bindM, enterNested, M.get, hcap, M.fail]
    rw [e]; rfl
  · have hb : (s.nesting == Extracted.nestingLimit) = false := by simpa using hcap
    rw [if_neg (by rw [hb]; exact Bool.false_ne_true)]
    have e : nested m s =
        (match m { s with nesting := s.nesting + 1 } with
         | .ok a s1 => (exitNested >>= fun _ => M.ofExcept (.ok a)) s1
         | .err er s1 => (exitNested >>= fun _ => (M.ofExcept (.error er) : M F Unit)) s1) := by
      simp only [nested, bind, M.bindM, enterNested, M.get, hb, Bool.false_eq_true, if_false, M.set, M.attempt]
      cases m { s with nesting := s.nesting + 1 } <;> rfl
    rw [e]
    cases m { s with nesting := s.nesting + 1 } with
    | ok a s1 =>
      simp only [exitNested, bind, M.bindM, M.get]
      cases s1.nesting <;> rfl
    | err er s1 =>
      simp only [exitNested, bind, M.bindM, M.get]
      cases s1.nesting <;> rfl

section count
variable (ev : Evals F) (he : Respects RX ev.expr) (rec : St F → Nat)
  (hrec : ∀ σ', traces (ev.stmt σ').final.out = rep (rec σ') (here σ') ++ traces σ'.out)
include hrec

/-- the clause: a line number adds no record; a statement adds those of its own activation -/
theorem clause_traces (σc : St F) :
    traces (statementOrGoto ev σc).final.out = rep (clauseActs rec σc) (here σc) ++ traces σc.out := by
  unfold statementOrGoto clauseActs clauseEntry
  rw [final_bind]
  have hp := (rx_peek (F := F)).final σc
  cases hpk : peek σc with
  | err e s =>
    rw [hpk] at hp
    dsimp only
    rw [rep_zero]
    exact hp.2.2.1
  | ok t s =>
    rw [hpk] at hp
    have hh : here s = here σc := here_of_rx hp
    have hnest : traces (nested ev.stmt s).final.out =
        rep (match (if (s.nesting == Extracted.nestingLimit) = true then none
                    else some ({ s with nesting := s.nesting + 1 } : St F)) with
             | some σ' => rec σ'
             | none => 0) (here σc) ++ traces σc.out := by
      rw [nested_out]
      by_cases hb : (s.nesting == Extracted.nestingLimit) = true
      · rw [if_pos hb, if_pos hb]
        dsimp only
        rw [rep_zero]
        exact hp.2.2.1
      · rw [if_neg hb, if_neg hb]
        dsimp only
        rw [hrec]
        have h1 : here ({ s with nesting := s.nesting + 1 } : St F) = here σc := hh
        have h2 : traces ({ s with nesting := s.nesting + 1 } : St F).out = traces σc.out := hp.2.2.1
        rw [h1, h2]
    cases t with
    | none => exact hnest
    | some tok =>
      cases tok with
      | num x =>
        dsimp only
        rw [rep_zero]
        exact ((nt_gotoStatement (F := F)).final s).2.2.trans hp.2.2.1
      | kw k => exact hnest
      | remark r => exact hnest
      | symbol r => exact hnest
      | str r => exact hnest
      | data r => exact hnest

include he

/-- the IF statement behind its keyword -/
theorem if_traces (s : St F) :
    traces (ifStatement ev s).final.out =
      rep (match ifTail ev s with
           | .ok true σc => clauseActs rec σc
           | _ => 0) (here s) ++ traces s.out := by
  have hx := he.final s
  simp only [ifStatement, ifTail, bind, M.bindM]
  cases hc : ev.expr s with
  | err e s1 =>
    rw [hc] at hx
    dsimp only
    rw [rep_zero]
    exact hx.2.2.1
  | ok c s1 =>
    rw [hc] at hx
    dsimp only
    have hx2 := ((rx_expect (F := F) .Then).final s1)
    cases hex : expect .Then s1 with
    | err e s2 =>
      rw [hex] at hx2
      dsimp only
      rw [rep_zero]
      exact hx2.2.2.1.trans hx.2.2.1
    | ok u s2 =>
      rw [hex] at hx2
      dsimp only
      have h02 : RX s s2 := IsFrame.trans hx hx2
      by_cases hb : c.toBool = true
      · simp only [hb, if_true]
        have hcl := clause_traces ev rec hrec s2
        rw [here_of_rx h02, h02.2.2.1] at hcl
        have ht := traces_bind_nt (statementOrGoto ev)
          (fun _ : Unit => (do if ← peekIsKw .Else then discardRemaining : M F Unit))
          (fun _ => by
            have := rx_peekIsKw (F := F)
            have := rx_discardRemaining (F := F)
            have h : Respects RX (do if ← peekIsKw .Else then discardRemaining : M F Unit) := by respects_tac
            exact h.mono (fun _ _ => rx_sub_nt)) s2
        exact ht.trans hcl
      · simp only [hb, Bool.false_eq_true, if_false, M.bindM]
        have hx3 := (rx_lineBudget (F := F)).final s2
        cases hlb : lineBudget s2 with
        | err e s3 =>
          rw [hlb] at hx3
          dsimp only
          rw [rep_zero]
          exact hx3.2.2.1.trans h02.2.2.1
        | ok b s3 =>
          rw [hlb] at hx3
          dsimp only
          have h03 : RX s s3 := IsFrame.trans h02 hx3
          rw [ifSkipLoop_eq]
          simp only [bind, M.bindM]
          have hx4 := (rx_skipToElse (F := F) b).final s3
          cases hsk : skipToElse b s3 with
          | err e s4 =>
            rw [hsk] at hx4
            dsimp only
            rw [rep_zero]
            exact hx4.2.2.1.trans h03.2.2.1
          | ok found s4 =>
            rw [hsk] at hx4
            have h04 : RX s s4 := IsFrame.trans h03 hx4
            cases found with
            | false =>
              dsimp only
              rw [rep_zero]
              exact h04.2.2.1
            | true =>
              dsimp only
              have hcl := clause_traces ev rec hrec s4
              rw [here_of_rx h04, h04.2.2.1] at hcl
              exact hcl

/-- `dispatch`: only an IF can add trace records -/
theorem dispatch_traces (σ1 : St F) :
    traces (dispatch ev σ1).final.out =
      rep (match ifHeader ev σ1 with
           | .ok true σc => clauseActs rec σc
           | _ => 0) (here σ1) ++ traces σ1.out := by
  obtain ⟨K, hK, hIf, hne⟩ := dispatch_cases ev he
  rw [hK, final_bind]
  simp only [ifHeader, bind, M.bindM]
  have hx := (rx_next (F := F)).final σ1
  cases hn : next σ1 with
  | err e s =>
    rw [hn] at hx
    dsimp only
    rw [rep_zero]
    exact hx.2.2.1
  | ok t s =>
    rw [hn] at hx
    have hx : RX σ1 s := hx
    dsimp only
    by_cases ht : t = some (.kw .If)
    · have hi : isIf t = true := (isIf_iff t).mpr ht
      rw [ht] at hi ⊢
      simp only [hi, if_true]
      rw [hIf, if_traces ev he rec hrec s, here_of_rx hx, hx.2.2.1]
    · have hi : isIf t = false := by
        cases h : isIf t with
        | false => rfl
        | true => exact absurd ((isIf_iff t).mp h) ht
      simp only [hi, Bool.false_eq_true, if_false]
      show traces (K t s).final.out = rep 0 (here σ1) ++ traces σ1.out
      rw [rep_zero]
      exact ((hne t ht).final s).2.2.trans hx.2.2.1

/-- one statement activation: its own record, then those of the clause it enters -/
theorem body_traces (σ : St F) :
    traces (stmtBody ev σ).final.out = rep (1 + actStep ev rec σ) (here σ) ++ traces σ.out := by
  have er : stmtBody ev σ = dispatch ev { σ with out := (here σ).map Out.trace ++ σ.out } := by
    unfold stmtBody
    simp only [bind, M.bindM, traceHere_eq]
  have eh : (traceHere >>= fun _ => ifHeader ev) σ =
      ifHeader ev { σ with out := (here σ).map Out.trace ++ σ.out } := by
    simp only [bind, M.bindM, traceHere_eq]
  rw [actStep_eq, eh, er, dispatch_traces ev he rec hrec]
  have h1 : here ({ σ with out := (here σ).map Out.trace ++ σ.out } : St F) = here σ := rfl
  have h2 : traces ({ σ with out := (here σ).map Out.trace ++ σ.out } : St F).out = here σ ++ traces σ.out := by
    show traces ((here σ).map Out.trace ++ σ.out) = _
    rw [traces_append, traces_map_trace]
  rw [h1, h2, Nat.add_comm 1, rep_succ', List.append_assoc]

end count

/-- **one activation, exactly.**  A statement activation at fuel `n` started in
    `σ` adds `activations n σ` copies of its trace block `here σ` (`[ln]` with
    tracing on at numbered line `ln`, `[]` otherwise) and no other trace record. -/
theorem activation_exact (n : Nat) (σ : St F) :
    traces (stmtBody (evalN n) σ).final.out = rep (activations n σ) (here σ) ++ traces σ.out := by
  induction n generalizing σ with
  | zero =>
    exact body_traces (evalN 0) (trace_evalN 0).1 (fun _ => 0)
      (fun σ' => by show traces σ'.out = _; rw [rep_zero]; rfl) σ
  | succ k ih =>
    exact body_traces (evalN (k + 1)) (trace_evalN (k + 1)).1 (activations k) (fun σ' => ih σ') σ

/-! ### one turn -/

/-- the state in which a turn's statement activation starts: marked running,
    the token under the cursor looked at once -/
def turnStart (σ : St F) : St F := { σ with state := .running, reads := σ.reads + 1 }

/-- a turn that starts a statement: the trace records of that one activation -/
theorem turn_traces_exact (fuel : Nat) (σ : St F) (hs : (curTok σ).isSome = true) :
    traces (runNextStatement fuel σ).final.out =
      rep (activations fuel (turnStart σ)) (here σ) ++ traces σ.out := by
  obtain ⟨t, ht⟩ := Option.isSome_iff_exists.mp hs
  rw [show runNextStatement fuel = C09.turnWith (evalN fuel) from C09.turn_anatomy fuel,
    C09.turn_one_statement (evalN fuel) σ t ht,
    traces_bind_nt (stmtBody (evalN fuel)) (fun _ : Unit => C09.sequence (F := F)) (fun _ => nt_sequence)]
  exact activation_exact fuel (turnStart σ)

/-- **trace_repeat_exact.**  With tracing on, one turn (`run_next_statement`) that
    starts a statement on the numbered line `ln` emits exactly
    `activations fuel (turnStart σ)` trace records — 1 + the number of THEN / ELSE
    clauses entered — all of them `Out.trace ln`, on top of the trace records that
    were on the queue before. -/
theorem trace_repeat_exact (fuel : Nat) (σ : St F) (ln : Nat) (ht : σ.tracing = true)
    (hl : σ.loc.line = some ln) (hs : (curTok σ).isSome = true) :
    traces (runNextStatement fuel σ).final.out =
      List.replicate (activations fuel (turnStart σ)) ln ++ traces σ.out ∧
    (traces (runNextStatement fuel σ).final.out).length =
      (traces σ.out).length + activations fuel (turnStart σ) := by
  have h := turn_traces_exact fuel σ hs
  have hh : here σ = [ln] := by unfold here; rw [ht, hl]
  rw [hh, rep_singleton] at h
  refine ⟨h, ?_⟩
  rw [h, List.length_append, List.length_replicate]
  omega

/-- … and the same for the host call `continue_evaluating` of a running interpreter -/
theorem trace_repeat_exact_call (fuel : Nat) (σ : St F) (ln : Nat) (hrun : σ.state = .running)
    (ht : σ.tracing = true) (hl : σ.loc.line = some ln) (hs : (curTok σ).isSome = true) :
    traces (continueEvaluating fuel σ).final.out =
      List.replicate (activations fuel (turnStart σ)) ln ++ traces σ.out := by
  rw [C09.continue_is_one_turn fuel σ hrun, C09.postprocess_out]
  exact (trace_repeat_exact fuel σ ln ht hl hs).1

/-! ### what the count is in the simple cases -/

theorem activations_pos (n : Nat) (σ : St F) : 1 ≤ activations n σ := by
  cases n <;> (unfold activations; omega)

/-- a statement that does not start with IF: one activation -/
theorem actStep_not_if (ev : Evals F) (rec : St F → Nat) (σ : St F) (h : curTok σ ≠ some (.kw .If)) :
    actStep ev rec σ = 0 := by
  have eh : (traceHere >>= fun _ => ifHeader ev) σ =
      ifHeader ev { σ with out := (here σ).map Out.trace ++ σ.out } := by
    simp only [bind, M.bindM, traceHere_eq]
  rw [actStep_eq, eh]
  simp only [ifHeader, bind, M.bindM]
  cases hn : next ({ σ with out := (here σ).map Out.trace ++ σ.out } : St F) with
  | err e s => rfl
  | ok t s =>
    have ht : t = curTok ({ σ with out := (here σ).map Out.trace ++ σ.out } : St F) := next_tok hn
    have ht : t = curTok σ := ht
    have hi : isIf t = false := by
      cases hh : isIf t with
      | false => rfl
      | true => exact absurd (ht.symm.trans ((isIf_iff t).mp hh)) h
    simp only [hi, Bool.false_eq_true, if_false]
    rfl

theorem activations_not_if (n : Nat) (σ : St F) (h : curTok σ ≠ some (.kw .If)) : activations n σ = 1 := by
  cases n <;> (unfold activations; rw [actStep_not_if _ _ σ h])

/-- the recursion, spelled out: when the header of the statement reaches a clause
    in `σc` and the clause is accepted as a statement activation in `σ'`, the count
    is one more than the count of that activation (one fuel unit down) -/
theorem activations_clause (k : Nat) (σ σc σ' : St F)
    (hh : (traceHere >>= fun _ => ifHeader (evalN (k + 1))) σ = .ok true σc) (hc : clauseEntry σc = some σ') :
    activations (k + 1) σ = 1 + activations k σ' := by
  show 1 + actStep (evalN (k + 1)) (activations k) σ = _
  rw [actStep_eq, hh]
  simp only [clauseActs, hc]

/-- … and when no clause is entered (the statement is not an IF, its header
    fails, the condition is false with no ELSE before the next colon), or the
    clause is a bare line number or is refused at the nesting cap: one activation -/
theorem activations_no_clause (k : Nat) (σ : St F)
    (hh : ∀ σc, (traceHere >>= fun _ => ifHeader (evalN (k + 1))) σ = .ok true σc → clauseEntry σc = none) :
    activations (k + 1) σ = 1 := by
  show 1 + actStep (evalN (k + 1)) (activations k) σ = _
  rw [actStep_eq]
  cases hr : (traceHere >>= fun _ => ifHeader (evalN (k + 1))) σ with
  | err e s => rfl
  | ok b σc =>
    cases b with
    | false => rfl
    | true =>
      simp only [clauseActs, hh σc hr]

/-! ### `trace_count` as a corollary -/

/-- **The marks of the instrumented evaluator are the closed form.**  With
    tracing on, for a turn that starts a statement on a numbered line, the number
    `C09.nestedActivations` of `C09.trace_count` is `activations - 1`. -/
theorem nestedActivations_closed_form (fuel : Nat) (σ : St F) (ln : Nat) (ht : σ.tracing = true)
    (hn : σ.nesting ≤ Extracted.nestingLimit) (hl : σ.loc.line = some ln) (hs : (curTok σ).isSome = true) :
    1 + C09.nestedActivations fuel σ = activations fuel (turnStart σ) := by
  have h1 := (C09.trace_count_numbered fuel σ ln ht hn hl hs).2.1
  have h2 := (trace_repeat_exact fuel σ ln ht hl hs).2
  omega

/-- hence the bounds of `C09.trace_count` hold of the closed form: at most
    `nestingLimit + 1 - nesting` (≤ 49) records per turn, and one unless the
    statement starts with IF -/
theorem activations_le (fuel : Nat) (σ : St F) (ln : Nat) (ht : σ.tracing = true)
    (hn : σ.nesting ≤ Extracted.nestingLimit) (hl : σ.loc.line = some ln) (hs : (curTok σ).isSome = true) :
    activations fuel (turnStart σ) ≤ Extracted.nestingLimit + 1 - σ.nesting := by
  rw [← nestedActivations_closed_form fuel σ ln ht hn hl hs]
  exact C09.activations_per_call fuel σ hn

/-- **trace_count**, restated with the closed form (and without the bound on
    the nesting counter, which the exact count does not need). -/
theorem trace_count_closed (fuel : Nat) (σ : St F) (ht : σ.tracing = true) :
    traces (runNextStatement fuel σ).final.out =
      rep (if (curTok σ).isSome then activations fuel (turnStart σ) else 0) (startLine σ) ++ traces σ.out ∧
    (curTok σ ≠ some (.kw .If) → (curTok σ).isSome = true → activations fuel (turnStart σ) = 1) := by
  refine ⟨?_, fun hne _ => activations_not_if fuel (turnStart σ) hne⟩
  by_cases hs : (curTok σ).isSome = true
  · rw [if_pos hs, turn_traces_exact fuel σ hs]
    unfold startLine
    rw [if_pos hs, here_of_tracing σ ht]
  · rw [if_neg hs, rep_zero]
    obtain ⟨_, _, k, _, _, h⟩ := turn_traces fuel σ ht
    unfold startLine at h
    rw [if_neg hs, rep_nil] at h
    exact h

/-! ### non-vacuity (carrier `Unit`: a non-empty string is true, the empty string false) -/

/-- `10 IF "A" THEN IF "A" THEN PRINT`: two clauses entered, three records -/
example :
    let σ : St Unit := { tracing := true, state := .running, loc := { line := some 10, idx := 0 },
                         lines := { map := [(10, [.kw .If, .str ['A'], .kw .Then, .kw .If, .str ['A'], .kw .Then,
                                                  .kw .Print])],
                                    sorted := [10] } }
    activations 5 (turnStart σ) = 3 ∧ traces (runNextStatement 5 σ).final.out = [10, 10, 10] := by
  decide +kernel

/-- `10 IF "" THEN PRINT ELSE PRINT`: the ELSE clause is entered, two records;
    `10 IF "A" THEN 10`: a line-number target adds none;
    `10 IF "" THEN PRINT : ELSE PRINT`: the ELSE search gives up at the colon -/
example :
    let mk (ts : List (Token Unit)) : St Unit :=
      { tracing := true, state := .running, loc := { line := some 10, idx := 0 },
        lines := { map := [(10, ts)], sorted := [10] } }
    activations 5 (turnStart (mk [.kw .If, .str [], .kw .Then, .kw .Print, .kw .Else, .kw .Print])) = 2 ∧
    activations 5 (turnStart (mk [.kw .If, .str ['A'], .kw .Then, .num ()])) = 1 ∧
    activations 5 (turnStart (mk [.kw .If, .str [], .kw .Then, .kw .Print, .kw .Colon, .kw .Else, .kw .Print])) = 1 := by
  decide +kernel

end Abasic.Props.C17

#print axioms Abasic.Props.C17.trace_repeat_exact
#print axioms Abasic.Props.C17.nestedActivations_closed_form
#print axioms Abasic.Props.C17.trace_count_closed
