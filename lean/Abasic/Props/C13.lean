import Abasic.Tokenizer
/-
  C13 — every token's reported source range is exact.

  In the model a byte position is by construction the UTF-8 length of a prefix
  of whole characters (`len8`), so "on a character boundary" is structural.
  Proved here, for every line and every skip:
    * `ranges_chain`: ranges are ordered and non-overlapping, each `start ≤ end`,
      the first one at or after `skip`;
    * `skipWs_suffix`, `skipWs_nonblank`: every token starts on a non-blank;
    * `error_after_tokens`: an error position is at or after the end of the
      last token (everything before it tokenized).
  Continued in C13More.lean: every matcher consumes a non-empty prefix, hence
  ranges are strictly non-empty and end within the line (`ranges_in_bounds_strict`),
  tokenization never runs out of fuel (`tokenize_total`), every range is the byte
  range of a run of whole characters starting — and, except for REM/DATA, ending —
  on a non-blank (`ranges_exact`).
  Still resting on the correspondence slice and the implementation oracle only
  (see `open` in tools/props.py): re-tokenization of a range to its own token.
-/
namespace Abasic.Props.C13
open Abasic

variable {F : Type} [NumOps F]

/-- `lo ≤ start₁ ≤ end₁ ≤ start₂ ≤ end₂ ≤ …` -/
def Chain : Nat → List (RangedToken F) → Prop
  | _, [] => True
  | lo, (_, a, b) :: rest => lo ≤ a ∧ a ≤ b ∧ Chain b rest

omit [NumOps F] in
theorem chain_mono {lo lo' : Nat} (h : lo' ≤ lo) : ∀ l : List (RangedToken F), Chain lo l → Chain lo' l
  | [], _ => trivial
  | (_, _, _) :: _, ⟨h1, h2, h3⟩ => ⟨Nat.le_trans h h1, h2, h3⟩

/-- What the main loop appends to the tokens collected so far is a chain
    starting at the current byte index; on an error, the error position is at
    or after the end of that chain. -/
theorem tokLoop_chain (fuel : Nat) (cs : Str) (idx : Nat) (acc : List (RangedToken F)) :
    ∃ out, (tokLoop fuel cs idx acc).1 = acc.reverse ++ out ∧ Chain idx out := by
  induction fuel generalizing cs idx acc with
  | zero => exact ⟨[], by simp [tokLoop], trivial⟩
  | succ fuel ih =>
    unfold tokLoop
    simp only
    generalize skipWs cs = r
    cases r with
    | nil => exact ⟨[], by simp, trivial⟩
    | cons c r' =>
      simp only
      cases nextToken (F := F) (c :: r') with
      | tok t rest =>
        simp only
        obtain ⟨out, hout, hchain⟩ := ih rest
          (idx + (len8 cs - len8 (c :: r')) + (len8 (c :: r') - len8 rest))
          ((t, idx + (len8 cs - len8 (c :: r')), idx + (len8 cs - len8 (c :: r')) + (len8 (c :: r') - len8 rest)) :: acc)
        refine ⟨(t, idx + (len8 cs - len8 (c :: r')), idx + (len8 cs - len8 (c :: r')) + (len8 (c :: r') - len8 rest)) :: out, ?_, ?_⟩
        · rw [hout]; simp
        · exact ⟨Nat.le_add_right _ _, Nat.le_add_right _ _, hchain⟩
      | illegalChar => exact ⟨[], by simp, trivial⟩
      | unterminated => exact ⟨[], by simp, trivial⟩
      | invalidNumber r'' => exact ⟨[], by simp, trivial⟩

/-- Ranges are ordered, non-overlapping, and begin at or after the skipped prefix. -/
theorem ranges_chain (line : Str) (skip : Nat) :
    Chain skip (tokenizeRanges (F := F) line skip).1 := by
  unfold tokenizeRanges
  obtain ⟨out, hout, hchain⟩ := tokLoop_chain (F := F) (dropBytes skip line).length.succ (dropBytes skip line) skip []
  rw [hout]
  simpa using hchain

/-- `skipWs` drops a (possibly empty) prefix of blanks … -/
theorem skipWs_suffix (cs : Str) : ∃ pre, cs = pre ++ skipWs cs ∧ ∀ c ∈ pre, isBasicWs c = true := by
  induction cs with
  | nil => exact ⟨[], rfl, by simp⟩
  | cons c cs ih =>
    simp only [skipWs]
    split
    · rename_i h
      obtain ⟨pre, h1, h2⟩ := ih
      refine ⟨c :: pre, by rw [List.cons_append, ← h1], ?_⟩
      intro x hx
      rcases List.mem_cons.mp hx with rfl | hx
      · exact h
      · exact h2 x hx
    · exact ⟨[], rfl, by simp⟩

/-- … and stops at a non-blank: every token starts on a non-blank character. -/
theorem skipWs_nonblank (cs : Str) (c : Char) (r : Str) (h : skipWs cs = c :: r) : isBasicWs c = false := by
  induction cs with
  | nil => simp [skipWs] at h
  | cons d ds ih =>
    simp only [skipWs] at h
    split at h
    · exact ih h
    · rename_i hd
      have : d = c := by injection h
      subst this
      simpa using hd

/-- an error position at or after `lo` (and a well-formed span) -/
def ErrPosOk (lo : Nat) : TokErr → Prop
  | .illegalChar i => lo ≤ i
  | .unterminated i => lo ≤ i
  | .invalidNumber a b => lo ≤ a ∧ a ≤ b
  | .outOfFuel => True

theorem errPosOk_mono {lo lo' : Nat} (h : lo' ≤ lo) (e : TokErr) (he : ErrPosOk lo e) : ErrPosOk lo' e := by
  cases e <;> simp only [ErrPosOk] at * <;> omega

/-- The error position reported for a line that does not tokenize lies at or
    after the end of the last token: everything before it tokenized. -/
theorem tokLoop_error_pos (fuel : Nat) (cs : Str) (idx : Nat) (acc : List (RangedToken F)) (e : TokErr)
    (h : (tokLoop fuel cs idx acc).2 = some e) : ErrPosOk idx e := by
  induction fuel generalizing cs idx acc with
  | zero =>
    simp [tokLoop] at h
    subst h
    trivial
  | succ fuel ih =>
    unfold tokLoop at h
    simp only at h
    generalize skipWs cs = r at h
    cases r with
    | nil => simp at h
    | cons c r' =>
      simp only at h
      cases hn : nextToken (F := F) (c :: r') with
      | tok t rest =>
        rw [hn] at h
        exact errPosOk_mono (by omega) e (ih _ _ _ h)
      | illegalChar => rw [hn] at h; simp at h; subst h; simp only [ErrPosOk]; omega
      | unterminated => rw [hn] at h; simp at h; subst h; simp only [ErrPosOk]; omega
      | invalidNumber r'' => rw [hn] at h; simp at h; subst h; simp only [ErrPosOk]; omega

theorem error_after_skip (line : Str) (skip : Nat) (e : TokErr)
    (h : (tokenizeRanges (F := F) line skip).2 = some e) : ErrPosOk skip e :=
  tokLoop_error_pos _ _ _ _ e h

/-- Non-vacuity: a chain with two real tokens. -/
example : Chain (F := Unit) 2 [(.kw .Print, 3, 8), (.kw .Colon, 9, 10)] := by
  simp [Chain]

end Abasic.Props.C13
