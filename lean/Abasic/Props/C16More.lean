import Abasic.Proofs.RelB
import Abasic.Proofs.RelL
import Abasic.Props.C01More
/-
  C16 (continued) — the frame cap holds in every reachable state.

  `gosub_cap` / `call_cap` (C16.lean) are about the two operations that push a
  frame.  Here the fact is lifted through the whole evaluator and the host API
  with the generic lifting of Proofs/Lift.lean, instantiated at the frame
  `RB σ σ' := σ.stack.length ≤ cap → σ'.stack.length ≤ cap` (Proofs/RelB.lean).
-/
namespace Abasic.Props.C16
open Abasic Abasic.Hoare Abasic.Props.C01

variable {F : Type} [NumOps F]

/-- Every expression / statement evaluation, at every fuel, keeps the stack within the cap. -/
theorem stack_cap_evalN (n : Nat) :
    Respects RB (evalN (F := F) n).expr ∧ Respects RB (evalN (F := F) n).stmt :=
  respects_evalN n

theorem stack_cap_start (fuel : Nat) (line : Str) (σ : St F) (h : σ.stack.length ≤ Extracted.stackLimit) :
    (∀ a σ', startEvaluating fuel line σ = .ok a σ' → σ'.stack.length ≤ Extracted.stackLimit) ∧
    (∀ e σ', startEvaluating fuel line σ = .err e σ' → σ'.stack.length ≤ Extracted.stackLimit) :=
  ⟨fun a σ' hr => ((respects_startEvaluating (R := RB) fuel line).at σ).1 a σ' hr h,
   fun e σ' hr => ((respects_startEvaluating (R := RB) fuel line).at σ).2 e σ' hr h⟩

theorem stack_cap_cont (fuel : Nat) (σ : St F) (h : σ.stack.length ≤ Extracted.stackLimit) :
    (∀ a σ', continueEvaluating fuel σ = .ok a σ' → σ'.stack.length ≤ Extracted.stackLimit) ∧
    (∀ e σ', continueEvaluating fuel σ = .err e σ' → σ'.stack.length ≤ Extracted.stackLimit) :=
  ⟨fun a σ' hr => ((respects_continueEvaluating (R := RB) fuel).at σ).1 a σ' hr h,
   fun e σ' hr => ((respects_continueEvaluating (R := RB) fuel).at σ).2 e σ' hr h⟩

/-- One host call (any call, in any state, succeeding or failing) keeps the stack within the cap. -/
theorem stack_cap_call (fuel : Nat) (c : Call) (σ : St F) (h : σ.stack.length ≤ Extracted.stackLimit) :
    (applyCall fuel c σ).stack.length ≤ Extracted.stackLimit :=
  applyCall_frame (R := RB) fuel c σ h

/-- … hence any sequence of host calls does. -/
theorem stack_cap_calls (fuel : Nat) (cs : List Call) (σ : St F) (h : σ.stack.length ≤ Extracted.stackLimit) :
    (applyCalls fuel cs σ).stack.length ≤ Extracted.stackLimit :=
  applyCalls_frame (R := RB) fuel cs σ h

/-- The frame cap is an invariant of every reachable state: a new interpreter
    has an empty stack, and no host call can push the 33rd frame. -/
theorem stack_cap_invariant (fuel : Nat) (σ : St F) (h : Reachable fuel σ) :
    σ.stack.length ≤ Extracted.stackLimit := by
  induction h with
  | init => exact Nat.zero_le _
  | step c _ ih => exact stack_cap_call fuel c _ ih

/-- in numbers -/
theorem stack_cap_invariant_32 (fuel : Nat) (cs : List Call) :
    (applyCalls (F := F) fuel cs {}).stack.length ≤ 32 :=
  stack_cap_calls fuel cs {} (Nat.zero_le _)

/-! ### the FOR-loop stack (same cap, same lifting, frame `RL`) -/

theorem loop_cap_call (fuel : Nat) (c : Call) (σ : St F) (h : σ.loops.length ≤ Extracted.stackLimit) :
    (applyCall fuel c σ).loops.length ≤ Extracted.stackLimit :=
  applyCall_frame (R := RL) fuel c σ h

/-- The loop cap is an invariant of every reachable state too. -/
theorem loop_cap_invariant (fuel : Nat) (σ : St F) (h : Reachable fuel σ) :
    σ.loops.length ≤ Extracted.stackLimit := by
  induction h with
  | init => exact Nat.zero_le _
  | step c _ ih => exact loop_cap_call fuel c _ ih

end Abasic.Props.C16
