import Abasic.Proofs.BudgetEval
/-
  C01 / C20 — termination: the model's iteration budgets and its recursion fuel
  are never the limit.

  The Rust evaluator uses unbounded `loop {}` / `while` and native recursion;
  the model gives each loop a budget (`lineBudget` = tokens of the line + 1) and
  the recursion a fuel (`evalN n`), and fails with `Err.outOfFuel` when one runs
  out.  Here:

  1. for each budgeted loop of the evaluator — `arrayIndexLoop`, `levelLoop`,
     `ifSkipLoop`, `readLoop`, `printLoop`, `defArgsLoop`, `skipToColonLoop` —
     with a budget above `rem σ` (the tokens left on the current line):
     `…_budget_irrelevant` (any two such budgets give the same result) and
     `…_not_exhausted` (no `outOfFuel`, as long as the recursive entry points
     raise none); each iteration consumes a token or exits.  Their callers pass
     `lineBudget`, which is such a budget (`…_noFuelErr` for the callers);
  3. `evalN n` raises no `outOfFuel` from a state with nesting counter `k ≤
     nestingLimit` when `nestingLimit + 1 ≤ n + k` (expressions) resp.
     `nestingLimit + 2 ≤ n + k` (statements) — in particular `defaultFuel` from
     `k = 0`; the bound for expressions is sharp.

  (Item 2, the analyzer, is Abasic/Props/C05Total.lean.)
  The assumption on the recursive entry points is `Budget.EvOK d ev`; it holds
  of `evalN n` for `d = nestingLimit + 2 - n` (`Budget.evOK_evalN`) and, with
  `d = nestingLimit + 2` (no claim about errors), of every `ev` whose `expr`
  keeps the frame and consumes a token and whose `stmt` keeps the nesting
  counter (`Budget.evOK_of_frame`).
-/
namespace Abasic.Props.C01
open Abasic Abasic.Budget

variable {F : Type} [NumOps F]

/-- `m`, run from `σ`, does not fail with the model's fuel/budget error -/
def NoFuelErr {α : Type} (m : M F α) (σ : St F) : Prop :=
  ∀ e σ', m σ = .err e σ' → e.err ≠ .outOfFuel

/-- the nesting counter of `σ` is in the window where `EvOK d` speaks about errors -/
def InWindow (d : Nat) (σ : St F) : Prop := d ≤ σ.nesting + 1 ∧ σ.nesting ≤ Extracted.nestingLimit

omit [NumOps F] in
theorem noFuelErr_of_wp {α : Type} {d : Nat} {m : M F α} {Q : α → St F → Prop} {σ : St F}
    (h : wp (NF d) m Q σ) (hw : InWindow d σ) : NoFuelErr m σ :=
  fun _ _ hm => wp_err h hm hw.1 hw.2

omit [NumOps F] in
theorem noFuelErr_of_sat {α : Type} {d : Nat} {R : St F → St F → Prop} {m : M F α} (h : Sat (NF d) R m)
    {σ : St F} (hw : InWindow d σ) : NoFuelErr m σ :=
  noFuelErr_of_wp (h σ) hw

omit [NumOps F] in
/-- the window of `evalN n` as a condition on `n` -/
theorem inWindow_evalN {n : Nat} {σ : St F} (h1 : Extracted.nestingLimit + 1 ≤ n + σ.nesting)
    (h2 : σ.nesting ≤ Extracted.nestingLimit) : InWindow (Extracted.nestingLimit + 2 - n) σ :=
  ⟨by omega, h2⟩

/-! ## 1. the budgeted loops -/

section loops
variable {d : Nat} {ev : Evals F}

/-! `arrayIndexLoop` (subscript lists) -/

theorem arrayIndexLoop_budget_irrelevant (hev : EvOK d ev) (b1 b2 : Nat) (acc : List Nat) (σ : St F)
    (h1 : rem σ < b1) (h2 : rem σ < b2) : arrayIndexLoop ev b1 acc σ = arrayIndexLoop ev b2 acc σ :=
  (arrayIndexLoop_wp2 hev b1 b2 acc σ h1 h2).1

theorem arrayIndexLoop_not_exhausted (hev : EvOK d ev) (b : Nat) (acc : List Nat) (σ : St F)
    (hb : rem σ < b) (hw : InWindow d σ) : NoFuelErr (arrayIndexLoop ev b acc) σ :=
  noFuelErr_of_wp (arrayIndexLoop_wp2 hev b b acc σ hb hb).2 hw

theorem arrayIndex_noFuelErr (hev : EvOK d ev) (σ : St F) (hw : InWindow d σ) : NoFuelErr (arrayIndex ev) σ :=
  noFuelErr_of_sat (sat_arrayIndex hev) hw

/-! `levelLoop` (one left-associative operator tier; `sub` is the tier below) -/

theorem levelLoop_budget_irrelevant {sub : M F (Value F)} (hsub : Sat (NF d) Fr sub)
    (ops : Token F → Option BinOp) (b1 b2 : Nat) (v : Value F) (σ : St F) (h1 : rem σ < b1) (h2 : rem σ < b2) :
    levelLoop sub ops b1 v σ = levelLoop sub ops b2 v σ :=
  (levelLoop_wp2 hsub ops b1 b2 v σ h1 h2).1

theorem levelLoop_not_exhausted {sub : M F (Value F)} (hsub : Sat (NF d) Fr sub)
    (ops : Token F → Option BinOp) (b : Nat) (v : Value F) (σ : St F) (hb : rem σ < b) (hw : InWindow d σ) :
    NoFuelErr (levelLoop sub ops b v) σ :=
  noFuelErr_of_wp (levelLoop_wp2 hsub ops b b v σ hb hb).2 hw

theorem level_noFuelErr {sub : M F (Value F)} (hsub : SatS (NF d) sub) (ops : Token F → Option BinOp)
    (σ : St F) (hw : InWindow d σ) : NoFuelErr (level sub ops) σ :=
  noFuelErr_of_wp (satS_level hsub ops σ) hw

/-- all six tiers, as `orExpr` stacks them -/
theorem orExpr_noFuelErr (hev : EvOK d ev) (σ : St F) (hw : InWindow d σ) : NoFuelErr (orExpr ev) σ :=
  noFuelErr_of_wp (satS_orExpr hev σ) hw

/-! `ifSkipLoop` (the skip to `ELSE` of a false `IF`) -/

theorem ifSkipLoop_budget_irrelevant (hev : EvOK d ev) (b1 b2 : Nat) (σ : St F)
    (h1 : rem σ < b1) (h2 : rem σ < b2) : ifSkipLoop ev b1 σ = ifSkipLoop ev b2 σ :=
  (ifSkipLoop_wp2 hev b1 b2 σ h1 h2).1

theorem ifSkipLoop_not_exhausted (hev : EvOK d ev) (b : Nat) (σ : St F) (hb : rem σ < b) (hw : InWindow d σ) :
    NoFuelErr (ifSkipLoop ev b) σ :=
  noFuelErr_of_wp (ifSkipLoop_wp2 hev b b σ hb hb).2 hw

theorem ifStatement_noFuelErr (hev : EvOK d ev) (σ : St F) (hw : InWindow d σ) : NoFuelErr (ifStatement ev) σ :=
  noFuelErr_of_sat (sat_ifStatement hev) hw

/-! `readLoop` (READ) -/

theorem readLoop_budget_irrelevant (hev : EvOK d ev) (b1 b2 : Nat) (σ : St F)
    (h1 : rem σ < b1) (h2 : rem σ < b2) : readLoop ev b1 σ = readLoop ev b2 σ :=
  (readLoop_wp2 hev b1 b2 σ h1 h2).1

theorem readLoop_not_exhausted (hev : EvOK d ev) (b : Nat) (σ : St F) (hb : rem σ < b) (hw : InWindow d σ) :
    NoFuelErr (readLoop ev b) σ :=
  noFuelErr_of_wp (readLoop_wp2 hev b b σ hb hb).2 hw

theorem readStatement_noFuelErr (hev : EvOK d ev) (σ : St F) (hw : InWindow d σ) :
    NoFuelErr (readStatement ev) σ :=
  noFuelErr_of_sat (sat_readStatement hev) hw

/-! `printLoop` (PRINT) -/

theorem printLoop_budget_irrelevant (hev : EvOK d ev) (b1 b2 : Nat) (semi : Bool) (acc : Str) (σ : St F)
    (h1 : rem σ < b1) (h2 : rem σ < b2) : printLoop ev b1 semi acc σ = printLoop ev b2 semi acc σ :=
  (printLoop_wp2 hev b1 b2 semi acc σ h1 h2).1

theorem printLoop_not_exhausted (hev : EvOK d ev) (b : Nat) (semi : Bool) (acc : Str) (σ : St F)
    (hb : rem σ < b) (hw : InWindow d σ) : NoFuelErr (printLoop ev b semi acc) σ :=
  noFuelErr_of_wp (printLoop_wp2 hev b b semi acc σ hb hb).2 hw

theorem printStatement_noFuelErr (hev : EvOK d ev) (σ : St F) (hw : InWindow d σ) :
    NoFuelErr (printStatement ev) σ :=
  noFuelErr_of_sat (sat_printStatement hev) hw

end loops

/-! `defArgsLoop`, `skipToColonLoop` (DEF): no recursive entry point involved -/

omit [NumOps F] in
theorem defArgsLoop_budget_irrelevant (b1 b2 : Nat) (acc : List Str) (σ : St F)
    (h1 : rem σ < b1) (h2 : rem σ < b2) : defArgsLoop b1 acc σ = defArgsLoop b2 acc σ :=
  (defArgsLoop_wp2 (E := NF 0) b1 b2 acc σ h1 h2).1

omit [NumOps F] in
theorem defArgsLoop_not_exhausted (b : Nat) (acc : List Str) (σ : St F) (hb : rem σ < b)
    (hl : σ.nesting ≤ Extracted.nestingLimit) : NoFuelErr (defArgsLoop b acc) σ :=
  noFuelErr_of_wp (defArgsLoop_wp2 (E := NF 0) b b acc σ hb hb).2 ⟨Nat.zero_le _, hl⟩

omit [NumOps F] in
theorem skipToColonLoop_budget_irrelevant (b1 b2 : Nat) (σ : St F)
    (h1 : rem σ < b1) (h2 : rem σ < b2) : skipToColonLoop b1 σ = skipToColonLoop b2 σ :=
  (skipToColonLoop_wp2 (E := NF 0) b1 b2 σ h1 h2).1

omit [NumOps F] in
theorem skipToColonLoop_not_exhausted (b : Nat) (σ : St F) (hb : rem σ < b)
    (hl : σ.nesting ≤ Extracted.nestingLimit) : NoFuelErr (skipToColonLoop b) σ :=
  noFuelErr_of_wp (skipToColonLoop_wp2 (E := NF 0) b b σ hb hb).2 ⟨Nat.zero_le _, hl⟩

omit [NumOps F] in
theorem defStatement_noFuelErr (σ : St F) (hl : σ.nesting ≤ Extracted.nestingLimit) :
    NoFuelErr (defStatement (F := F)) σ :=
  noFuelErr_of_sat (sat_defStatement (E := NF 0)) ⟨Nat.zero_le _, hl⟩

/-! ### the same for the model's own evaluator, at every fuel

  Budget irrelevance needs no condition on the fuel (only the frame of
  `evalN n`); budget non-exhaustion is about `outOfFuel`, which `evalN n` itself
  raises when `n` is too small, hence the window `nestingLimit + 1 ≤ n + nesting`. -/

section evalN
variable (n : Nat)

theorem arrayIndexLoop_evalN_budget_irrelevant (b1 b2 : Nat) (acc : List Nat) (σ : St F)
    (h1 : rem σ < b1) (h2 : rem σ < b2) :
    arrayIndexLoop (evalN n) b1 acc σ = arrayIndexLoop (evalN n) b2 acc σ :=
  arrayIndexLoop_budget_irrelevant (evOK_evalN n) b1 b2 acc σ h1 h2

theorem ifSkipLoop_evalN_budget_irrelevant (b1 b2 : Nat) (σ : St F) (h1 : rem σ < b1) (h2 : rem σ < b2) :
    ifSkipLoop (evalN n) b1 σ = ifSkipLoop (evalN n) b2 σ :=
  ifSkipLoop_budget_irrelevant (evOK_evalN n) b1 b2 σ h1 h2

theorem readLoop_evalN_budget_irrelevant (b1 b2 : Nat) (σ : St F) (h1 : rem σ < b1) (h2 : rem σ < b2) :
    readLoop (evalN n) b1 σ = readLoop (evalN n) b2 σ :=
  readLoop_budget_irrelevant (evOK_evalN n) b1 b2 σ h1 h2

theorem printLoop_evalN_budget_irrelevant (b1 b2 : Nat) (semi : Bool) (acc : Str) (σ : St F)
    (h1 : rem σ < b1) (h2 : rem σ < b2) :
    printLoop (evalN n) b1 semi acc σ = printLoop (evalN n) b2 semi acc σ :=
  printLoop_budget_irrelevant (evOK_evalN n) b1 b2 semi acc σ h1 h2

variable {n}

theorem arrayIndexLoop_evalN_not_exhausted (b : Nat) (acc : List Nat) (σ : St F) (hb : rem σ < b)
    (h1 : Extracted.nestingLimit + 1 ≤ n + σ.nesting) (h2 : σ.nesting ≤ Extracted.nestingLimit) :
    NoFuelErr (arrayIndexLoop (evalN n) b acc) σ :=
  arrayIndexLoop_not_exhausted (evOK_evalN n) b acc σ hb (inWindow_evalN h1 h2)

theorem ifSkipLoop_evalN_not_exhausted (b : Nat) (σ : St F) (hb : rem σ < b)
    (h1 : Extracted.nestingLimit + 1 ≤ n + σ.nesting) (h2 : σ.nesting ≤ Extracted.nestingLimit) :
    NoFuelErr (ifSkipLoop (evalN n) b) σ :=
  ifSkipLoop_not_exhausted (evOK_evalN n) b σ hb (inWindow_evalN h1 h2)

theorem readLoop_evalN_not_exhausted (b : Nat) (σ : St F) (hb : rem σ < b)
    (h1 : Extracted.nestingLimit + 1 ≤ n + σ.nesting) (h2 : σ.nesting ≤ Extracted.nestingLimit) :
    NoFuelErr (readLoop (evalN n) b) σ :=
  readLoop_not_exhausted (evOK_evalN n) b σ hb (inWindow_evalN h1 h2)

theorem printLoop_evalN_not_exhausted (b : Nat) (semi : Bool) (acc : Str) (σ : St F) (hb : rem σ < b)
    (h1 : Extracted.nestingLimit + 1 ≤ n + σ.nesting) (h2 : σ.nesting ≤ Extracted.nestingLimit) :
    NoFuelErr (printLoop (evalN n) b semi acc) σ :=
  printLoop_not_exhausted (evOK_evalN n) b semi acc σ hb (inWindow_evalN h1 h2)

/-- the operator tiers of `evalN n`: each `level` (hence each `levelLoop` it
    runs with `lineBudget`) is free of `outOfFuel` in the window -/
theorem orExpr_evalN_noFuelErr (σ : St F)
    (h1 : Extracted.nestingLimit + 1 ≤ n + σ.nesting) (h2 : σ.nesting ≤ Extracted.nestingLimit) :
    NoFuelErr (orExpr (evalN n)) σ :=
  orExpr_noFuelErr (evOK_evalN n) σ (inWindow_evalN h1 h2)

end evalN

/-! ## 3. the recursion fuel -/

/-- **Expressions.**  From a state whose nesting counter `k` is within the cap,
    `evalN n` evaluates an expression without running out of fuel as soon as
    `nestingLimit + 1 ≤ n + k`: every recursive entry passes through `nested`,
    which raises `k` and refuses at the cap with OUT OF MEMORY first. -/
theorem evalN_expr_not_outOfFuel (n : Nat) (σ : St F)
    (h1 : Extracted.nestingLimit + 1 ≤ n + σ.nesting) (h2 : σ.nesting ≤ Extracted.nestingLimit) :
    NoFuelErr (evalN n).expr σ :=
  noFuelErr_of_wp ((evOK_evalN n).expr σ) (inWindow_evalN h1 h2)

/-- **Statements**: one more unit, because `stmtBody` is entered without `nested`. -/
theorem evalN_stmt_not_outOfFuel (n : Nat) (σ : St F)
    (h1 : Extracted.nestingLimit + 2 ≤ n + σ.nesting) (h2 : σ.nesting ≤ Extracted.nestingLimit) :
    NoFuelErr (evalN n).stmt σ :=
  noFuelErr_of_wp ((evOK_evalN n).stmt σ) ⟨by omega, h2⟩

/-- the statement entry of the host API, `stmtBody (evalN fuel)` -/
theorem stmtBody_evalN_not_outOfFuel (fuel : Nat) (σ : St F)
    (h1 : Extracted.nestingLimit + 1 ≤ fuel + σ.nesting) (h2 : σ.nesting ≤ Extracted.nestingLimit) :
    NoFuelErr (stmtBody (evalN fuel)) σ :=
  noFuelErr_of_sat (sat_stmtBody (evOK_evalN fuel)) (inWindow_evalN h1 h2)

/-- `defaultFuel` is enough from every state within the cap — in particular
    from the reachable ones, where the counter is 0 (C01). -/
theorem defaultFuel_expr_not_outOfFuel (σ : St F) (h : σ.nesting ≤ Extracted.nestingLimit) :
    NoFuelErr (evalN defaultFuel).expr σ :=
  evalN_expr_not_outOfFuel defaultFuel σ (by unfold defaultFuel; omega) h

theorem defaultFuel_stmt_not_outOfFuel (σ : St F) (h : σ.nesting ≤ Extracted.nestingLimit) :
    NoFuelErr (evalN defaultFuel).stmt σ :=
  evalN_stmt_not_outOfFuel defaultFuel σ (by unfold defaultFuel; omega) h

theorem defaultFuel_stmtBody_not_outOfFuel (σ : St F) (h : σ.nesting ≤ Extracted.nestingLimit) :
    NoFuelErr (stmtBody (evalN defaultFuel)) σ :=
  stmtBody_evalN_not_outOfFuel defaultFuel σ (by unfold defaultFuel; omega) h

/-- …and any fuel at or above `nestingLimit + 2` behaves like it, at nesting 0. -/
theorem enough_fuel_not_outOfFuel (n : Nat) (hn : Extracted.nestingLimit + 2 ≤ n) (σ : St F)
    (h : σ.nesting = 0) : NoFuelErr (evalN n).expr σ ∧ NoFuelErr (evalN n).stmt σ :=
  ⟨evalN_expr_not_outOfFuel n σ (by omega) (by omega), evalN_stmt_not_outOfFuel n σ (by omega) (by omega)⟩

/-! ### the host API: no call ever reports the model's fuel error -/

/-- `start_evaluating`, with any fuel in the window -/
theorem startEvaluating_not_outOfFuel (fuel : Nat) (line : Str) (σ : St F)
    (h1 : Extracted.nestingLimit + 1 ≤ fuel + σ.nesting) (h2 : σ.nesting ≤ Extracted.nestingLimit) :
    NoFuelErr (startEvaluating fuel line) σ :=
  noFuelErr_of_sat (sat_startEvaluating fuel (Nat.le_refl _) line) (inWindow_evalN h1 h2)

/-- `continue_evaluating` -/
theorem continueEvaluating_not_outOfFuel (fuel : Nat) (σ : St F)
    (h1 : Extracted.nestingLimit + 1 ≤ fuel + σ.nesting) (h2 : σ.nesting ≤ Extracted.nestingLimit) :
    NoFuelErr (continueEvaluating fuel) σ :=
  noFuelErr_of_sat (sat_continueEvaluating fuel (Nat.le_refl _)) (inWindow_evalN h1 h2)

/-- With `defaultFuel`, from the states the host can reach (nesting counter 0,
    C01): whatever line is submitted, the outcome is never `outOfFuel` — the
    fuel and the budgets of the model are invisible. -/
theorem host_never_outOfFuel (σ : St F) (h : σ.nesting = 0) :
    (∀ line, NoFuelErr (startEvaluating defaultFuel line) σ) ∧ NoFuelErr (continueEvaluating defaultFuel) σ :=
  ⟨fun line => startEvaluating_not_outOfFuel defaultFuel line σ (by unfold defaultFuel; omega) (by omega),
   continueEvaluating_not_outOfFuel defaultFuel σ (by unfold defaultFuel; omega) (by omega)⟩

/-- The bound for expressions is sharp: with `n + k = nestingLimit` the fuel
    does run out (an opening parenthesis, one level below the cap, fuel 1). -/
example : ∃ σ' : St Unit,
    (evalN (F := Unit) 1).expr { imm := [.kw .LeftParen, .num ()], nesting := Extracted.nestingLimit - 1 } =
      .err { err := .outOfFuel } σ' :=
  ⟨_, rfl⟩

end Abasic.Props.C01
