import Abasic.Ref.LspMulti
import Abasic.Props.C20Server
/-
  C20, the server loop over SEVERAL documents (Abasic/Ref/LspMulti.lean, `mStep` / `mRun`,
  a transliteration of `main_loop` in abasic-lsp/src/main.rs with its
  `files: HashMap<String, SourceFileAnalyzer>`).
-/
namespace Abasic.Props.C20
open Abasic

variable {F : Type} [NumOps F]

/-! ### the map -/

theorem mLookup_filter_ne (u v : Str) (m : MState) (h : v ≠ u) :
    mLookup v (m.filter (fun p => p.1 ≠ u)) = mLookup v m := by
  induction m with
  | nil => rfl
  | cons p m ih =>
    obtain ⟨k, t⟩ := p
    by_cases hk : k = u
    · have hkv : k ≠ v := fun e => h (e ▸ hk)
      simp only [List.filter_cons, hk, ne_eq, not_true_eq_false, decide_false, Bool.false_eq_true, if_false]
      rw [ih]
      subst hk
      simp only [mLookup, hkv, if_false]
    · simp only [List.filter_cons, ne_eq, hk, not_false_eq_true, decide_true, if_true, mLookup, ih]

/-- `insert` then `get` with the same key: the new text -/
theorem mLookup_insert_same (u t : Str) (m : MState) : mLookup u (mInsert u t m) = some t := by
  simp only [mInsert, mLookup, if_true]

/-- `insert` under one key does not touch any other key — keys compared as raw strings -/
theorem mLookup_insert_other (u v t : Str) (m : MState) (h : v ≠ u) :
    mLookup v (mInsert u t m) = mLookup v m := by
  have hu : u ≠ v := fun e => h e.symm
  simp only [mInsert, mLookup, hu, if_false]
  exact mLookup_filter_ne u v m h

/-- after an insert the key occurs exactly once (the old entry is gone, not shadowed) -/
theorem mInsert_replaces (u t : Str) (m : MState) :
    ((mInsert u t m).filter (fun p => p.1 = u)) = [(u, t)] := by
  simp only [mInsert, List.filter_cons, decide_true, if_true, List.filter_filter]
  congr 1
  rw [List.filter_eq_nil_iff]
  intro p _
  by_cases hp : p.1 = u <;> simp [hp]

/-! ### the specification side: the latest text of ONE key -/

/-- the texts an event carries FOR KEY `u`, in order -/
def mSubmitted (u : Str) : MEvent → List Str
  | .open uri text => if uri = u then [text] else []
  | .change uri texts => if uri = u then texts else []
  | .close _ => []
  | .tokens _ => []
  | .hello _ => []

/-- the last text carried for key `u` by any event of the history: the text of the last
    `didOpen` / non-empty `didChange` (its last content change) for that key -/
def mLastSubmitted (u : Str) (evs : List MEvent) : Option Str := (evs.flatMap (mSubmitted u)).getLast?

/-- the latest document of key `u`: the last text submitted for it, else what was stored -/
def mLatest (u : Str) (m : MState) (evs : List MEvent) : Option Str :=
  match mLastSubmitted u evs with
  | some t => some t
  | none => mLookup u m

theorem mSubmitted_proj (u : Str) (e : MEvent) :
    mSubmitted u e = (match e.proj u with | some e' => submitted e' | none => []) := by
  cases e with
  | «open» uri text => by_cases h : uri = u <;> simp [mSubmitted, MEvent.proj, h, submitted]
  | change uri texts => by_cases h : uri = u <;> simp [mSubmitted, MEvent.proj, h, submitted]
  | close uri => by_cases h : uri = u <;> simp [mSubmitted, MEvent.proj, h, submitted]
  | tokens uri => by_cases h : uri = u <;> simp [mSubmitted, MEvent.proj, h, submitted]
  | hello p => simp [mSubmitted, MEvent.proj]

theorem flatMap_proj (u : Str) (evs : List MEvent) :
    evs.flatMap (mSubmitted u) = (evs.filterMap (MEvent.proj u)).flatMap submitted := by
  induction evs with
  | nil => rfl
  | cons e es ih =>
    rw [List.flatMap_cons, List.filterMap_cons, ih, mSubmitted_proj]
    cases e.proj u <;> simp

/-- the latest text of key `u` is the one-document `latest` of the projected history -/
theorem mLatest_proj (u : Str) (m : MState) (evs : List MEvent) :
    mLatest u m evs = latest (mLookup u m) (evs.filterMap (MEvent.proj u)) := by
  simp only [mLatest, latest, mLastSubmitted, lastSubmitted, flatMap_proj]
  cases (List.flatMap submitted (List.filterMap (MEvent.proj u) evs)).getLast? <;> rfl

theorem mLatest_nil (u : Str) (m : MState) : mLatest u m [] = mLookup u m := rfl

theorem mLatest_snoc (u : Str) (m : MState) (evs : List MEvent) (e : MEvent) :
    mLatest u m (evs ++ [e]) =
      match (mSubmitted u e).getLast? with
      | some t => some t
      | none => mLatest u m evs := by
  unfold mLatest mLastSubmitted
  rw [List.flatMap_append, List.getLast?_append]
  simp only [List.flatMap_cons, List.flatMap_nil, List.append_nil]
  cases (mSubmitted u e).getLast? <;> cases (List.flatMap (mSubmitted u) evs).getLast? <;> rfl

theorem proj_none_iff (u : Str) (e : MEvent) : e.proj u = none ↔ e.key ≠ some u := by
  cases e with
  | «open» uri text => by_cases h : uri = u <;> simp [MEvent.proj, MEvent.key, h]
  | change uri texts => by_cases h : uri = u <;> simp [MEvent.proj, MEvent.key, h]
  | close uri => by_cases h : uri = u <;> simp [MEvent.proj, MEvent.key, h]
  | tokens uri => by_cases h : uri = u <;> simp [MEvent.proj, MEvent.key, h]
  | hello p => simp [MEvent.proj, MEvent.key]

/-! ### one step -/

/-- storing a text under a key never fails: the text is inserted for that key and its
    diagnostics are published for that key -/
theorem mUpdate_eq (fuel : Nat) (m : MState) (uri text : Str) :
    ∃ ds, lspDiagnostics (lspAnalyze (F := F) fuel text) = some ds ∧
      mUpdate F fuel m uri text = some (mInsert uri text m, .publish uri ds) := by
  obtain ⟨ds, hds, _⟩ := diags_in_bounds (F := F) fuel text
  refine ⟨ds, hds, ?_⟩
  unfold mUpdate
  simp only [C05.lsp_total (F := F) fuel text, Option.isSome_none, Bool.false_eq_true, if_false, hds]

/-- what one event does, for every state and every event -/
def StepOk (F : Type) [NumOps F] (fuel : Nat) (m : MState) (m' : MState) (o : MOut) : MEvent → Prop
  | .open uri text =>
    ∃ ds, lspDiagnostics (lspAnalyze (F := F) fuel text) = some ds ∧ m' = mInsert uri text m ∧ o = .publish uri ds
  | .change uri texts =>
    match texts.getLast? with
    | some text =>
      ∃ ds, lspDiagnostics (lspAnalyze (F := F) fuel text) = some ds ∧ m' = mInsert uri text m ∧ o = .publish uri ds
    | none => m' = m ∧ o = .none
  | .close _ => m' = m ∧ o = .none
  | .tokens uri =>
    m' = m ∧
      match mLookup uri m with
      | some text => ∃ ts, semanticTokens (lspAnalyze (F := F) fuel text) = some ts ∧ o = .tokens ts
      | none => o = .error
  | .hello _ => m' = m ∧ o = .none

theorem mStep_spec (fuel : Nat) (m : MState) (e : MEvent) :
    ∃ m' o, mStep F fuel m e = some (m', o) ∧ StepOk F fuel m m' o e := by
  cases e with
  | «open» uri text =>
    obtain ⟨ds, hds, hu⟩ := mUpdate_eq (F := F) fuel m uri text
    exact ⟨_, _, hu, ds, hds, rfl, rfl⟩
  | change uri texts =>
    cases hl : texts.getLast? with
    | none => exact ⟨m, .none, by simp only [mStep, hl], by simp only [StepOk, hl, and_self]⟩
    | some text =>
      obtain ⟨ds, hds, hu⟩ := mUpdate_eq (F := F) fuel m uri text
      refine ⟨_, _, by simp only [mStep, hl]; exact hu, ?_⟩
      simp only [StepOk, hl]
      exact ⟨ds, hds, trivial, rfl⟩
  | close uri => exact ⟨m, .none, rfl, rfl, rfl⟩
  | tokens uri =>
    cases hd : mLookup uri m with
    | none => exact ⟨m, .error, by simp only [mStep, hd], rfl, by simp only [hd]⟩
    | some text =>
      obtain ⟨ts, hts, _⟩ := semantic_tokens_ok (F := F) fuel text
      exact ⟨m, .tokens ts, by simp only [mStep, hd, hts], rfl, by simp only [hd]; exact ⟨ts, hts, rfl⟩⟩
  | hello p => exact ⟨m, .none, rfl, rfl, rfl⟩

theorem mStep_ok (fuel : Nat) (m m' : MState) (e : MEvent) (o : MOut) (h : mStep F fuel m e = some (m', o)) :
    StepOk F fuel m m' o e := by
  obtain ⟨m1, o1, h1, hs⟩ := mStep_spec (F := F) fuel m e
  rw [h1] at h
  simp only [Option.some.injEq, Prod.mk.injEq] at h
  obtain ⟨rfl, rfl⟩ := h
  exact hs

theorem mStep_total (fuel : Nat) (m : MState) (e : MEvent) : mStep F fuel m e ≠ none := by
  obtain ⟨m', o, h, _⟩ := mStep_spec (F := F) fuel m e
  rw [h]; simp

/-- the only error ANSWER of the server: a tokens request for a key without entry is
    answered with `RequestFailed` — and the server carries on, state unchanged -/
theorem error_iff_unknown (fuel : Nat) (m m' : MState) (e : MEvent) (h : mStep F fuel m e = some (m', .error)) :
    ∃ u, e = .tokens u ∧ mLookup u m = none ∧ m' = m := by
  have hs := mStep_ok (F := F) fuel m m' e .error h
  cases e with
  | «open» uri text => obtain ⟨ds, _, _, ho⟩ := hs; cases ho
  | change uri texts =>
    simp only [StepOk] at hs
    cases hl : texts.getLast? with
    | none => rw [hl] at hs; cases hs.2
    | some t => rw [hl] at hs; obtain ⟨ds, _, _, ho⟩ := hs; cases ho
  | close uri => cases hs.2
  | tokens uri =>
    refine ⟨uri, rfl, ?_, hs.1⟩
    have h2 := hs.2
    cases hd : mLookup uri m with
    | none => rfl
    | some t => rw [hd] at h2; obtain ⟨ts, _, ho⟩ := h2; cases ho
  | hello p => cases hs.2

theorem tokens_unknown (fuel : Nat) (m : MState) (u : Str) (h : mLookup u m = none) :
    mStep F fuel m (.tokens u) = some (m, .error) := by
  simp only [mStep, h]

/-! ### runs -/

theorem mRun_cons_some (fuel : Nat) (m m' : MState) (e : MEvent) (es : List MEvent) (outs : List MOut)
    (h : mRun F fuel m (e :: es) = some (m', outs)) :
    ∃ m1 o os, mStep F fuel m e = some (m1, o) ∧ mRun F fuel m1 es = some (m', os) ∧ outs = o :: os := by
  simp only [mRun] at h
  cases hs : mStep F fuel m e with
  | none => rw [hs] at h; cases h
  | some p =>
    obtain ⟨m1, o⟩ := p
    rw [hs] at h
    simp only at h
    cases hr : mRun F fuel m1 es with
    | none => rw [hr] at h; cases h
    | some q =>
      obtain ⟨m2, os⟩ := q
      rw [hr] at h
      simp only [Option.some.injEq, Prod.mk.injEq] at h
      exact ⟨m1, o, os, rfl, by rw [hr, h.1], h.2.symm⟩

theorem mRun_cons_of (fuel : Nat) (m m1 m' : MState) (e : MEvent) (es : List MEvent) (o : MOut) (os : List MOut)
    (h1 : mStep F fuel m e = some (m1, o)) (h2 : mRun F fuel m1 es = some (m', os)) :
    mRun F fuel m (e :: es) = some (m', o :: os) := by
  simp only [mRun, h1, h2]

theorem mRun_length (fuel : Nat) (m m' : MState) (evs : List MEvent) (outs : List MOut)
    (h : mRun F fuel m evs = some (m', outs)) : outs.length = evs.length := by
  induction evs generalizing m outs with
  | nil => simp only [mRun, Option.some.injEq, Prod.mk.injEq] at h; rw [← h.2]; rfl
  | cons e es ih =>
    obtain ⟨m1, o, os, _, h2, rfl⟩ := mRun_cons_some fuel m m' e es outs h
    simp [ih m1 os h2]

/-- **multi_total.**  No start state and no event sequence — any number of keys, any
    interleaving, re-opens, closes, tokens requests for keys never opened, handshakes —
    makes the model server fail; every event produces exactly one output.  (The one case
    where main.rs answers with an error RESPONSE, a tokens request for a key without entry,
    is the output `.error`, not a failure: `error_iff_unknown`, `errors_are_unknown_keys`.) -/
theorem multi_total (fuel : Nat) (m : MState) (evs : List MEvent) :
    ∃ m' outs, mRun F fuel m evs = some (m', outs) ∧ outs.length = evs.length := by
  induction evs generalizing m with
  | nil => exact ⟨m, [], rfl, rfl⟩
  | cons e es ih =>
    obtain ⟨m1, o, h1, _⟩ := mStep_spec (F := F) fuel m e
    obtain ⟨m2, os, h2, hl⟩ := ih m1
    exact ⟨m2, o :: os, mRun_cons_of fuel m m1 m2 e es o os h1 h2, by simp [hl]⟩

theorem multi_never_fails (fuel : Nat) (m : MState) (evs : List MEvent) : mRun F fuel m evs ≠ none := by
  obtain ⟨m', outs, h, _⟩ := multi_total (F := F) fuel m evs
  rw [h]; simp

theorem mRun_append (fuel : Nat) (m m1 m2 : MState) (es es' : List MEvent) (os os' : List MOut)
    (h1 : mRun F fuel m es = some (m1, os)) (h2 : mRun F fuel m1 es' = some (m2, os')) :
    mRun F fuel m (es ++ es') = some (m2, os ++ os') := by
  induction es generalizing m os with
  | nil =>
    simp only [mRun, Option.some.injEq, Prod.mk.injEq] at h1
    obtain ⟨rfl, rfl⟩ := h1
    exact h2
  | cons e es ih =>
    obtain ⟨ma, o, osa, hs, hr, rfl⟩ := mRun_cons_some fuel m m1 e es os h1
    exact mRun_cons_of fuel m ma m2 e (es ++ es') o (osa ++ os') hs (ih ma osa hr)

/-- the run up to position `i`, the step at position `i`, and its output -/
theorem mRun_at (fuel : Nat) (m m' : MState) (evs : List MEvent) (outs : List MOut)
    (h : mRun F fuel m evs = some (m', outs)) (i : Nat) (e : MEvent) (hi : evs[i]? = some e) :
    ∃ m1 os1 m2 o, mRun F fuel m (evs.take i) = some (m1, os1) ∧ mStep F fuel m1 e = some (m2, o) ∧
      outs[i]? = some o := by
  induction evs generalizing m outs i with
  | nil => simp at hi
  | cons e0 es ih =>
    obtain ⟨ma, o, os, hs, hr, rfl⟩ := mRun_cons_some fuel m m' e0 es outs h
    cases i with
    | zero =>
      simp only [List.getElem?_cons_zero, Option.some.injEq] at hi
      subst hi
      exact ⟨m, [], ma, o, rfl, hs, rfl⟩
    | succ i =>
      simp only [List.getElem?_cons_succ] at hi
      obtain ⟨m1, os1, m2, o', h1, h2, h3⟩ := ih ma os hr i hi
      exact ⟨m1, o :: os1, m2, o', by simpa using mRun_cons_of fuel m ma m1 e0 (es.take i) o os1 hs h1, h2,
        by simpa using h3⟩

/-! ### refinement: the events of one key are a run of the one-document machine -/

/-- one step, an event FOR key `u`: exactly a step of `lspStep` on the entry of `u` -/
theorem mStep_refines (fuel : Nat) (u : Str) (m : MState) (e : MEvent) (e' : LspEvent) (he : e.proj u = some e') :
    (mStep F fuel m e).map (fun r => (({ doc := mLookup u r.1 } : LspState), r.2.forget)) =
      lspStep F fuel { doc := mLookup u m } e' := by
  cases e with
  | «open» uri text =>
    by_cases hu : uri = u
    · subst hu
      simp only [MEvent.proj, if_true, Option.some.injEq] at he
      subst he
      simp only [mStep, lspStep, mUpdate, lspUpdate]
      by_cases hp : (lspAnalyze (F := F) fuel text).panicked.isSome = true
      · simp only [hp, if_true, Option.map_none]
      · simp only [hp, Bool.false_eq_true, if_false]
        cases lspDiagnostics (lspAnalyze (F := F) fuel text) with
        | none => rfl
        | some ds => simp only [Option.map_some, mLookup_insert_same, MOut.forget]
    · simp [MEvent.proj, hu] at he
  | change uri texts =>
    by_cases hu : uri = u
    · subst hu
      simp only [MEvent.proj, if_true, Option.some.injEq] at he
      subst he
      simp only [mStep, lspStep]
      cases texts.getLast? with
      | none => simp only [Option.map_some, MOut.forget]
      | some text =>
        simp only [mUpdate, lspUpdate]
        by_cases hp : (lspAnalyze (F := F) fuel text).panicked.isSome = true
        · simp only [hp, if_true, Option.map_none]
        · simp only [hp, Bool.false_eq_true, if_false]
          cases lspDiagnostics (lspAnalyze (F := F) fuel text) with
          | none => rfl
          | some ds => simp only [Option.map_some, mLookup_insert_same, MOut.forget]
    · simp [MEvent.proj, hu] at he
  | close uri =>
    by_cases hu : uri = u
    · subst hu
      simp only [MEvent.proj, if_true, Option.some.injEq] at he
      subst he
      simp only [mStep, lspStep, Option.map_some, MOut.forget]
    · simp [MEvent.proj, hu] at he
  | tokens uri =>
    by_cases hu : uri = u
    · subst hu
      simp only [MEvent.proj, if_true, Option.some.injEq] at he
      subst he
      simp only [mStep, lspStep]
      cases hd : mLookup uri m with
      | none => simp only [Option.map_some, MOut.forget, hd]
      | some text =>
        simp only
        cases semanticTokens (lspAnalyze (F := F) fuel text) with
        | none => rfl
        | some ts => simp only [Option.map_some, MOut.forget, hd]
    · simp [MEvent.proj, hu] at he
  | hello p => simp [MEvent.proj] at he

/-- one step, an event NOT for key `u` (another key, or the handshake): the entry of `u`
    is untouched -/
theorem mStep_frame (fuel : Nat) (u : Str) (m m' : MState) (e : MEvent) (o : MOut) (he : e.proj u = none)
    (h : mStep F fuel m e = some (m', o)) : mLookup u m' = mLookup u m := by
  have hs := mStep_ok (F := F) fuel m m' e o h
  cases e with
  | «open» uri text =>
    have hu : u ≠ uri := by
      intro e; subst e; simp [MEvent.proj] at he
    obtain ⟨ds, _, rfl, _⟩ := hs
    exact mLookup_insert_other uri u text m hu
  | change uri texts =>
    have hu : u ≠ uri := by
      intro e; subst e; simp [MEvent.proj] at he
    simp only [StepOk] at hs
    cases hl : texts.getLast? with
    | none => rw [hl] at hs; rw [hs.1]
    | some t =>
      rw [hl] at hs
      obtain ⟨ds, _, rfl, _⟩ := hs
      exact mLookup_insert_other uri u t m hu
  | close uri => rw [hs.1]
  | tokens uri => rw [hs.1]
  | hello p => rw [hs.1]

/-- **Refinement.**  Project any event sequence to the events of one key `u` (raw string
    equality): what the multi-document server stores and answers for `u` is exactly a run
    of the one-document machine `lspStep` of Abasic/Ref/Lsp.lean, started from the entry
    of `u`.  Hence every theorem of C20Server transfers to every key. -/
theorem multi_refines (fuel : Nat) (u : Str) (m m' : MState) (evs : List MEvent) (outs : List MOut)
    (h : mRun F fuel m evs = some (m', outs)) :
    lspRun F fuel { doc := mLookup u m } (evs.filterMap (MEvent.proj u)) =
      some ({ doc := mLookup u m' }, projOuts u evs outs) := by
  induction evs generalizing m outs with
  | nil =>
    simp only [mRun, Option.some.injEq, Prod.mk.injEq] at h
    obtain ⟨rfl, rfl⟩ := h
    rfl
  | cons e es ih =>
    obtain ⟨m1, o, os, hs, hr, rfl⟩ := mRun_cons_some fuel m m' e es outs h
    have ih1 := ih m1 os hr
    cases hp : e.proj u with
    | none =>
      rw [List.filterMap_cons, hp]
      simp only [projOuts, hp, Option.isSome_none, Bool.false_eq_true, if_false]
      rw [← mStep_frame fuel u m m1 e o hp hs]
      exact ih1
    | some e' =>
      rw [List.filterMap_cons, hp]
      simp only [projOuts, hp, Option.isSome_some, if_true]
      have hst := mStep_refines (F := F) fuel u m e e' hp
      rw [hs] at hst
      simp only [Option.map_some] at hst
      simp only [lspRun, ← hst, ih1]

/-! ### the entry of each key is the latest text sent for THAT key -/

/-- **multi_doc_is_latest.**  After any event sequence from any state, the entry of EVERY
    key `u` is the text of the last `didOpen` / non-empty `didChange` (its last content
    change) whose URI string is exactly `u`; without any, what was stored before (nothing,
    from the empty start state).  Events for other keys — differing in case or
    percent-escaping included — `didClose` and the handshake play no role. -/
theorem multi_doc_is_latest (fuel : Nat) (m m' : MState) (evs : List MEvent) (outs : List MOut)
    (h : mRun F fuel m evs = some (m', outs)) (u : Str) : mLookup u m' = mLatest u m evs := by
  have hr := multi_refines (F := F) fuel u m m' evs outs h
  have := doc_is_latest (F := F) fuel _ _ _ _ hr
  rw [mLatest_proj]
  exact this

/-! ### frame: keys are independent -/

/-- an event for another key (or no key) does not change the entry of `v` -/
theorem multi_independent_state (fuel : Nat) (v : Str) (m m' : MState) (e : MEvent) (o : MOut)
    (he : e.key ≠ some v) (h : mStep F fuel m e = some (m', o)) : mLookup v m' = mLookup v m :=
  mStep_frame fuel v m m' e o ((proj_none_iff v e).2 he) h

/-- what the server answers to an event for key `v`, and the entry of `v` afterwards,
    depend on the state only through the entry of `v` -/
theorem multi_independent_answer (fuel : Nat) (v : Str) (m1 m2 m1' m2' : MState) (e : MEvent) (o1 o2 : MOut)
    (hm : mLookup v m1 = mLookup v m2) (he : e.key = some v)
    (h1 : mStep F fuel m1 e = some (m1', o1)) (h2 : mStep F fuel m2 e = some (m2', o2)) :
    o1 = o2 ∧ mLookup v m1' = mLookup v m2' := by
  have s1 := mStep_ok (F := F) fuel m1 m1' e o1 h1
  have s2 := mStep_ok (F := F) fuel m2 m2' e o2 h2
  cases e with
  | «open» uri text =>
    simp only [MEvent.key, Option.some.injEq] at he
    subst he
    obtain ⟨ds1, hd1, rfl, rfl⟩ := s1
    obtain ⟨ds2, hd2, rfl, rfl⟩ := s2
    rw [hd1] at hd2
    simp only [Option.some.injEq] at hd2
    subst hd2
    exact ⟨rfl, by rw [mLookup_insert_same, mLookup_insert_same]⟩
  | change uri texts =>
    simp only [MEvent.key, Option.some.injEq] at he
    subst he
    simp only [StepOk] at s1 s2
    cases hl : texts.getLast? with
    | none =>
      rw [hl] at s1 s2
      obtain ⟨rfl, rfl⟩ := s1
      obtain ⟨rfl, rfl⟩ := s2
      exact ⟨rfl, hm⟩
    | some t =>
      rw [hl] at s1 s2
      obtain ⟨ds1, hd1, rfl, rfl⟩ := s1
      obtain ⟨ds2, hd2, rfl, rfl⟩ := s2
      rw [hd1] at hd2
      simp only [Option.some.injEq] at hd2
      subst hd2
      exact ⟨rfl, by rw [mLookup_insert_same, mLookup_insert_same]⟩
  | close uri =>
    obtain ⟨rfl, rfl⟩ := s1
    obtain ⟨rfl, rfl⟩ := s2
    exact ⟨rfl, hm⟩
  | tokens uri =>
    simp only [MEvent.key, Option.some.injEq] at he
    subst he
    obtain ⟨rfl, t1⟩ := s1
    obtain ⟨rfl, t2⟩ := s2
    refine ⟨?_, hm⟩
    rw [← hm] at t2
    cases hd : mLookup uri m1' with
    | none => rw [hd] at t1 t2; rw [t1, t2]
    | some t =>
      rw [hd] at t1 t2
      obtain ⟨ts1, hs1, rfl⟩ := t1
      obtain ⟨ts2, hs2, rfl⟩ := t2
      rw [hs1] at hs2
      simp only [Option.some.injEq] at hs2
      rw [hs2]
  | hello p => simp [MEvent.key] at he

/-- **multi_independent** (frame, whole runs).  Two runs whose start states agree on key
    `v` and whose event sequences contain the same events FOR `v` in the same order —
    whatever else happens in between for other keys — end with the same entry for `v` and
    send the same answers to the events for `v`. -/
theorem multi_independent (fuel : Nat) (v : Str) (m1 m2 m1' m2' : MState) (evs1 evs2 : List MEvent)
    (outs1 outs2 : List MOut) (hm : mLookup v m1 = mLookup v m2)
    (hp : evs1.filterMap (MEvent.proj v) = evs2.filterMap (MEvent.proj v))
    (h1 : mRun F fuel m1 evs1 = some (m1', outs1)) (h2 : mRun F fuel m2 evs2 = some (m2', outs2)) :
    mLookup v m1' = mLookup v m2' ∧ projOuts v evs1 outs1 = projOuts v evs2 outs2 := by
  have r1 := multi_refines (F := F) fuel v m1 m1' evs1 outs1 h1
  have r2 := multi_refines (F := F) fuel v m2 m2' evs2 outs2 h2
  rw [hm, hp, r2] at r1
  simp only [Option.some.injEq, Prod.mk.injEq, LspState.mk.injEq] at r1
  exact ⟨r1.1.symm, r1.2.symm⟩

theorem proj_filter_key (v : Str) (evs : List MEvent) :
    (evs.filter (fun e => e.key = some v)).filterMap (MEvent.proj v) = evs.filterMap (MEvent.proj v) := by
  induction evs with
  | nil => rfl
  | cons e es ih =>
    by_cases hk : e.key = some v
    · simp only [List.filter_cons, hk, decide_true, if_true, List.filterMap_cons, ih]
    · simp only [List.filter_cons, hk, decide_false, Bool.false_eq_true, if_false, List.filterMap_cons,
        (proj_none_iff v e).2 hk, ih]

/-- in particular: deleting ALL events for other keys (and handshakes) from a history
    changes neither the entry of `v` nor any answer to an event for `v` -/
theorem multi_independent_filter (fuel : Nat) (v : Str) (m m' m'' : MState) (evs : List MEvent)
    (outs outs' : List MOut) (h1 : mRun F fuel m evs = some (m', outs))
    (h2 : mRun F fuel m (evs.filter (fun e => e.key = some v)) = some (m'', outs')) :
    mLookup v m' = mLookup v m'' ∧ projOuts v evs outs = projOuts v (evs.filter (fun e => e.key = some v)) outs' :=
  multi_independent fuel v m m m' m'' _ _ outs outs' rfl (proj_filter_key v evs).symm h1 h2

/-! ### every publish and every tokens answer is about the latest text of ITS key -/

/-- **multi_diags_are_messages.**  EVERY `publishDiagnostics` of a run — the output at any
    position `i` — is for the key `u` of the event at that position, which carried a text
    for `u`; that text is the latest text of `u` at that moment (and the entry of `u`);
    the published list is `lspDiagnostics (lspAnalyze fuel text)`, i.e. exactly the
    analyzer's messages for that text, in order, mapped to positions, and every one of them
    lies on an existing line of THAT document with `startCol ≤ endCol ≤` the line's UTF-16
    length. -/
theorem multi_diags_are_messages (fuel : Nat) (m m' : MState) (evs : List MEvent) (outs : List MOut)
    (h : mRun F fuel m evs = some (m', outs)) (i : Nat) (u : Str) (ds : List LspDiag)
    (ho : outs[i]? = some (.publish u ds)) :
    ∃ e text, evs[i]? = some e ∧ e.key = some u ∧ (mSubmitted u e).getLast? = some text ∧
      mLatest u m (evs.take (i + 1)) = some text ∧
      lspDiagnostics (lspAnalyze (F := F) fuel text) = some ds ∧
      ds = (lspAnalyze (F := F) fuel text).messages.filterMap (diagAt (lspAnalyze (F := F) fuel text)) ∧
      ∀ d ∈ ds, d.line < (splitDocumentLines text).length ∧
        ∃ l, (splitDocumentLines text)[d.line]? = some l ∧ d.startCol ≤ d.endCol ∧ d.endCol ≤ utf16Len l := by
  have hlen := mRun_length fuel m m' evs outs h
  have hi : i < evs.length := by
    rw [← hlen]
    exact (List.getElem?_eq_some_iff.1 ho).1
  have hei : evs[i]? = some evs[i] := List.getElem?_eq_getElem hi
  obtain ⟨m1, os1, m2, o, _, hstep, hout⟩ := mRun_at fuel m m' evs outs h i evs[i] hei
  rw [ho] at hout
  simp only [Option.some.injEq] at hout
  subst hout
  have hs := mStep_ok (F := F) fuel m1 m2 evs[i] _ hstep
  -- the facts about a text, once
  have fin : ∀ text, lspDiagnostics (lspAnalyze (F := F) fuel text) = some ds →
      ds = (lspAnalyze (F := F) fuel text).messages.filterMap (diagAt (lspAnalyze (F := F) fuel text)) ∧
      ∀ d ∈ ds, d.line < (splitDocumentLines text).length ∧
        ∃ l, (splitDocumentLines text)[d.line]? = some l ∧ d.startCol ≤ d.endCol ∧ d.endCol ≤ utf16Len l := by
    intro text hds
    refine ⟨diags_filterMap _ ds hds, ?_⟩
    obtain ⟨ds', hds', hb⟩ := diags_in_bounds (F := F) fuel text
    rw [hds] at hds'
    simp only [Option.some.injEq] at hds'
    subst hds'
    have hl := (lspAnalyze_lineTokens (F := F) fuel text).1
    intro d hd
    have := hb d hd
    rw [hl] at this
    exact this
  have htake : evs.take (i + 1) = evs.take i ++ [evs[i]] := by
    rw [List.take_add_one, hei]; rfl
  cases he : evs[i] with
  | «open» uri text =>
    rw [he] at hs
    obtain ⟨ds', hds, _, ho'⟩ := hs
    simp only [MOut.publish.injEq] at ho'
    obtain ⟨rfl, rfl⟩ := ho'
    have hsub : (mSubmitted u (MEvent.open u text)).getLast? = some text := by simp [mSubmitted]
    refine ⟨_, text, by rw [hei, he], rfl, hsub, ?_, hds, fin text hds⟩
    rw [htake, mLatest_snoc, he, hsub]
  | change uri texts =>
    rw [he] at hs
    simp only [StepOk] at hs
    cases hl : texts.getLast? with
    | none => rw [hl] at hs; cases hs.2
    | some text =>
      rw [hl] at hs
      obtain ⟨ds', hds, _, ho'⟩ := hs
      simp only [MOut.publish.injEq] at ho'
      obtain ⟨rfl, rfl⟩ := ho'
      have hsub : (mSubmitted u (MEvent.change u texts)).getLast? = some text := by simp [mSubmitted, hl]
      refine ⟨_, text, by rw [hei, he], rfl, hsub, ?_, hds, fin text hds⟩
      rw [htake, mLatest_snoc, he, hsub]
  | close uri => rw [he] at hs; cases hs.2
  | tokens uri =>
    rw [he] at hs
    have h2 := hs.2
    cases hd : mLookup uri m1 with
    | none => rw [hd] at h2; cases h2
    | some t => rw [hd] at h2; obtain ⟨ts, _, ho'⟩ := h2; cases ho'
  | hello p => rw [he] at hs; cases hs.2

/-- conversely every `didOpen` and every non-empty `didChange` is answered by a publish for
    its own key with the diagnostics of its (last) text -/
theorem submit_publishes (fuel : Nat) (m m' : MState) (evs : List MEvent) (outs : List MOut)
    (h : mRun F fuel m evs = some (m', outs)) (i : Nat) (e : MEvent) (u text : Str)
    (hi : evs[i]? = some e) (hk : e.key = some u) (ht : (mSubmitted u e).getLast? = some text) :
    ∃ ds, lspDiagnostics (lspAnalyze (F := F) fuel text) = some ds ∧ outs[i]? = some (.publish u ds) := by
  obtain ⟨m1, os1, m2, o, _, hstep, hout⟩ := mRun_at fuel m m' evs outs h i e hi
  have hs := mStep_ok (F := F) fuel m1 m2 e o hstep
  cases e with
  | «open» uri t =>
    simp only [MEvent.key, Option.some.injEq] at hk
    subst hk
    simp [mSubmitted] at ht
    subst ht
    obtain ⟨ds, hds, _, rfl⟩ := hs
    exact ⟨ds, hds, hout⟩
  | change uri texts =>
    simp only [MEvent.key, Option.some.injEq] at hk
    subst hk
    simp only [mSubmitted, if_true] at ht
    simp only [StepOk, ht] at hs
    obtain ⟨ds, hds, _, rfl⟩ := hs
    exact ⟨ds, hds, hout⟩
  | close uri => simp [mSubmitted] at ht
  | tokens uri => simp [mSubmitted] at ht
  | hello p => simp [mSubmitted] at ht

/-- **multi_tokens_are_latest.**  A tokens request for key `u` at ANY position of any run
    is answered from the latest text of `u` at that moment — the last text sent under
    exactly that URI string, whatever was sent for other keys: with
    `semanticTokens (lspAnalyze fuel text)`, never a failure of the conversion, and what the
    client decodes from the answer is the tokens at their absolute positions, strictly
    ordered, non-overlapping, inside the lines of THAT text, legend-typed
    (`semantic_tokens_ok`).  It is refused with `RequestFailed` exactly when nothing was
    ever sent for `u`. -/
theorem multi_tokens_are_latest (fuel : Nat) (m m' : MState) (evs : List MEvent) (outs : List MOut)
    (h : mRun F fuel m evs = some (m', outs)) (i : Nat) (u : Str) (hi : evs[i]? = some (.tokens u)) :
    match mLatest u m (evs.take i) with
    | some text =>
      ∃ ts, semanticTokens (lspAnalyze (F := F) fuel text) = some ts ∧ outs[i]? = some (.tokens ts) ∧
        decode ts = absToks (lspAnalyze (F := F) fuel text).lines (lspAnalyze (F := F) fuel text).lineTokens 0 ∧
        WellFormed (splitDocumentLines text) (decode ts)
    | none => outs[i]? = some .error := by
  obtain ⟨m1, os1, m2, o, hpre, hstep, hout⟩ := mRun_at fuel m m' evs outs h i _ hi
  have hlat := multi_doc_is_latest (F := F) fuel m m1 (evs.take i) os1 hpre u
  have hs := mStep_ok (F := F) fuel m1 m2 _ o hstep
  have h2 := hs.2
  rw [← hlat]
  cases hd : mLookup u m1 with
  | none =>
    rw [hd] at h2
    simp only
    rw [hout, h2]
  | some text =>
    rw [hd] at h2
    simp only
    obtain ⟨ts, hts, rfl⟩ := h2
    obtain ⟨ts', hts', hdec, hwf⟩ := semantic_tokens_ok (F := F) fuel text
    rw [hts] at hts'
    simp only [Option.some.injEq] at hts'
    subst hts'
    rw [(lspAnalyze_lineTokens (F := F) fuel text).1] at hwf
    exact ⟨ts, hts, hout, hdec, hwf⟩

/-- every tokens ANSWER in a run answers a tokens request, for the latest text of its key -/
theorem tokens_answers_are_latest (fuel : Nat) (m m' : MState) (evs : List MEvent) (outs : List MOut)
    (h : mRun F fuel m evs = some (m', outs)) (i : Nat) (ts : List SemTok) (ho : outs[i]? = some (.tokens ts)) :
    ∃ u text, evs[i]? = some (.tokens u) ∧ mLatest u m (evs.take i) = some text ∧
      semanticTokens (lspAnalyze (F := F) fuel text) = some ts ∧
      WellFormed (splitDocumentLines text) (decode ts) := by
  have hlen := mRun_length fuel m m' evs outs h
  have hi : i < evs.length := by
    rw [← hlen]
    exact (List.getElem?_eq_some_iff.1 ho).1
  have hei : evs[i]? = some evs[i] := List.getElem?_eq_getElem hi
  obtain ⟨m1, os1, m2, o, _, hstep, hout⟩ := mRun_at fuel m m' evs outs h i evs[i] hei
  rw [ho] at hout
  simp only [Option.some.injEq] at hout
  subst hout
  have hs := mStep_ok (F := F) fuel m1 m2 evs[i] _ hstep
  cases he : evs[i] with
  | «open» uri text => rw [he] at hs; obtain ⟨ds', _, _, ho'⟩ := hs; cases ho'
  | change uri texts =>
    rw [he] at hs
    simp only [StepOk] at hs
    cases hl : texts.getLast? with
    | none => rw [hl] at hs; cases hs.2
    | some text => rw [hl] at hs; obtain ⟨ds', _, _, ho'⟩ := hs; cases ho'
  | close uri => rw [he] at hs; cases hs.2
  | hello p => rw [he] at hs; cases hs.2
  | tokens uri =>
    rw [he] at hei
    have := multi_tokens_are_latest (F := F) fuel m m' evs outs h i uri hei
    cases hl : mLatest uri m (evs.take i) with
    | none => rw [hl] at this; simp only at this; rw [ho] at this; cases this
    | some text =>
      rw [hl] at this
      simp only at this
      obtain ⟨ts', hts, hout', _, hwf⟩ := this
      rw [ho] at hout'
      simp only [Option.some.injEq, MOut.tokens.injEq] at hout'
      subst hout'
      exact ⟨uri, text, hei, hl, hts, hwf⟩

/-- the `.error` outputs of a run are exactly the tokens requests for keys for which
    nothing was ever sent (under that exact string) -/
theorem errors_are_unknown_keys (fuel : Nat) (m m' : MState) (evs : List MEvent) (outs : List MOut)
    (h : mRun F fuel m evs = some (m', outs)) (i : Nat) :
    outs[i]? = some .error ↔ ∃ u, evs[i]? = some (.tokens u) ∧ mLatest u m (evs.take i) = none := by
  constructor
  · intro ho
    have hlen := mRun_length fuel m m' evs outs h
    have hi : i < evs.length := by
      rw [← hlen]
      exact (List.getElem?_eq_some_iff.1 ho).1
    have hei : evs[i]? = some evs[i] := List.getElem?_eq_getElem hi
    obtain ⟨m1, os1, m2, o, hpre, hstep, hout⟩ := mRun_at fuel m m' evs outs h i evs[i] hei
    rw [ho] at hout
    simp only [Option.some.injEq] at hout
    subst hout
    obtain ⟨u, he, hl, _⟩ := error_iff_unknown (F := F) fuel m1 m2 evs[i] hstep
    refine ⟨u, by rw [hei, he], ?_⟩
    rw [← multi_doc_is_latest (F := F) fuel m m1 (evs.take i) os1 hpre u]
    exact hl
  · rintro ⟨u, hi, hl⟩
    have := multi_tokens_are_latest (F := F) fuel m m' evs outs h i u hi
    rw [hl] at this
    exact this

/-! ### re-opening a document -/

/-- **reopen_replaces.**  `didOpen u t₁`, optionally `didClose u`, `didOpen u t₂`, then a
    tokens request for `u`: the second publish and the tokens answer are those of `t₂`, the
    entry is `t₂` and it is the ONLY entry for `u` — nothing of the analysis of `t₁`
    survives.  (The shape of a seeded defect that reused the old analysis on re-open.) -/
theorem reopen_replaces (fuel : Nat) (m : MState) (u t₁ t₂ : Str) (closed : Bool) :
    ∃ ds₁ ds₂ ts m',
      mRun F fuel m ([MEvent.open u t₁] ++ (if closed then [MEvent.close u] else []) ++
          [MEvent.open u t₂, MEvent.tokens u]) =
        some (m', [MOut.publish u ds₁] ++ (if closed then [MOut.none] else []) ++
          [MOut.publish u ds₂, MOut.tokens ts]) ∧
      lspDiagnostics (lspAnalyze (F := F) fuel t₁) = some ds₁ ∧
      lspDiagnostics (lspAnalyze (F := F) fuel t₂) = some ds₂ ∧
      semanticTokens (lspAnalyze (F := F) fuel t₂) = some ts ∧
      mLookup u m' = some t₂ ∧ m'.filter (fun p => p.1 = u) = [(u, t₂)] := by
  obtain ⟨ds₁, hd1, hu1⟩ := mUpdate_eq (F := F) fuel m u t₁
  obtain ⟨ds₂, hd2, hu2⟩ := mUpdate_eq (F := F) fuel (mInsert u t₁ m) u t₂
  obtain ⟨ts, hts, _⟩ := semantic_tokens_ok (F := F) fuel t₂
  refine ⟨ds₁, ds₂, ts, mInsert u t₂ (mInsert u t₁ m), ?_, hd1, hd2, hts, mLookup_insert_same _ _ _,
    mInsert_replaces _ _ _⟩
  cases closed <;>
    simp only [List.cons_append, List.nil_append, Bool.false_eq_true, if_false, if_true, mRun, mStep, hu1, hu2,
      mLookup_insert_same, hts]

/-- the same after ANY history and with ANYTHING in between that does not send a new text
    for `u`: a tokens request for `u` is answered for the text of the last open -/
theorem reopen_replaces_general (fuel : Nat) (m m' : MState) (pre mid post : List MEvent) (u t₂ : Str)
    (outs : List MOut) (hmid : ∀ e ∈ mid, mSubmitted u e = [])
    (h : mRun F fuel m (pre ++ [MEvent.open u t₂] ++ mid ++ MEvent.tokens u :: post) = some (m', outs)) :
    ∃ ts, semanticTokens (lspAnalyze (F := F) fuel t₂) = some ts ∧
      outs[(pre ++ [MEvent.open u t₂] ++ mid).length]? = some (.tokens ts) := by
  have hi : (pre ++ [MEvent.open u t₂] ++ mid ++ MEvent.tokens u :: post)[(pre ++ [MEvent.open u t₂] ++ mid).length]? =
      some (.tokens u) := by
    rw [List.getElem?_append_right (Nat.le_refl _)]
    simp
  have := multi_tokens_are_latest (F := F) fuel m m' _ outs h _ u hi
  rw [List.take_left'  rfl] at this
  have hl : mLatest u m (pre ++ [MEvent.open u t₂] ++ mid) = some t₂ := by
    unfold mLatest mLastSubmitted
    have hm : mid.flatMap (mSubmitted u) = [] := by
      rw [List.flatMap_eq_nil_iff]; exact hmid
    rw [List.flatMap_append, hm, List.append_nil, List.flatMap_append, List.getLast?_append]
    simp [mSubmitted]
  rw [hl] at this
  obtain ⟨ts, hts, ho, _⟩ := this
  exact ⟨ts, hts, ho⟩

/-! ### the handshake -/

/-- the handshake changes nothing and what is sent does not depend on its parameters -/
theorem hello_step (fuel : Nat) (m : MState) (p : Str) : mStep F fuel m (.hello p) = some (m, .none) := rfl

/-- **hello_irrelevant.**  A handshake with ANY parameters `p` at ANY position of an event
    sequence contributes one parameter-independent output and nothing else: the final state
    and all other outputs are those of the sequence without it.  In particular `mStep` after
    `hello p` is `mStep` without it (`hello_then_step`), and `p` occurs in no later answer. -/
theorem hello_irrelevant (fuel : Nat) (m : MState) (pre post : List MEvent) :
    ∃ m1 os1 m2 os2, mRun F fuel m pre = some (m1, os1) ∧ mRun F fuel m1 post = some (m2, os2) ∧
      mRun F fuel m (pre ++ post) = some (m2, os1 ++ os2) ∧
      ∀ p, mRun F fuel m (pre ++ .hello p :: post) = some (m2, os1 ++ .none :: os2) := by
  obtain ⟨m1, os1, h1, _⟩ := multi_total (F := F) fuel m pre
  obtain ⟨m2, os2, h2, _⟩ := multi_total (F := F) fuel m1 post
  refine ⟨m1, os1, m2, os2, h1, h2, mRun_append fuel m m1 m2 pre post os1 os2 h1 h2, fun p => ?_⟩
  exact mRun_append fuel m m1 m2 pre (.hello p :: post) os1 (.none :: os2) h1
    (mRun_cons_of fuel m1 m1 m2 (.hello p) post .none os2 rfl h2)

/-- `mStep` is independent of a preceding `hello p` -/
theorem hello_then_step (fuel : Nat) (m : MState) (p : Str) (e : MEvent) :
    mRun F fuel m [.hello p, e] = (mStep F fuel m e).map (fun r => (r.1, [MOut.none, r.2])) := by
  simp only [mRun, hello_step]
  cases mStep F fuel m e with
  | none => rfl
  | some r => rfl

/-- two histories that differ only in the parameters of a handshake are indistinguishable -/
theorem hello_params_irrelevant (fuel : Nat) (m : MState) (pre post : List MEvent) (p q : Str) :
    mRun F fuel m (pre ++ .hello p :: post) = mRun F fuel m (pre ++ .hello q :: post) := by
  obtain ⟨m1, os1, m2, os2, _, _, _, h⟩ := hello_irrelevant (F := F) fuel m pre post
  rw [h p, h q]

/-! ### `didClose`, read off main.rs -/

/-- `didClose` for any key: nothing is removed (main.rs never matches the notification) -/
theorem multi_close_keeps (fuel : Nat) (m : MState) (u : Str) : mStep F fuel m (.close u) = some (m, .none) := rfl

/-- several content changes in one `didChange` for a key: the last one wins, exactly like
    a `didOpen` of that text for that key (which also means: a `didChange` for a key never
    opened CREATES the entry) -/
theorem multi_change_last_wins (fuel : Nat) (m : MState) (u : Str) (texts : List Str) (text : Str) :
    mStep F fuel m (.change u (texts ++ [text])) = mStep F fuel m (.open u text) := by
  simp [mStep]

/-- a `didChange` without content changes: nothing is stored, nothing is published -/
theorem multi_change_empty_keeps (fuel : Nat) (m : MState) (u : Str) :
    mStep F fuel m (.change u []) = some (m, .none) := rfl

/-- keys are raw strings: an open under one spelling does not create an entry for another -/
theorem other_spelling_unknown (fuel : Nat) (u v t : Str) (h : v ≠ u) :
    ∃ ds, mRun F fuel [] [.open u t, .tokens v] = some (mInsert u t [], [.publish u ds, .error]) := by
  obtain ⟨ds, _, hu⟩ := mUpdate_eq (F := F) fuel [] u t
  refine ⟨ds, ?_⟩
  have : mLookup v (mInsert u t []) = none := by rw [mLookup_insert_other u v t [] h]; rfl
  simp only [mRun, mStep, hu, this]

/-! ### non-vacuity: a checked run -/

/-- handshake; three keys, two of which differ only in letter case; a tokens request;
    a `didClose` and a re-open of the first key with another text; tokens requests for the
    re-opened key, for the key differing in case, and for a percent-escaped spelling of
    the first key (never sent under that string). -/
def exampleEvents : List MEvent :=
  [ .hello "{\"processId\":1}".toList,
    .open "file:///a.bas".toList "10 PRINT \"A\"".toList,
    .open "file:///A.BAS".toList "10 PRINT X".toList,
    .open "file:///b.bas".toList "10 REM B".toList,
    .tokens "file:///a.bas".toList,
    .close "file:///a.bas".toList,
    .open "file:///a.bas".toList "10 END".toList,
    .tokens "file:///a.bas".toList,
    .tokens "file:///A.BAS".toList,
    .tokens "file:///%61.bas".toList ]

/-- The run, computed by the kernel: three entries at the end, one per key, `a.bas` with
    the text of its SECOND open; the publish for `A.BAS` carries the warning of ITS text;
    the tokens answer for `a.bas` before the re-open is that of `10 PRINT "A"` (number,
    keyword, string), after the re-open that of `10 END` (number, keyword); the answer for
    `A.BAS` is that of `10 PRINT X` (number, keyword, variable); the percent-escaped
    spelling is an unknown document: `RequestFailed`. -/
theorem example_run : mRun Unit 50 [] exampleEvents =
    some ([("file:///a.bas".toList, "10 END".toList), ("file:///b.bas".toList, "10 REM B".toList),
           ("file:///A.BAS".toList, "10 PRINT X".toList)],
      [.none,
       .publish "file:///a.bas".toList [],
       .publish "file:///A.BAS".toList [⟨0, 9, 10, false, "'X' is never defined.".toList⟩],
       .publish "file:///b.bas".toList [],
       .tokens [⟨0, 0, 2, 2⟩, ⟨0, 3, 5, 5⟩, ⟨0, 6, 3, 1⟩],
       .none,
       .publish "file:///a.bas".toList [],
       .tokens [⟨0, 0, 2, 2⟩, ⟨0, 3, 3, 5⟩],
       .tokens [⟨0, 0, 2, 2⟩, ⟨0, 3, 5, 5⟩, ⟨0, 6, 1, 0⟩],
       .error]) := by
  decide +kernel

/-- the specification side on the same history: the latest text per key -/
example : mLatest "file:///a.bas".toList [] exampleEvents = some "10 END".toList ∧
    mLatest "file:///a.bas".toList [] (exampleEvents.take 4) = some "10 PRINT \"A\"".toList ∧
    mLatest "file:///A.BAS".toList [] exampleEvents = some "10 PRINT X".toList ∧
    mLatest "file:///%61.bas".toList [] exampleEvents = none := by
  decide +kernel

/-- the projection of the history to the key `file:///a.bas`, and to its upper-case twin -/
example : exampleEvents.filterMap (MEvent.proj "file:///a.bas".toList) =
    [.open "10 PRINT \"A\"".toList, .tokensRequest, .close, .open "10 END".toList, .tokensRequest] ∧
    exampleEvents.filterMap (MEvent.proj "file:///A.BAS".toList) = [.open "10 PRINT X".toList, .tokensRequest] := by
  decide +kernel

/-- the refinement on the example: the one-document machine on the projected history gives
    the answers the multi-document server gave for that key -/
example : lspRun Unit 50 {} (exampleEvents.filterMap (MEvent.proj "file:///a.bas".toList)) =
    some ({ doc := some "10 END".toList },
      [.publish [], .tokens [⟨0, 0, 2, 2⟩, ⟨0, 3, 5, 5⟩, ⟨0, 6, 3, 1⟩], .none, .publish [],
       .tokens [⟨0, 0, 2, 2⟩, ⟨0, 3, 3, 5⟩]]) := by
  exact (multi_refines (F := Unit) 50 "file:///a.bas".toList [] _ exampleEvents _ example_run).trans
    (by decide +kernel)

end Abasic.Props.C20
