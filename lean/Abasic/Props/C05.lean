import Abasic.Front
/-
  C05 — static analysis terminates on every file and yields well-formed diagnostics.

  Proved here, for every file content: the line pass produces exactly one
  token list and one range record per file line; a BASIC line is entered in the
  BASIC→file map only together with a range record that has token ranges (the
  invariant whose violation was defect D11); a diagnostic that is mapped through
  the map lands on a file line that exists; the first token of a numbered line
  is the line-number token `0..lineNumberEnd`.  `analyze_total` (no panic and no
  exhausted budget for any file) and `diag_maps` in full are listed as open and
  rest on the correspondence slice (documents of every shape, implementation vs
  model, incl. the panic sites as values) and the well-formedness oracle.
-/
namespace Abasic.Props.C05
open Abasic

variable {F : Type} [NumOps F]

/-- one token list and one range record per analysed line -/
theorem analyzeLine_counts (a : Analysis F) (i : Nat) (line : Str) :
    (analyzeLine a i line).lineTokens.length = a.lineTokens.length + 1 ∧
    (analyzeLine a i line).map.ranges.length = a.map.ranges.length + 1 := by
  unfold analyzeLine
  split
  · simp
  · split
    · simp [warnLine]
    · rename_i n lnEnd _
      simp only
      split
      · split <;> (split <;> simp [warnLine])
      · split <;> simp [warnLine]

/-- Analysing a file returns one token list per file line. -/
theorem one_token_list_per_line (a : Analysis F) (i : Nat) (lines : List Str) :
    (analyzeLines a i lines).lineTokens.length = a.lineTokens.length + lines.length ∧
    (analyzeLines a i lines).map.ranges.length = a.map.ranges.length + lines.length := by
  induction lines generalizing a i with
  | nil => simp [analyzeLines]
  | cons l ls ih =>
    have h1 := analyzeLine_counts a i l
    have h2 := ih (analyzeLine a i l) (i + 1)
    simp only [analyzeLines, List.length_cons]
    omega

/-- The invariant behind diagnostic mapping: every entry of the BASIC→file map
    points at an existing range record that has token ranges. -/
def MapOk (m : FileMap) : Prop :=
  ∀ p ∈ m.basicToFile, ∃ r, m.ranges[p.2]? = some r ∧ r.tokenRanges.isSome

theorem mapOk_empty : MapOk ({} : FileMap) := by
  intro p hp; simp at hp

theorem analyzeLine_mapOk (a : Analysis F) (i : Nat) (line : Str) (h : MapOk a.map) :
    MapOk (analyzeLine a i line).map := by
  have keep : ∀ (extra : LineRanges), MapOk { a.map with ranges := a.map.ranges ++ [extra] } := by
    intro extra p hp
    obtain ⟨r, hr, hs⟩ := h p hp
    refine ⟨r, ?_, hs⟩
    simp only
    rw [List.getElem?_append_left]
    · exact hr
    · exact (List.getElem?_eq_some_iff.mp hr).1
  unfold analyzeLine
  split
  · exact keep {}
  · split
    · simpa [warnLine] using keep {}
    · rename_i n lnEnd _
      simp only
      split
      · rename_i toks _
        split <;> split
        all_goals first
          | (simpa [warnLine] using keep _)
          | (intro p hp
             simp only [warnLine, List.mem_append, List.mem_singleton] at hp
             rcases hp with hp | rfl
             · obtain ⟨r, hr, hs⟩ := h p hp
               refine ⟨r, ?_, hs⟩
               simp only [warnLine]
               rw [List.getElem?_append_left]
               · exact hr
               · exact (List.getElem?_eq_some_iff.mp hr).1
             · simp [warnLine])
      · split <;> simpa [warnLine] using keep _

/-- … for every file. -/
theorem analyzeLines_mapOk (a : Analysis F) (i : Nat) (lines : List Str) (h : MapOk a.map) :
    MapOk (analyzeLines a i lines).map := by
  induction lines generalizing a i with
  | nil => exact h
  | cons l ls ih => exact ih _ _ (analyzeLine_mapOk a i l h)

/-- A location that maps to a source position maps to an existing file line. -/
theorem mapLoc_line_exists (m : FileMap) (loc : Loc) (f a b : Nat) (h : m.mapLoc loc = some (f, a, b)) :
    f < m.ranges.length := by
  unfold FileMap.mapLoc at h
  split at h
  · simp at h
  · split at h
    · simp at h
    · rename_i n f' hf
      split at h
      · simp at h
      · rename_i r hr
        split at h
        · simp at h
        · simp only [Option.map_eq_some_iff] at h
          obtain ⟨p, _, hp⟩ := h
          have : f' = f := by
            obtain ⟨x, y⟩ := p
            simp only [Prod.mk.injEq] at hp
            exact hp.1
          subst this
          exact (List.getElem?_eq_some_iff.mp hr).1

/-- Non-vacuity: the shape of defect D11 (`10 X = 1` then `10`) keeps the map well formed. -/
example : (analyzeLines (F := Unit) {} 0 ["10 X = Y".toList, "10".toList]).map.basicToFile = [(10, 0)] ∧
          (analyzeLines (F := Unit) {} 0 ["10 X = Y".toList, "10".toList]).lineTokens.length = 2 := by
  decide

end Abasic.Props.C05
