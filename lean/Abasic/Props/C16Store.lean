import Abasic.Proofs.StoreInv
import Abasic.Props.C16More
import Abasic.Props.C06More
/-
  C16 (continued) — arrays and variables obey their caps and their name-suffix
  typing in EVERY reachable state.

  `ArrOk`, `StoreOk` and the lifting through the evaluator are in
  Proofs/StoreInv.lean (frame `RS σ σ' := StoreOk σ → StoreOk σ'`).  Here:

  1. the operation-level statements (ok and err paths) for `setVar`,
     `arraySet`, `arrayGet`, implicit creation, DIM, `bindArgs`, FN frames,
     FOR / NEXT, `assignValue` (LET / READ / INPUT), READ and INPUT;
  2. the lift: `evalN`, `runNextStatement`, every host call, every reachable
     state (`store_ok_reachable`);
  3. what the invariant says in plain terms for a reachable state.

  FOR with a `$` variable: `startLoop` pushes the loop and THEN `setVar` checks
  the kind BEFORE storing, so the loop stack changes but `vars` does not
  (`for_string_var_no_store`): `StoreOk` is not broken.
-/
namespace Abasic.Props.C16
open Abasic Abasic.Hoare Abasic.Hoare.RelS Abasic.Props.C01

variable {F : Type} [NumOps F]

omit [NumOps F] in
/-- `Respects RS`, spelled out -/
theorem storeOk_of_respects {α : Type} {m : M F α} (hm : Respects RS m) (σ : St F) (h : StoreOk σ) :
    (∀ a σ', m σ = .ok a σ' → StoreOk σ') ∧ (∀ e σ', m σ = .err e σ' → StoreOk σ') :=
  ⟨fun a σ' hr => (hm.at σ).1 a σ' hr h, fun e σ' hr => (hm.at σ).2 e σ' hr h⟩

/-! ### 1. operations -/

omit [NumOps F] in
/-- scalars: every outcome of `Variables::set` keeps the store well-formed -/
theorem setVar_storeOk (name : Str) (v : Value F) (σ : St F) (h : StoreOk σ) :
    (∀ σ', setVar name v σ = .ok () σ' → StoreOk σ') ∧
    (∀ e σ', setVar name v σ = .err e σ' → StoreOk σ') :=
  ⟨fun σ' hr => (storeOk_of_respects (rs_setVar name v) σ h).1 () σ' hr,
   (storeOk_of_respects (rs_setVar name v) σ h).2⟩

/-- implicit creation -/
theorem ensureArray_storeOk (name : Str) (k : Nat) (σ : St F) (h : StoreOk σ) :
    (∀ σ', ensureArray name k σ = .ok () σ' → StoreOk σ') ∧
    (∀ e σ', ensureArray name k σ = .err e σ' → StoreOk σ') :=
  ⟨fun σ' hr => (storeOk_of_respects (rs_ensureArray name k) σ h).1 () σ' hr,
   (storeOk_of_respects (rs_ensureArray name k) σ h).2⟩

/-- DIM -/
theorem dim_storeOk (name : Str) (idx : List Nat) (σ : St F) (h : StoreOk σ) :
    (∀ σ', arrayCreate name idx σ = .ok () σ' → StoreOk σ') ∧
    (∀ e σ', arrayCreate name idx σ = .err e σ' → StoreOk σ') :=
  ⟨fun σ' hr => (storeOk_of_respects (rs_arrayCreate name idx) σ h).1 () σ' hr,
   (storeOk_of_respects (rs_arrayCreate name idx) σ h).2⟩

/-- a successful `arraySet` stored a value of the kind the name demands -/
theorem arraySet_ok_matches (name : Str) (idx : List Nat) (v : Value F) (σ σ' : St F)
    (hr : arraySet name idx v σ = .ok () σ') : v.matchesName name = true := by
  cases hm : v.matchesName name with
  | true => rfl
  | false =>
    simp only [arraySet, hm, Bool.not_false, ↓reduceIte, M.fail] at hr
    cases hr

/-- `Arrays::set_value_at_index` (listed as open in C16.lean): a value is stored
    only if its kind matches the name, and every outcome — including the implicit
    creation that may precede a failing store — keeps the store well-formed. -/
theorem arraySet_typed (name : Str) (idx : List Nat) (v : Value F) (σ : St F) (h : StoreOk σ) :
    (∀ σ', arraySet name idx v σ = .ok () σ' → v.matchesName name = true ∧ StoreOk σ') ∧
    (∀ e σ', arraySet name idx v σ = .err e σ' → StoreOk σ') :=
  ⟨fun σ' hr => ⟨arraySet_ok_matches name idx v σ σ' hr,
      (storeOk_of_respects (rs_arraySet name idx v) σ h).1 () σ' hr⟩,
   (storeOk_of_respects (rs_arraySet name idx v) σ h).2⟩

/-- `ensureArray` leaves an array under `name` or fails -/
theorem arrayGet_storeOk (name : Str) (idx : List Nat) (σ : St F) (h : StoreOk σ) :
    (∀ v σ', arrayGet name idx σ = .ok v σ' → StoreOk σ') ∧
    (∀ e σ', arrayGet name idx σ = .err e σ' → StoreOk σ') :=
  storeOk_of_respects (rs_arrayGet name idx) σ h

/-- reading an array element of a well-formed store yields a value of the kind
    the array's name demands -/
theorem arrayGet_typed (name : Str) (idx : List Nat) (σ : St F) (h : StoreOk σ)
    (v : Value F) (σ' : St F) (hr : arrayGet name idx σ = .ok v σ') :
    v.matchesName name = true := by
  simp only [arrayGet, bind, M.bindM, M.get] at hr
  cases he : ensureArray name idx.length σ with
  | err e s => simp only [he] at hr; cases hr
  | ok u s =>
    have hs : StoreOk s := (ensureArray_storeOk name idx.length σ h).1 s he
    simp only [he] at hr
    cases hg : alGet name s.arrays with
    | none => simp only [hg, M.rpanic] at hr; cases hr
    | some a =>
      have hok := hs.arrays_ok _ _ (alGet_mem _ _ _ hg)
      simp only [hg] at hr
      cases hl : linearIndex idx a.dims with
      | error e => simp only [hl, M.fail] at hr; cases hr
      | ok i =>
        simp only [hl] at hr
        cases a with
        | strs d cells =>
          cases hc : cells[i]? with
          | none => simp only [hc, M.rpanic] at hr; cases hr
          | some x =>
            simp only [hc, pure, M.pureM, Res.ok.injEq] at hr
            rw [← hr.1]
            exact hok.cells_typed _ (by
              simp only [cellValues, List.mem_map]
              exact ⟨x, List.mem_of_getElem? hc, rfl⟩)
        | nums d cells =>
          cases hc : cells[i]? with
          | none => simp only [hc, M.rpanic] at hr; cases hr
          | some x =>
            simp only [hc, pure, M.pureM, Res.ok.injEq] at hr
            rw [← hr.1]
            exact hok.cells_typed _ (by
              simp only [cellValues, List.mem_map]
              exact ⟨x, List.mem_of_getElem? hc, rfl⟩)

omit [NumOps F] in
/-- FN arguments (listed as open in C16.lean): the bindings `bindArgs` returns
    all have the kind their parameter name demands and distinct names, whatever
    the argument expressions do; a mismatch is TYPE MISMATCH before the binding
    is recorded. -/
theorem bindArgs_typed (ev : Evals F) (arity : Nat) (args : List Str) (i : Nat)
    (acc : List (Str × Value F)) (σ : St F) (r : List (Str × Value F)) (σ' : St F)
    (h : bindArgs ev arity args i acc σ = .ok r σ')
    (ht : Typed acc) (hn : (acc.map Prod.fst).Nodup) :
    Typed r ∧ (r.map Prod.fst).Nodup :=
  bindArgs_result ev arity args i acc σ r σ' h ht hn

/-- … and, if the argument evaluator keeps the store well-formed, so does `bindArgs` -/
theorem bindArgs_storeOk (ev : Evals F) (he : Respects RS ev.expr) (arity : Nat) (args : List Str) (i : Nat)
    (acc : List (Str × Value F)) (σ : St F) (h : StoreOk σ) :
    (∀ r σ', bindArgs ev arity args i acc σ = .ok r σ' → StoreOk σ') ∧
    (∀ e σ', bindArgs ev arity args i acc σ = .err e σ' → StoreOk σ') :=
  storeOk_of_respects (rs_bindArgs ev he arity args i acc) σ h

omit [NumOps F] in
/-- pushing an FN frame with typed bindings -/
theorem pushFunctionCall_storeOk (name : Str) (b : List (Str × Value F)) (ht : Typed b)
    (hn : (b.map Prod.fst).Nodup) (σ : St F) (h : StoreOk σ) :
    (∀ σ', pushFunctionCall name b σ = .ok () σ' → StoreOk σ') ∧
    (∀ e σ', pushFunctionCall name b σ = .err e σ' → StoreOk σ') :=
  ⟨fun σ' hr => (storeOk_of_respects (rs_pushFunctionCall name b ht hn) σ h).1 () σ' hr,
   (storeOk_of_respects (rs_pushFunctionCall name b ht hn) σ h).2⟩

/-- the whole FN call: bind, push, evaluate the body, pop — on both paths -/
theorem userFunctionCall_storeOk (ev : Evals F) (he : Respects RS ev.expr) (name : Str)
    (σ : St F) (h : StoreOk σ) :
    (∀ r σ', userFunctionCall ev name σ = .ok r σ' → StoreOk σ') ∧
    (∀ e σ', userFunctionCall ev name σ = .err e σ' → StoreOk σ') :=
  storeOk_of_respects (rs_userFunctionCall ev he name) σ h

omit [NumOps F] in
/-- FOR -/
theorem startLoop_storeOk (sym : Str) (a b c : F) (σ : St F) (h : StoreOk σ) :
    (∀ σ', startLoop sym a b c σ = .ok () σ' → StoreOk σ') ∧
    (∀ e σ', startLoop sym a b c σ = .err e σ' → StoreOk σ') :=
  ⟨fun σ' hr => (storeOk_of_respects (rs_startLoop sym a b c) σ h).1 () σ' hr,
   (storeOk_of_respects (rs_startLoop sym a b c) σ h).2⟩

omit [NumOps F] in
/-- FOR A$: the loop is pushed and the statement fails TYPE MISMATCH (or OUT OF
    MEMORY), but nothing is stored: on every error path of `startLoop` the
    variables, arrays and frames are exactly what they were. -/
theorem for_string_var_no_store (sym : Str) (a b c : F) (σ : St F) (e : TErr) (σ' : St F)
    (hr : startLoop sym a b c σ = .err e σ') :
    σ'.vars = σ.vars ∧ σ'.arrays = σ.arrays ∧ σ'.stack = σ.stack := by
  rw [startLoop_eq] at hr
  by_cases hcap : (afterRemove sym σ.loops).length = Extracted.stackLimit
  · simp only [hcap, ↓reduceIte, Res.err.injEq] at hr
    rw [← hr.2]; exact ⟨rfl, rfl, rfl⟩
  · by_cases hm : (Value.num a : Value F).matchesName sym = true
    · simp [hcap, hm] at hr
    · have hm' : (Value.num a : Value F).matchesName sym = false := by simpa using hm
      simp only [hcap, hm', Bool.false_eq_true, ↓reduceIte, Res.err.injEq] at hr
      rw [← hr.2]; exact ⟨rfl, rfl, rfl⟩

/-- the checked instance: `FOR A$ = … TO …` pushes the loop, fails TYPE MISMATCH, stores nothing -/
example : (match startLoop (F := Unit) ['A', '$'] () () () {} with
    | .ok () _ => none
    | .err e σ' => some (e.err, σ'.loops.length, σ'.vars.length)) = some (.typeMismatch, 1, 0) := by decide

/-- NEXT -/
theorem endLoop_storeOk (sym : Str) (σ : St F) (h : StoreOk σ) :
    (∀ σ', endLoop sym σ = .ok () σ' → StoreOk σ') ∧
    (∀ e σ', endLoop sym σ = .err e σ' → StoreOk σ') :=
  ⟨fun σ' hr => (storeOk_of_respects (rs_endLoop sym) σ h).1 () σ' hr,
   (storeOk_of_respects (rs_endLoop sym) σ h).2⟩

/-- `assign_value`: the one assignment path of LET, READ and INPUT, for ANY value
    (the kind check is in `setVar` / `arraySet`, before the store) -/
theorem assignValue_storeOk (lv : LValue) (v : Value F) (σ : St F) (h : StoreOk σ) :
    (∀ σ', assignValue lv v σ = .ok () σ' → StoreOk σ') ∧
    (∀ e σ', assignValue lv v σ = .err e σ' → StoreOk σ') :=
  ⟨fun σ' hr => (storeOk_of_respects (rs_assignValue lv v) σ h).1 () σ' hr,
   (storeOk_of_respects (rs_assignValue lv v) σ h).2⟩

/-- READ (every iteration: lvalue, DATA element, coercion, assignment) -/
theorem readStatement_storeOk (ev : Evals F) (he : Respects RS ev.expr) (σ : St F) (h : StoreOk σ) :
    (∀ σ', readStatement ev σ = .ok () σ' → StoreOk σ') ∧
    (∀ e σ', readStatement ev σ = .err e σ' → StoreOk σ') :=
  ⟨fun σ' hr => (storeOk_of_respects (rs_readStatement ev he) σ h).1 () σ' hr,
   (storeOk_of_respects (rs_readStatement ev he) σ h).2⟩

/-- INPUT (reply consumed, coerced and assigned; or re-entry; or waiting) -/
theorem inputStatement_storeOk (ev : Evals F) (he : Respects RS ev.expr) (σ : St F) (h : StoreOk σ) :
    (∀ σ', inputStatement ev σ = .ok () σ' → StoreOk σ') ∧
    (∀ e σ', inputStatement ev σ = .err e σ' → StoreOk σ') :=
  ⟨fun σ' hr => (storeOk_of_respects (rs_inputStatement ev he) σ h).1 () σ' hr,
   (storeOk_of_respects (rs_inputStatement ev he) σ h).2⟩

/-- DIM statement -/
theorem dimStatement_storeOk (ev : Evals F) (he : Respects RS ev.expr) (σ : St F) (h : StoreOk σ) :
    (∀ σ', dimStatement ev σ = .ok () σ' → StoreOk σ') ∧
    (∀ e σ', dimStatement ev σ = .err e σ' → StoreOk σ') :=
  ⟨fun σ' hr => (storeOk_of_respects (rs_dimStatement ev he) σ h).1 () σ' hr,
   (storeOk_of_respects (rs_dimStatement ev he) σ h).2⟩

/-! ### 2. the lift -/

/-- every expression / statement evaluation, at every fuel, keeps the store well-formed -/
theorem store_ok_evalN (n : Nat) :
    Respects RS (evalN (F := F) n).expr ∧ Respects RS (evalN (F := F) n).stmt :=
  rs_evalN n

theorem store_ok_expr (n : Nat) (σ : St F) (h : StoreOk σ) :
    (∀ v σ', (evalN n).expr σ = .ok v σ' → StoreOk σ') ∧
    (∀ e σ', (evalN n).expr σ = .err e σ' → StoreOk σ') :=
  storeOk_of_respects (rs_evalN n).1 σ h

theorem store_ok_stmt (n : Nat) (σ : St F) (h : StoreOk σ) :
    (∀ u σ', (evalN n).stmt σ = .ok u σ' → StoreOk σ') ∧
    (∀ e σ', (evalN n).stmt σ = .err e σ' → StoreOk σ') :=
  storeOk_of_respects (rs_evalN n).2 σ h

theorem store_ok_runNextStatement (fuel : Nat) (σ : St F) (h : StoreOk σ) :
    (∀ u σ', runNextStatement fuel σ = .ok u σ' → StoreOk σ') ∧
    (∀ e σ', runNextStatement fuel σ = .err e σ' → StoreOk σ') :=
  storeOk_of_respects (rs_runNextStatement fuel) σ h

theorem store_ok_start (fuel : Nat) (line : Str) (σ : St F) (h : StoreOk σ) :
    (∀ u σ', startEvaluating fuel line σ = .ok u σ' → StoreOk σ') ∧
    (∀ e σ', startEvaluating fuel line σ = .err e σ' → StoreOk σ') :=
  storeOk_of_respects (rs_startEvaluating fuel line) σ h

theorem store_ok_cont (fuel : Nat) (σ : St F) (h : StoreOk σ) :
    (∀ u σ', continueEvaluating fuel σ = .ok u σ' → StoreOk σ') ∧
    (∀ e σ', continueEvaluating fuel σ = .err e σ' → StoreOk σ') :=
  storeOk_of_respects (rs_continueEvaluating fuel) σ h

/-- every host call keeps the store well-formed on both paths -/
theorem rs_call (fuel : Nat) (c : Call) : Respects RS (c.run (F := F) fuel) := by
  cases c with
  | start text => exact rs_startEvaluating fuel text
  | cont => exact rs_continueEvaluating fuel
  | reply text => exact rs_provideInput text
  | brk => exact rs_breakAtCurrentLocation
  | seed n => exact rs_randomize n
  | output => exact respects_modify (fun σ => rs_same rfl rfl rfl)

/-- one host call (any call, in any state, succeeding or failing) -/
theorem store_ok_call (fuel : Nat) (c : Call) (σ : St F) (h : StoreOk σ) :
    StoreOk (applyCall fuel c σ) :=
  (rs_call fuel c).final σ h

/-- … hence any sequence of host calls -/
theorem store_ok_calls (fuel : Nat) (cs : List Call) (σ : St F) (h : StoreOk σ) :
    StoreOk (applyCalls fuel cs σ) := by
  induction cs generalizing σ with
  | nil => exact h
  | cons c cs ih => exact ih _ (store_ok_call fuel c σ h)

/-- **C16, store part.**  The store invariant holds in every state a host can
    bring a new interpreter into. -/
theorem store_ok_reachable (fuel : Nat) (σ : St F) (h : Reachable fuel σ) : StoreOk σ := by
  induction h with
  | init => exact storeOk_init
  | step c _ ih => exact store_ok_call fuel c _ ih

/-! ### 3. in plain terms -/

/-- every array of a reachable state: `∏ dims` cells, at most 10000, every
    dimension at least 1, kind as the name's suffix says -/
theorem reachable_array (fuel : Nat) (σ : St F) (h : Reachable fuel σ) (name : Str) (a : ArrayV F)
    (ha : alGet name σ.arrays = some a) :
    a.cellCount = prod a.dims ∧ a.cellCount ≤ 10000 ∧ a.dims ≠ [] ∧ (∀ d ∈ a.dims, 1 ≤ d) ∧
    isStr a = endsWithDollar name ∧ (∀ v ∈ cellValues a, v.matchesName name = true) := by
  have hok := (store_ok_reachable fuel σ h).arrays_ok name a (alGet_mem _ _ _ ha)
  refine ⟨hok.cells_len, ?_, hok.dims_ne, hok.dims_pos, hok.kind, hok.cells_typed⟩
  have := hok.cap
  rw [← hok.cells_len] at this
  exact this

omit [NumOps F] in
/-- `StoreOk` gives C06's `WellTyped` -/
theorem wellTyped_of_storeOk {σ : St F} (h : StoreOk σ) : C06.WellTyped σ :=
  fun name v hv => h.vars_typed name v (alGet_mem _ _ _ hv)

/-- the variables of every reachable state are well-typed in the sense of C06 -/
theorem reachable_wellTyped (fuel : Nat) (σ : St F) (h : Reachable fuel σ) : C06.WellTyped σ :=
  wellTyped_of_storeOk (store_ok_reachable fuel σ h)

/-- reading a scalar in a reachable state (declared or defaulted) yields the kind of its name -/
theorem reachable_getVar (fuel : Nat) (σ : St F) (h : Reachable fuel σ) (name : Str) :
    (getVar σ name).matchesName name = true :=
  C06.wellTypedEnv_getVar (reachable_wellTyped fuel σ h) name

omit [NumOps F] in
theorem findInStack_typed {σ : St F} (h : StoreOk σ) (name : Str) (v : Value F)
    (hf : findInStack name σ.stack = some v) : v.matchesName name = true := by
  have hall := h.frames_typed
  generalize σ.stack = st at hf hall
  induction st with
  | nil => simp [findInStack] at hf
  | cons f rest ih =>
    simp only [findInStack] at hf
    cases hg : alGet name f.vars with
    | some w =>
      simp only [hg, Option.some.injEq] at hf
      subst hf
      exact hall f List.mem_cons_self name w (alGet_mem _ _ _ hg)
    | none =>
      simp only [hg] at hf
      exact ih hf (fun g hg' => hall g (List.mem_cons_of_mem _ hg'))

/-- an FN parameter found on the stack of a reachable state has the kind of its name -/
theorem reachable_findInStack (fuel : Nat) (σ : St F) (h : Reachable fuel σ) (name : Str) (v : Value F)
    (hf : findInStack name σ.stack = some v) : v.matchesName name = true :=
  findInStack_typed (store_ok_reachable fuel σ h) name v hf

/-- in numbers, for a session -/
theorem store_ok_session (fuel : Nat) (cs : List Call) : StoreOk (applyCalls (F := F) fuel cs {}) :=
  store_ok_calls fuel cs {} storeOk_init

/-- Non-vacuity: a session (over the degenerate carrier, so without numerals) that
    creates arrays of both kinds implicitly, defines and calls a function, and ends
    in a TYPE MISMATCH. -/
example : StoreOk (applyCalls (F := Unit) 8
    [.start "10 A$(I)=\"X\":B(I,I)=I:DEF FNF(X)=X".toList,
     .start "20 Y=FNF(I):A$=I".toList, .start "RUN".toList, .cont, .cont, .cont, .cont, .cont, .cont] {}) :=
  store_ok_session 8 _

/-- Non-vacuity: an assignment to an undeclared string array creates it with 11 cells. -/
example : (match arraySet (F := Unit) ['A', '$'] [2] (.str ['X']) {} with
    | .ok () σ' => σ'.arrays.map (fun p => (p.1, p.2.dims, p.2.cellCount))
    | .err _ _ => []) = [(['A', '$'], [11], 11)] := by decide

/-- … a number into a `$` array is TYPE MISMATCH before anything is created … -/
example : (match arraySet (F := Unit) ['A', '$'] [2] (.num ()) {} with
    | .ok () _ => none
    | .err e σ' => some (e.err, σ'.arrays.length)) = some (.typeMismatch, 0) := by decide

/-- … and an out-of-range subscript fails AFTER the implicit creation: the error
    path changes the store (this is why `StoreOk` is proved on error paths too). -/
example : (match arraySet (F := Unit) ['A'] [20] (.num ()) {} with
    | .ok () _ => none
    | .err e σ' => some (e.err, σ'.arrays.map (fun p => (p.1, p.2.dims, p.2.cellCount)))) =
    some (.badSubscript, [(['A'], [11], 11)]) := by decide

end Abasic.Props.C16
