import Abasic.Props.C03All
/-
  C03 (leftover a) — READ into array cells.

  The reference machine of Ref/Stmt3.lean covers `READ x, y$, …` (scalar
  targets, `RStmt3.readS`).  The interpreter also accepts array cells as
  targets: `READ A(I), B$(2)`.  READ OFF THE CODE (`readLoop`, Stmt.lean): for
  each target, in this order,
    1. the target is parsed — `parseLValue`: the name and, behind `(`, the
       subscripts, which are EVALUATED NOW (left to right; this may call
       functions, draw random numbers, create arrays that are read);
    2. the next DATA item is consumed (OUT OF DATA when there is none — the
       subscripts have been evaluated by then);
    3. the item is coerced to the kind of the target's NAME (a number read into
       a string target is its text; a string read into a numeric target is
       DATA TYPE MISMATCH, reported on the line of the DATA statement — the item
       stays consumed);
    4. the value is stored — `assignValue`, the same store as LET: the kind
       check against the name, auto-dimension (11 per subscript) when the array
       does not exist, BAD SUBSCRIPT beyond the dimensions.
  `readCellSpec` is that, over the reference state `RState3` (`evalIdx` and
  `storeCell` are the subscript evaluation and the store of `LET a(…) = e` in
  Ref/Stmt3.lean); `readTargetsSpec` runs a list of targets — scalars and
  cells — in order.

  PROVED: `read_cell_refines` (one cell target of the READ loop, whatever
  follows it), `read_stmt_refines` (the statement `READ name(idx…)` with one cell
  target as one statement activation, in the format `Outcome3` of the statement
  theorem of C03All — `RStmt3` itself is a model file and is not extended),
  `read_target_refines` / `read_targets_refines` (the READ loop over a
  non-empty list of targets, scalars and cells mixed, against `readTargetsSpec`).
-/
set_option linter.unusedSectionVars false

namespace Abasic.Props.C03
open Abasic Abasic.Ref Abasic.ExprL Abasic.ExprL2 Abasic.StmtL Abasic.ProgL Abasic.Prog3L Abasic.Stmt3L Abasic.Hoare M
open Abasic.Stmt2L (accept_end coerce_matches coerce_err readLoop_unfold)

variable {F : Type} [NumOps F]

/-! ### the spec -/

/-- `READ name(idx…)`: one cell target -/
def readCellSpec (items : List (Nat × DataElement F)) (r : RState3 F) (name : Str) (idx : List (Expr2 F)) :
    RState3 F × Ctl2 :=
  match evalIdx r idx with
  | .error err => (r, .error err)
  | .ok (index, r1) =>
    match items[r1.data]? with
    | none => (r1, .error .outOfData)
    | some (ln, d) =>
      match Value.coerceFromData name d with
      | .error e => ({ r1 with data := r1.data + 1 }, .errorAt e ln)
      | .ok v =>
        match storeCell name index v r1.arrays with
        | .error err => ({ r1 with data := r1.data + 1 }, .error err)
        | .ok arrs => ({ r1 with data := r1.data + 1, arrays := arrs }, .next)

/-- the tokens of a cell target -/
def cellToks (name : Str) (idx : List (Expr2 F)) : List (Token F) :=
  .symbol name :: .kw .LeftParen :: (renderArgs idx ++ [.kw .RightParen])

/-- one round of the READ loop, with what follows it as a parameter -/
def readBody (ev : Evals F) (K : M F Unit) : M F Unit := do
  let lv ← parseLValue ev
  match ← nextDataElement with
  | none => fail .outOfData
  | some e =>
    let v ← liftE (Value.coerceFromData lv.name e)
    assignValue lv v
    K

theorem readLoop_body (ev : Evals F) (k : Nat) :
    readLoop ev (k + 1) = readBody ev (accept .Comma >>= fun b => if b then readLoop ev k else pure ()) := rfl

/-- a run of a READ round from `σ` against the spec's result; on success the run
    continues with `K` in a state `τ` in `Sync` with the new reference state, the
    cursor behind the target -/
def ReadCellOK (p : RProgram3 F) (σ : St F) (pre tgt rest : List (Token F)) (K : M F Unit) (res : Res F Unit) :
    RState3 F × Ctl2 → Prop
  | (r', .next) => ∃ τ, res = K τ ∧ Sync p r' τ ∧ Start σ τ ∧ At τ (pre ++ tgt) rest
  | (_, .error e) => e ≠ .dataTypeMismatch ∧ ErrFrom σ e res
  | (_, .errorAt e ln) => e = .dataTypeMismatch ∧
      ∃ σ' i, res = .err { err := e } σ' ∧ σ'.dataLoc = some { line := some ln, idx := i } ∧ σ'.out = σ.out ∧
        σ'.nesting = σ.nesting
  | _ => True

theorem start_data {σ τ : St F} (h : Start σ τ) (d : Option (DataIter F)) : Start σ { τ with data := d } :=
  ⟨⟨h.kept.lines, h.kept.warnings, h.kept.tracing, h.kept.nesting, h.kept.state⟩, h.out, h.fns, h.line⟩

/-- **read_cell_refines.**  One cell target `name(idx…)` of a READ: the model's
    READ round is `readCellSpec` — subscripts first, then the item, the
    coercion by the name, the store of LET with auto-dimension. -/
theorem read_cell_refines {p : RProgram3 F} {σ : St F} {r : RState3 F} (hS : Sync p r σ) (fuel : Nat)
    (name : Str) (idx : List (Expr2 F)) (pre rest : List (Token F))
    (hres : ResolvedL r.fns idx) (hd : depthArgs r.fns callFuel idx ≤ fuel)
    (hn : σ.nesting + depthArgs r.fns callFuel idx ≤ Extracted.nestingLimit)
    (hAt : At σ pre (.symbol name :: .kw .LeftParen :: (renderArgs idx ++ (.kw .RightParen :: rest))))
    (K : M F Unit) :
    ReadCellOK p σ pre (cellToks name idx) rest K (readBody (evalN fuel) K σ)
      (readCellSpec (allData3 p) r name idx) := by
  have hAt1 := at_mv1 hAt (σ.reads + 1)
  have hst1 : Start σ (mv σ 1 (σ.reads + 1)) := start_mv _ _ _
  have hrun : readBody (evalN fuel) K σ =
      (optionalArrayIndex (evalN fuel) >>= fun ix =>
        (nextDataElement >>= fun o =>
          match o with
          | none => fail .outOfData
          | some e =>
            liftE (Value.coerceFromData name e) >>= fun v =>
              assignValue { name := name, index := ix } v >>= fun _ => K)) (mv σ 1 (σ.reads + 1)) := by
    unfold readBody parseLValue
    rw [bind_assoc', bind_ok (next_eq hAt)]
    show ((optionalArrayIndex (evalN fuel) >>= fun ix => pure ({ name := name, index := ix } : LValue)) >>= _) _ = _
    rw [bind_assoc']
    rfl
  rw [hrun]
  have hO := optIdx3_run (hS.mv 1 (σ.reads + 1)) idx fuel _ rest hres hd hn hAt1
  cases hev : foldIdx callFuel r.env idx with
  | error err =>
    rw [hev] at hO
    have hsp : readCellSpec (allData3 p) r name idx = (r, .error err) := by
      simp only [readCellSpec, evalIdx, hev]
    rw [hsp]
    exact ⟨hO.1, (hO.2.bind).start hst1⟩
  | ok q =>
    obtain ⟨is, env'⟩ := q
    rw [hev] at hO
    obtain ⟨τ, hσ1, hSτ, hstτ, hAtτ, harr⟩ := hO
    rw [bind_ok hσ1]
    have hst : Start σ τ := hst1.trans hstτ
    have hM := hSτ.mem
    have hdat : DataRel3 p r.data τ.data := hM.data
    cases hc : (allData3 p)[r.data]? with
    | none =>
      obtain ⟨it', hnd⟩ := nextData_none hSτ.env.lines hSτ.wf hdat hc
      have hsp : readCellSpec (allData3 p) r name idx = (r.put env', .error .outOfData) := by
        simp only [readCellSpec, evalIdx, hev, RState3.put, hc]
      rw [hsp, bind_ok hnd]
      exact ⟨by simp, errFrom_at (start_data hst _) rfl⟩
    | some lnd =>
      obtain ⟨ln, d⟩ := lnd
      obtain ⟨it', i, hnd, hrel, hdl⟩ := nextData_some hSτ.env.lines hSτ.wf hdat hc
      rw [bind_ok hnd]
      dsimp only
      cases hco : Value.coerceFromData name d with
      | error e =>
        have hsp : readCellSpec (allData3 p) r name idx =
            ({ r.put env' with data := r.data + 1 }, .errorAt e ln) := by
          simp only [readCellSpec, evalIdx, hev, RState3.put, hc, hco]
        rw [hsp]
        refine ⟨coerce_err hco, _, i, ?_, hdl, hst.out, hst.kept.nesting⟩
        simp only [liftE]
        rfl
      | ok v =>
        have hm := coerce_matches hco
        simp only [liftE]
        show ReadCellOK p σ pre _ rest K
          ((assignValue { name := name, index := some is } v >>= fun _ => K) ({ τ with data := some it' } : St F)) _
        have hav : assignValue (F := F) { name := name, index := some is } v ({ τ with data := some it' } : St F) =
            arraySet name is v ({ τ with data := some it' } : St F) := by
          show (warnUndeclaredArray name >>= fun _ => arraySet name is v) _ = _
          rw [bind_ok (Stmt2L.warnUndeclared_off name ({ τ with data := some it' } : St F) hSτ.env.warnings)]
        have hA := Stmt2L.arraySet_run name is v ({ τ with data := some it' } : St F)
          (by intro k a hk
              have hk' : alGet k τ.arrays = some a := hk
              rw [hM.arrays] at hk'
              exact hSτ.inv.arrs k a hk')
        have hcsτ : ∀ x, storeCell name is v env'.arrays = x →
            Stmt2L.cellStore name is v ({ τ with data := some it' } : St F).arrays = x := by
          intro x hx
          rw [← storeCell_eq]
          show storeCell name is v τ.arrays = x
          rw [harr]; exact hx
        cases hcs : storeCell name is v env'.arrays with
        | error err =>
          rw [hcsτ _ hcs] at hA
          obtain ⟨hnd', σ', hσ', hl, ho⟩ := hA
          have hsp : readCellSpec (allData3 p) r name idx =
              ({ r.put env' with data := r.data + 1 }, .error err) := by
            simp only [readCellSpec, evalIdx, hev, RState3.put, hc, hco, hcs]
          rw [hsp]
          have hnn := (((rns_arraySet name is v).at _).2 _ _ hσ').1
          refine ⟨hnd', ErrFrom.start (σ1 := ({ τ with data := some it' } : St F)) ?_ (start_data hst _)⟩
          refine ⟨{ err := err }, σ', ?_, rfl, ho, by rw [hl], hnn, Or.inl rfl⟩
          exact bind_err (hav.trans hσ')
        | ok arrs =>
          rw [hcsτ _ hcs] at hA
          have hsp : readCellSpec (allData3 p) r name idx =
              ({ r.put env' with data := r.data + 1, arrays := arrs }, .next) := by
            simp only [readCellSpec, evalIdx, hev, RState3.put, hc, hco, hcs]
          rw [hsp]
          refine ⟨{ τ with data := some it', arrays := arrs }, ?_, ?_, ?_, ?_⟩
          · exact bind_ok (hav.trans hA)
          · exact {
              wf := hSτ.wf
              env := ⟨hSτ.env.lines, hSτ.env.warnings, hSτ.env.tracing⟩
              mem := { vars := hM.vars, arrays := rfl, rng := hM.rng, loops := hM.loops, stack := hM.stack
                       data := hrel, out := hM.out, fns := ⟨hM.fns.undef, hM.fns.defd⟩, fnLines := hM.fnLines }
              inv := ⟨hSτ.inv.typed, Stmt2L.cellStore_ok (by rw [← storeCell_eq]; exact hcs) hSτ.inv.arrs,
                      hSτ.inv.rng, hSτ.inv.rets⟩
              bodies := hSτ.bodies }
          · exact ⟨⟨hst.kept.lines, hst.kept.warnings, hst.kept.tracing, hst.kept.nesting, hst.kept.state⟩,
              hst.out, hst.fns, hst.line⟩
          · have : At ({ τ with data := some it', arrays := arrs } : St F)
                (pre ++ [.symbol name] ++ (.kw .LeftParen :: (renderArgs idx ++ [.kw .RightParen]))) rest :=
              ⟨hAtτ.1, hAtτ.2⟩
            simpa only [cellToks, List.append_assoc, List.cons_append, List.nil_append] using this

/-! ### the READ statement with one cell target -/

/-- the control results `readCellSpec` can produce -/
theorem readCellSpec_ctl (items : List (Nat × DataElement F)) (r : RState3 F) (name : Str) (idx : List (Expr2 F)) :
    (readCellSpec items r name idx).2 = .next ∨ (∃ e, (readCellSpec items r name idx).2 = .error e) ∨
      ∃ e ln, (readCellSpec items r name idx).2 = .errorAt e ln := by
  unfold readCellSpec
  cases evalIdx r idx with
  | error err => exact Or.inr (Or.inl ⟨err, rfl⟩)
  | ok q =>
    obtain ⟨index, r1⟩ := q
    dsimp only
    cases items[r1.data]? with
    | none => exact Or.inr (Or.inl ⟨_, rfl⟩)
    | some lnd =>
      obtain ⟨ln, d⟩ := lnd
      dsimp only
      cases Value.coerceFromData name d with
      | error e => exact Or.inr (Or.inr ⟨e, ln, rfl⟩)
      | ok v =>
        dsimp only
        cases storeCell name index v r1.arrays with
        | error err => exact Or.inr (Or.inl ⟨err, rfl⟩)
        | ok arrs => exact Or.inl rfl

/-- **read_stmt_refines.**  The statement `READ name(idx…)` as one statement
    activation, in the format of the statement theorem of C03All (`Outcome3`:
    on success the model state realises the new reference state with the cursor
    behind the statement; errors as the reference step reports them, DATA TYPE
    MISMATCH located on the line of the DATA statement). -/
theorem read_stmt_refines {p : RProgram3 F} {σ : St F} {r : RState3 F} (hS : Sync p r σ) (fuel n : Nat)
    (name : Str) (idx : List (Expr2 F)) (pre rest : List (Token F)) (eol : Nat)
    (hl : σ.loc.line = some n) (hE : StmtEnd rest)
    (hres : ResolvedL r.fns idx) (hd : depthArgs r.fns callFuel idx ≤ fuel)
    (hn : σ.nesting + depthArgs r.fns callFuel idx ≤ Extracted.nestingLimit)
    (hAt : At σ pre (.kw .Read :: (cellToks name idx ++ rest))) :
    Outcome3 p σ n (pre.length + 1 + (cellToks name idx).length) eol (stmtBody (evalN fuel) σ)
      (readCellSpec (allData3 p) r name idx).1 (readCellSpec (allData3 p) r name idx).2 := by
  obtain ⟨k1, h1⟩ := next_ex hAt
  have hAt1 := at_mv1 hAt k1
  have hst : Start σ (mv σ 1 k1) := start_mv _ _ _
  have hrun : stmtBody (evalN fuel) σ =
      readLoop (evalN fuel) ((pre ++ [Token.kw Kw.Read] ++ (cellToks name idx ++ rest)).length + 1) (mv σ 1 k1) := by
    unfold stmtBody
    rw [bind_ok (traceHere_off hS.env.tracing)]
    unfold dispatch
    rw [bind_ok h1]
    show readStatement (evalN fuel) _ = _
    unfold readStatement
    rw [bind_ok (lineBudget_eq hAt1.1)]
  rw [hrun, readLoop_body]
  have hAt1' : At (mv σ 1 k1) (pre ++ [Token.kw Kw.Read])
      (.symbol name :: .kw .LeftParen :: (renderArgs idx ++ (.kw .RightParen :: rest))) := by
    simpa only [cellToks, List.cons_append, List.append_assoc, List.nil_append] using hAt1
  have hR := read_cell_refines (hS.mv 1 k1) fuel name idx _ rest hres hd hn hAt1'
    (accept .Comma >>= fun b =>
      if b then readLoop (evalN fuel) (pre ++ [Token.kw Kw.Read] ++ (cellToks name idx ++ rest)).length else pure ())
  have hctl := readCellSpec_ctl (allData3 p) r name idx
  generalize readCellSpec (allData3 p) r name idx = res at hR hctl
  obtain ⟨r', ctl⟩ := res
  cases ctl with
  | next =>
    obtain ⟨τ, hres', hSτ, hstτ, hAtτ⟩ := hR
    have hacc := accept_end (k := .Comma) hAtτ (Stmt3L.stmtEnd_not hE (by decide) (by decide))
    refine ⟨mv τ 0 (τ.reads + 1), ?_, ?_, ?_, ?_, Or.inl ?_⟩
    · rw [hres', bind_ok hacc]
      rfl
    · exact kept_mv (hst.trans hstτ).kept 0 _
    · exact mem_mv hSτ.mem 0 _
    · show τ.loc.line = some n
      rw [(hst.trans hstτ).line]; exact hl
    · show τ.loc.idx + 0 = _
      rw [hAtτ.2]
      simp only [List.length_append, List.length_cons, List.length_nil]
      omega
  | error e => exact ⟨hR.1, hR.2.start hst⟩
  | errorAt e ln =>
    obtain ⟨he, σ', i, h1', h2', h3', h4'⟩ := hR
    exact ⟨he, σ', i, h1', h2', h3', h4'⟩
  | skipLine => rcases hctl with h | ⟨_, h⟩ | ⟨_, _, h⟩ <;> cases h
  | jump m => rcases hctl with h | ⟨_, h⟩ | ⟨_, _, h⟩ <;> cases h
  | stop => rcases hctl with h | ⟨_, h⟩ | ⟨_, _, h⟩ <;> cases h
  | resume a b => rcases hctl with h | ⟨_, h⟩ | ⟨_, _, h⟩ <;> cases h

/-! ### lists of targets, scalars and cells mixed: `READ x, A(I), B$(2)` -/

inductive RTarget (F : Type) where
  | scalar (name : Str)
  | cell (name : Str) (idx : List (Expr2 F))

def RTarget.toks : RTarget F → List (Token F)
  | .scalar x => [.symbol x]
  | .cell name idx => cellToks name idx

def renderRTargets : List (RTarget F) → List (Token F)
  | [] => []
  | [t] => t.toks
  | t :: t' :: rest => t.toks ++ .kw .Comma :: renderRTargets (t' :: rest)

/-- a scalar target (as `readAll` of Ref/Stmt2.lean does it), on `RState3` -/
def readScalarSpec (items : List (Nat × DataElement F)) (r : RState3 F) (name : Str) : RState3 F × Ctl2 :=
  match items[r.data]? with
  | none => (r, .error .outOfData)
  | some (ln, d) =>
    match Value.coerceFromData name d with
    | .error e => ({ r with data := r.data + 1 }, .errorAt e ln)
    | .ok v => ({ r with data := r.data + 1, vars := alSet name v r.vars }, .next)

def readTargetSpec (items : List (Nat × DataElement F)) (r : RState3 F) : RTarget F → RState3 F × Ctl2
  | .scalar x => readScalarSpec items r x
  | .cell name idx => readCellSpec items r name idx

/-- the targets in order; the first failure ends the statement -/
def readTargetsSpec (items : List (Nat × DataElement F)) : RState3 F → List (RTarget F) → RState3 F × Ctl2
  | r, [] => (r, .next)
  | r, t :: rest =>
    match readTargetSpec items r t with
    | (r', .next) => readTargetsSpec items r' rest
    | x => x

/-- the side conditions of a target: the subscripts of a cell use names
    consistently with the function table and fit fuel and nesting cap -/
def TargetOK (fns : List (Str × FnDefSpec F)) (fuel nesting : Nat) : RTarget F → Prop
  | .scalar _ => True
  | .cell _ idx => ResolvedL fns idx ∧ depthArgs fns callFuel idx ≤ fuel ∧
      nesting + depthArgs fns callFuel idx ≤ Extracted.nestingLimit

theorem readTargetSpec_fns (items : List (Nat × DataElement F)) (r : RState3 F) (t : RTarget F) :
    (readTargetSpec items r t).1.fns = r.fns := by
  cases t with
  | scalar x =>
    simp only [readTargetSpec, readScalarSpec]
    cases items[r.data]? with
    | none => rfl
    | some lnd =>
      obtain ⟨ln, d⟩ := lnd
      dsimp only
      cases Value.coerceFromData x d <;> rfl
  | cell name idx =>
    simp only [readTargetSpec, readCellSpec, evalIdx]
    cases foldIdx callFuel r.env idx with
    | error err => rfl
    | ok q =>
      obtain ⟨index, env'⟩ := q
      dsimp only
      cases items[(r.put env').data]? with
      | none => rfl
      | some lnd =>
        obtain ⟨ln, d⟩ := lnd
        dsimp only
        cases Value.coerceFromData name d with
        | error e => rfl
        | ok v =>
          dsimp only
          cases storeCell name index v (r.put env').arrays <;> rfl

/-- one target, scalar or cell -/
theorem read_target_refines {p : RProgram3 F} {σ : St F} {r : RState3 F} (hS : Sync p r σ) (fuel : Nat)
    (t : RTarget F) (pre rest : List (Token F)) (hok : TargetOK r.fns fuel σ.nesting t)
    (hAt : At σ pre (t.toks ++ rest)) (hpost : ∀ t', rest.head? = some t' → t'.isKw .LeftParen = false)
    (K : M F Unit) :
    ReadCellOK p σ pre t.toks rest K (readBody (evalN fuel) K σ) (readTargetSpec (allData3 p) r t) := by
  cases t with
  | cell name idx =>
    have hAt' : At σ pre (.symbol name :: .kw .LeftParen :: (renderArgs idx ++ (.kw .RightParen :: rest))) := by
      simpa only [RTarget.toks, cellToks, List.cons_append, List.append_assoc, List.nil_append] using hAt
    exact read_cell_refines hS fuel name idx pre rest hok.1 hok.2.1 hok.2.2 hAt' K
  | scalar x =>
    have hAt' : At σ pre (.symbol x :: rest) := hAt
    have hM := hS.mem
    have hO := read_one3 hS.wf (evalN fuel) x σ pre rest r.data hAt' hpost hS.env.lines hM.data K
    show ReadCellOK p σ pre [.symbol x] rest K _ (readScalarSpec (allData3 p) r x)
    unfold readScalarSpec
    cases hc : (allData3 p)[r.data]? with
    | none =>
      rw [hc] at hO
      obtain ⟨σ', hr, hl, ho, hnn⟩ := hO
      exact ⟨by simp, { err := .outOfData }, σ', hr, rfl, ho, hl, hnn, Or.inl rfl⟩
    | some lnd =>
      obtain ⟨ln, d⟩ := lnd
      rw [hc] at hO
      dsimp only at hO ⊢
      cases hco : Value.coerceFromData x d with
      | error e =>
        rw [hco] at hO
        exact ⟨coerce_err hco, hO⟩
      | ok v =>
        rw [hco] at hO
        obtain ⟨it', σ1, hrel, hrun, hσ1⟩ := hO
        have hm := coerce_matches hco
        refine ⟨σ1, hrun, ?_, ?_, ?_⟩
        · rw [hσ1]
          exact {
            wf := hS.wf
            env := ⟨hS.env.lines, hS.env.warnings, hS.env.tracing⟩
            mem := { vars := by show alSet x v σ.vars = alSet x v r.vars; rw [hM.vars]
                     arrays := hM.arrays, rng := hM.rng, loops := hM.loops, stack := hM.stack
                     data := hrel, out := hM.out, fns := ⟨hM.fns.undef, hM.fns.defd⟩, fnLines := hM.fnLines }
            inv := ⟨Stmt2L.typed_alSet hS.inv.typed hm, hS.inv.arrs, hS.inv.rng, hS.inv.rets⟩
            bodies := hS.bodies }
        · rw [hσ1]; exact ⟨⟨rfl, rfl, rfl, rfl, rfl⟩, rfl, rfl, rfl⟩
        · rw [hσ1]
          have hAtb : At ({ σ with data := some it', vars := alSet x v σ.vars } : St F) pre (.symbol x :: rest) :=
            ⟨hAt'.1, hAt'.2⟩
          exact at_mv1 hAtb _

theorem toks_head_ne_paren (t : RTarget F) (tl : List (Token F)) :
    ∀ t', (Token.kw (F := F) .Comma :: tl).head? = some t' → t'.isKw .LeftParen = false := by
  intro t' ht'
  simp only [List.head?_cons, Option.some.injEq] at ht'
  subst ht'
  rfl

/-- **read_targets_refines.**  The READ loop over a non-empty list of targets —
    scalars and array cells in any mixture — is `readTargetsSpec`: the targets in
    order, each one as `readScalarSpec` / `readCellSpec` says, the first failure
    ending the statement. -/
theorem read_targets_refines {p : RProgram3 F} (fuel : Nat) (rest : List (Token F)) (hE : StmtEnd rest) :
    ∀ (ts : List (RTarget F)), ts ≠ [] → ∀ (k : Nat) (σ : St F) (r : RState3 F) (pre : List (Token F)),
      Sync p r σ → (∀ t ∈ ts, TargetOK r.fns fuel σ.nesting t) → At σ pre (renderRTargets ts ++ rest) →
      (renderRTargets ts).length < k →
      ReadCellOK p σ pre (renderRTargets ts) rest (pure ()) (readLoop (evalN fuel) k σ)
        (readTargetsSpec (allData3 p) r ts) := by
  intro ts
  induction ts with
  | nil => intro h; exact absurd rfl h
  | cons t ts' ih =>
    intro _ k σ r pre hS hok hAt hk
    obtain ⟨k', rfl⟩ : ∃ k', k = k' + 1 := ⟨k - 1, by omega⟩
    rw [readLoop_body]
    have hokt := hok t List.mem_cons_self
    cases ts' with
    | nil =>
      have hAt0 : At σ pre (t.toks ++ rest) := hAt
      have hO := read_target_refines hS fuel t pre rest hokt hAt0
        (Stmt3L.stmtEnd_not hE (by decide) (by decide))
        (accept .Comma >>= fun b => if b then readLoop (evalN fuel) k' else pure ())
      have hsp : readTargetsSpec (allData3 p) r [t] =
          match readTargetSpec (allData3 p) r t with
          | (r', .next) => (r', .next)
          | x => x := rfl
      rw [hsp]
      generalize readTargetSpec (allData3 p) r t = res at hO
      obtain ⟨r', ctl⟩ := res
      cases ctl with
      | next =>
        obtain ⟨τ, hres, hSτ, hstτ, hAtτ⟩ := hO
        have hacc := accept_end (k := .Comma) hAtτ (Stmt3L.stmtEnd_not hE (by decide) (by decide))
        refine ⟨mv τ 0 (τ.reads + 1), ?_, hSτ.mv 0 _, hstτ.trans (start_mv _ _ _), at_mv0 hAtτ _⟩
        rw [hres, bind_ok hacc]
        rfl
      | error e => exact hO
      | errorAt e ln => exact hO
      | skipLine => trivial
      | jump m => trivial
      | stop => trivial
      | resume a b => trivial
    | cons t' ts'' =>
      have hAt0 : At σ pre (t.toks ++ (.kw .Comma :: (renderRTargets (t' :: ts'') ++ rest))) := by
        simpa only [renderRTargets, List.append_assoc, List.cons_append] using hAt
      have hlen : (renderRTargets (t :: t' :: ts'')).length =
          t.toks.length + 1 + (renderRTargets (t' :: ts'')).length := by
        simp only [renderRTargets, List.length_append, List.length_cons]
        omega
      have hO := read_target_refines hS fuel t pre _ hokt hAt0 (toks_head_ne_paren t _)
        (accept .Comma >>= fun b => if b then readLoop (evalN fuel) k' else pure ())
      have hfns := readTargetSpec_fns (allData3 p) r t
      have hsp : readTargetsSpec (allData3 p) r (t :: t' :: ts'') =
          match readTargetSpec (allData3 p) r t with
          | (r', .next) => readTargetsSpec (allData3 p) r' (t' :: ts'')
          | x => x := rfl
      rw [hsp]
      generalize readTargetSpec (allData3 p) r t = res at hO hfns
      obtain ⟨r', ctl⟩ := res
      cases ctl with
      | next =>
        obtain ⟨τ, hres, hSτ, hstτ, hAtτ⟩ := hO
        have hacc := accept_true (k := .Comma) hAtτ rfl
        have hAt2 := at_mv1 hAtτ (τ.reads + 1)
        have hst2 : Start σ (mv τ 1 (τ.reads + 1)) := hstτ.trans (start_mv _ _ _)
        have hfns' : r'.fns = r.fns := hfns
        have hI := ih (by simp) k' (mv τ 1 (τ.reads + 1)) r' _ (hSτ.mv 1 _)
          (fun x hx => by
            have := hok x (List.mem_cons_of_mem _ hx)
            rw [hfns']
            have hnn : (mv τ 1 (τ.reads + 1)).nesting = σ.nesting := hst2.kept.nesting
            rw [hnn]; exact this)
          hAt2 (by rw [hlen] at hk; omega)
        have hrun : readBody (evalN fuel)
            (accept .Comma >>= fun b => if b then readLoop (evalN fuel) k' else pure ()) σ =
            readLoop (evalN fuel) k' (mv τ 1 (τ.reads + 1)) := by
          rw [hres, bind_ok hacc]
          rfl
        rw [hrun]
        dsimp only
        generalize readTargetsSpec (allData3 p) r' (t' :: ts'') = res2 at hI ⊢
        obtain ⟨r'', ctl2⟩ := res2
        cases ctl2 with
        | next =>
          obtain ⟨τ2, hres2, hS2, hst3, hAt3⟩ := hI
          refine ⟨τ2, hres2, hS2, hst2.trans hst3, ?_⟩
          simpa only [renderRTargets, List.append_assoc, List.cons_append, List.nil_append] using hAt3
        | error e => exact ⟨hI.1, hI.2.start hst2⟩
        | errorAt e ln =>
          obtain ⟨he, σ', i, h1, h2, h3, h4⟩ := hI
          exact ⟨he, σ', i, h1, h2, h3.trans hst2.out, h4.trans hst2.kept.nesting⟩
        | skipLine => trivial
        | jump m => trivial
        | stop => trivial
        | resume a b => trivial
      | error e => exact hO
      | errorAt e ln => exact hO
      | skipLine => trivial
      | jump m => trivial
      | stop => trivial
      | resume a b => trivial

#print axioms read_cell_refines
#print axioms read_stmt_refines
#print axioms read_targets_refines

end Abasic.Props.C03
