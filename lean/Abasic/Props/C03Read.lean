import Abasic.Props.C03All
/-
  C03 — READ into array cells, inside the unified reference machine.

  `RStmt3.readS` (Ref/Stmt3.lean) takes a non-empty list of targets
  (`RTarget`): scalar names and array cells `name(e₁, …, eₖ)` in any mixture,
  `READ x, A(I), B$(2)`.  READ OFF THE CODE (`readLoop`, Stmt.lean): for each
  target, in this order,
    1. the target is parsed — `parseLValue`: the name and, behind `(`, the
       subscripts, which are EVALUATED NOW (left to right; this may call
       functions, draw random numbers, create arrays that are read);
    2. the next DATA item is consumed (OUT OF DATA when there is none — the
       subscripts have been evaluated by then);
    3. the item is coerced to the kind of the target's NAME (a number read into
       a string target is its text; a string read into a numeric target is
       DATA TYPE MISMATCH, reported on the line of the DATA statement — the item
       stays consumed);
    4. the value is stored — `assignValue`, the same store as LET: the kind
       check against the name, auto-dimension (11 per subscript) when the array
       does not exist, BAD SUBSCRIPT beyond the dimensions.
  `readCellSpec` / `readScalarSpec` (Ref/Stmt3.lean) are that, over the reference
  state `RState3`; `readTargetsSpec` runs a list of targets in order and IS the
  reference step of `readS` (`readS_exec`).

  The refinement proofs live in Proofs/Stmt3Arr.lean (`read_cell_refines`,
  `read_target_refines`, `read_targets_refines`, `read_ok`) and are part of
  `stmt_ok`: `stmt3_refines`, `turn3_refines`, `run3_refines`,
  `run3_refines_steps`, `run3_ends`, `run3_fails`, `safeRun_of_static`
  (Props/C03All.lean) hold for the extended machine with unchanged statements.
  The side conditions on the new targets are in `sdepth3` (`targetsDepth`: the
  depth of the subscripts) and `ResolvedS` (`ResolvedTargets`).

  HERE: the statement-level results under their earlier names
  (`read_cell_refines`, `read_stmt_refines`, `read_target_refines`,
  `read_targets_refines`); `readS_exec`; `readS_scalar_exec` (on scalar targets
  the reference step is the `readAll` of the earlier layers: the old READ is
  `readS (scalarTargets xs)`); `readS_refines` (`stmt3_refines` at READ); and a
  non-vacuity example (`Demo4`): a program reading into cells, through
  `run3_ends`, and by computation on the model.
-/
set_option linter.unusedSectionVars false

namespace Abasic.Props.C03
open Abasic Abasic.Ref Abasic.ExprL Abasic.ExprL2 Abasic.StmtL Abasic.ProgL Abasic.Prog3L Abasic.Stmt3L Abasic.Hoare M
open Abasic.Stmt2L (accept_end coerce_matches coerce_err readLoop_unfold)

variable {F : Type} [NumOps F]

/-! ### the reference step of READ -/

/-- the reference step of `READ t₁, …` is `readTargetsSpec` -/
theorem readS_exec (items : List (Nat × DataElement F)) (n j : Nat) (r : RState3 F) (ts : List (RTarget F)) :
    (RStmt3.readS ts).exec items n j r = readTargetsSpec items r ts := rfl

/-- **The scalar-only READ is unchanged**: on a list of scalar targets the
    reference step is the `readAll` of Ref/Stmt2.lean, as before the extension. -/
theorem readS_scalar_exec (items : List (Nat × DataElement F)) (n j : Nat) : ∀ (xs : List Str) (r : RState3 F),
    (RStmt3.readS (scalarTargets xs)).exec items n j r =
      ({ r with vars := (readAll items xs r.vars r.data).1, data := (readAll items xs r.vars r.data).2.1 },
       (readAll items xs r.vars r.data).2.2)
  | [], r => rfl
  | x :: rest, r => by
    rw [readS_exec]
    show (match readTargetSpec items r (.scalar x) with
          | (r', .next) => readTargetsSpec items r' (scalarTargets rest)
          | y => y) = _
    simp only [readTargetSpec, readScalarSpec, readAll]
    cases items[r.data]? with
    | none => rfl
    | some lnd =>
      obtain ⟨ln, d⟩ := lnd
      dsimp only
      cases Value.coerceFromData x d with
      | error e => rfl
      | ok v =>
        dsimp only
        have ih := readS_scalar_exec items n j rest { r with data := r.data + 1, vars := alSet x v r.vars }
        rw [readS_exec] at ih
        rw [ih]

/-- the rendering of scalar targets is the rendering of the names -/
theorem renderRTargets_scalar : ∀ xs : List Str, renderRTargets (F := F) (scalarTargets xs) = renderTargets xs
  | [] => rfl
  | [_] => rfl
  | x :: y :: rest => by
    have ih : renderRTargets (F := F) (scalarTargets (y :: rest)) = _ := renderRTargets_scalar (y :: rest)
    show [Token.symbol x] ++ Token.kw .Comma :: renderRTargets (scalarTargets (y :: rest)) = _
    rw [ih]
    rfl

/-- scalar targets need no side conditions -/
theorem scalar_side (fns : List (Str × FnDefSpec F)) : ∀ xs : List Str,
    ResolvedTargets fns (scalarTargets xs) ∧ targetsDepth fns (scalarTargets xs) = 0
  | [] => ⟨trivial, rfl⟩
  | x :: rest => by
    obtain ⟨h1, h2⟩ := scalar_side fns rest
    refine ⟨⟨trivial, h1⟩, ?_⟩
    show max 0 (targetsDepth fns (scalarTargets rest)) = 0
    rw [h2]; rfl

/-! ### the statement-level results (proved in Proofs/Stmt3Arr.lean) -/

/-- **read_cell_refines.**  One cell target `name(idx…)` of a READ: the model's
    READ round is `readCellSpec` — subscripts first, then the item, the
    coercion by the name, the store of LET with auto-dimension. -/
theorem read_cell_refines {p : RProgram3 F} {σ : St F} {r : RState3 F} (hS : Sync p r σ) (fuel : Nat)
    (name : Str) (idx : List (Expr2 F)) (pre rest : List (Token F))
    (hres : ResolvedL r.fns idx) (hd : depthArgs r.fns callFuel idx ≤ fuel)
    (hn : σ.nesting + depthArgs r.fns callFuel idx ≤ Extracted.nestingLimit)
    (hAt : At σ pre (.symbol name :: .kw .LeftParen :: (renderArgs idx ++ (.kw .RightParen :: rest))))
    (K : M F Unit) :
    ReadCellOK p σ pre (cellToks name idx) rest K (readBody (evalN fuel) K σ)
      (readCellSpec (allData3 p) r name idx) :=
  Stmt3L.read_cell_refines hS fuel name idx pre rest hres hd hn hAt K

/-- one target, scalar or cell -/
theorem read_target_refines {p : RProgram3 F} {σ : St F} {r : RState3 F} (hS : Sync p r σ) (fuel : Nat)
    (t : RTarget F) (pre rest : List (Token F)) (hok : TargetOK r.fns fuel σ.nesting t)
    (hAt : At σ pre (t.toks ++ rest)) (hpost : ∀ t', rest.head? = some t' → t'.isKw .LeftParen = false)
    (K : M F Unit) :
    ReadCellOK p σ pre t.toks rest K (readBody (evalN fuel) K σ) (readTargetSpec (allData3 p) r t) :=
  Stmt3L.read_target_refines hS fuel t pre rest hok hAt hpost K

/-- **read_targets_refines.**  The READ loop over a non-empty list of targets —
    scalars and array cells in any mixture — is `readTargetsSpec`: the targets in
    order, each one as `readScalarSpec` / `readCellSpec` says, the first failure
    ending the statement. -/
theorem read_targets_refines {p : RProgram3 F} (fuel : Nat) (rest : List (Token F)) (hE : StmtEnd rest) :
    ∀ (ts : List (RTarget F)), ts ≠ [] → ∀ (k : Nat) (σ : St F) (r : RState3 F) (pre : List (Token F)),
      Sync p r σ → (∀ t ∈ ts, TargetOK r.fns fuel σ.nesting t) → At σ pre (renderRTargets ts ++ rest) →
      (renderRTargets ts).length < k →
      ReadCellOK p σ pre (renderRTargets ts) rest (pure ()) (readLoop (evalN fuel) k σ)
        (readTargetsSpec (allData3 p) r ts) :=
  Stmt3L.read_targets_refines fuel rest hE

/-- **READ as a statement of the reference machine**: `stmt3_refines` at
    `READ t₁, …, tₖ` (scalars and cells mixed), the outcome spelled out with
    `readTargetsSpec`. -/
theorem readS_refines {p : RProgram3 F} {r : RState3 F} {σ : St F} {n j : Nat} {ss : List (RStmt3 F)}
    {ts : List (RTarget F)} {fuel : Nat} (h : SReady3 p r σ n j ss (.readS ts) fuel) :
    Outcome3 p σ n ((preToks3 ss j).length + ((renderRTargets ts).length + 1)) (renderLine3 ss).length
      (stmtBody (evalN fuel) σ) (readTargetsSpec (allData3 p) r ts).1 (readTargetsSpec (allData3 p) r ts).2 := by
  have h0 := stmt3_refines h
  rw [readS_exec] at h0
  exact h0

/-- **read_stmt_refines.**  The statement `READ name(idx…)` as one statement
    activation, in the format of the statement theorem of C03All (`Outcome3`:
    on success the model state realises the new reference state with the cursor
    behind the statement; errors as the reference step reports them, DATA TYPE
    MISMATCH located on the line of the DATA statement). -/
theorem read_stmt_refines {p : RProgram3 F} {σ : St F} {r : RState3 F} (hS : Sync p r σ) (fuel n : Nat)
    (name : Str) (idx : List (Expr2 F)) (pre rest : List (Token F)) (eol : Nat)
    (hl : σ.loc.line = some n) (hE : StmtEnd rest)
    (hres : ResolvedL r.fns idx) (hd : depthArgs r.fns callFuel idx ≤ fuel)
    (hn : σ.nesting + depthArgs r.fns callFuel idx ≤ Extracted.nestingLimit)
    (hAt : At σ pre (.kw .Read :: (cellToks name idx ++ rest))) :
    Outcome3 p σ n (pre.length + 1 + (cellToks name idx).length) eol (stmtBody (evalN fuel) σ)
      (readCellSpec (allData3 p) r name idx).1 (readCellSpec (allData3 p) r name idx).2 := by
  obtain ⟨k1, h1⟩ := next_ex hAt
  have hAt1 := at_mv1 hAt k1
  have hst : Start σ (mv σ 1 k1) := start_mv _ _ _
  have hrun : stmtBody (evalN fuel) σ =
      readLoop (evalN fuel) ((pre ++ [Token.kw Kw.Read] ++ (cellToks name idx ++ rest)).length + 1) (mv σ 1 k1) := by
    unfold stmtBody
    rw [bind_ok (traceHere_off hS.env.tracing)]
    unfold dispatch
    rw [bind_ok h1]
    show readStatement (evalN fuel) _ = _
    unfold readStatement
    rw [bind_ok (lineBudget_eq hAt1.1)]
  rw [hrun, readLoop_body]
  have hAt1' : At (mv σ 1 k1) (pre ++ [Token.kw Kw.Read])
      (.symbol name :: .kw .LeftParen :: (renderArgs idx ++ (.kw .RightParen :: rest))) := by
    simpa only [cellToks, List.cons_append, List.append_assoc, List.nil_append] using hAt1
  have hR := read_cell_refines (hS.mv 1 k1) fuel name idx _ rest hres hd hn hAt1'
    (accept .Comma >>= fun b =>
      if b then readLoop (evalN fuel) (pre ++ [Token.kw Kw.Read] ++ (cellToks name idx ++ rest)).length else pure ())
  have hctl := readCellSpec_ctl (allData3 p) r name idx
  generalize readCellSpec (allData3 p) r name idx = res at hR hctl
  obtain ⟨r', ctl⟩ := res
  cases ctl with
  | next =>
    obtain ⟨τ, hres', hSτ, hstτ, hAtτ⟩ := hR
    have hacc := accept_end (k := .Comma) hAtτ (Stmt3L.stmtEnd_not hE (by decide) (by decide))
    refine ⟨mv τ 0 (τ.reads + 1), ?_, ?_, ?_, ?_, Or.inl ?_⟩
    · rw [hres', bind_ok hacc]
      rfl
    · exact kept_mv (hst.trans hstτ).kept 0 _
    · exact mem_mv hSτ.mem 0 _
    · show τ.loc.line = some n
      rw [(hst.trans hstτ).line]; exact hl
    · show τ.loc.idx + 0 = _
      rw [hAtτ.2]
      simp only [List.length_append, List.length_cons, List.length_nil]
      omega
  | error e => exact ⟨hR.1, hR.2.start hst⟩
  | errorAt e ln =>
    obtain ⟨he, σ', i, h1', h2', h3', h4'⟩ := hR
    exact ⟨he, σ', i, h1', h2', h3', h4'⟩
  | skipLine => rcases hctl with h | ⟨_, h⟩ | ⟨_, _, h⟩ <;> cases h
  | jump m => rcases hctl with h | ⟨_, h⟩ | ⟨_, _, h⟩ <;> cases h
  | stop => rcases hctl with h | ⟨_, h⟩ | ⟨_, _, h⟩ <;> cases h
  | resume a b => rcases hctl with h | ⟨_, h⟩ | ⟨_, _, h⟩ <;> cases h

/-! ### non-vacuity (on the carrier `Unit`, as in C03All.lean): READ into cells through the run theorems

  ```
  0 READ A(0), X$, B$(0) : PRINT B$(0); X$;
  10 DATA 0, "S", "T"
  ```
  `A(0)` and `B$(0)` do not exist: they are auto-dimensioned by the READ. -/

namespace Demo4
open Demo3 (ready3_compile outOf rstep3_next)

def nA : Str := ['A']
def nX : Str := ['X', '$']
def nB : Str := ['B', '$']

def readStmt : RStmt3 Unit := .readS [.cell nA [.num ()], .scalar nX, .cell nB [.num ()]]
def printStmt : RStmt3 Unit := .printS [.expr (.cell nB [.num ()]), .semi, .expr (.var nX), .semi]
def dataStmt : RStmt3 Unit := .dataS [.num (), .str ['S'], .str ['T']]

def prog : RProgram3 Unit := [ (0, [readStmt, printStmt]), (10, [dataStmt]) ]

theorem prog_fits : Fits3 prog where
  wf := ⟨by decide, by intro l hl; simp [prog] at hl; rcases hl with rfl | rfl <;> simp⟩
  covered := by
    intro l hl s hs
    simp [prog] at hl
    rcases hl with rfl | rfl
    · simp at hs
      rcases hs with rfl | rfl
      · exact ⟨rfl, by simp [readStmt, RStmt3.CoveredB]⟩
      · exact ⟨rfl, by simp [printStmt, RStmt3.CoveredB, separated3]⟩
    · simp at hs; subst hs; exact ⟨rfl, by simp [dataStmt, RStmt3.CoveredB]⟩

theorem prog_noDef : ∀ l ∈ prog, ∀ s ∈ l.2, ∀ name d, ¬ Defines s name d := by
  intro l hl s hs name d
  simp [prog] at hl
  rcases hl with rfl | rfl
  · simp at hs
    rcases hs with rfl | rfl <;> exact id
  · simp at hs; subst hs; exact id

theorem prog_static : Static prog defaultFuel where
  ok := by
    intro fns hf
    have hnone := fnsOf_nil_of_noDef prog_noDef hf
    refine ⟨fun name d hg => (by rw [hnone name] at hg; cases hg), fun l hl s hs => ?_⟩
    simp [prog] at hl
    rcases hl with rfl | rfl
    · simp at hs
      rcases hs with rfl | rfl
      · refine ⟨?_, ?_, ?_⟩
        · simp only [readStmt, ResolvedS, ResolvedTargets, RTarget.Resolved, ResolvedL, Resolved, and_true]
        · simp [readStmt, sdepth3, targetsDepth, RTarget.depth, depthArgs, depth2, defaultFuel]
        · simp [readStmt, sdepth3, targetsDepth, RTarget.depth, depthArgs, depth2, Extracted.nestingLimit]
      · refine ⟨?_, ?_, ?_⟩
        · simp only [printStmt, ResolvedS, ResolvedItems, ResolvedL, Resolved, and_true, hnone, true_and]
          decide
        · simp [printStmt, sdepth3, itemsDepth3, edepth, depthArgs, depth2, defaultFuel]
        · simp [printStmt, sdepth3, itemsDepth3, edepth, depthArgs, depth2, Extracted.nestingLimit]
    · simp at hs; subst hs
      simp [dataStmt, ResolvedS, sdepth3]

/-! #### the reference run -/

/-- the subscript `0` -/
theorem idx0 (r : RState3 Unit) : evalIdx r [.num ()] = .ok ([0], r) := by
  simp [evalIdx, foldIdx, fold2, subscript]
  rfl

def arrA : ArrayV Unit := .nums [11] (List.replicate 11 ())
def arrB : ArrayV Unit := .strs [11] (['T'] :: List.replicate 10 [])

def r1 : RState3 Unit :=
  { vars := [(nX, .str ['S'])], arrays := alSet nB arrB (alSet nA arrA []), data := 3, pc := some (0, 1) }
def r2 : RState3 Unit := { r1 with out := [['T', 'S']], pc := some (10, 0) }
def r3 : RState3 Unit := { r2 with pc := none }

theorem data_prog : allData3 prog = [(10, .num ()), (10, .str ['S']), (10, .str ['T'])] := by
  simp [allData3, prog, readStmt, printStmt, dataStmt, RStmt3.dataOf]

theorem step1 : RStep3 prog (prog.start 0) = .inl r1 := by
  have hex : readStmt.exec (allData3 prog) 0 0 (prog.start 0) = ({ r1 with pc := some (0, 0) }, .next) := by
    rw [data_prog]
    simp [readStmt, RStmt3.exec, readTargetsSpec, readTargetSpec, readCellSpec, readScalarSpec, idx0]
    rfl
  exact rstep3_next (ss := _) rfl rfl rfl hex

theorem step2 : RStep3 prog r1 = .inl r2 := by
  have h1 : evalE r1 (.cell nB [.num ()]) = .ok (.str ['T'], r1) := by
    simp [evalE, fold2, foldIdx, subscript]
    rfl
  have h2 : evalE r1 (.var nX) = .ok (.str ['S'], r1) := by
    simp [evalE, fold2]
    exact ⟨rfl, rfl⟩
  have hex : printStmt.exec (allData3 prog) 0 1 r1 = ({ r1 with out := r1.out ++ [['T', 'S']] }, .next) := by
    simp only [printStmt, RStmt3.exec, printText3, h1, h2, valueText]
    rfl
  exact rstep3_next (ss := _) rfl rfl rfl hex

theorem step3 : RStep3 prog r2 = .inl r3 := by
  have hex : dataStmt.exec (allData3 prog) 10 0 r2 = (r2, .next) := rfl
  exact rstep3_next (ss := _) rfl rfl rfl hex

/-- the reference machine: three steps to the end; `A(0)`, `X$`, `B$(0)` read, `TS` printed -/
theorem prog_ref : RSteps3 prog 3 (prog.start 0) = .inl r3 := by
  simp only [RSteps3, step1, step2, step3]

/-- by the theorems: the model ends idle, holding `X$ = "S"`, having printed `TS` -/
example : ∃ k σ', k ≤ 4 ∧ runTurns defaultFuel k ({ lines := compileP3 prog } : St Unit) = .ok () σ' ∧
    σ'.state = .idle ∧ σ'.vars = [(nX, .str ['S'])] ∧ (takeOutput σ').1 = [.print ['T', 'S']] := by
  obtain ⟨k, σ', hk, hrun, hidle, hv, _, ho⟩ :=
    run3_ends prog_fits (ready3_compile prog) (safeRun_of_static prog_static 0) 2 prog_ref rfl
  exact ⟨k, σ', hk, hrun, hidle, hv, by rw [ho]; rfl⟩

def progLines : Lines Unit :=
  { map := [ (0, [.kw .Read, .symbol nA, .kw .LeftParen, .num (), .kw .RightParen, .kw .Comma, .symbol nX, .kw .Comma,
                  .symbol nB, .kw .LeftParen, .num (), .kw .RightParen,
                  .kw .Colon, .kw .Print, .symbol nB, .kw .LeftParen, .num (), .kw .RightParen, .kw .Semicolon,
                  .symbol nX, .kw .Semicolon]),
             (10, [.data [.num (), .str ['S'], .str ['T']]]) ],
    sorted := [0, 10] }

theorem prog_compile : compileP3 prog = progLines := by
  simp [compileP3, prog, readStmt, printStmt, dataStmt, progLines, renderLine3, renderTail3, renderS3, renderItems3,
    PItem3.render, render2, renderArgs, renderRTargets, RTarget.toks, cellToks]

/-- … and by computation on the model -/
example : outOf (runTurns defaultFuel 4 ({ lines := compileP3 prog } : St Unit)) = [.print ['T', 'S']] := by
  rw [prog_compile]
  decide +kernel

end Demo4


end Abasic.Props.C03
