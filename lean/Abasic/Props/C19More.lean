import Abasic.Props.C19
import Abasic.Props.C01
import Abasic.Proofs.LoadLine
/-
  C19, continued — the page script and the adapter add no trap of their own.

  `Reach fuel s0` is the set of core states reachable from `s0` (or from a fresh
  interpreter) by protocol-respecting call sequences (the ones the page
  generates); `CoreTotal fuel s0` is C01's open statement "no such call panics"
  as an explicit hypothesis (`s0 = {}`: from the interpreter as created).  Under it, every page event
  from a state satisfying `PageInv` returns a state satisfying `PageInv`
  (`page_step_inv`), hence every admissible event sequence from the initial page
  does (`page_events_inv`); the proof shows at every adapter call that the
  adapter's own assertion (`latest_error.is_none()`), the state assertion of the
  core entry point (Idle / Running / AwaitingInput) and the `get_state` panic on
  the transient state cannot fire.
-/
namespace Abasic.Props.C19
open Abasic

variable {F : Type} [NumOps F] {s0 : St F}

/-! ### the core states the page can produce, and the hypothesis about the core -/

/-- Core states reachable through protocol-respecting host calls (start only when Idle,
    continue only when Running, reply only when AwaitingInput, break only when Running or
    AwaitingInput, take-output any time, replacement by a fresh interpreter after NEW),
    never continuing after a panic. -/
inductive Reach (fuel : Nat) (s0 : St F) : St F → Prop
  | base : Reach fuel s0 s0
  | init : Reach fuel s0 {}
  | startOk {s s' : St F} {line : Str} {a : Unit} :
      Reach fuel s0 s → s.state = .idle → Abasic.startEvaluating fuel line s = .ok a s' → Reach fuel s0 s'
  | startErr {s s' : St F} {line : Str} {e : TErr} :
      Reach fuel s0 s → s.state = .idle → Abasic.startEvaluating fuel line s = .err e s' →
      e.err.isPanic = false → Reach fuel s0 s'
  | contOk {s s' : St F} {a : Unit} :
      Reach fuel s0 s → s.state = .running → Abasic.continueEvaluating fuel s = .ok a s' → Reach fuel s0 s'
  | contErr {s s' : St F} {e : TErr} :
      Reach fuel s0 s → s.state = .running → Abasic.continueEvaluating fuel s = .err e s' →
      e.err.isPanic = false → Reach fuel s0 s'
  | input {s s' : St F} {text : Str} {a : Unit} :
      Reach fuel s0 s → s.state = .awaitingInput → Abasic.provideInput text s = .ok a s' → Reach fuel s0 s'
  | brk {s s' : St F} {a : Unit} :
      Reach fuel s0 s → (s.state = .running ∨ s.state = .awaitingInput) →
      breakAtCurrentLocation s = .ok a s' → Reach fuel s0 s'
  | take {s : St F} : Reach fuel s0 s → Reach fuel s0 (Abasic.takeOutput s).2

/-- C01's open invariant, as a hypothesis: on reachable states, `start_evaluating` called when Idle
    and `continue_evaluating` called when Running do not panic, and rendering the caret lines of a
    reported error does not panic either (`get_line_with_pointer_caret`'s `unwrap`). -/
def CoreTotal (fuel : Nat) (s0 : St F) : Prop :=
  ∀ s : St F, Reach fuel s0 s →
    (s.state = .idle → ∀ line e s', Abasic.startEvaluating fuel line s = .err e s' →
        e.err.isPanic = false ∧ (caretLines s' e (some line)).isSome = true) ∧
    (s.state = .running → ∀ e s', Abasic.continueEvaluating fuel s = .err e s' → e.err.isPanic = false)

/-! ### the page invariant -/

/-- the prompt the page shows for the state it is in -/
def promptFor (p : Page F) : Str :=
  if p.js.core.state = .awaitingInput then "? ".toList
  else if p.interactive then "] ".toList else "<disabled>".toList

/-- What holds between two page events. -/
structure PageInv (fuel : Nat) (s0 : St F) (p : Page F) : Prop where
  /-- the core has only seen protocol-respecting calls -/
  reach : Reach fuel s0 p.js.core
  /-- the transient new-interpreter state is never left exposed (`get_state` cannot panic) -/
  notTransient : p.js.core.state ≠ .newRequested
  /-- an unhandled latched error ⇒ a timer callback that will handle it is pending, and the core is idle -/
  latched : p.js.latest.isSome = true → 0 < p.ticks ∧ p.js.core.state = .idle
  /-- a running program ⇒ a timer callback that will continue it is pending -/
  running : p.js.core.state = .running → 0 < p.ticks
  /-- no callback pending ⇒ the last thing shown is the prompt that matches the core's state
      (nothing at all has been shown on the initial page) -/
  prompt : p.ticks = 0 → p.ui = [] ∨ p.ui.getLast? = some ("prompt", promptFor p)
  /-- no callback pending ⇒ every output record of the core has been shown -/
  shown : p.ticks = 0 → p.js.core.out = []

/-- the adapter may be asked to start: no latched error and the core is idle -/
def StartOk (j : Js F) : Prop := j.latest = none ∧ j.core.state = .idle

omit [NumOps F] in
theorem getState_idle_iff (j : Js F) : j.getState = some .idle ↔ StartOk j := by
  unfold StartOk Js.getState
  cases hl : j.latest <;> cases hs : j.core.state <;> simp

omit [NumOps F] in
theorem getState_awaiting_iff (j : Js F) :
    j.getState = some .awaitingInput ↔ (j.latest = none ∧ j.core.state = .awaitingInput) := by
  unfold Js.getState
  cases hl : j.latest <;> cases hs : j.core.state <;> simp

omit [NumOps F] in
theorem getState_running_iff (j : Js F) :
    j.getState = some .running ↔ (j.latest = none ∧ j.core.state = .running) := by
  unfold Js.getState
  cases hl : j.latest <;> cases hs : j.core.state <;> simp

omit [NumOps F] in
theorem getState_errored_iff (j : Js F) : j.getState = some .errored ↔ j.latest.isSome = true := by
  unfold Js.getState
  cases hl : j.latest <;> cases hs : j.core.state <;> simp

omit [NumOps F] in
theorem getState_none_iff (j : Js F) :
    j.getState = none ↔ (j.latest = none ∧ j.core.state = .newRequested) := by
  unfold Js.getState
  cases hl : j.latest <;> cases hs : j.core.state <;> simp

/-! ### the adapter's calls, under their protocol preconditions -/

theorem reach_replace (fuel : Nat) {s s' : St F} {line : Str} {a : Unit} (hr : Reach fuel s0 s)
    (hi : s.state = .idle) (h : Abasic.startEvaluating fuel line s = .ok a s') :
    Reach fuel s0 (Js.maybeReplace s') := by
  unfold Js.maybeReplace
  split
  · exact .init
  · exact .startOk hr hi h

theorem reach_replace_cont (fuel : Nat) {s s' : St F} {a : Unit} (hr : Reach fuel s0 s)
    (hi : s.state = .running) (h : Abasic.continueEvaluating fuel s = .ok a s') :
    Reach fuel s0 (Js.maybeReplace s') := by
  unfold Js.maybeReplace
  split
  · exact .init
  · exact .contOk hr hi h

/-- `start_evaluating` asked while nothing is latched and the core is idle: no trap. -/
theorem js_start_total (fuel : Nat) (hc : CoreTotal fuel s0) (line : Str) (j : Js F)
    (hr : Reach fuel s0 j.core) (hok : StartOk j) :
    ∃ j', j.startEvaluating fuel line = some j' ∧ Reach fuel s0 j'.core ∧ j'.core.state ≠ .newRequested ∧
      ((j'.latest = none ∧ ∃ a s, Abasic.startEvaluating fuel line j.core = .ok a s ∧
          j'.core = Js.maybeReplace s) ∨
       (j'.latest.isSome = true ∧ j'.core.state = .idle)) := by
  obtain ⟨hl, hi⟩ := hok
  cases h : Abasic.startEvaluating fuel line j.core with
  | ok a s =>
    refine ⟨{ core := Js.maybeReplace s, latest := none }, ?_, reach_replace fuel hr hi h,
      replaced_not_transient s, Or.inl ⟨rfl, a, s, rfl, rfl⟩⟩
    simp [Js.startEvaluating, hl, h]
  | err e s =>
    obtain ⟨hp, hcar⟩ := (hc j.core hr).1 hi line e s h
    have hidle : s.state = .idle := C01.start_error_is_value fuel line _ _ e h
    cases hcl : caretLines s e (some line) with
    | none => rw [hcl] at hcar; simp at hcar
    | some ls =>
      refine ⟨{ core := s, latest := some (joinWith ['\n'] (errText e :: ls)) }, ?_,
        .startErr hr hi h hp, ?_, Or.inr ⟨rfl, hidle⟩⟩
      · simp [Js.startEvaluating, hl, h, hp, hcl]
      · show s.state ≠ _
        rw [hidle]; simp

/-- `continue_evaluating` asked while nothing is latched and the core is running: no trap. -/
theorem js_continue_total (fuel : Nat) (hc : CoreTotal fuel s0) (j : Js F)
    (hr : Reach fuel s0 j.core) (hl : j.latest = none) (hi : j.core.state = .running) :
    ∃ j', j.continueEvaluating fuel = some j' ∧ Reach fuel s0 j'.core ∧ j'.core.state ≠ .newRequested ∧
      (j'.latest = none ∨ (j'.latest.isSome = true ∧ j'.core.state = .idle)) := by
  cases h : Abasic.continueEvaluating fuel j.core with
  | ok a s =>
    refine ⟨{ core := Js.maybeReplace s, latest := none }, ?_, reach_replace_cont fuel hr hi h,
      replaced_not_transient s, Or.inl rfl⟩
    simp [Js.continueEvaluating, hl, h]
  | err e s =>
    have hp := (hc j.core hr).2 hi e s h
    have hidle : s.state = .idle := C01.cont_error_is_value fuel _ _ e hi h
    refine ⟨{ core := s, latest := some (errText e) }, ?_, .contErr hr hi h hp, ?_, Or.inr ⟨rfl, hidle⟩⟩
    · simp [Js.continueEvaluating, hl, h, hp]
    · show s.state ≠ _
      rw [hidle]; simp

/-- `provide_input` asked while the core awaits input: no trap, and the core is running afterwards. -/
theorem js_provide_total (fuel : Nat) (text : Str) (j : Js F)
    (hr : Reach fuel s0 j.core) (hi : j.core.state = .awaitingInput) :
    ∃ j', j.provideInput text = some j' ∧ Reach fuel s0 j'.core ∧ j'.core.state = .running ∧
      j'.latest = j.latest := by
  have h := C01.reply_total text j.core hi
  refine ⟨{ j with core := { j.core with input := some text, state := .running } }, ?_,
    .input hr hi h, rfl, rfl⟩
  simp [Js.provideInput, h]

/-- `break_at_current_location` never traps and leaves the core idle. -/
theorem js_break_total (fuel : Nat) (j : Js F) (hr : Reach fuel s0 j.core)
    (hs : j.core.state = .running ∨ j.core.state = .awaitingInput) :
    Reach fuel s0 j.breakAt.core ∧ j.breakAt.core.state = .idle ∧ j.breakAt.latest = j.latest := by
  obtain ⟨σ', h, hidle⟩ := C01.break_total j.core
  have : j.breakAt = { j with core := σ' } := by simp [Js.breakAt, h]
  rw [this]
  exact ⟨.brk hr hs h, hidle, rfl⟩

/-! ### the state handler -/

/-- the page after `showOutput()` -/
def afterTake (p : Page F) : Page F :=
  { p with js := (p.js.takeOutput).2, ui := p.ui ++ (p.js.takeOutput).1.map showRecord }

def errorLines (err : Str) : Ui :=
  (splitOnLF err).zipIdx.map fun (l, i) => (if i == 0 then "error" else "error-context", l ++ ['\n'])

theorem handle_succ (fuel n : Nat) (p : Page F) :
    Page.handle fuel (n + 1) p =
      match (afterTake p).js.getState with
      | none => none
      | some .idle => some { afterTake p with ui := (afterTake p).ui ++ [("prompt", if p.interactive then "] ".toList else "<disabled>".toList)] }
      | some .awaitingInput => some { afterTake p with ui := (afterTake p).ui ++ [("prompt", "? ".toList)] }
      | some .errored =>
        match (afterTake p).js.latest with
        | none => none
        | some err =>
          Page.handle fuel n { afterTake p with js := { (afterTake p).js with latest := none }, ui := (afterTake p).ui ++ errorLines err }
      | some .running =>
        match (afterTake p).js.continueEvaluating fuel with
        | none => none
        | some js' => some { afterTake p with js := js', ticks := p.ticks + 1 } := by
  rfl

omit [NumOps F] in
theorem promptFor_idle (p : Page F) (h : p.js.core.state = .idle) :
    promptFor p = if p.interactive then "] ".toList else "<disabled>".toList := by
  unfold promptFor
  rw [if_neg]
  intro h2; rw [h] at h2; cases h2

omit [NumOps F] in
theorem promptFor_awaiting (p : Page F) (h : p.js.core.state = .awaitingInput) :
    promptFor p = "? ".toList := by
  unfold promptFor
  rw [if_pos h]

/-- `handleCurrentState` entered with nothing latched: one round suffices. -/
theorem handle_unlatched (fuel : Nat) (hc : CoreTotal fuel s0) (n : Nat) (p : Page F)
    (hr : Reach fuel s0 p.js.core) (hnt : p.js.core.state ≠ .newRequested) (hl : p.js.latest = none) :
    ∃ p', Page.handle fuel (n + 1) p = some p' ∧ PageInv fuel s0 p' := by
  have hr' : Reach fuel s0 (afterTake p).js.core := Reach.take hr
  have hl' : (afterTake p).js.latest = none := hl
  cases hs : p.js.core.state with
  | newRequested => exact absurd hs hnt
  | idle =>
    have hs' : (afterTake p).js.core.state = .idle := hs
    have hg : (afterTake p).js.getState = some .idle := (getState_idle_iff _).2 ⟨hl', hs'⟩
    rw [handle_succ, hg]
    refine ⟨_, rfl, ?_⟩
    constructor
    · exact hr'
    · exact hnt
    · intro h
      have h2 : p.js.latest.isSome = true := h
      rw [hl] at h2; cases h2
    · intro h
      have h2 : p.js.core.state = .running := h
      rw [hs] at h2; cases h2
    · intro _
      refine Or.inr ?_
      show List.getLast? (_ ++ [_]) = _
      rw [List.getLast?_concat, promptFor_idle]
      · rfl
      · exact hs
    · intro _; rfl
  | awaitingInput =>
    have hs' : (afterTake p).js.core.state = .awaitingInput := hs
    have hg : (afterTake p).js.getState = some .awaitingInput := (getState_awaiting_iff _).2 ⟨hl', hs'⟩
    rw [handle_succ, hg]
    refine ⟨_, rfl, ?_⟩
    constructor
    · exact hr'
    · exact hnt
    · intro h
      have h2 : p.js.latest.isSome = true := h
      rw [hl] at h2; cases h2
    · intro h
      have h2 : p.js.core.state = .running := h
      rw [hs] at h2; cases h2
    · intro _
      refine Or.inr ?_
      show List.getLast? (_ ++ [_]) = _
      rw [List.getLast?_concat, promptFor_awaiting]
      exact hs
    · intro _; rfl
  | running =>
    have hs' : (afterTake p).js.core.state = .running := hs
    have hg : (afterTake p).js.getState = some .running := (getState_running_iff _).2 ⟨hl', hs'⟩
    obtain ⟨j', hj, hrj, hntj, hlj⟩ := js_continue_total fuel hc (afterTake p).js hr' hl' hs'
    rw [handle_succ, hg]
    simp only [hj]
    refine ⟨_, rfl, ?_⟩
    constructor
    · exact hrj
    · exact hntj
    · intro h
      have h2 : j'.latest.isSome = true := h
      rcases hlj with h0 | ⟨_, hi⟩
      · rw [h0] at h2; cases h2
      · exact ⟨Nat.succ_pos _, hi⟩
    · intro _; exact Nat.succ_pos _
    · intro h; exact absurd h (Nat.succ_ne_zero _)
    · intro h; exact absurd h (Nat.succ_ne_zero _)

/-- `handleCurrentState`: two rounds suffice whatever is latched (the page allows itself more). -/
theorem handle_inv (fuel : Nat) (hc : CoreTotal fuel s0) (n : Nat) (p : Page F)
    (hr : Reach fuel s0 p.js.core) (hnt : p.js.core.state ≠ .newRequested) :
    ∃ p', Page.handle fuel (n + 2) p = some p' ∧ PageInv fuel s0 p' := by
  cases hl : p.js.latest with
  | none => exact handle_unlatched fuel hc (n + 1) p hr hnt hl
  | some err =>
    have hl' : (afterTake p).js.latest = some err := hl
    have hg : (afterTake p).js.getState = some .errored := (getState_errored_iff _).2 (by rw [hl']; rfl)
    rw [handle_succ, hg]
    simp only [hl']
    exact handle_unlatched fuel hc n _ (Reach.take hr) hnt rfl

/-! ### the program loader -/

omit [NumOps F] in
theorem replaced_idle (s : St F) (h : s.state = .idle) : (Js.maybeReplace s).state = .idle := by
  unfold Js.maybeReplace
  split
  · rfl
  · exact h

theorem loadLines_cons (fuel : Nat) (l : Str) (ls : List Str) (j : Js F) :
    loadLines fuel (l :: ls) j =
      if jsBlank l then loadLines fuel ls j
      else
        match l with
        | c :: _ =>
          if !isAsciiDigit c then loadLines fuel ls j
          else
            match j.startEvaluating fuel l with
            | none => none
            | some j' => if j'.getState == some .errored then some (j', true) else loadLines fuel ls j'
        | [] => loadLines fuel ls j := by
  rfl

/-- `loadAndRunSourceCode`'s loop: every `start_evaluating` it issues finds the adapter unlatched and
    the core idle (a numbered line leaves the core idle), so it cannot trap. -/
theorem loadLines_inv (fuel : Nat) (hc : CoreTotal fuel s0) (ls : List Str) :
    ∀ (j : Js F), Reach fuel s0 j.core → StartOk j →
    ∃ j' stopped, loadLines fuel ls j = some (j', stopped) ∧ Reach fuel s0 j'.core ∧
      j'.core.state ≠ .newRequested ∧ (stopped = false → StartOk j') := by
  induction ls with
  | nil =>
    intro j hr hok
    refine ⟨j, false, rfl, hr, ?_, fun _ => hok⟩
    rw [hok.2]; simp
  | cons l ls ih =>
    intro j hr hok
    rw [loadLines_cons]
    by_cases hb : jsBlank l = true
    · rw [if_pos hb]; exact ih j hr hok
    · rw [if_neg hb]
      cases l with
      | nil => exact ih j hr hok
      | cons c cs =>
        show ∃ j' stopped, (if (!isAsciiDigit c) = true then loadLines fuel ls j else _) = _ ∧ _
        by_cases hd : isAsciiDigit c = true
        · rw [if_neg (by rw [hd]; simp)]
          obtain ⟨j', hj, hrj, hntj, hcase⟩ := js_start_total fuel hc (c :: cs) j hr hok
          simp only [hj]
          by_cases he : (j'.getState == some JsState.errored) = true
          · rw [if_pos he]
            exact ⟨j', true, rfl, hrj, hntj, fun h => by cases h⟩
          · rw [if_neg he]
            have hok' : StartOk j' := by
              rcases hcase with ⟨hl, a, s, hs, hcore⟩ | ⟨hl, _⟩
              · refine ⟨hl, ?_⟩
                rw [hcore]
                exact replaced_idle s
                  (Proofs.LoadLine.start_digit_line_idle fuel c cs hd j.core s a hok.2 hs)
              · exfalso
                apply he
                rw [(getState_errored_iff j').2 hl]
                rfl
            exact ih j' hrj hok'
        · rw [if_pos (by simpa using hd)]
          exact ih j hr hok

/-! ### page events -/

inductive Event where
  | load (text : Str)
  | submit (input : Str)
  | brk
  | tick

/-- one page event (`none` = a trap) -/
def step (fuel : Nat) : Event → Page F → Option (Page F)
  | .load text, p => Page.load fuel text p
  | .submit input, p => Page.submit fuel input p
  | .brk, p => Page.break fuel p
  | .tick, p => Page.tick fuel p

/-- The page loads a program only at start-up, before anything else happened; what the proof needs
    of that moment is that nothing is latched and the core is idle. -/
def Event.admissible (p : Page F) : Event → Prop
  | .load _ => StartOk p.js
  | _ => True

theorem load_inv (fuel : Nat) (hc : CoreTotal fuel s0) (text : Str) (p : Page F)
    (hinv : PageInv fuel s0 p) (hok : StartOk p.js) :
    ∃ p', Page.load fuel text p = some p' ∧ PageInv fuel s0 p' := by
  obtain ⟨j, stopped, hj, hrj, hntj, hst⟩ := loadLines_inv fuel hc (splitLF text) p.js hinv.reach hok
  unfold Page.load
  simp only [hj]
  cases stopped with
  | true =>
    simp only [if_true]
    exact handle_inv fuel hc 2 _ hrj hntj
  | false =>
    obtain ⟨j', hj', hrj', hntj', _⟩ := js_start_total fuel hc "RUN".toList j hrj (hst rfl)
    simp only [Bool.false_eq_true, if_false, hj']
    exact handle_inv fuel hc 2 _ hrj' hntj'

theorem submit_inv (fuel : Nat) (hc : CoreTotal fuel s0) (input : Str) (p : Page F)
    (hinv : PageInv fuel s0 p) :
    ∃ p', Page.submit fuel input p = some p' ∧ PageInv fuel s0 p' := by
  unfold Page.submit
  cases hg : p.js.getState with
  | none => exact absurd ((getState_none_iff _).1 hg).2 hinv.notTransient
  | some st =>
    cases st with
    | idle =>
      obtain ⟨j', hj', hrj', hntj', _⟩ :=
        js_start_total fuel hc input p.js hinv.reach ((getState_idle_iff _).1 hg)
      simp only [hj']
      exact handle_inv fuel hc 2 _ hrj' hntj'
    | awaitingInput =>
      obtain ⟨j', hj', hrj', hsj', _⟩ :=
        js_provide_total fuel input p.js hinv.reach ((getState_awaiting_iff _).1 hg).2
      simp only [hj']
      refine handle_inv fuel hc 2 _ hrj' ?_
      show j'.core.state ≠ _
      rw [hsj']; simp
    | running => exact ⟨p, rfl, hinv⟩
    | errored => exact ⟨p, rfl, hinv⟩

theorem break_inv (fuel : Nat) (hc : CoreTotal fuel s0) (p : Page F) (hinv : PageInv fuel s0 p) :
    ∃ p', Page.break fuel p = some p' ∧ PageInv fuel s0 p' := by
  unfold Page.break
  cases hg : p.js.getState with
  | none => exact absurd ((getState_none_iff _).1 hg).2 hinv.notTransient
  | some st =>
    cases st with
    | idle => exact ⟨p, rfl, hinv⟩
    | errored => exact ⟨p, rfl, hinv⟩
    | awaitingInput =>
      obtain ⟨hrb, hsb, _⟩ := js_break_total fuel p.js hinv.reach (Or.inr ((getState_awaiting_iff _).1 hg).2)
      refine handle_inv fuel hc 2 _ hrb ?_
      show p.js.breakAt.core.state ≠ _
      rw [hsb]; simp
    | running =>
      obtain ⟨hrb, hsb, _⟩ := js_break_total fuel p.js hinv.reach (Or.inl ((getState_running_iff _).1 hg).2)
      refine handle_inv fuel hc 2 _ hrb ?_
      show p.js.breakAt.core.state ≠ _
      rw [hsb]; simp

theorem tick_inv (fuel : Nat) (hc : CoreTotal fuel s0) (p : Page F) (hinv : PageInv fuel s0 p) :
    ∃ p', Page.tick fuel p = some p' ∧ PageInv fuel s0 p' := by
  unfold Page.tick
  by_cases h : (p.ticks == 0) = true
  · rw [if_pos h]; exact ⟨p, rfl, hinv⟩
  · rw [if_neg h]
    exact handle_inv fuel hc 2 _ hinv.reach hinv.notTransient

/-- Every page event preserves the invariant and does not trap, as long as the core does not panic:
    neither the page script nor the adapter adds a trap of its own. -/
theorem page_step_inv (fuel : Nat) (hc : CoreTotal fuel s0) (e : Event) (p : Page F)
    (hinv : PageInv fuel s0 p) (hadm : e.admissible p) :
    ∃ p', step fuel e p = some p' ∧ PageInv fuel s0 p' := by
  cases e with
  | load text => exact load_inv fuel hc text p hinv hadm
  | submit input => exact submit_inv fuel hc input p hinv
  | brk => exact break_inv fuel hc p hinv
  | tick => exact tick_inv fuel hc p hinv

/-! ### event sequences -/

/-- run a sequence of page events (`none` = some event trapped) -/
def run (fuel : Nat) : List Event → Page F → Option (Page F)
  | [], p => some p
  | e :: es, p =>
    match step fuel e p with
    | none => none
    | some p' => run fuel es p'

/-- every event of the sequence is admissible at the moment it happens -/
def Admissible (fuel : Nat) : List Event → Page F → Prop
  | [], _ => True
  | e :: es, p => e.admissible p ∧ ∀ p', step fuel e p = some p' → Admissible fuel es p'

def Event.isLoad : Event → Bool
  | .load _ => true
  | _ => false

/-- The page as it is created satisfies the invariant. -/
theorem pageInv_init (fuel : Nat) : PageInv fuel s0 ({} : Page F) where
  reach := .init
  notTransient := by simp
  latched := by simp
  running := by simp
  prompt := fun _ => Or.inl rfl
  shown := fun _ => rfl

theorem page_events_inv_from (fuel : Nat) (hc : CoreTotal fuel s0) (es : List Event) :
    ∀ p : Page F, PageInv fuel s0 p → Admissible fuel es p →
    ∃ p', run fuel es p = some p' ∧ PageInv fuel s0 p' := by
  induction es with
  | nil => intro p hinv _; exact ⟨p, rfl, hinv⟩
  | cons e es ih =>
    intro p hinv hadm
    obtain ⟨p1, h1, hinv1⟩ := page_step_inv fuel hc e p hinv hadm.1
    obtain ⟨p2, h2, hinv2⟩ := ih p1 hinv1 (hadm.2 p1 h1)
    refine ⟨p2, ?_, hinv2⟩
    show (match step fuel e p with | none => none | some p' => run fuel es p') = _
    rw [h1]; exact h2

/-- No admissible sequence of page events, from the page as created, traps — provided the core
    does not panic on protocol-respecting calls. -/
theorem page_events_inv (fuel : Nat) (hc : CoreTotal fuel s0) (es : List Event)
    (hadm : Admissible fuel es ({} : Page F)) :
    ∃ p', run fuel es ({} : Page F) = some p' ∧ PageInv fuel s0 p' :=
  page_events_inv_from fuel hc es {} (pageInv_init fuel) hadm

theorem admissible_of_noLoad (fuel : Nat) (es : List Event) (h : ∀ e ∈ es, e.isLoad = false) :
    ∀ p : Page F, Admissible fuel es p := by
  induction es with
  | nil => intro _; trivial
  | cons e es ih =>
    intro p
    refine ⟨?_, fun p' _ => ih (fun e' he' => h e' (List.mem_cons_of_mem _ he')) p'⟩
    have := h e (List.mem_cons_self ..)
    cases e with
    | load t => simp [Event.isLoad] at this
    | submit _ => trivial
    | brk => trivial
    | tick => trivial

/-- Interactive page (no program in the URL): any sequence of submit / break / timer events. -/
theorem page_events_inv_interactive (fuel : Nat) (hc : CoreTotal fuel s0) (es : List Event)
    (h : ∀ e ∈ es, e.isLoad = false) :
    ∃ p', run fuel es ({} : Page F) = some p' ∧ PageInv fuel s0 p' :=
  page_events_inv fuel hc es (admissible_of_noLoad fuel es h _)

/-- Page started with a program: the load, then any sequence of submit / break / timer events. -/
theorem page_events_inv_loaded (fuel : Nat) (hc : CoreTotal fuel s0) (text : Str) (es : List Event)
    (h : ∀ e ∈ es, e.isLoad = false) :
    ∃ p', run fuel (.load text :: es) ({} : Page F) = some p' ∧ PageInv fuel s0 p' :=
  page_events_inv fuel hc _ ⟨⟨rfl, rfl⟩, fun p' _ => admissible_of_noLoad fuel es h p'⟩

/-! ### what the page shows -/

/-- `handleCurrentState` only ever appends to the log. -/
theorem handle_ui_mono (fuel : Nat) (n : Nat) :
    ∀ (p p' : Page F), Page.handle fuel n p = some p' → ∃ rest, p'.ui = p.ui ++ rest := by
  induction n with
  | zero => intro p p' h; cases h
  | succ n ih =>
    intro p p' h
    rw [handle_succ] at h
    have hat : (afterTake p).ui = p.ui ++ (p.js.takeOutput).1.map showRecord := rfl
    cases hg : (afterTake p).js.getState with
    | none => rw [hg] at h; cases h
    | some st =>
      rw [hg] at h
      cases st with
      | idle =>
        simp only [Option.some.injEq] at h
        rw [← h]
        exact ⟨_, by show (afterTake p).ui ++ _ = _; rw [hat, List.append_assoc]⟩
      | awaitingInput =>
        simp only [Option.some.injEq] at h
        rw [← h]
        exact ⟨_, by show (afterTake p).ui ++ _ = _; rw [hat, List.append_assoc]⟩
      | errored =>
        cases hl : (afterTake p).js.latest with
        | none => simp only [hl] at h; cases h
        | some err =>
          simp only [hl] at h
          obtain ⟨rest, hrest⟩ := ih _ _ h
          refine ⟨(p.js.takeOutput).1.map showRecord ++ (errorLines err ++ rest), hrest.trans ?_⟩
          show ((afterTake p).ui ++ _) ++ _ = _
          rw [hat, List.append_assoc, List.append_assoc]
      | running =>
        cases hj : (afterTake p).js.continueEvaluating fuel with
        | none => simp only [hj] at h; cases h
        | some j' =>
          simp only [hj, Option.some.injEq] at h
          rw [← h]
          exact ⟨_, hat⟩

/-- Whatever `take_latest_output` hands over when the state handler runs — all the records the
    core has produced and the page has not taken yet, oldest first — is appended to the page's log,
    as one contiguous block right after what was already there, in the same order, each record
    rendered by `showOutput`; nothing is dropped, duplicated or reordered. -/
theorem page_shows_core_output (fuel : Nat) (n : Nat) (p p' : Page F)
    (h : Page.handle fuel n p = some p') :
    (p.js.takeOutput).1 = p.js.core.out.reverse ∧
    ∃ rest, p'.ui = p.ui ++ (p.js.takeOutput).1.map showRecord ++ rest := by
  refine ⟨(output_faithful p.js).1, ?_⟩
  cases n with
  | zero => cases h
  | succ n =>
    rw [handle_succ] at h
    have hat : (afterTake p).ui = p.ui ++ (p.js.takeOutput).1.map showRecord := rfl
    rw [← hat]
    cases hg : (afterTake p).js.getState with
    | none => rw [hg] at h; cases h
    | some st =>
      rw [hg] at h
      cases st with
      | idle =>
        simp only [Option.some.injEq] at h
        rw [← h]; exact ⟨_, rfl⟩
      | awaitingInput =>
        simp only [Option.some.injEq] at h
        rw [← h]; exact ⟨_, rfl⟩
      | errored =>
        cases hl : (afterTake p).js.latest with
        | none => simp only [hl] at h; cases h
        | some err =>
          simp only [hl] at h
          obtain ⟨rest, hrest⟩ := handle_ui_mono fuel n _ _ h
          refine ⟨errorLines err ++ rest, hrest.trans ?_⟩
          show ((afterTake p).ui ++ _) ++ _ = _
          rw [List.append_assoc]
      | running =>
        cases hj : (afterTake p).js.continueEvaluating fuel with
        | none => simp only [hj] at h; cases h
        | some j' =>
          simp only [hj, Option.some.injEq] at h
          rw [← h]
          exact ⟨[], (List.append_nil _).symm⟩

omit [NumOps F] in
/-- The records taken are removed from the core, so none is shown twice. -/
theorem taken_once (p : Page F) : (afterTake p).js.core.out = [] := rfl

/-- Every page event only appends to the log: nothing already shown is removed or reordered. -/
theorem step_ui_mono (fuel : Nat) (e : Event) (p p' : Page F) (h : step fuel e p = some p') :
    ∃ rest, p'.ui = p.ui ++ rest := by
  cases e with
  | load text =>
    simp only [step, Page.load] at h
    split at h
    · cases h
    · split at h
      · cases h
      · exact (handle_ui_mono fuel _ _ _ h :)
  | submit input =>
    simp only [step, Page.submit] at h
    split at h
    · cases h
    · split at h
      · cases h
      · exact (handle_ui_mono fuel _ _ _ h :)
    · split at h
      · cases h
      · exact (handle_ui_mono fuel _ _ _ h :)
    · simp only [Option.some.injEq] at h
      rw [← h]; exact ⟨[], (List.append_nil _).symm⟩
  | brk =>
    simp only [step, Page.break] at h
    split at h
    · cases h
    · exact (handle_ui_mono fuel _ _ _ h :)
    · exact (handle_ui_mono fuel _ _ _ h :)
    · simp only [Option.some.injEq] at h
      rw [← h]; exact ⟨[], (List.append_nil _).symm⟩
  | tick =>
    simp only [step, Page.tick] at h
    split at h
    · simp only [Option.some.injEq] at h
      rw [← h]; exact ⟨[], (List.append_nil _).symm⟩
    · exact (handle_ui_mono fuel _ _ _ h :)

/-! ### why `load` is restricted, and non-vacuity -/

/-- A load while the core is not idle is a protocol violation by the caller: here the program awaits
    input, and the loader's `start_evaluating` trips the core's `state == Idle` assertion.  The real
    page never does this (`loadAndRunSourceCode` is called once, before `start()`); it is why
    `page_step_inv` asks `load` to be admissible. -/
example : run 60 [.submit "10 INPUT A".toList, .submit "RUN".toList, .load "20 PRINT".toList]
    ({} : Page Unit) = none := by rfl

/-- Non-vacuity of the invariant's premises: the same prefix without the late load runs, asks for
    input, shows the "? " prompt last, and leaves no callback pending. -/
example : ∃ p', run 60 [.submit "10 INPUT A".toList, .submit "RUN".toList] ({} : Page Unit) = some p' ∧
    p'.js.core.state = .awaitingInput ∧ p'.ticks = 0 ∧ p'.ui.getLast? = some ("prompt", "? ".toList) :=
  ⟨_, rfl, rfl, rfl, rfl⟩

/-- the texts shown, oldest first -/
def shownTexts (o : Option (Page F)) : List Str :=
  match o with
  | none => []
  | some p => p.ui.map (·.2)

/-- Observation (not a trap): `page_shows_core_output` is about what the handler *takes*.  Records the
    core produced in the handler's last `continue_evaluating` stay in the core until the pending timer
    callback fires (`PageInv.shown`: none are left once no callback is pending).  If the program has
    just ended and the user submits NEW inside that window, the adapter replaces the interpreter and
    those records are never shown: same program, NEW after / before the pending callback. -/
theorem new_in_timer_window_drops_output :
    shownTexts (run 60 [.submit "10 PRINT \"A\"".toList, .submit "20 PRINT \"B\"".toList,
        .submit "RUN".toList, .tick, .submit "NEW".toList] ({} : Page Unit)) =
      ["] ".toList, "] ".toList, "A\n".toList, "B\n".toList, "] ".toList, "] ".toList] ∧
    shownTexts (run 60 [.submit "10 PRINT \"A\"".toList, .submit "20 PRINT \"B\"".toList,
        .submit "RUN".toList, .submit "NEW".toList, .tick] ({} : Page Unit)) =
      ["] ".toList, "] ".toList, "A\n".toList, "] ".toList, "] ".toList] := by
  constructor <;> decide +kernel

/-! ### a trap is always the core's: the same results without the global hypothesis -/

/-- the core panics when asked, in state `s`, what the protocol allows in `s` -/
def CorePanics (fuel : Nat) (s : St F) : Prop :=
  (s.state = .idle ∧ ∃ line e s', Abasic.startEvaluating fuel line s = .err e s' ∧
      (e.err.isPanic = true ∨ caretLines s' e (some line) = none)) ∨
  (s.state = .running ∧ ∃ e s', Abasic.continueEvaluating fuel s = .err e s' ∧ e.err.isPanic = true)

theorem coreTotal_iff (fuel : Nat) (s0 : St F) :
    CoreTotal fuel s0 ↔ ∀ s, Reach fuel s0 s → ¬ CorePanics fuel s := by
  constructor
  · intro hc s hr hp
    rcases hp with ⟨hi, line, e, s', h, hbad⟩ | ⟨hi, e, s', h, hbad⟩
    · obtain ⟨h1, h2⟩ := (hc s hr).1 hi line e s' h
      rcases hbad with hb | hb
      · rw [hb] at h1; cases h1
      · rw [hb] at h2; cases h2
    · have h1 := (hc s hr).2 hi e s' h
      rw [hbad] at h1; cases h1
  · intro hno s hr
    constructor
    · intro hi line e s' h
      constructor
      · cases hp : e.err.isPanic with
        | false => rfl
        | true => exact absurd (Or.inl ⟨hi, line, e, s', h, Or.inl hp⟩) (hno s hr)
      · cases hcl : caretLines s' e (some line) with
        | some _ => rfl
        | none => exact absurd (Or.inl ⟨hi, line, e, s', h, Or.inr hcl⟩) (hno s hr)
    · intro hi e s' h
      cases hp : e.err.isPanic with
      | false => rfl
      | true => exact absurd (Or.inr ⟨hi, e, s', h, hp⟩) (hno s hr)

theorem reach_trans (fuel : Nat) {s1 s2 : St F} (h1 : Reach fuel s0 s1) (h2 : Reach fuel s1 s2) :
    Reach fuel s0 s2 := by
  induction h2 with
  | base => exact h1
  | init => exact .init
  | startOk _ hi h ih => exact .startOk ih hi h
  | startErr _ hi h hp ih => exact .startErr ih hi h hp
  | contOk _ hi h ih => exact .contOk ih hi h
  | contErr _ hi h hp ih => exact .contErr ih hi h hp
  | input _ hi h ih => exact .input ih hi h
  | brk _ hi h ih => exact .brk ih hi h
  | take _ ih => exact .take ih

theorem PageInv.rebase {fuel : Nat} {p : Page F} (h : PageInv fuel s0 p) : PageInv fuel p.js.core p :=
  { h with reach := .base }

theorem PageInv.unbase {fuel : Nat} {p p' : Page F} (h : PageInv fuel s0 p) (h' : PageInv fuel p.js.core p') :
    PageInv fuel s0 p' :=
  { h' with reach := reach_trans fuel h.reach h'.reach }

/-- A page event traps only if the core itself panics in a state reachable — by protocol-respecting
    calls — from the core state the event started in.  No hypothesis about the core. -/
theorem page_step_traps_only_on_core_panic (fuel : Nat) (e : Event) (p : Page F)
    (hinv : PageInv fuel s0 p) (hadm : e.admissible p) (h : step fuel e p = none) :
    ∃ s, Reach fuel p.js.core s ∧ Reach fuel s0 s ∧ CorePanics fuel s := by
  apply Classical.byContradiction
  intro hno
  have hc : CoreTotal fuel p.js.core := by
    rw [coreTotal_iff]
    intro s hr hp
    exact hno ⟨s, hr, reach_trans fuel hinv.reach hr, hp⟩
  obtain ⟨p', hp', _⟩ := page_step_inv fuel hc e p hinv.rebase hadm
  rw [h] at hp'; cases hp'

/-- The same for sequences from the page as created: a trap anywhere in an admissible sequence means
    the core panics in some state reachable from a fresh interpreter by protocol-respecting calls. -/
theorem page_events_trap_only_on_core_panic (fuel : Nat) (es : List Event)
    (hadm : Admissible fuel es ({} : Page F)) (h : run fuel es ({} : Page F) = none) :
    ∃ s : St F, Reach fuel {} s ∧ CorePanics fuel s := by
  apply Classical.byContradiction
  intro hno
  have hc : CoreTotal fuel ({} : St F) :=
    (coreTotal_iff fuel {}).2 (fun s hr hp => hno ⟨s, hr, hp⟩)
  obtain ⟨p', hp', _⟩ := page_events_inv fuel hc es hadm
  rw [h] at hp'; cases hp'

end Abasic.Props.C19
