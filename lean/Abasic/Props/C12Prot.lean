import Abasic.Proofs.C12Suffix
import Abasic.Proofs.DataLemmas
/-
  C12 for lines with protected text (string literals, REM, DATA): a blank inserted or
  removed, or letter case changed, anywhere *outside* the protected text changes no
  token.  The protected text is determined by the tokenizer itself (see `InsOutside`,
  `CaseEqOutside`).  Also: blanks around DATA items do not matter (`data_blank_*`),
  and checked examples showing that the side conditions are needed.
-/
namespace Abasic.Props.C12
open Abasic

/-! ### list facts about `Ins` -/

theorem Ins.eq_or_length {w : Char} {r r' : Str} (h : Ins w r r') : r' = r ∨ r'.length = r.length + 1 := by
  induction h with
  | same r => exact Or.inl rfl
  | here r => exact Or.inr rfl
  | cons c _ ih =>
    rcases ih with e | e
    · exact Or.inl (by rw [e])
    · exact Or.inr (by simp only [List.length_cons, e])

theorem Ins.append_right {w : Char} {p p' : Str} (h : Ins w p p') (s : Str) : Ins w (p ++ s) (p' ++ s) := by
  induction h with
  | same r => exact Ins.same _
  | here r => exact Ins.here _
  | cons c _ ih => exact Ins.cons c ih

theorem Ins.append_left {w : Char} (p : Str) {r r' : Str} (h : Ins w r r') : Ins w (p ++ r) (p ++ r') := by
  induction p with
  | nil => exact h
  | cons c p ih => exact Ins.cons c ih

/-- the only way to get `x :: r` from `r` by one insertion of `w` is `x = w` -/
theorem Ins.head_eq {w : Char} : ∀ (r : Str) (x : Char), Ins w r (x :: r) → x = w := by
  intro r
  induction r with
  | nil =>
    intro x h
    cases h with
    | here => rfl
  | cons c r ih =>
    intro x h
    cases h with
    | here => rfl
    | cons d h' => exact ih _ h'

/-- A suffix of `q ++ rest` that is `rest` with at most one `w` inserted is `rest` or `w :: rest`. -/
theorem ins_suffix_cases {w : Char} {rest r'' q : Str} (h : Ins w rest r'') (hs : r'' <:+ q ++ rest) :
    r'' = rest ∨ r'' = w :: rest := by
  rcases h.eq_or_length with e | e
  · exact Or.inl e
  · have h1 : rest <:+ r'' := List.suffix_of_suffix_length_le (List.suffix_append q rest) hs (by omega)
    obtain ⟨pre, hp⟩ := h1
    have hl : pre.length = 1 := by
      have := congrArg List.length hp
      simp only [List.length_append] at this; omega
    match pre, hl with
    | [x], _ =>
      subst hp
      exact Or.inr (by rw [Ins.head_eq rest x h]; rfl)

/-- two suffixes of the same text with the same length -/
theorem suffix_eq_of_length {a b l : Str} (ha : a <:+ l) (hb : b <:+ l) (h : a.length = b.length) : a = b :=
  (List.suffix_of_suffix_length_le ha hb (by omega)).eq_of_length h

theorem skipWs_nonblank (c : Char) (cs : Str) (hc : isBasicWs c = false) : skipWs (c :: cs) = c :: cs := by
  simp only [skipWs, hc, Bool.false_eq_true, ↓reduceIte]

theorem skipWs_head_nonblank : ∀ (x : Str) (c : Char) (t : Str), skipWs x = c :: t → isBasicWs c = false := by
  intro x
  induction x with
  | nil => intro c t h; simp [skipWs] at h
  | cons d ds ih =>
    intro c t h
    simp only [skipWs] at h
    split at h
    · exact ih c t h
    · rename_i hd
      have : d = c := by injection h
      subst this
      simpa using hd

theorem skipWs_decomp (cs : Str) : ∃ b, cs = b ++ skipWs cs ∧ ∀ x ∈ b, isBasicWs x = true := by
  induction cs with
  | nil => exact ⟨[], rfl, by intro x hx; cases hx⟩
  | cons c cs ih =>
    simp only [skipWs]
    split
    · rename_i hc
      obtain ⟨b, h1, h2⟩ := ih
      refine ⟨c :: b, by rw [List.cons_append, ← h1], ?_⟩
      intro x hx
      rcases List.mem_cons.mp hx with rfl | hx
      · exact hc
      · exact h2 x hx
    · exact ⟨[], rfl, by intro x hx; cases hx⟩

theorem skipWs_blanks_append (b y : Str) (hb : ∀ x ∈ b, isBasicWs x = true) : skipWs (b ++ y) = skipWs y := by
  induction b with
  | nil => rfl
  | cons c b ih =>
    rw [List.cons_append, skipWs_blank c _ (hb c (List.mem_cons_self ..))]
    exact ih (fun x hx => hb x (List.mem_cons_of_mem _ hx))

/-- `chomp_keyword` is local: it consumes a prefix `pre` and never looks at what follows. -/
theorem chompKeyword_local (kw : Str) : ∀ (cs pl : Str), chompKeyword kw cs = some pl →
    ∃ pre, cs = pre ++ pl ∧ ∀ y, chompKeyword kw (pre ++ y) = some y := by
  induction kw with
  | nil =>
    intro cs pl h
    simp only [chompKeyword] at h
    injection h with h; subst h
    exact ⟨[], rfl, by intro y; simp [chompKeyword]⟩
  | cons k ks ih =>
    intro cs pl h
    simp only [chompKeyword] at h
    obtain ⟨b, hb1, hb2⟩ := skipWs_decomp cs
    cases hs : skipWs cs with
    | nil => rw [hs] at h; cases h
    | cons c r0 =>
      rw [hs] at h hb1
      simp only at h
      have hc := skipWs_head_nonblank cs c r0 hs
      by_cases hk : (asciiUpper c == k) = true
      · rw [if_pos hk] at h
        obtain ⟨pre1, e1, h1⟩ := ih r0 pl h
        refine ⟨b ++ c :: pre1, by rw [hb1, e1]; simp, ?_⟩
        intro y
        have : (b ++ c :: pre1) ++ y = b ++ (c :: (pre1 ++ y)) := by simp
        rw [this]
        simp only [chompKeyword]
        rw [skipWs_blanks_append b _ hb2, skipWs_nonblank c _ hc]
        simp only [hk, ↓reduceIte]
        exact h1 y
      · rw [if_neg hk] at h; cases h

variable {F : Type} [NumOps F]

/-! ### 1. blanks outside protected text -/

/-- Tokens whose text ends at a delimiter of their own: everything except REM (runs to
    the end of the line) and DATA (runs to the next unquoted colon). -/
def Closed : Token F → Bool
  | .remark _ => false
  | .data _ => false
  | _ => true

/-- `InsOutside F w line line'`: `line'` is `line` with at most one `w` inserted at a
    position that is not inside protected text.  The definition follows the tokenizer's own
    run over `line` (`chomp_next_token` is `nextToken`, always called at a non-blank
    character), so "protected" means exactly what the tokenizer treats as literal text:

    * `same`, `here`: nothing inserted / inserted in front of what is left (a token boundary);
    * `blank`: step over a blank that separates tokens;
    * `inTok`: the next token is unprotected (keyword/operator, number, identifier), it
      consumes `c :: p`, and the insertion is anywhere after `c` up to and including the
      position just behind the token (`Ins w p p'`) — `G OTO`, `GOTO `, `1 0`;
    * `later`: the next token — of any kind whose text is delimited by itself, in
      particular a string literal `"…"` — is consumed identically (`c :: p`), and the
      insertion is outside protected text in what is left.  This is the constructor that
      steps *over* a string literal: no constructor inserts between its quotes;
    * `afterData`: the next token is a DATA statement whose payload ends at the unquoted
      colon shown, and the insertion is outside protected text after that colon (both
      rests start with the colon, so the insertion is not in front of it);
    * `inRem`, `inData`: the insertion is between the letters of the keyword REM / DATA
      itself (before its last letter `m`), the remark text / DATA payload is untouched.

    There is no way to derive an insertion inside a string literal, inside the text of a
    remark, or inside a DATA payload (between the `A` of DATA and the terminating colon
    or end of line). -/
inductive InsOutside (F : Type) [NumOps F] (w : Char) : Str → Str → Prop
  | same (cs : Str) : InsOutside F w cs cs
  | here (cs : Str) : InsOutside F w cs (w :: cs)
  | blank (b : Char) {cs cs' : Str} : isBasicWs b = true → InsOutside F w cs cs' →
      InsOutside F w (b :: cs) (b :: cs')
  | inTok (c : Char) (p p' rest : Str) (tk : Token F) : isBasicWs c = false →
      nextToken (F := F) (c :: (p ++ rest)) = .tok tk rest → Unprotected tk = true → Ins w p p' →
      InsOutside F w (c :: (p ++ rest)) (c :: (p' ++ rest))
  | later (c : Char) (p rest rest' : Str) (tk : Token F) : isBasicWs c = false →
      nextToken (F := F) (c :: (p ++ rest)) = .tok tk rest → Closed tk = true →
      InsOutside F w rest rest' → InsOutside F w (c :: (p ++ rest)) (c :: (p ++ rest'))
  | afterData (c : Char) (p r r' : Str) (items : List (DataElement F)) : isBasicWs c = false →
      nextToken (F := F) (c :: (p ++ ':' :: r)) = .tok (.data items) (':' :: r) →
      InsOutside F w (':' :: r) (':' :: r') → InsOutside F w (c :: (p ++ ':' :: r)) (c :: (p ++ ':' :: r'))
  | inRem (c m : Char) (p p' pay : Str) : isBasicWs c = false → isBasicWs m = false →
      nextToken (F := F) (c :: (p ++ m :: pay)) = .tok (.remark pay) [] → Ins w p p' →
      InsOutside F w (c :: (p ++ m :: pay)) (c :: (p' ++ m :: pay))
  | inData (c m : Char) (p p' pl rest : Str) (items : List (DataElement F)) : isBasicWs c = false →
      isBasicWs m = false →
      nextToken (F := F) (c :: (p ++ m :: pl)) = .tok (.data items) rest →
      chompKeyword Extracted.dataKeyword.toList (c :: (p ++ m :: pl)) = some pl → Ins w p p' →
      InsOutside F w (c :: (p ++ m :: pl)) (c :: (p' ++ m :: pl))

/-- It is a special case of `Ins`. -/
theorem InsOutside.toIns {w : Char} {cs cs' : Str} (h : InsOutside F w cs cs') : Ins w cs cs' := by
  induction h with
  | same cs => exact Ins.same _
  | here cs => exact Ins.here _
  | blank b _ _ ih => exact Ins.cons b ih
  | inTok c p p' rest tk _ _ _ hi => exact Ins.cons c (hi.append_right rest)
  | later c p rest rest' tk _ _ _ _ ih => exact Ins.cons c (Ins.append_left p ih)
  | afterData c p r r' items _ _ _ ih => exact Ins.cons c (Ins.append_left p ih)
  | inRem c m p p' pay _ _ _ hi => exact Ins.cons c (hi.append_right _)
  | inData c m p p' pl rest items _ _ _ _ hi => exact Ins.cons c (hi.append_right _)

theorem tokList_nonblank_tok (fuel : Nat) (c : Char) (t : Str) (hc : isBasicWs c = false)
    (tk : Token F) (rest : Str) (hn : nextToken (F := F) (c :: t) = .tok tk rest) :
    tokList (F := F) (fuel + 1) (c :: t) = (tokList fuel rest).map (tk :: ·) :=
  tokList_succ_tok fuel (c :: t) c t (skipWs_nonblank c t hc) tk rest hn

/-- edit inside an unprotected token -/
theorem tokList_inTok (w : Char) (hw : isBasicWs w = true) (c : Char) (p p' rest : Str) (tk : Token F)
    (hc : isBasicWs c = false) (hn : nextToken (F := F) (c :: (p ++ rest)) = .tok tk rest)
    (hu : Unprotected tk = true) (hi : Ins w p p') (fuel : Nat) :
    tokList (F := F) fuel (c :: (p' ++ rest)) = tokList (F := F) fuel (c :: (p ++ rest)) := by
  cases fuel with
  | zero => rfl
  | succ fuel =>
    have hI : Ins w (c :: (p ++ rest)) (c :: (p' ++ rest)) := Ins.cons c (hi.append_right rest)
    obtain ⟨r'', hn', hr⟩ := nextToken_ins_unprotected w hw c hI tk rest hu hn
    rw [tokList_nonblank_tok fuel c _ hc tk rest hn, tokList_nonblank_tok fuel c _ hc tk r'' hn']
    have hs : r'' <:+ (c :: p') ++ rest := nextToken_suffix c _ tk r'' hn'
    rcases ins_suffix_cases hr hs with e | e
    · rw [e]
    · rw [e, tokList_blank fuel w hw]

/-- the first token is consumed identically, the edit is later -/
theorem tokList_later (w : Char) (hw : isBasicWs w = true) (c : Char) (p rest rest' : Str) (tk : Token F)
    (hc : isBasicWs c = false) (hn : nextToken (F := F) (c :: (p ++ rest)) = .tok tk rest)
    (hcl : Closed tk = true) (hi : Ins w rest rest')
    (ih : ∀ fuel, tokList (F := F) fuel rest' = tokList (F := F) fuel rest) (fuel : Nat) :
    tokList (F := F) fuel (c :: (p ++ rest')) = tokList (F := F) fuel (c :: (p ++ rest)) := by
  cases fuel with
  | zero => rfl
  | succ fuel =>
    by_cases hsame : rest' = rest
    · rw [hsame]
    have hlen : rest'.length = rest.length + 1 := by
      rcases hi.eq_or_length with e | e
      · exact absurd e hsame
      · exact e
    have hI : Ins w (c :: (p ++ rest)) (c :: (p ++ rest')) := Ins.cons c (Ins.append_left p hi)
    rw [tokList_nonblank_tok fuel c _ hc tk rest hn]
    rcases nextToken_ins_detail (F := F) w hw c hI with
      ⟨tk0, r, r'', h1, h2, _, hr⟩ | ⟨h1, _⟩ | ⟨q, q', e, e', h1, h2⟩ | ⟨r, _, _, _, h1, _⟩ | ⟨pl, _, _, _, h1, _⟩
    · rw [hn] at h1
      injection h1 with h1a h1b
      subst h1a; subst h1b
      rw [tokList_nonblank_tok fuel c _ hc tk r'' h2]
      have hs : r'' <:+ (c :: p) ++ rest' := nextToken_suffix c _ tk r'' h2
      rcases hr.eq_or_length with e | e
      · rw [e]
      · have : r'' = rest' := suffix_eq_of_length hs (List.suffix_append _ _) (by omega)
        rw [this, ih fuel]
    · exact absurd hn (h1 tk rest)
    · injection e with ec eq
      injection e' with _ eq'
      subst ec; subst eq; subst eq'
      rw [hn] at h1
      cases hs : splitAtQuote (p ++ rest) with
      | none => rw [hs] at h1; cases h1
      | some pr =>
        obtain ⟨s, r0⟩ := pr
        rw [hs] at h1
        simp only at h1
        injection h1 with h1a h1b
        subst h1a; subst h1b
        obtain ⟨e1, hq⟩ := splitAtQuote_spec _ s rest hs
        have hp : p = s ++ ['"'] := by
          have : p ++ rest = (s ++ ['"']) ++ rest := by rw [e1]; simp
          exact List.append_cancel_right this
        have hs' : splitAtQuote (p ++ rest') = some (s, rest') := by
          rw [hp, List.append_assoc]
          exact splitAtQuote_append s rest' hq
        rw [hs'] at h2
        simp only at h2
        rw [tokList_nonblank_tok fuel '"' _ hc _ rest' h2, ih fuel]
    · rw [hn] at h1; injection h1 with h1a _; subst h1a; cases hcl
    · rw [hn] at h1; injection h1 with h1a _; subst h1a; cases hcl


/-- the first token is a DATA statement ending at a colon, the edit is after the colon -/
theorem tokList_afterData (w : Char) (hw : isBasicWs w = true) (c : Char) (p r r' : Str)
    (items : List (DataElement F)) (hc : isBasicWs c = false)
    (hn : nextToken (F := F) (c :: (p ++ ':' :: r)) = .tok (.data items) (':' :: r))
    (hi : Ins w (':' :: r) (':' :: r'))
    (ih : ∀ fuel, tokList (F := F) fuel (':' :: r') = tokList (F := F) fuel (':' :: r)) (fuel : Nat) :
    tokList (F := F) fuel (c :: (p ++ ':' :: r')) = tokList (F := F) fuel (c :: (p ++ ':' :: r)) := by
  cases fuel with
  | zero => rfl
  | succ fuel =>
    have hI : Ins w (c :: (p ++ ':' :: r)) (c :: (p ++ ':' :: r')) := Ins.cons c (Ins.append_left p hi)
    rw [tokList_nonblank_tok fuel c _ hc _ _ hn]
    rcases nextToken_ins_detail (F := F) w hw c hI with
      ⟨tk0, _, _, h1, _, hu, _⟩ | ⟨h1, _⟩ | ⟨q, q', e, e', h1, h2⟩ | ⟨_, _, _, _, h1, _⟩ | ⟨pl, pl', h0, h0', h1, h2⟩
    · rw [hn] at h1; injection h1 with h1a _; subst h1a; cases hu
    · exact absurd hn (h1 _ _)
    · rw [hn] at h1
      cases hs : splitAtQuote q with
      | none => rw [hs] at h1; cases h1
      | some pr => rw [hs] at h1; simp only at h1; injection h1 with h1a _; cases h1a
    · rw [hn] at h1; injection h1 with h1a _; cases h1a
    · rw [hn] at h1
      injection h1 with h1a h1b
      obtain ⟨pre, e1, hloc⟩ := chompKeyword_local _ _ pl h0
      obtain ⟨a, ha⟩ : (':' :: r) <:+ pl := h1b ▸ dropBytes_suffix _ _
      subst ha
      have hcp : c :: p = pre ++ a := by
        have : (c :: p) ++ (':' :: r) = (pre ++ a) ++ (':' :: r) := by
          rw [List.append_assoc, ← e1]; rfl
        exact List.append_cancel_right this
      have hpl' : pl' = a ++ ':' :: r' := by
        have : c :: (p ++ ':' :: r') = pre ++ (a ++ ':' :: r') := by
          rw [← List.append_assoc, ← hcp]; rfl
        rw [this, hloc] at h0'
        injection h0' with h0'
        exact h0'.symm
      subst hpl'
      obtain ⟨hf, hq⟩ := parseData_stop (F := F) a r h1b.symm
      rw [parseData_colon a r' hf hq] at h2
      rw [parseData_colon a r hf hq] at h1a
      simp only at h2 h1a
      rw [dropBytes_len8] at h2
      rw [tokList_nonblank_tok fuel c _ hc _ _ h2, ih fuel, h1a]

/-- the edit is between the letters of REM -/
theorem tokList_inRem (w : Char) (hw : isBasicWs w = true) (c m : Char) (p p' pay : Str)
    (hc : isBasicWs c = false) (hm : isBasicWs m = false)
    (hn : nextToken (F := F) (c :: (p ++ m :: pay)) = .tok (.remark pay) []) (hi : Ins w p p') (fuel : Nat) :
    tokList (F := F) fuel (c :: (p' ++ m :: pay)) = tokList (F := F) fuel (c :: (p ++ m :: pay)) := by
  cases fuel with
  | zero => rfl
  | succ fuel =>
    have hI : Ins w (c :: (p ++ m :: pay)) (c :: (p' ++ m :: pay)) := Ins.cons c (hi.append_right _)
    rw [tokList_nonblank_tok fuel c _ hc _ _ hn]
    rcases nextToken_ins_detail (F := F) w hw c hI with
      ⟨tk0, _, _, h1, _, hu, _⟩ | ⟨h1, _⟩ | ⟨q, q', e, e', h1, h2⟩ | ⟨r, r', h0, h0', h1, h2⟩ | ⟨_, _, _, _, h1, _⟩
    · rw [hn] at h1; injection h1 with h1a _; subst h1a; cases hu
    · exact absurd hn (h1 _ _)
    · rw [hn] at h1
      cases hs : splitAtQuote q with
      | none => rw [hs] at h1; cases h1
      | some pr => rw [hs] at h1; simp only at h1; injection h1 with h1a _; cases h1a
    · rw [hn] at h1
      injection h1 with h1a _
      injection h1a with h1a
      subst h1a
      have hr := chompKeyword_ins w hw Extracted.remKeyword.toList hI
      rw [h0, h0'] at hr
      have hr : Ins w pay r' := hr
      have hs : r' <:+ (c :: (p' ++ [m])) ++ pay := by
        have := chompKeyword_suffix _ _ _ h0'
        simpa using this
      have hr' : r' = pay := by
        rcases ins_suffix_cases hr hs with e | e
        · exact e
        · exfalso
          have hs2 : (m :: pay) <:+ (c :: (p' ++ [m])) ++ pay := by
            have : (c :: (p' ++ [m])) ++ pay = (c :: p') ++ (m :: pay) := by simp
            rw [this]; exact List.suffix_append _ _
          have := suffix_eq_of_length (e ▸ hs) hs2 (by simp)
          injection this with hwm _
          rw [hwm, hm] at hw
          cases hw
      subst hr'
      rw [tokList_nonblank_tok fuel c _ hc _ _ h2]
    · rw [hn] at h1; injection h1 with h1a _; cases h1a

/-- the edit is between the letters of DATA -/
theorem tokList_inData (w : Char) (hw : isBasicWs w = true) (c m : Char) (p p' pl rest : Str)
    (items : List (DataElement F)) (hc : isBasicWs c = false) (hm : isBasicWs m = false)
    (hn : nextToken (F := F) (c :: (p ++ m :: pl)) = .tok (.data items) rest)
    (hk : chompKeyword Extracted.dataKeyword.toList (c :: (p ++ m :: pl)) = some pl)
    (hi : Ins w p p') (fuel : Nat) :
    tokList (F := F) fuel (c :: (p' ++ m :: pl)) = tokList (F := F) fuel (c :: (p ++ m :: pl)) := by
  cases fuel with
  | zero => rfl
  | succ fuel =>
    have hI : Ins w (c :: (p ++ m :: pl)) (c :: (p' ++ m :: pl)) := Ins.cons c (hi.append_right _)
    rcases nextToken_ins_detail (F := F) w hw c hI with
      ⟨tk0, _, _, h1, _, hu, _⟩ | ⟨h1, _⟩ | ⟨q, q', e, e', h1, h2⟩ | ⟨_, _, _, _, h1, _⟩ | ⟨pl0, pl', h0, h0', h1, h2⟩
    · rw [hn] at h1; injection h1 with h1a _; subst h1a; cases hu
    · exact absurd hn (h1 _ _)
    · rw [hn] at h1
      cases hs : splitAtQuote q with
      | none => rw [hs] at h1; cases h1
      | some pr => rw [hs] at h1; simp only at h1; injection h1 with h1a _; cases h1a
    · rw [hn] at h1; injection h1 with h1a _; cases h1a
    · rw [hk] at h0
      injection h0 with h0
      subst h0
      have hr := chompKeyword_ins w hw Extracted.dataKeyword.toList hI
      rw [hk, h0'] at hr
      have hr : Ins w pl pl' := hr
      have hs : pl' <:+ (c :: (p' ++ [m])) ++ pl := by
        have := chompKeyword_suffix _ _ _ h0'
        simpa using this
      have hr' : pl' = pl := by
        rcases ins_suffix_cases hr hs with e | e
        · exact e
        · exfalso
          have hs2 : (m :: pl) <:+ (c :: (p' ++ [m])) ++ pl := by
            have : (c :: (p' ++ [m])) ++ pl = (c :: p') ++ (m :: pl) := by simp
            rw [this]; exact List.suffix_append _ _
          have := suffix_eq_of_length (e ▸ hs) hs2 (by simp)
          injection this with hwm _
          rw [hwm, hm] at hw
          cases hw
      subst hr'
      rw [tokList_nonblank_tok fuel c _ hc _ _ h1, tokList_nonblank_tok fuel c _ hc _ _ h2]

/-- Main lemma: an insertion outside protected text changes neither the tokens nor
    whether tokenizing fails, for any iteration budget. -/
theorem tokList_insOutside (w : Char) (hw : isBasicWs w = true) {cs cs' : Str} (h : InsOutside F w cs cs') :
    ∀ fuel, tokList (F := F) fuel cs' = tokList (F := F) fuel cs := by
  induction h with
  | same cs => intro fuel; rfl
  | here cs => intro fuel; exact tokList_blank fuel w hw cs
  | blank b hb _ ih => intro fuel; rw [tokList_blank fuel b hb, tokList_blank fuel b hb, ih fuel]
  | inTok c p p' rest tk hc hn hu hi => exact tokList_inTok w hw c p p' rest tk hc hn hu hi
  | later c p rest rest' tk hc hn hcl hio ih => exact tokList_later w hw c p rest rest' tk hc hn hcl hio.toIns ih
  | afterData c p r r' items hc hn hio ih => exact tokList_afterData w hw c p r r' items hc hn hio.toIns ih
  | inRem c m p p' pay hc hm hn hi => exact tokList_inRem w hw c m p p' pay hc hm hn hi
  | inData c m p p' pl rest items hc hm hn hk hi => exact tokList_inData w hw c m p p' pl rest items hc hm hn hk hi

/-- Item 2 (both directions at once).  A blank inserted outside protected text: the two
    lines tokenize to the same tokens, or both fail. -/
theorem tokenize_ins_outside_iff (w : Char) (hw : isBasicWs w = true) {line line' : Str}
    (h : InsOutside F w line line') (ts : List (Token F)) :
    tokenize (F := F) line 0 = .ok ts ↔ tokenize (F := F) line' 0 = .ok ts := by
  rw [tokenize_iff_tokList, tokenize_iff_tokList, tokList_insOutside w hw h,
    tokList_fuel_irrelevant (line'.length + 1) (line.length + 1) line]
  · have := h.toIns.length_le; omega
  · omega

/-- Item 2.  Inserting a blank outside protected text changes no token. -/
theorem tokenize_ins_outside (w : Char) (hw : isBasicWs w = true) {line line' : Str}
    (h : InsOutside F w line line') (ts : List (Token F)) (hok : tokenize (F := F) line 0 = .ok ts) :
    tokenize (F := F) line' 0 = .ok ts :=
  (tokenize_ins_outside_iff w hw h ts).mp hok

/-- Item 2, converse.  Removing a blank outside protected text changes no token. -/
theorem tokenize_del_outside (w : Char) (hw : isBasicWs w = true) {line line' : Str}
    (h : InsOutside F w line line') (ts : List (Token F)) (hok : tokenize (F := F) line' 0 = .ok ts) :
    tokenize (F := F) line 0 = .ok ts :=
  (tokenize_ins_outside_iff w hw h ts).mpr hok

/-- Any number of blanks inserted outside protected text, one after the other. -/
inductive InsBlanksOutside (F : Type) [NumOps F] : Str → Str → Prop
  | refl (r : Str) : InsBlanksOutside F r r
  | step {a b c : Str} (w : Char) : InsBlanksOutside F a b → isBasicWs w = true → InsOutside F w b c →
      InsBlanksOutside F a c

/-- Item 2, iterated: any number of blanks inserted (or removed) outside protected text. -/
theorem tokenize_insBlanks_outside_iff {line line' : Str} (h : InsBlanksOutside F line line')
    (ts : List (Token F)) :
    tokenize (F := F) line 0 = .ok ts ↔ tokenize (F := F) line' 0 = .ok ts := by
  induction h with
  | refl => exact Iff.rfl
  | step w _ hw hi ih => exact ih.trans (tokenize_ins_outside_iff w hw hi ts)

/-! ### 2. letter case outside protected text -/

omit [NumOps F] in
theorem CaseEq.append {a a' b b' : Str} (h1 : CaseEq a a') (h2 : CaseEq b b') : CaseEq (a ++ b) (a' ++ b') := by
  induction h1 with
  | nil => exact h2
  | cons hu hb _ ih => exact CaseEq.cons hu hb ih

/-- `CaseEqOutside F line line'`: `line'` is `line` with the case of some ASCII letters
    changed, none of them inside protected text.  Again the definition follows the
    tokenizer's run over `line`:

    * `same`: nothing changed in what is left (this is how the text of a remark, which
      runs to the end of the line, is passed);
    * `blank`: step over a blank between tokens;
    * `inTok`: the next token is unprotected and consumes `c :: p`; letters may change in
      it (`CaseEq (c :: p) (d :: p')`) and, outside protected text, in what is left;
    * `later`: the next token, e.g. a string literal, is consumed and left *unchanged*;
      changes outside protected text in what is left;
    * `afterData`: the next token is a DATA statement up to the colon shown, unchanged;
      changes outside protected text after the colon;
    * `remKw`, `dataKw`: the letters of the keyword REM / DATA itself change case
      (`rem`, `Data`), the remark text / DATA payload and everything after is unchanged.
      (Changes on both sides of a DATA statement are obtained by chaining two steps,
      `tokenize_caseEq_outside_iff` being an equivalence.) -/
inductive CaseEqOutside (F : Type) [NumOps F] : Str → Str → Prop
  | same (cs : Str) : CaseEqOutside F cs cs
  | blank (b : Char) {cs cs' : Str} : isBasicWs b = true → CaseEqOutside F cs cs' →
      CaseEqOutside F (b :: cs) (b :: cs')
  | inTok (c d : Char) (p p' rest rest' : Str) (tk : Token F) : isBasicWs c = false →
      nextToken (F := F) (c :: (p ++ rest)) = .tok tk rest → Unprotected tk = true →
      CaseEq (c :: p) (d :: p') → CaseEqOutside F rest rest' →
      CaseEqOutside F (c :: (p ++ rest)) (d :: (p' ++ rest'))
  | later (c : Char) (p rest rest' : Str) (tk : Token F) : isBasicWs c = false →
      nextToken (F := F) (c :: (p ++ rest)) = .tok tk rest → Closed tk = true →
      CaseEqOutside F rest rest' → CaseEqOutside F (c :: (p ++ rest)) (c :: (p ++ rest'))
  | afterData (c : Char) (p r r' : Str) (items : List (DataElement F)) : isBasicWs c = false →
      nextToken (F := F) (c :: (p ++ ':' :: r)) = .tok (.data items) (':' :: r) →
      CaseEqOutside F (':' :: r) (':' :: r') → CaseEqOutside F (c :: (p ++ ':' :: r)) (c :: (p ++ ':' :: r'))
  | remKw (c d : Char) (p p' pay : Str) : isBasicWs c = false →
      nextToken (F := F) (c :: (p ++ pay)) = .tok (.remark pay) [] → CaseEq (c :: p) (d :: p') →
      CaseEqOutside F (c :: (p ++ pay)) (d :: (p' ++ pay))
  | dataKw (c d : Char) (p p' pl rest : Str) (items : List (DataElement F)) : isBasicWs c = false →
      nextToken (F := F) (c :: (p ++ pl)) = .tok (.data items) rest →
      chompKeyword Extracted.dataKeyword.toList (c :: (p ++ pl)) = some pl → CaseEq (c :: p) (d :: p') →
      CaseEqOutside F (c :: (p ++ pl)) (d :: (p' ++ pl))

/-- It is a special case of `CaseEq`. -/
theorem CaseEqOutside.toCaseEq {cs cs' : Str} (h : CaseEqOutside F cs cs') : CaseEq cs cs' := by
  induction h with
  | same cs => exact CaseEq.refl _
  | blank b _ _ ih => exact CaseEq.cons rfl rfl ih
  | inTok c d p p' rest rest' tk _ _ _ hi _ ih => exact CaseEq.append hi ih
  | later c p rest rest' tk _ _ _ _ ih => exact CaseEq.append (CaseEq.refl (c :: p)) ih
  | afterData c p r r' items _ _ _ ih => exact CaseEq.append (CaseEq.refl (c :: p)) ih
  | remKw c d p p' pay _ _ hi => exact CaseEq.append hi (CaseEq.refl _)
  | dataKw c d p p' pl rest items _ _ _ hi => exact CaseEq.append hi (CaseEq.refl _)

omit [NumOps F] in
theorem CaseEq.head_blank {c d : Char} {t t' : Str} (h : CaseEq (c :: t) (d :: t')) : isBasicWs c = isBasicWs d := by
  cases h with
  | cons _ h2 _ => exact h2

theorem tokList_case_inTok (c d : Char) (p p' rest rest' : Str) (tk : Token F)
    (hc : isBasicWs c = false) (hn : nextToken (F := F) (c :: (p ++ rest)) = .tok tk rest)
    (hu : Unprotected tk = true) (hi : CaseEq (c :: p) (d :: p')) (hr : CaseEq rest rest')
    (ih : ∀ fuel, tokList (F := F) fuel rest' = tokList (F := F) fuel rest) (fuel : Nat) :
    tokList (F := F) fuel (d :: (p' ++ rest')) = tokList (F := F) fuel (c :: (p ++ rest)) := by
  cases fuel with
  | zero => rfl
  | succ fuel =>
    have hE : CaseEq (c :: (p ++ rest)) (d :: (p' ++ rest')) := CaseEq.append hi hr
    have hd : isBasicWs d = false := by rw [← hE.head_blank]; exact hc
    obtain ⟨r'', hn', hr''⟩ := nextToken_caseEq_unprotected hE tk rest hu hn
    rw [tokList_nonblank_tok fuel c _ hc tk rest hn, tokList_nonblank_tok fuel d _ hd tk r'' hn']
    have hs : r'' <:+ (d :: p') ++ rest' := nextToken_suffix d _ tk r'' hn'
    have : r'' = rest' := suffix_eq_of_length hs (List.suffix_append _ _)
      (by rw [← hr''.length_eq, hr.length_eq])
    rw [this, ih fuel]

theorem tokList_case_later (c : Char) (p rest rest' : Str) (tk : Token F)
    (hc : isBasicWs c = false) (hn : nextToken (F := F) (c :: (p ++ rest)) = .tok tk rest)
    (hcl : Closed tk = true) (hi : CaseEq rest rest')
    (ih : ∀ fuel, tokList (F := F) fuel rest' = tokList (F := F) fuel rest) (fuel : Nat) :
    tokList (F := F) fuel (c :: (p ++ rest')) = tokList (F := F) fuel (c :: (p ++ rest)) := by
  cases fuel with
  | zero => rfl
  | succ fuel =>
    have hE : CaseEq (c :: (p ++ rest)) (c :: (p ++ rest')) := CaseEq.append (CaseEq.refl (c :: p)) hi
    rw [tokList_nonblank_tok fuel c _ hc tk rest hn]
    rcases nextToken_caseEq_detail (F := F) hE with
      ⟨tk0, r, r'', h1, h2, _, hr⟩ | ⟨h1, _⟩ | ⟨q, q', e, e', h1, h2⟩ | ⟨r, _, _, _, h1, _⟩ | ⟨pl, _, _, _, h1, _⟩
    · rw [hn] at h1
      injection h1 with h1a h1b
      subst h1a; subst h1b
      rw [tokList_nonblank_tok fuel c _ hc tk r'' h2]
      have hs : r'' <:+ (c :: p) ++ rest' := nextToken_suffix c _ tk r'' h2
      have : r'' = rest' := suffix_eq_of_length hs (List.suffix_append _ _)
        (by rw [← hr.length_eq, hi.length_eq])
      rw [this, ih fuel]
    · exact absurd hn (h1 tk rest)
    · injection e with ec eq
      injection e' with _ eq'
      subst ec; subst eq; subst eq'
      rw [hn] at h1
      cases hs : splitAtQuote (p ++ rest) with
      | none => rw [hs] at h1; cases h1
      | some pr =>
        obtain ⟨s, r0⟩ := pr
        rw [hs] at h1
        simp only at h1
        injection h1 with h1a h1b
        subst h1a; subst h1b
        obtain ⟨e1, hq⟩ := splitAtQuote_spec _ s rest hs
        have hp : p = s ++ ['"'] := by
          have : p ++ rest = (s ++ ['"']) ++ rest := by rw [e1]; simp
          exact List.append_cancel_right this
        have hs' : splitAtQuote (p ++ rest') = some (s, rest') := by
          rw [hp, List.append_assoc]
          exact splitAtQuote_append s rest' hq
        rw [hs'] at h2
        simp only at h2
        rw [tokList_nonblank_tok fuel '"' _ hc _ rest' h2, ih fuel]
    · rw [hn] at h1; injection h1 with h1a _; subst h1a; cases hcl
    · rw [hn] at h1; injection h1 with h1a _; subst h1a; cases hcl

theorem tokList_case_afterData (c : Char) (p r r' : Str)
    (items : List (DataElement F)) (hc : isBasicWs c = false)
    (hn : nextToken (F := F) (c :: (p ++ ':' :: r)) = .tok (.data items) (':' :: r))
    (hi : CaseEq (':' :: r) (':' :: r'))
    (ih : ∀ fuel, tokList (F := F) fuel (':' :: r') = tokList (F := F) fuel (':' :: r)) (fuel : Nat) :
    tokList (F := F) fuel (c :: (p ++ ':' :: r')) = tokList (F := F) fuel (c :: (p ++ ':' :: r)) := by
  cases fuel with
  | zero => rfl
  | succ fuel =>
    have hE : CaseEq (c :: (p ++ ':' :: r)) (c :: (p ++ ':' :: r')) := CaseEq.append (CaseEq.refl (c :: p)) hi
    rw [tokList_nonblank_tok fuel c _ hc _ _ hn]
    rcases nextToken_caseEq_detail (F := F) hE with
      ⟨tk0, _, _, h1, _, hu, _⟩ | ⟨h1, _⟩ | ⟨q, q', e, e', h1, h2⟩ | ⟨_, _, _, _, h1, _⟩ | ⟨pl, pl', h0, h0', h1, h2⟩
    · rw [hn] at h1; injection h1 with h1a _; subst h1a; cases hu
    · exact absurd hn (h1 _ _)
    · rw [hn] at h1
      cases hs : splitAtQuote q with
      | none => rw [hs] at h1; cases h1
      | some pr => rw [hs] at h1; simp only at h1; injection h1 with h1a _; cases h1a
    · rw [hn] at h1; injection h1 with h1a _; cases h1a
    · rw [hn] at h1
      injection h1 with h1a h1b
      obtain ⟨pre, e1, hloc⟩ := chompKeyword_local _ _ pl h0
      obtain ⟨a, ha⟩ : (':' :: r) <:+ pl := h1b ▸ dropBytes_suffix _ _
      subst ha
      have hcp : c :: p = pre ++ a := by
        have : (c :: p) ++ (':' :: r) = (pre ++ a) ++ (':' :: r) := by
          rw [List.append_assoc, ← e1]; rfl
        exact List.append_cancel_right this
      have hpl' : pl' = a ++ ':' :: r' := by
        have : c :: (p ++ ':' :: r') = pre ++ (a ++ ':' :: r') := by
          rw [← List.append_assoc, ← hcp]; rfl
        rw [this, hloc] at h0'
        injection h0' with h0'
        exact h0'.symm
      subst hpl'
      obtain ⟨hf, hq⟩ := parseData_stop (F := F) a r h1b.symm
      rw [parseData_colon a r' hf hq] at h2
      rw [parseData_colon a r hf hq] at h1a
      simp only at h2 h1a
      rw [dropBytes_len8] at h2
      rw [tokList_nonblank_tok fuel c _ hc _ _ h2, ih fuel, h1a]

theorem tokList_case_remKw (c d : Char) (p p' pay : Str) (hc : isBasicWs c = false)
    (hn : nextToken (F := F) (c :: (p ++ pay)) = .tok (.remark pay) []) (hi : CaseEq (c :: p) (d :: p'))
    (fuel : Nat) :
    tokList (F := F) fuel (d :: (p' ++ pay)) = tokList (F := F) fuel (c :: (p ++ pay)) := by
  cases fuel with
  | zero => rfl
  | succ fuel =>
    have hE : CaseEq (c :: (p ++ pay)) (d :: (p' ++ pay)) := CaseEq.append hi (CaseEq.refl pay)
    have hd : isBasicWs d = false := by rw [← hE.head_blank]; exact hc
    rw [tokList_nonblank_tok fuel c _ hc _ _ hn]
    rcases nextToken_caseEq_detail (F := F) hE with
      ⟨tk0, _, _, h1, _, hu, _⟩ | ⟨h1, _⟩ | ⟨q, q', e, e', h1, h2⟩ | ⟨r, r', h0, h0', h1, h2⟩ | ⟨_, _, _, _, h1, _⟩
    · rw [hn] at h1; injection h1 with h1a _; subst h1a; cases hu
    · exact absurd hn (h1 _ _)
    · rw [hn] at h1
      cases hs : splitAtQuote q with
      | none => rw [hs] at h1; cases h1
      | some pr => rw [hs] at h1; simp only at h1; injection h1 with h1a _; cases h1a
    · rw [hn] at h1
      injection h1 with h1a _
      injection h1a with h1a
      subst h1a
      have hr := chompKeyword_caseEq Extracted.remKeyword.toList hE
      rw [h0, h0'] at hr
      have hr : CaseEq pay r' := hr
      have hs : r' <:+ (d :: p') ++ pay := chompKeyword_suffix _ _ _ h0'
      have hr' : r' = pay := suffix_eq_of_length hs (List.suffix_append _ _) hr.length_eq.symm
      subst hr'
      rw [tokList_nonblank_tok fuel d _ hd _ _ h2]
    · rw [hn] at h1; injection h1 with h1a _; cases h1a

theorem tokList_case_dataKw (c d : Char) (p p' pl rest : Str) (items : List (DataElement F))
    (hc : isBasicWs c = false)
    (hn : nextToken (F := F) (c :: (p ++ pl)) = .tok (.data items) rest)
    (hk : chompKeyword Extracted.dataKeyword.toList (c :: (p ++ pl)) = some pl)
    (hi : CaseEq (c :: p) (d :: p')) (fuel : Nat) :
    tokList (F := F) fuel (d :: (p' ++ pl)) = tokList (F := F) fuel (c :: (p ++ pl)) := by
  cases fuel with
  | zero => rfl
  | succ fuel =>
    have hE : CaseEq (c :: (p ++ pl)) (d :: (p' ++ pl)) := CaseEq.append hi (CaseEq.refl pl)
    have hd : isBasicWs d = false := by rw [← hE.head_blank]; exact hc
    rcases nextToken_caseEq_detail (F := F) hE with
      ⟨tk0, _, _, h1, _, hu, _⟩ | ⟨h1, _⟩ | ⟨q, q', e, e', h1, h2⟩ | ⟨_, _, _, _, h1, _⟩ | ⟨pl0, pl', h0, h0', h1, h2⟩
    · rw [hn] at h1; injection h1 with h1a _; subst h1a; cases hu
    · exact absurd hn (h1 _ _)
    · rw [hn] at h1
      cases hs : splitAtQuote q with
      | none => rw [hs] at h1; cases h1
      | some pr => rw [hs] at h1; simp only at h1; injection h1 with h1a _; cases h1a
    · rw [hn] at h1; injection h1 with h1a _; cases h1a
    · rw [hk] at h0
      injection h0 with h0
      subst h0
      have hr := chompKeyword_caseEq Extracted.dataKeyword.toList hE
      rw [hk, h0'] at hr
      have hr : CaseEq pl pl' := hr
      have hs : pl' <:+ (d :: p') ++ pl := chompKeyword_suffix _ _ _ h0'
      have hr' : pl' = pl := suffix_eq_of_length hs (List.suffix_append _ _) hr.length_eq.symm
      subst hr'
      rw [tokList_nonblank_tok fuel c _ hc _ _ h1, tokList_nonblank_tok fuel d _ hd _ _ h2]

/-- Main lemma for letter case. -/
theorem tokList_caseEqOutside {cs cs' : Str} (h : CaseEqOutside F cs cs') :
    ∀ fuel, tokList (F := F) fuel cs' = tokList (F := F) fuel cs := by
  induction h with
  | same cs => intro fuel; rfl
  | blank b hb _ ih => intro fuel; rw [tokList_blank fuel b hb, tokList_blank fuel b hb, ih fuel]
  | inTok c d p p' rest rest' tk hc hn hu hi hio ih =>
    exact tokList_case_inTok c d p p' rest rest' tk hc hn hu hi hio.toCaseEq ih
  | later c p rest rest' tk hc hn hcl hio ih => exact tokList_case_later c p rest rest' tk hc hn hcl hio.toCaseEq ih
  | afterData c p r r' items hc hn hio ih => exact tokList_case_afterData c p r r' items hc hn hio.toCaseEq ih
  | remKw c d p p' pay hc hn hi => exact tokList_case_remKw c d p p' pay hc hn hi
  | dataKw c d p p' pl rest items hc hn hk hi => exact tokList_case_dataKw c d p p' pl rest items hc hn hk hi

/-- Item 2 for letter case (both directions at once): two lines that differ in letter
    case only outside protected text tokenize to the same tokens, or both fail. -/
theorem tokenize_caseEq_outside_iff {line line' : Str} (h : CaseEqOutside F line line') (ts : List (Token F)) :
    tokenize (F := F) line 0 = .ok ts ↔ tokenize (F := F) line' 0 = .ok ts := by
  rw [tokenize_iff_tokList, tokenize_iff_tokList, tokList_caseEqOutside h, h.toCaseEq.length_eq]

/-- Item 2 for letter case. -/
theorem tokenize_caseEq_outside {line line' : Str} (h : CaseEqOutside F line line') (ts : List (Token F))
    (hok : tokenize (F := F) line 0 = .ok ts) : tokenize (F := F) line' 0 = .ok ts :=
  (tokenize_caseEq_outside_iff h ts).mp hok

/-- Item 2 for letter case, converse. -/
theorem tokenize_caseEq_outside_conv {line line' : Str} (h : CaseEqOutside F line line') (ts : List (Token F))
    (hok : tokenize (F := F) line' 0 = .ok ts) : tokenize (F := F) line 0 = .ok ts :=
  (tokenize_caseEq_outside_iff h ts).mpr hok

/-! ### 3. blanks around DATA items

  Stated per parser state: `DataParser.run {} a` is the state of `parse_data_until_colon`
  after reading the text `a` of the payload.  "At the start of an item" means: outside
  quotes, and the current item consists of blanks only so far (`trim cur = []`) — that is
  the state at the start of the payload, after a comma, and after the closing quote of a
  quoted item (`data_state_start`, `data_state_after_comma`, `data_state_after_quote`);
  it is also the state in front of the opening quote of a quoted item.  "At the end of an
  unquoted item" means: outside quotes, in front of a comma, the terminating colon, or
  the end of the text. -/

theorem parseData_items (s : Str) :
    (parseData (F := F) s).1 = (DataParser.run ({} : DataParser F) s).finish.elements := rfl

/-- Item 3, start of an item / around a quoted item: a blank where the current item is
    still blank changes no item. -/
theorem data_blank_start (a s : Str) (w : Char) (hw : isBasicWs w = true)
    (hf : (DataParser.run ({} : DataParser F) a).finished = false)
    (hq : (DataParser.run ({} : DataParser F) a).inQuote = false)
    (he : trim (DataParser.run ({} : DataParser F) a).cur = []) :
    (parseData (F := F) (a ++ w :: s)).1 = (parseData (F := F) (a ++ s)).1 := by
  rw [parseData_items, parseData_items, DataParser.run_append a _ hf, DataParser.run_append a _ hf,
    DataParser.run_cons]
  have hb := DataParser.parseChar_blank _ w hw hq hf
  have hnf : ((DataParser.run ({} : DataParser F) a).parseChar w).finished = false := by rw [hb]; exact hf
  rw [hnf]
  simp only [Bool.false_eq_true, ↓reduceIte]
  exact ((DataParser.sim_blank_start _ w hw hq hf he).run s).finish_elements

/-- Item 3, end of an unquoted item (or behind a quoted one), in front of a separator. -/
theorem data_blank_end (a s : Str) (w t : Char) (hw : isBasicWs w = true) (ht : t = ',' ∨ t = ':')
    (hf : (DataParser.run ({} : DataParser F) a).finished = false)
    (hq : (DataParser.run ({} : DataParser F) a).inQuote = false) :
    (parseData (F := F) (a ++ w :: t :: s)).1 = (parseData (F := F) (a ++ t :: s)).1 := by
  rw [parseData_items, parseData_items, DataParser.run_append a _ hf, DataParser.run_append a _ hf,
    DataParser.run_cons, DataParser.run_cons (c := t)]
  have hb := DataParser.parseChar_blank _ w hw hq hf
  have hnf : ((DataParser.run ({} : DataParser F) a).parseChar w).finished = false := by rw [hb]; exact hf
  rw [hnf]
  simp only [Bool.false_eq_true, ↓reduceIte]
  rw [DataParser.run_cons]
  have hsim := DataParser.sim_blank_end _ w t hw hq hf ht
  rw [← hsim.2.2.1]
  by_cases hfin : (((DataParser.run ({} : DataParser F) a).parseChar w).parseChar t).finished = true
  · rw [if_pos hfin, if_pos hfin]; exact hsim.finish_elements
  · rw [if_neg hfin, if_neg hfin]; exact (hsim.run s).finish_elements

/-- Item 3, end of the last item: a blank at the very end of the payload. -/
theorem data_blank_eol (a : Str) (w : Char) (hw : isBasicWs w = true)
    (hf : (DataParser.run ({} : DataParser F) a).finished = false)
    (hq : (DataParser.run ({} : DataParser F) a).inQuote = false) :
    (parseData (F := F) (a ++ [w])).1 = (parseData (F := F) a).1 := by
  rw [parseData_items, parseData_items, DataParser.run_append a _ hf, DataParser.run_cons]
  have hb := DataParser.parseChar_blank _ w hw hq hf
  have hnf : ((DataParser.run ({} : DataParser F) a).parseChar w).finished = false := by rw [hb]; exact hf
  rw [hnf]
  simp only [Bool.false_eq_true, ↓reduceIte, DataParser.run_nil]
  exact DataParser.blank_end_finish _ w hw hq hf

/-- the state at the start of the payload is a "start of item" state -/
theorem data_state_start :
    (DataParser.run ({} : DataParser F) []).finished = false ∧
    (DataParser.run ({} : DataParser F) []).inQuote = false ∧
    trim (DataParser.run ({} : DataParser F) []).cur = [] := ⟨rfl, rfl, rfl⟩

/-- … so is the state after a comma outside quotes … -/
theorem data_state_after_comma (a : Str)
    (hf : (DataParser.run ({} : DataParser F) a).finished = false)
    (hq : (DataParser.run ({} : DataParser F) a).inQuote = false) :
    (DataParser.run ({} : DataParser F) (a ++ [','])).finished = false ∧
    (DataParser.run ({} : DataParser F) (a ++ [','])).inQuote = false ∧
    trim (DataParser.run ({} : DataParser F) (a ++ [','])).cur = [] := by
  rw [DataParser.run_append a _ hf, DataParser.run_cons]
  generalize DataParser.run ({} : DataParser F) a = p at hf hq
  obtain ⟨q, els, ch, cur, fin⟩ := p
  simp only at hf hq
  subst hf; subst hq
  have hnil : trim ([] : Str) = [] := rfl
  by_cases he : trim cur = [] <;>
  simp [DataParser.parseChar, DataParser.pushCurrent, DataParser.run, he, hnil]

/-- … and the state after the closing quote of a quoted item. -/
theorem data_state_after_quote (a : Str)
    (hf : (DataParser.run ({} : DataParser F) a).finished = false)
    (hq : (DataParser.run ({} : DataParser F) a).inQuote = true) :
    (DataParser.run ({} : DataParser F) (a ++ ['"'])).finished = false ∧
    (DataParser.run ({} : DataParser F) (a ++ ['"'])).inQuote = false ∧
    trim (DataParser.run ({} : DataParser F) (a ++ ['"'])).cur = [] := by
  rw [DataParser.run_append a _ hf, DataParser.run_cons]
  generalize DataParser.run ({} : DataParser F) a = p at hf hq
  obtain ⟨q, els, ch, cur, fin⟩ := p
  simp only at hf hq
  subst hf; subst hq
  have hnil : trim ([] : Str) = [] := rfl
  simp [DataParser.parseChar, DataParser.pushCurrent, DataParser.run, hnil]

/-- Example: `DATA a , "b" ,c` has the items of `DATA a,"b",c` (end of an unquoted item,
    behind a quoted item; checked by evaluation as a sanity test of the statements). -/
example : (parseData (F := Unit) "a , \"b\" ,c ".toList).1.map DataElement.render =
    (parseData (F := Unit) "a,\"b\",c".toList).1.map DataElement.render := by decide


/-! ### 4. examples -/

/-- Non-vacuity, stepping over a string literal: `PRINT "a b";X` and `PRINT "a b"; X`
    (blank inserted after the string and the semicolon) — the string token keeps its blank. -/
example : tokenize (F := Unit) "PRINT \"a b\"; X".toList 0 =
    .ok [.kw .Print, .str "a b".toList, .kw .Semicolon, .symbol ['X']] := by
  refine tokenize_ins_outside (line := "PRINT \"a b\";X".toList) ' ' (by decide) ?_ _ (by rfl)
  refine InsOutside.later 'P' "RINT".toList " \"a b\";X".toList " \"a b\"; X".toList (.kw .Print)
    (by decide) (by rfl) rfl ?_
  refine InsOutside.blank ' ' (by decide) ?_
  refine InsOutside.later '"' "a b\"".toList ";X".toList "; X".toList (.str "a b".toList)
    (by decide) (by rfl) rfl ?_
  refine InsOutside.later ';' [] "X".toList " X".toList (.kw .Semicolon) (by decide) (by rfl) rfl ?_
  exact InsOutside.here _

/-- Non-vacuity, inside a keyword in front of a string: `PRI NT "a b"`. -/
example : tokenize (F := Unit) "PRI NT \"a b\"".toList 0 = .ok [.kw .Print, .str "a b".toList] := by
  refine tokenize_ins_outside (line := "PRINT \"a b\"".toList) ' ' (by decide) ?_ _ (by rfl)
  exact InsOutside.inTok 'P' "RINT".toList "RI NT".toList " \"a b\"".toList (.kw .Print)
    (by decide) (by rfl) rfl (Ins.cons 'R' (Ins.cons 'I' (Ins.here _)))

/-- Non-vacuity, between the letters of REM: `R EM a b` is the remark ` a b`. -/
example : tokenize (F := Unit) "R EM a b".toList 0 = .ok [.remark " a b".toList] := by
  refine tokenize_ins_outside (line := "REM a b".toList) ' ' (by decide) ?_ _ (by rfl)
  exact InsOutside.inRem 'R' 'M' "E".toList " E".toList " a b".toList (by decide) (by decide) (by rfl)
    (Ins.here _)

/-- Non-vacuity, after a DATA statement: `DATA a b:X` and `DATA a b: X`. -/
example : tokenize (F := Unit) "DATA a b: X".toList 0 =
    .ok [.data [.str "a b".toList], .kw .Colon, .symbol ['X']] := by
  refine tokenize_ins_outside (line := "DATA a b:X".toList) ' ' (by decide) ?_ _ (by rfl)
  refine InsOutside.afterData 'D' "ATA a b".toList "X".toList " X".toList [.str "a b".toList]
    (by decide) (by rfl) ?_
  refine InsOutside.later ':' [] "X".toList " X".toList (.kw .Colon) (by decide) (by rfl) rfl ?_
  exact InsOutside.here _

/-- Non-vacuity for letter case: `print "Ab";x` and `PRINT "Ab";X`. -/
example : tokenize (F := Unit) "PRINT \"Ab\";X".toList 0 =
    .ok [.kw .Print, .str "Ab".toList, .kw .Semicolon, .symbol ['X']] := by
  refine tokenize_caseEq_outside (line := "print \"Ab\";x".toList) ?_ _ (by rfl)
  refine CaseEqOutside.inTok 'p' 'P' "rint".toList "RINT".toList " \"Ab\";x".toList " \"Ab\";X".toList
    (.kw .Print) (by decide) (by rfl) rfl ?_ ?_
  · repeat (first | exact CaseEq.nil | refine CaseEq.cons (by decide) (by decide) ?_)
  refine CaseEqOutside.blank ' ' (by decide) ?_
  refine CaseEqOutside.later '"' "Ab\"".toList ";x".toList ";X".toList (.str "Ab".toList)
    (by decide) (by rfl) rfl ?_
  refine CaseEqOutside.later ';' [] "x".toList "X".toList (.kw .Semicolon) (by decide) (by rfl) rfl ?_
  refine CaseEqOutside.inTok 'x' 'X' [] [] [] [] (.symbol ['X']) (by decide) (by rfl) rfl ?_ (CaseEqOutside.same _)
  exact CaseEq.cons (by decide) (by decide) CaseEq.nil

/-- Non-vacuity for letter case in the keyword REM: `rem Ab` and `REM Ab`. -/
example : tokenize (F := Unit) "REM Ab".toList 0 = .ok [.remark " Ab".toList] := by
  refine tokenize_caseEq_outside (line := "rem Ab".toList) ?_ _ (by rfl)
  refine CaseEqOutside.remKw 'r' 'R' "em".toList "EM".toList " Ab".toList (by decide) (by rfl) ?_
  repeat (first | exact CaseEq.nil | refine CaseEq.cons (by decide) (by decide) ?_)

/-- The side condition is needed (blank inside a string literal): `"ab"` and `"a b"` are
    related by `Ins` but give different tokens, so they are not related by `InsOutside`. -/
example : Ins ' ' "\"ab\"".toList "\"a b\"".toList ∧
    tokenize (F := Unit) "\"ab\"".toList 0 = .ok [.str "ab".toList] ∧
    tokenize (F := Unit) "\"a b\"".toList 0 = .ok [.str "a b".toList] ∧
    ¬ InsOutside Unit ' ' "\"ab\"".toList "\"a b\"".toList := by
  refine ⟨Ins.cons '"' (Ins.cons 'a' (Ins.here _)), by rfl, by rfl, ?_⟩
  intro h
  have h2 := tokenize_ins_outside (F := Unit) ' ' (by decide) h [.str "ab".toList] (by rfl)
  have h3 : tokenize (F := Unit) "\"a b\"".toList 0 = .ok [.str "a b".toList] := by rfl
  rw [h3] at h2
  injection h2 with h2; injection h2 with h2; injection h2 with h2; exact absurd h2 (by decide)

/-- … in the text of a remark … -/
example : Ins ' ' "REMab".toList "REMa b".toList ∧
    tokenize (F := Unit) "REMab".toList 0 = .ok [.remark "ab".toList] ∧
    tokenize (F := Unit) "REMa b".toList 0 = .ok [.remark "a b".toList] ∧
    ¬ InsOutside Unit ' ' "REMab".toList "REMa b".toList := by
  refine ⟨Ins.cons 'R' (Ins.cons 'E' (Ins.cons 'M' (Ins.cons 'a' (Ins.here _)))), by rfl, by rfl, ?_⟩
  intro h
  have h2 := tokenize_ins_outside (F := Unit) ' ' (by decide) h [.remark "ab".toList] (by rfl)
  have h3 : tokenize (F := Unit) "REMa b".toList 0 = .ok [.remark "a b".toList] := by rfl
  rw [h3] at h2
  injection h2 with h2; injection h2 with h2; injection h2 with h2; exact absurd h2 (by decide)

/-- … and in a DATA payload (inside an unquoted item). -/
example : Ins ' ' "DATAab".toList "DATAa b".toList ∧
    tokenize (F := Unit) "DATAab".toList 0 = .ok [.data [.str "ab".toList]] ∧
    tokenize (F := Unit) "DATAa b".toList 0 = .ok [.data [.str "a b".toList]] ∧
    ¬ InsOutside Unit ' ' "DATAab".toList "DATAa b".toList := by
  refine ⟨Ins.cons 'D' (Ins.cons 'A' (Ins.cons 'T' (Ins.cons 'A' (Ins.cons 'a' (Ins.here _))))), by rfl, by rfl, ?_⟩
  intro h
  have h2 := tokenize_ins_outside (F := Unit) ' ' (by decide) h [.data [.str "ab".toList]] (by rfl)
  have h3 : tokenize (F := Unit) "DATAa b".toList 0 = .ok [.data [.str "a b".toList]] := by rfl
  rw [h3] at h2
  injection h2 with h2; injection h2 with h2; injection h2 with h2
  injection h2 with h2; injection h2 with h2
  exact absurd h2 (by decide)

/-- The side condition is needed for letter case too: `"ab"` and `"aB"` are `CaseEq` but
    give different string tokens, so they are not `CaseEqOutside`. -/
example : CaseEq "\"ab\"".toList "\"aB\"".toList ∧
    tokenize (F := Unit) "\"ab\"".toList 0 = .ok [.str "ab".toList] ∧
    tokenize (F := Unit) "\"aB\"".toList 0 = .ok [.str "aB".toList] ∧
    ¬ CaseEqOutside Unit "\"ab\"".toList "\"aB\"".toList := by
  refine ⟨?_, by rfl, by rfl, ?_⟩
  · repeat (first | exact CaseEq.nil | refine CaseEq.cons (by decide) (by decide) ?_)
  intro h
  have h2 := tokenize_caseEq_outside (F := Unit) h [.str "ab".toList] (by rfl)
  have h3 : tokenize (F := Unit) "\"aB\"".toList 0 = .ok [.str "aB".toList] := by rfl
  rw [h3] at h2
  injection h2 with h2; injection h2 with h2; injection h2 with h2; exact absurd h2 (by decide)

end Abasic.Props.C12
