import Abasic.Props.C02
import Abasic.Proofs.ExprLemmas
/-
  C02, the main theorem: `eval_render`.

  For every syntax tree `e`, the token-stream evaluator of Expr.lean
  (`orExpr (evalN n)`, and `exprBody (evalN n)` = the recursive entry one
  nesting level deeper) run on the spec's minimal-parenthesis rendering
  `Ref.render e` computes exactly the spec's strict left-to-right fold
  `Ref.foldE (getVar σ) e`: the same value, leaving the state untouched except
  for the cursor (now just after the rendering) and the read counter (larger);
  or the same error.

  The proof (Abasic/Proofs/ExprLemmas.lean) is by induction on the tree, for
  three mutually dependent statements: `AStmt` (atoms through `parenExpr`),
  `PStmt` (every tier at or below the strength of `e` parses `render e` when no
  operator of those tiers and no `(` follows) and `SStmt` (the left spine of a
  left-associative tier with an exact iteration budget).

  Stages, as separate theorems:
    A  `eval_render_stageA`  — `.num .str .var .paren .bin` (all 13 binary operators)
    B  `eval_render_stageB`  — A plus `.un`
    C  `eval_render`         — every tree (B plus `.abs` / `.int`); no side condition on `σ.fns`
-/
namespace Abasic.Props.C02
open Abasic Abasic.Ref Abasic.ExprL

variable {F : Type} [NumOps F]

/-- What may follow the rendering on the line: nothing, or a token that is not
    `(` (which would turn a trailing variable into a call / array reference) and
    not a binary operator (none of the six tier tables accepts it). -/
def Follows (rest : List (Token F)) : Prop :=
  ∀ t, rest.head? = some t →
    t.isKw .LeftParen = false ∧ orOps t = none ∧ andOps t = none ∧ cmpOps t = none ∧
    addOps t = none ∧ mulOps t = none ∧ powOps t = none

omit [NumOps F] in
theorem follows_nil : Follows ([] : List (Token F)) := fun _ h => by simp at h

omit [NumOps F] in
theorem ends_of_follows {rest : List (Token F)} (h : Follows rest) : Ends 6 rest := by
  intro t ht
  obtain ⟨h0, h1, h2, h3, h4, h5, h6⟩ := h t ht
  refine ⟨h0, fun i hi => ?_⟩
  rcases i with _ | _ | _ | _ | _ | _ | i
  · exact h6
  · exact h5
  · exact h4
  · exact h3
  · exact h2
  · exact h1
  · omega

/-- The hypotheses of `eval_render`: the current line of `σ` is
    `pre ++ render e ++ rest` with the cursor at `|pre|`; no GOSUB / function
    frames and no warnings (so that a variable is read from `σ.vars`); room for
    the parentheses of the rendering below the nesting cap and in the fuel. -/
structure Ready (σ : St F) (pre : List (Token F)) (e : Expr F) (rest : List (Token F)) (n : Nat) : Prop where
  toks : tokens σ = .ok (pre ++ render e ++ rest) σ
  idx : σ.loc.idx = pre.length
  stack : σ.stack = []
  warnings : σ.warnings = false
  nesting : σ.nesting + depth e < Extracted.nestingLimit
  fuel : depth e + 1 ≤ n
  follows : Follows rest

omit [NumOps F] in
theorem lineToks_of_tokens {σ σ' : St F} {ts : List (Token F)} (h : tokens σ = .ok ts σ') :
    lineToks σ = some ts := by
  unfold tokens tokensForLine at h
  unfold lineToks
  cases hl : σ.loc.line with
  | none =>
    rw [hl] at h
    simp only [Res.ok.injEq] at h
    simp only [h.1]
  | some n =>
    rw [hl] at h
    simp only at h ⊢
    cases hg : σ.lines.get n with
    | none => rw [hg] at h; cases h
    | some ts' =>
      rw [hg] at h
      simp only [Res.ok.injEq] at h
      rw [h.1]

omit [NumOps F] in
theorem Ready.at {σ : St F} {pre rest : List (Token F)} {e : Expr F} {n : Nat}
    (h : Ready σ pre e rest n) : At σ pre (render e ++ rest) :=
  ⟨by rw [lineToks_of_tokens h.toks, List.append_assoc], h.idx⟩

omit [NumOps F] in
/-- the result state: `σ` with the cursor after the rendering and `r` reads -/
theorem mv_eq {σ : St F} {pre : List (Token F)} (hidx : σ.loc.idx = pre.length) (len r : Nat) :
    mv σ len r = { σ with loc := { σ.loc with idx := pre.length + len }, reads := r } := by
  simp only [mv, hidx]

/-- `eval_render` from the tier statement of `e` -/
theorem eval_render_of_P (e : Expr F) (hP : PStmt e) (n : Nat) (σ : St F) (pre rest : List (Token F))
    (h : Ready σ pre e rest n) :
    (∀ v, foldE (getVar σ) e = .ok v → ∃ r, σ.reads < r ∧
      orExpr (evalN n) σ =
        .ok v { σ with loc := { σ.loc with idx := pre.length + (render e).length }, reads := r }) ∧
    (∀ x, foldE (getVar σ) e = .error x → ∃ σ',
      orExpr (evalN n) σ = .err { err := x } σ' ∧ σ'.nesting = σ.nesting) := by
  have hA := hP n 6 σ pre rest (by have := h.fuel; omega) (by have := h.nesting; omega)
    (by have := prec_bounds e; unfold lv; omega) (Nat.le_refl _) (ends_of_follows h.follows) h.at
    ⟨h.stack, h.warnings⟩
  rw [tier_six] at hA
  constructor
  · intro v hv
    rw [hv] at hA
    obtain ⟨r, hr, hσ⟩ := hA
    exact ⟨r, hr, by rw [hσ]; show Res.ok v (mv σ _ r) = _; rw [mv_eq h.idx]⟩
  · intro x hx
    rw [hx] at hA
    exact hA

/-- the same for the recursive entry `exprBody` (one nesting level deeper, restored on exit) -/
theorem eval_render_body_of_P (e : Expr F) (hP : PStmt e) (n : Nat) (σ : St F) (pre rest : List (Token F))
    (h : Ready σ pre e rest n) :
    (∀ v, foldE (getVar σ) e = .ok v → ∃ r, σ.reads < r ∧
      exprBody (evalN n) σ =
        .ok v { σ with loc := { σ.loc with idx := pre.length + (render e).length }, reads := r }) ∧
    (∀ x, foldE (getVar σ) e = .error x → ∃ σ',
      exprBody (evalN n) σ = .err { err := x } σ' ∧ σ'.nesting = σ.nesting) := by
  have hA := expr_eq e hP (n + 1) σ pre rest (by have := h.fuel; omega) (by have := h.nesting; omega)
    (ends_of_follows h.follows) h.at ⟨h.stack, h.warnings⟩
  have hb : (evalN (F := F) (n + 1)).expr = exprBody (evalN n) := rfl
  rw [hb] at hA
  constructor
  · intro v hv
    rw [hv] at hA
    obtain ⟨r, hr, hσ⟩ := hA
    exact ⟨r, hr, by rw [hσ]; show Res.ok v (mv σ _ r) = _; rw [mv_eq h.idx]⟩
  · intro x hx
    rw [hx] at hA
    exact hA

/-! ### Stage A: literals, variables, parentheses, the 13 binary operators -/

/-- **Stage A.** -/
theorem eval_render_stageA (e : Expr F) (he : StageA e) (n : Nat) (σ : St F) (pre rest : List (Token F))
    (h : Ready σ pre e rest n) :
    (∀ v, foldE (getVar σ) e = .ok v → ∃ r, σ.reads < r ∧
      orExpr (evalN n) σ =
        .ok v { σ with loc := { σ.loc with idx := pre.length + (render e).length }, reads := r }) ∧
    (∀ x, foldE (getVar σ) e = .error x → ∃ σ',
      orExpr (evalN n) σ = .err { err := x } σ' ∧ σ'.nesting = σ.nesting) :=
  eval_render_of_P e (main_A e he).1 n σ pre rest h

/-! ### Stage B: plus unary operators -/

/-- the trees of stage B: no ABS / INT -/
def StageB : Expr F → Prop
  | .num _ => True
  | .str _ => True
  | .var _ => True
  | .paren e => StageB e
  | .bin _ l r => StageB l ∧ StageB r
  | .un _ e => StageB e
  | .abs _ => False
  | .int _ => False

/-- the induction restricted to stage B (uses neither `A_abs` nor `A_int`) -/
theorem main_B (e : Expr F) (h : StageB e) : PStmt e ∧ SStmt e ∧ AStmt e := by
  induction e with
  | num x => exact ⟨P_atom _ (A_num x) rfl, S_atom _ (P_atom _ (A_num x) rfl) rfl, A_num x⟩
  | str s => exact ⟨P_atom _ (A_str s) rfl, S_atom _ (P_atom _ (A_str s) rfl) rfl, A_str s⟩
  | var n => exact ⟨P_atom _ (A_var n) rfl, S_atom _ (P_atom _ (A_var n) rfl) rfl, A_var n⟩
  | paren x ih => exact ⟨P_paren x (ih h).1, S_paren x (ih h).1, A_paren x (ih h).1⟩
  | bin op l r ihl ihr =>
    have hl := ihl h.1
    have hr := ihr h.2
    exact ⟨P_bin op l r hl.1 hl.2.1 hr.1, S_bin op l r hl.1 hl.2.1 hr.1, A_bin op l r⟩
  | un op x ih =>
    have hP := P_un op x (ih h).1 (ih h).2.2
    exact ⟨hP, S_atom _ hP rfl, A_un op x⟩
  | abs x _ => exact absurd h (by simp [StageB])
  | int x _ => exact absurd h (by simp [StageB])

/-- **Stage B.** -/
theorem eval_render_stageB (e : Expr F) (he : StageB e) (n : Nat) (σ : St F) (pre rest : List (Token F))
    (h : Ready σ pre e rest n) :
    (∀ v, foldE (getVar σ) e = .ok v → ∃ r, σ.reads < r ∧
      orExpr (evalN n) σ =
        .ok v { σ with loc := { σ.loc with idx := pre.length + (render e).length }, reads := r }) ∧
    (∀ x, foldE (getVar σ) e = .error x → ∃ σ',
      orExpr (evalN n) σ = .err { err := x } σ' ∧ σ'.nesting = σ.nesting) :=
  eval_render_of_P e (main_B e he).1 n σ pre rest h

/-! ### Stage C: every tree -/

/-- **Stage C = the full theorem.**  For every tree `e`, running the tiers of
    the token-stream evaluator on `render e` yields the fold of `e`. -/
theorem eval_render (e : Expr F) (n : Nat) (σ : St F) (pre rest : List (Token F))
    (h : Ready σ pre e rest n) :
    (∀ v, foldE (getVar σ) e = .ok v → ∃ r, σ.reads < r ∧
      orExpr (evalN n) σ =
        .ok v { σ with loc := { σ.loc with idx := pre.length + (render e).length }, reads := r }) ∧
    (∀ x, foldE (getVar σ) e = .error x → ∃ σ',
      orExpr (evalN n) σ = .err { err := x } σ' ∧ σ'.nesting = σ.nesting) :=
  eval_render_of_P e (main e).1 n σ pre rest h

/-- The full theorem for `exprBody`, i.e. for `(evalN (n+1)).expr`, the entry
    used by statements, parenthesised sub-expressions, arguments and subscripts. -/
theorem eval_render_body (e : Expr F) (n : Nat) (σ : St F) (pre rest : List (Token F))
    (h : Ready σ pre e rest n) :
    (∀ v, foldE (getVar σ) e = .ok v → ∃ r, σ.reads < r ∧
      exprBody (evalN n) σ =
        .ok v { σ with loc := { σ.loc with idx := pre.length + (render e).length }, reads := r }) ∧
    (∀ x, foldE (getVar σ) e = .error x → ∃ σ',
      exprBody (evalN n) σ = .err { err := x } σ' ∧ σ'.nesting = σ.nesting) :=
  eval_render_body_of_P e (main e).1 n σ pre rest h

/-! ### outcomes, and the corollary on redundant parentheses -/

/-- what a run produced, forgetting the state -/
def outcome {α : Type} : Res F α → Except TErr α
  | .ok a _ => .ok a
  | .err e _ => .error e

/-- the spec's result as an outcome -/
def specOutcome (r : Except Err (Value F)) : Except TErr (Value F) :=
  match r with
  | .ok v => .ok v
  | .error x => .error { err := x }

theorem eval_render_outcome (e : Expr F) (n : Nat) (σ : St F) (pre rest : List (Token F))
    (h : Ready σ pre e rest n) :
    outcome (orExpr (evalN n) σ) = specOutcome (foldE (getVar σ) e) := by
  obtain ⟨h1, h2⟩ := eval_render e n σ pre rest h
  cases hev : foldE (getVar σ) e with
  | ok v => obtain ⟨r, _, hr⟩ := h1 v hev; rw [hr]; rfl
  | error x => obtain ⟨σ', hσ', _⟩ := h2 x hev; rw [hσ']; rfl

theorem eval_render_body_outcome (e : Expr F) (n : Nat) (σ : St F) (pre rest : List (Token F))
    (h : Ready σ pre e rest n) :
    outcome (exprBody (evalN n) σ) = specOutcome (foldE (getVar σ) e) := by
  obtain ⟨h1, h2⟩ := eval_render_body e n σ pre rest h
  cases hev : foldE (getVar σ) e with
  | ok v => obtain ⟨r, _, hr⟩ := h1 v hev; rw [hr]; rfl
  | error x => obtain ⟨σ', hσ', _⟩ := h2 x hev; rw [hσ']; rfl

/-- **Redundant parentheses never change a result, on the token stream**: the
    evaluator run on the rendering of `(e)` and run on the rendering of `e`
    (anywhere on any line, with the same variables) produce the same value or
    the same error. -/
theorem paren_irrelevant_eval (e : Expr F) (n₁ n₂ : Nat) (σ₁ σ₂ : St F)
    (pre₁ rest₁ pre₂ rest₂ : List (Token F))
    (h₁ : Ready σ₁ pre₁ (.paren e) rest₁ n₁) (h₂ : Ready σ₂ pre₂ e rest₂ n₂)
    (hvars : σ₁.vars = σ₂.vars) :
    outcome (orExpr (evalN n₁) σ₁) = outcome (orExpr (evalN n₂) σ₂) := by
  have henv : getVar σ₁ = getVar σ₂ := by
    funext name; simp only [getVar, hvars]
  rw [eval_render_outcome _ _ _ _ _ h₁, eval_render_outcome _ _ _ _ _ h₂, henv]
  rfl

/-! ### non-vacuity: the hypotheses are satisfiable for every tree of depth < 48 -/

omit [NumOps F] in
/-- an immediate line holding just the rendering of `e` (followed by `rest`), any variables -/
theorem ready_immediate (e : Expr F) (rest : List (Token F)) (vars : List (Str × Value F)) (n : Nat)
    (hd : depth e < Extracted.nestingLimit) (hn : depth e + 1 ≤ n) (hrest : Follows rest) :
    Ready ({ imm := [] ++ render e ++ rest, vars := vars } : St F) [] e rest n where
  toks := rfl
  idx := rfl
  stack := rfl
  warnings := rfl
  nesting := by show 0 + depth e < _; omega
  fuel := hn
  follows := hrest

/-- On a fresh interpreter whose immediate line is `render e`, with the default
    fuel, the evaluator computes the fold of `e`. -/
theorem eval_render_fresh (e : Expr F) (vars : List (Str × Value F))
    (hd : depth e < Extracted.nestingLimit) :
    outcome (orExpr (evalN defaultFuel) ({ imm := [] ++ render e ++ [], vars := vars } : St F))
      = specOutcome (foldE (getVar ({ vars := vars } : St F)) e) := by
  have h := ready_immediate e [] vars defaultFuel hd (by unfold defaultFuel; omega) follows_nil
  rw [eval_render_outcome e _ _ _ _ h]
  rfl

section Nesting
omit [NumOps F]

/-! ### `depth` is the parenthesis nesting of the rendering -/

/-- deepest parenthesis level reached in `ts`, starting at level `c` -/
def nestMax : List (Token F) → Nat → Nat
  | [], c => c
  | t :: ts, c =>
    if t.isKw .LeftParen then max c (nestMax ts (c + 1))
    else if t.isKw .RightParen then max c (nestMax ts (c - 1))
    else nestMax ts c

/-- parenthesis nesting of a token list -/
def parenNesting (ts : List (Token F)) : Nat := nestMax ts 0

theorem le_nestMax (ts : List (Token F)) (c : Nat) : c ≤ nestMax ts c := by
  induction ts generalizing c with
  | nil => exact Nat.le_refl _
  | cons t ts ih =>
    unfold nestMax
    split
    · exact Nat.le_max_left _ _
    · split
      · exact Nat.le_max_left _ _
      · exact ih c

theorem nestMax_lparen (ts : List (Token F)) (c : Nat) :
    nestMax (.kw .LeftParen :: ts) c = max c (nestMax ts (c + 1)) := by
  rw [nestMax]; rfl

theorem nestMax_rparen (ts : List (Token F)) (c : Nat) :
    nestMax (.kw .RightParen :: ts) (c + 1) = max (c + 1) (nestMax ts c) := by
  rw [nestMax]; rfl

theorem nestMax_other (t : Token F) (ts : List (Token F)) (c : Nat)
    (h1 : t.isKw .LeftParen = false) (h2 : t.isKw .RightParen = false) :
    nestMax (t :: ts) c = nestMax ts c := by
  rw [nestMax]; simp only [h1, h2, Bool.false_eq_true, if_false]

theorem token_not_rparen (op : BinOp) : (Token.kw (F := F) (BinOp.token op)).isKw .RightParen = false := by
  cases op with
  | cmp c => cases c <;> rfl
  | _ => rfl

theorem nestMax_render (e : Expr F) (rest : List (Token F)) (c : Nat) :
    nestMax (render e ++ rest) c = max (c + depth e) (nestMax rest c) := by
  have hparen : ∀ (x : Expr F),
      (∀ rest c, nestMax (render x ++ rest) c = max (c + depth x) (nestMax rest c)) →
      ∀ rest c, nestMax (.kw .LeftParen :: (render x ++ (.kw .RightParen :: rest))) c
        = max (c + (depth x + 1)) (nestMax rest c) := by
    intro x ih rest c
    rw [nestMax_lparen, ih, nestMax_rparen]
    have := le_nestMax rest c
    omega
  have hfix : ∀ (p : Nat) (x : Expr F),
      (∀ rest c, nestMax (render x ++ rest) c = max (c + depth x) (nestMax rest c)) →
      ∀ rest c, nestMax (render (fixP p x) ++ rest) c = max (c + depth (fixP p x)) (nestMax rest c) := by
    intro p x ih rest c
    unfold fixP; split
    · rw [render_paren]
      simp only [List.cons_append, List.append_assoc, List.nil_append]
      exact hparen x ih rest c
    · exact ih rest c
  induction e generalizing rest c with
  | num x =>
    rw [render_num]; show nestMax (_ :: rest) c = _
    rw [nestMax_other _ _ _ rfl rfl]; have := le_nestMax rest c; simp only [depth]; omega
  | str s =>
    rw [render_str]; show nestMax (_ :: rest) c = _
    rw [nestMax_other _ _ _ rfl rfl]; have := le_nestMax rest c; simp only [depth]; omega
  | var n =>
    rw [render_var]; show nestMax (_ :: rest) c = _
    rw [nestMax_other _ _ _ rfl rfl]; have := le_nestMax rest c; simp only [depth]; omega
  | paren x ih =>
    rw [render_paren]
    simp only [List.cons_append, List.append_assoc, List.nil_append]
    exact hparen x (fun rest c => ih rest c) rest c
  | abs x ih =>
    rw [render_abs]
    simp only [List.cons_append, List.append_assoc, List.nil_append]
    rw [nestMax_other _ _ _ rfl rfl]
    exact hparen x (fun rest c => ih rest c) rest c
  | int x ih =>
    rw [render_int]
    simp only [List.cons_append, List.append_assoc, List.nil_append]
    rw [nestMax_other _ _ _ rfl rfl]
    exact hparen x (fun rest c => ih rest c) rest c
  | un op x ih =>
    rw [render_un, depth_un]
    simp only [List.cons_append]
    rw [nestMax_other _ _ _ (by cases op <;> rfl) (by cases op <;> rfl)]
    exact hfix 8 x (fun rest c => ih rest c) rest c
  | bin op l r ihl ihr =>
    rw [render_bin, depth_bin]
    simp only [List.cons_append, List.append_assoc]
    rw [hfix _ l (fun rest c => ihl rest c), nestMax_other _ _ _ (token_not_lparen op) (token_not_rparen op),
      hfix _ r (fun rest c => ihr rest c)]
    omega

/-- `depth e` is the parenthesis nesting of `render e`. -/
theorem depth_eq_parenNesting (e : Expr F) : parenNesting (render e) = depth e := by
  have := nestMax_render e [] 0
  rw [List.append_nil] at this
  unfold parenNesting
  rw [this]
  show max (0 + depth e) 0 = depth e
  omega

end Nesting

/-! ### end-to-end instances -/

omit [NumOps F] in
theorem depth_lt_of_zero (e : Expr F) (h : depth e = 0) : depth e < Extracted.nestingLimit := by
  rw [h]; decide

/-- Non-vacuity, end to end: on the immediate line `a - b * c` the evaluator
    yields `a - (b * c)`, and on `a - b - c` it yields `(a - b) - c`. -/
example (a b c : F) :
    outcome (orExpr (evalN defaultFuel)
      ({ imm := [.num a, .kw .Minus, .num b, .kw .Multiply, .num c] } : St F))
      = .ok (.num (NumOps.sub a (NumOps.mul b c))) := by
  have h := eval_render_fresh (.bin .sub (.num a) (.bin .mul (.num b) (.num c))) []
    (depth_lt_of_zero _ (by simp [depth, Expr.prec, BinOp.prec]))
  simpa [render, renderAt, Expr.prec, BinOp.prec, BinOp.token, foldE, BinOp.eval, specOutcome] using h

example (a b c : F) :
    outcome (orExpr (evalN defaultFuel)
      ({ imm := [.num a, .kw .Minus, .num b, .kw .Minus, .num c] } : St F))
      = .ok (.num (NumOps.sub (NumOps.sub a b) c)) := by
  have h := eval_render_fresh (.bin .sub (.bin .sub (.num a) (.num b)) (.num c)) []
    (depth_lt_of_zero _ (by simp [depth, Expr.prec, BinOp.prec]))
  simpa [render, renderAt, Expr.prec, BinOp.prec, BinOp.token, foldE, BinOp.eval, specOutcome] using h

end Abasic.Props.C02
